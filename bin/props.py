"""Per-property configuration of /verif/bin/check."""

KERNEL = "Lean 4.33.0 kernel (lake build); axioms allowed: propext, Classical.choice, Quot.sound (audited per theorem by #audit_props)"
TRANSLATOR = "/verif/extract (Go, go/ast): trusted to translate the recognised fragment faithfully and to emit .unknown otherwise; cross-checked by running the generated definitions against the real functions"
HARNESS = "/verif/harness: generators, canonicalisation and oracles of the correspondence check"

PROPS = {
    "C17": {
        "level": "proof",
        "required_theorems": ["wf_correct", "maskGo_correct", "mask_append", "mask_pieces", "mask_involutive", "mask_pointwise"],
        "trusted_base": [KERNEL, TRANSLATOR + " (mask.go: func maskGo -> WS/Gen/MaskProg.lean, whole function)", HARNESS,
                         "semantics of the mask DSL interpreter (WS/Model/MaskProg.lean): little-endian 64/32-bit load/xor/store, slice advance, byte tail",
                         "maskAsm (amd64) is tied by differential execution only; mask_arm64.s cannot be executed here"],
        "assumptions": ["Go's binary.LittleEndian.{Uint64,PutUint64,Uint32,PutUint32} and bits.RotateLeft32 have their documented meaning",
                        "the assembly implementation is exercised (all lengths x alignments x splits, guard bytes) but not modelled"],
        "explanation": "Theorem wf_correct: every well-formed mask program equals the byte-wise XOR definition for all buffers and keys; "
                       "maskGo_correct instantiates it to the program regenerated from mask.go on this run (well-formedness by kernel `decide`). "
                       "mask_append/mask_pieces give chunk composability for any piece sizes. The harness runs maskGo, mask and maskAsm on "
                       "lengths x alignments x splits with guard bytes against a byte-wise oracle and against the Lean spec and regenerated program.",
    },
}
NOT_APPLICABLE = {}
