package main

import (
	"context"
	"errors"
	"fmt"
	"io"
	"time"

	"nhooyr.io/websocket"
)

func init() { runners["C10"] = runC10 }

type c10Case struct {
	Client bool   `json:"client"`
	Flate  bool   `json:"flate"`
	Op     string `json:"op"`   // write | writer | read | read-fragmented | ping
	When   string `json:"when"` // after-success | during-blocked | before | before-rounds
	Delay  int    `json:"delay_us"`
	Size   int    `json:"size"`
	// Stall (reads, during-blocked): where the peer stops sending — "" nothing sent | header (one header byte) |
	// payload (header + part of the payload) | continuation (first fragment, then header + part of the next) |
	// ctl-inside (first fragment, then a ping's header + part of its payload)
	Stall string `json:"stall,omitempty"`
}

// liveness: a round trip on the connection (write → peer echoes → read).
func liveness(c *websocket.Conn, peer *rawPeer, tag string) error {
	ctx, cancel := context.WithTimeout(context.Background(), 3*time.Second)
	defer cancel()
	errc := make(chan error, 1)
	go func() { errc <- c.Write(ctx, websocket.MessageText, []byte("live-"+tag)) }()
	var payload []byte
	for {
		f, err := peer.readFrame(3 * time.Second)
		if err != nil {
			return fmt.Errorf("peer did not receive the liveness message: %v", err)
		}
		if f.Op <= 2 {
			payload = append(payload, f.Payload...)
			if f.Fin {
				break
			}
		}
	}
	if err := <-errc; err != nil {
		return fmt.Errorf("write failed: %v", err)
	}
	peer.writeFrame(RawFrame{Fin: true, Op: 2, Payload: []byte("echo-" + tag)})
	_, b, err := c.Read(ctx)
	if err != nil {
		return fmt.Errorf("read failed: %v", err)
	}
	if string(b) != "echo-"+tag {
		return fmt.Errorf("read returned %q", b)
	}
	return nil
}

func runC10Case(cc c10Case) (string, string) {
	a, b := newPipe()
	if cc.When == "during-blocked" && (cc.Op == "write" || cc.Op == "writer") {
		a.blockWrites = true
	}
	c := websocket.VerifNewConn(a, cc.Client, websocket.VerifCopts{Enabled: cc.Flate}, 16)
	c.SetReadLimit(-1)
	peer := newRawPeer(b, !cc.Client)
	defer b.Close()
	defer c.CloseNow()
	desc := fmt.Sprintf("%+v", cc)
	payload := historyMsg(cc.Size, cc.Size)
	ctx, cancel := context.WithCancel(context.Background())
	defer cancel()
	if cc.When == "before" {
		cancel()
	}
	// peer side support for the call under test
	sendMsg := func() {
		switch cc.Op {
		case "read":
			peer.writeFrame(RawFrame{Fin: true, Op: 1, Payload: payload})
		case "read-fragmented":
			h := len(payload) / 2
			peer.writeFrame(RawFrame{Fin: false, Op: 2, Payload: payload[:h]})
			peer.writeFrame(RawFrame{Fin: true, Op: 9, Payload: []byte("mid")})
			peer.writeFrame(RawFrame{Fin: false, Op: 0, Payload: nil})
			peer.writeFrame(RawFrame{Fin: true, Op: 0, Payload: payload[h:]})
		}
	}
	if cc.When == "after-success" && (cc.Op == "read" || cc.Op == "read-fragmented") {
		sendMsg()
	}
	drained := make(chan struct{})
	if cc.Op == "ping" {
		// someone must read for Ping to see the pong
		go func() {
			rctx, rcancel := context.WithTimeout(context.Background(), 10*time.Second)
			defer rcancel()
			c.Reader(rctx)
		}()
		if cc.When == "after-success" {
			go func() {
				for {
					f, err := peer.readFrame(5 * time.Second)
					if err != nil {
						return
					}
					if f.Op == 9 {
						peer.writeFrame(RawFrame{Fin: true, Op: 10, Payload: f.Payload})
						return
					}
				}
			}()
		}
	}
	if cc.When == "after-success" && (cc.Op == "write" || cc.Op == "writer") {
		go func() {
			defer close(drained)
			for {
				f, err := peer.readFrame(5 * time.Second)
				if err != nil || (f.Op <= 2 && f.Fin) {
					return
				}
			}
		}()
	} else {
		close(drained)
	}
	if cc.When == "during-blocked" && cc.Stall != "" {
		pm := !cc.Client
		part := func(f RawFrame, keep int) []byte {
			f.Masked, f.Key = pm, [4]byte{7, 7, 7, 7}
			e := f.Encode()
			if keep > len(e) {
				keep = len(e)
			}
			return e[:keep]
		}
		body := historyMsg(600, 600)
		switch cc.Stall {
		case "header":
			b.Write(part(RawFrame{Fin: true, Op: 2, Payload: body}, 1))
		case "payload":
			b.Write(part(RawFrame{Fin: true, Op: 2, Payload: body}, 14+len(body)/3))
		case "continuation":
			b.Write(part(RawFrame{Fin: false, Op: 2, Payload: body[:100]}, 1<<20))
			b.Write(part(RawFrame{Fin: true, Op: 0, Payload: body[100:]}, 14+100))
		case "ctl-inside":
			b.Write(part(RawFrame{Fin: false, Op: 2, Payload: body[:100]}, 1<<20))
			b.Write(part(RawFrame{Fin: true, Op: 9, Payload: []byte("0123456789abcdefghij")}, 10+cc.Delay%8))
		}
	}
	if cc.When == "during-blocked" {
		go func() {
			time.Sleep(time.Duration(20000+cc.Delay) * time.Microsecond)
			cancel()
		}()
	}
	t0 := time.Now()
	var err error
	switch cc.Op {
	case "write":
		err = c.Write(ctx, websocket.MessageBinary, payload)
	case "writer":
		var w io.WriteCloser
		w, err = c.Writer(ctx, websocket.MessageText)
		if err == nil {
			_, err = w.Write(payload[:len(payload)/2])
			if err == nil {
				_, err = w.Write(payload[len(payload)/2:])
			}
			if err == nil {
				err = w.Close()
			}
		}
	case "read", "read-fragmented":
		var got []byte
		_, got, err = c.Read(ctx)
		if err == nil && string(got) != string(payload) {
			return "wrong-message", desc
		}
	case "ping":
		err = c.Ping(ctx)
	}
	took := time.Since(t0)
	switch cc.When {
	case "after-success":
		if err != nil {
			return "call-failed", fmt.Sprintf("%s: the call failed although nothing was cancelled yet: %v", desc, err)
		}
		<-drained
		time.Sleep(time.Duration(cc.Delay) * time.Microsecond)
		cancel() // the idiomatic `defer cancel()` after a successful call
		time.Sleep(3 * time.Millisecond)
		if cc.Op == "ping" {
			// the helper reader goroutine holds the read side; finish it by sending a message
			peer.writeFrame(RawFrame{Fin: true, Op: 2, Payload: []byte("x")})
			time.Sleep(2 * time.Millisecond)
			rctx, rc := context.WithTimeout(context.Background(), time.Second)
			// (the Reader call above returned a reader for "x"; the message must be consumed by it: not possible from here,
			// so liveness for ping is a second Ping + a write)
			rc()
			_ = rctx
			errc := make(chan error, 1)
			wctx, wc := context.WithTimeout(context.Background(), 2*time.Second)
			defer wc()
			go func() { errc <- c.Write(wctx, websocket.MessageText, []byte("after-ping")) }()
			for {
				f, err := peer.readFrame(2 * time.Second)
				if err != nil {
					return "connection-dead-after-cancel", fmt.Sprintf("%s: cancelling the context of a successful Ping killed the connection: %v", desc, err)
				}
				if f.Op <= 2 && f.Fin {
					break
				}
			}
			if err := <-errc; err != nil {
				return "connection-dead-after-cancel", fmt.Sprintf("%s: write after cancelled ping ctx: %v", desc, err)
			}
			return "", ""
		}
		if lerr := liveness(c, peer, cc.Op); lerr != nil {
			return "connection-dead-after-cancel", fmt.Sprintf("%s: cancelling the context of a call that had succeeded broke the connection: %v", desc, lerr)
		}
	case "during-blocked", "before":
		if err == nil && cc.When == "before" {
			// a call whose context was already done may still complete when it never has to wait (it can
			// win the race against the timeout watcher); the property does not demand that it fails
			return "", ""
		}
		if err == nil {
			return "cancelled-call-succeeded", desc + ": the call returned nil although it was blocked when its context was cancelled"
		}
		if took > 2*time.Second {
			return "cancelled-call-slow", fmt.Sprintf("%s: returned after %v", desc, took)
		}
		if cc.When == "during-blocked" && cc.Op != "ping" {
			// documented: the connection is closed
			time.Sleep(20 * time.Millisecond)
			wctx, wc := context.WithTimeout(context.Background(), time.Second)
			defer wc()
			a.blockWrites = false
			if werr := c.Write(wctx, websocket.MessageText, []byte("x")); werr == nil {
				return "connection-open-after-expiry", desc + ": the connection still accepts writes after a blocked call's context expired"
			}
		}
	}
	return "", ""
}

func runC10(ctx *runCtx) {
	rep := ctx.rep
	rep.Rule = "calls {Write, streaming Writer, Read of a single-frame message, Read of a fragmented message with an interleaved ping and an empty fragment, Ping} each with its own context, cancelled {after the call succeeded (then a liveness round trip), while the call is blocked (for reads: with nothing received, inside a header, inside a payload, inside a continuation frame, inside an interleaved control frame), before the call (also: ten rounds of a call with a dead context followed by the same call with a live one)}; a call queued behind another one that then blocks in the transport itself and is cancelled at varied delays, sizes 0..70000, both roles, compression on/off. " +
		"oracle: after success cancellation has no effect (round trip succeeds); a blocked/cancelled call returns an error within 2 s and (read/write) the connection is closed. distinct = case tuple"
	if cirTraceReplay(ctx) {
		return
	}
	if ctx.replay != "" {
		var cc c10Case
		if err := loadReplay(ctx.replay, &cc); err == nil && cc.Op != "" {
			var sh, w string
			if cc.When == "before-rounds" {
				sh, w = preCancelledRounds(cc, 10)
			} else {
				sh, w = runC10Case(cc)
			}
			if sh != "" {
				rep.violate(Violation{Kind: "property", Shape: sh + ":" + cc.Op, What: w, Replay: cc})
			}
			rep.eval("replay")
		}
		return
	}
	rng := newRng(ctx.seed, "c10")
	var cases []c10Case
	reps := 2
	if ctx.thorough() {
		reps = 25
	}
	for r := 0; r < reps; r++ {
		for _, op := range []string{"write", "writer", "read", "read-fragmented", "ping"} {
			for _, when := range []string{"after-success", "during-blocked", "before"} {
				for _, client := range []bool{true, false} {
					for _, fl := range []bool{false, true} {
						size := []int{0, 1, 200, 5000, 70000}[rng.Intn(5)]
						cases = append(cases, c10Case{Client: client, Flate: fl, Op: op, When: when, Delay: rng.Intn(3000), Size: size})
					}
				}
			}
		}
	}
	for _, st := range []string{"header", "payload", "continuation", "ctl-inside"} {
		for _, client := range []bool{true, false} {
			cases = append(cases, c10Case{Client: client, Flate: rng.Intn(2) == 0, Op: "read", When: "during-blocked", Delay: rng.Intn(3000), Size: 200, Stall: st})
		}
	}
	for _, op := range []string{"write", "writer", "read", "ping"} {
		for _, client := range []bool{true, false} {
			for _, fl := range []bool{false, true} {
				cases = append(cases, c10Case{Client: client, Flate: fl, Op: op, When: "before-rounds", Size: []int{1, 200, 5000}[rng.Intn(3)]})
			}
		}
	}
	for _, client := range []bool{true, false} {
		cl := client
		sh, w := guarded(30*time.Second, func() (string, string) { return queuedCallScenario(cl) })
		rep.eval(fmt.Sprintf("queued-call/%v", cl))
		if sh != "" {
			rep.violate(Violation{Kind: "property", Shape: sh + ":queued-call", What: w, Replay: map[string]interface{}{"scenario": "queued-call", "client": cl}})
		}
	}
	type res struct {
		i     int
		sh, w string
	}
	out := make(chan res, len(cases))
	sem := make(chan struct{}, 16)
	for i := range cases {
		sem <- struct{}{}
		go func(i int) {
			defer func() { <-sem }()
			sh, w := guarded(45*time.Second, func() (string, string) {
				if cases[i].When == "before-rounds" {
					return preCancelledRounds(cases[i], 10)
				}
				return runC10Case(cases[i])
			})
			out <- res{i, sh, w}
		}(i)
	}
	for range cases {
		r := <-out
		cc := cases[r.i]
		rep.eval(fmt.Sprintf("%+v", cc))
		rep.count("op:" + cc.Op)
		rep.count("when:" + cc.When)
		if r.sh != "" {
			rep.violate(Violation{Kind: "property", Shape: r.sh + ":" + cc.Op, What: r.w, Replay: cc})
		}
	}
	// the timeout goroutine itself against WS.Model.Timeout (the tie of WS.Props.C10Timeout)
	{
		var lines, expect, what []string
		progs := 150
		if ctx.thorough() {
			progs = 2500
		}
		timeoutDifferential(rep, newRng(ctx.seed, "c10timeout"), progs, &lines, &expect, &what)
		askAndCompare(ctx, lines, expect, what, "timeout-goroutine-model-vs-impl")
	}
	for _, client := range []bool{true, false} {
		for _, flate := range []bool{false, true} {
			client, flate := client, flate
			sh, w := guarded(30*time.Second, func() (string, string) { return c10WaitingWriter(client, flate) })
			rep.eval(fmt.Sprintf("waiting-writer/%v/%v", client, flate))
			rep.count("waiting-writer")
			if sh != "" {
				rep.violate(Violation{Kind: "property", Shape: sh, What: w, Replay: map[string]interface{}{"scenario": "waiting-writer", "client": client, "flate": flate}})
			}
		}
	}
	cirTraceValidation(ctx, cirTraceN(ctx))
	rep.sample(cases[0])
	rep.sample(cases[len(cases)-1])
}

// preCancelledRounds: "a context bounds only its own call", cancellation placed before the call. Up to
// `rounds` times: one call whose context is already done (it must fail promptly), then the same kind
// of call with a live context while the peer cooperates. The live call must succeed, or fail at once
// because the connection was closed — it must never hang until its own deadline because an earlier
// call's dead context left something behind (a lock, a registration).
func preCancelledRounds(cc c10Case, rounds int) (string, string) {
	a, b := newPipe()
	c := websocket.VerifNewConn(a, cc.Client, websocket.VerifCopts{Enabled: cc.Flate}, 16)
	c.SetReadLimit(-1)
	peer := newRawPeer(b, !cc.Client)
	defer b.Close()
	defer c.CloseNow()
	desc := fmt.Sprintf("%+v", cc)
	payload := historyMsg(cc.Size, cc.Size)
	// the peer consumes everything and answers pings
	go func() {
		for {
			f, err := peer.readFrame(10 * time.Second)
			if err != nil {
				return
			}
			if f.Op == 9 {
				peer.writeFrame(RawFrame{Fin: true, Op: 10, Payload: f.Payload})
			}
		}
	}()
	if cc.Op == "ping" {
		go func() { // someone must read for Ping to see its pong
			for {
				if _, _, err := c.Read(context.Background()); err != nil {
					return
				}
			}
		}()
	}
	call := func(ctx context.Context) error {
		switch cc.Op {
		case "write":
			return c.Write(ctx, websocket.MessageBinary, payload)
		case "writer":
			w, err := c.Writer(ctx, websocket.MessageBinary)
			if err != nil {
				return err
			}
			h := len(payload) / 2
			_, err = w.Write(payload[:h])
			if err == nil {
				_, err = w.Write(payload[h:])
			}
			if cerr := w.Close(); err == nil {
				err = cerr
			}
			return err
		case "read":
			_, _, err := c.Read(ctx)
			return err
		default:
			return c.Ping(ctx)
		}
	}
	for r := 0; r < rounds; r++ {
		dead, cancel := context.WithCancel(context.Background())
		cancel()
		t0 := time.Now()
		err := call(dead)
		// (a call whose context is already done may still complete if it never has to wait: not demanded to fail)
		_ = err
		if d := time.Since(t0); d > 2*time.Second {
			return "cancelled-call-slow", fmt.Sprintf("%s: round %d: returned after %v", desc, r, d)
		}
		if cc.Op == "read" {
			peer.writeFrame(RawFrame{Fin: true, Op: 2, Payload: payload})
		}
		live, lc := context.WithTimeout(context.Background(), 1500*time.Millisecond)
		t1 := time.Now()
		lerr := call(live)
		took := time.Since(t1)
		lc()
		if lerr == nil {
			continue
		}
		// a failure is acceptable only if the connection has been closed (then every call fails at once)
		if took >= 1400*time.Millisecond || errors.Is(lerr, context.DeadlineExceeded) {
			mode := "plain"
			if cc.Flate {
				mode = "flate"
			}
			return "later-call-hangs-after-precancelled-call/" + mode, fmt.Sprintf("%s: round %d: after a %s whose context was already done, the next %s with a live 1.5 s context hung for %v and failed: %v", desc, r, cc.Op, cc.Op, took.Round(time.Millisecond), lerr)
		}
		wctx, wc := context.WithTimeout(context.Background(), time.Second)
		t2 := time.Now()
		werr := c.Write(wctx, websocket.MessageText, []byte("x"))
		wc()
		if werr == nil || time.Since(t2) > 500*time.Millisecond {
			return "later-call-fails-on-open-connection", fmt.Sprintf("%s: round %d: the live %s failed (%v) although the connection is still open (a following write: %v)", desc, r, cc.Op, lerr, werr)
		}
		return "", "" // closed: fine
	}
	return "", ""
}

// queuedCallScenario: call A is blocked in the transport; call B (a Ping with its own context) queues behind
// it; A is let through and succeeds; B then blocks in the transport itself and its context is cancelled:
// B must return with an error and the connection must be closed — B's context has to be the one that is
// watched while B is the call doing I/O, whatever happened while it was queued.
func queuedCallScenario(client bool) (string, string) {
	a, b := newPipe()
	a.writeGate = make(chan struct{}, 16)
	c := websocket.VerifNewConn(a, client, websocket.VerifCopts{}, 0)
	defer b.Close()
	defer c.CloseNow()
	desc := fmt.Sprintf("queued call, client=%v", client)
	ctxA, cancelA := context.WithTimeout(context.Background(), 10*time.Second)
	defer cancelA()
	aRet := make(chan error, 1)
	go func() { aRet <- c.Write(ctxA, websocket.MessageBinary, []byte("call A")) }()
	time.Sleep(40 * time.Millisecond)
	ctxB, cancelB := context.WithCancel(context.Background())
	defer cancelB()
	bRet := make(chan error, 1)
	go func() { bRet <- c.Ping(ctxB) }()
	time.Sleep(40 * time.Millisecond)
	a.writeGate <- struct{}{} // the peer reads exactly A's frame
	select {
	case err := <-aRet:
		if err != nil {
			return "call-fails-while-other-queued", fmt.Sprintf("%s: A (live context) failed: %v", desc, err)
		}
	case <-time.After(3 * time.Second):
		return "call-hangs", desc + ": A did not finish although the peer read its frame"
	}
	time.Sleep(40 * time.Millisecond) // B is now blocked writing its Ping frame
	select {
	case err := <-bRet:
		return "blocked-call-returned-early", fmt.Sprintf("%s: B returned %v before its context was cancelled", desc, err)
	default:
	}
	cancelB()
	select {
	case err := <-bRet:
		if err == nil {
			return "cancelled-call-succeeded", desc + ": B returned nil although it was blocked when its context was cancelled"
		}
	case <-time.After(3 * time.Second):
		return "blocked-call-ignores-context", desc + ": B (blocked writing its frame) has not returned 3 s after its context was cancelled: nobody watches its context"
	}
	time.Sleep(20 * time.Millisecond)
	wctx, wc := context.WithTimeout(context.Background(), time.Second)
	defer wc()
	a.writeGate = nil
	if werr := c.Write(wctx, websocket.MessageText, []byte("x")); werr == nil {
		return "connection-open-after-expiry", desc + ": the connection still accepts writes after a blocked call's context was cancelled"
	}
	return "", ""
}

// c10WaitingWriter: a message is being streamed under a live context; another call queues behind it on the message lock
// and gives up when its own context is cancelled. That context governed only the queued call: the open message goes on
// (several more frames and its Close) under its own context, and the connection stays usable.
func c10WaitingWriter(client, flate bool) (string, string) {
	a, b := newPipe()
	c := websocket.VerifNewConn(a, client, websocket.VerifCopts{Enabled: flate}, 16)
	peer := newRawPeer(b, !client)
	defer b.Close()
	defer c.CloseNow()
	go func() {
		for {
			if _, err := peer.readFrame(10 * time.Second); err != nil {
				return
			}
		}
	}()
	desc := fmt.Sprintf("waiting-writer client=%v flate=%v", client, flate)
	ctxA, cancelA := context.WithTimeout(context.Background(), 8*time.Second)
	defer cancelA()
	w, err := c.Writer(ctxA, websocket.MessageText)
	if err == nil {
		_, err = w.Write(historyMsg(1, 300))
	}
	if err != nil {
		return "setup-failed", desc + ": " + err.Error()
	}
	ctxB, cancelB := context.WithCancel(context.Background())
	done := make(chan error, 1)
	go func() { done <- c.Write(ctxB, websocket.MessageBinary, historyMsg(2, 200)) }()
	time.Sleep(40 * time.Millisecond)
	cancelB()
	select {
	case err := <-done:
		if err == nil {
			return "queued-call-overtook-open-message", desc + ": a Write queued behind an open streamed message returned nil"
		}
	case <-time.After(2 * time.Second):
		return "queued-call-not-released", desc + ": a Write waiting for the message lock did not return within 2 s of the cancellation of its context"
	}
	for i := 0; i < 6; i++ {
		if _, err := w.Write(historyMsg(3+i, 300)); err != nil {
			return "foreign-context-governs-open-message", fmt.Sprintf("%s: chunk %d of the open message failed with %v after another call's context was cancelled", desc, i, err)
		}
	}
	if err := w.Close(); err != nil {
		return "foreign-context-governs-open-message", fmt.Sprintf("%s: Close of the open message failed with %v after another call's context was cancelled", desc, err)
	}
	ctxC, cancelC := context.WithTimeout(context.Background(), 3*time.Second)
	defer cancelC()
	if err := c.Write(ctxC, websocket.MessageText, []byte("after")); err != nil {
		return "foreign-context-governs-later-call", fmt.Sprintf("%s: a later Write under a live context failed with %v", desc, err)
	}
	return "", ""
}
