package main

// Write-side cases: a program of API calls is executed on a real Conn whose transport records
// the wire; the wire is (1) compared byte for byte with the Lean writer model (fed with the
// observed mask keys and compressed chunks), (2) decoded by the raw peer's independent codec
// and checked for RFC 6455/7692 conformance, (3) decoded by the Lean reference reader, and
// (4) fed to a real peer Conn of the opposite role (round trip, C01).

import (
	"bytes"
	"encoding/hex"
	"fmt"
	"io"
	"strings"
	"sync"
	"time"

	"nhooyr.io/websocket"
)

type WriteOp struct {
	Kind   string   `json:"kind"` // write | writer | ping | close
	Typ    int      `json:"typ,omitempty"`
	Chunks []string `json:"chunks,omitempty"` // hex
	Code   int      `json:"code,omitempty"`
	Reason string   `json:"reason,omitempty"` // hex
	// PingAfterChunk (writer only): issue one Ping after this many chunks have been written (0 = never) — a
	// control frame between the frames of a message (frames already written may still sit in the write buffer)
	PingAfterChunk int `json:"ping_after_chunk,omitempty"`
	// ThenMisuse (writer only): after the writer was closed, Close it again and Write to it: both must fail and
	// nothing more may reach the wire
	ThenMisuse bool `json:"then_misuse,omitempty"`
}

type WriteCase struct {
	Desc      string    `json:"desc"`
	Client    bool      `json:"client"` // the writing endpoint is a client
	Flate     bool      `json:"flate"`
	CNCT      bool      `json:"cnct"`
	SNCT      bool      `json:"snct"`
	Threshold int       `json:"threshold"`
	Ops       []WriteOp `json:"ops"`
	NoModel   bool      `json:"no_model,omitempty"`
}

func (c *WriteCase) writeTakeover() bool {
	if c.Client {
		return !c.CNCT
	}
	return !c.SNCT
}

// sinkRWC records writes; reads are served from an input queue (used to answer pings) and end
// with EOF once released.
type sinkRWC struct {
	mu     sync.Mutex
	wrote  []byte
	in     *byteQueue
	closed bool
	// watch, when set, runs inside every transport write: the caller's buffer must be intact not only after the
	// library call returned but also while the transport is being written to (another goroutine may be reading
	// or sending the same slice)
	watch func()
}

func newSink() *sinkRWC                       { return &sinkRWC{in: newByteQueue()} }
func (s *sinkRWC) Read(p []byte) (int, error) { return s.in.Read(p) }
func (s *sinkRWC) Write(p []byte) (int, error) {
	s.mu.Lock()
	w := s.watch
	s.mu.Unlock()
	if w != nil {
		w()
	}
	s.mu.Lock()
	defer s.mu.Unlock()
	if s.closed {
		return 0, io.ErrClosedPipe
	}
	s.wrote = append(s.wrote, p...)
	return len(p), nil
}
func (s *sinkRWC) setWatch(f func()) {
	s.mu.Lock()
	s.watch = f
	s.mu.Unlock()
}
func (s *sinkRWC) releaseEOF() { s.in.CloseWith(nil) }
func (s *sinkRWC) Close() error {
	s.mu.Lock()
	s.closed = true
	s.mu.Unlock()
	s.in.CloseWith(io.ErrClosedPipe)
	return nil
}
func (s *sinkRWC) snapshot() []byte {
	s.mu.Lock()
	defer s.mu.Unlock()
	return append([]byte(nil), s.wrote...)
}

type writeObs struct {
	Wire    []byte
	Errs    []string // per op: "" or error text
	Mutated string   // description if a caller buffer was modified
	Misuse  string   // description if a closed writer accepted a call
	Panic   string
	Thresh  int
}

func runWriteCase(c *WriteCase) *writeObs {
	o := &writeObs{}
	sink := newSink()
	conn := websocket.VerifNewConn(sink, c.Client, websocket.VerifCopts{Enabled: c.Flate, ClientNoContextTakeover: c.CNCT, ServerNoContextTakeover: c.SNCT}, c.Threshold)
	_, o.Thresh = websocket.VerifConnState(conn)
	// no fixed deadline: only a standstill of 20 s counts as a hang
	wd := newWatchdog(20 * time.Second)
	defer wd.stop()
	done := make(chan struct{})
	go func() {
		defer close(done)
		defer func() {
			if r := recover(); r != nil {
				o.Panic = fmt.Sprint(r)
			}
		}()
		ctx := wd.ctx
		hasPing := false
		for _, op := range c.Ops {
			if op.Kind == "ping" || op.PingAfterChunk > 0 {
				hasPing = true
			}
		}
		if hasPing {
			conn.CloseRead(ctx) // something must read for Ping to see its pong
		}
		doPing := func() error {
			before := len(sink.snapshot())
			pd := make(chan error, 1)
			go func() { pd <- conn.Ping(ctx) }()
			// wait for the ping frame to reach the wire, then answer it like a peer would
			var pf *RawFrame
			for i := 0; i < 20000 && pf == nil; i++ {
				fs, _ := parseRawFrames(sink.snapshot()[before:])
				for k := range fs {
					if fs[k].Op == 9 {
						pf = &fs[k]
					}
				}
				if pf == nil {
					time.Sleep(100 * time.Microsecond)
				}
			}
			if pf != nil {
				pong := RawFrame{Fin: true, Op: 10, Payload: pf.Payload, Masked: !c.Client, Key: [4]byte{9, 8, 7, 6}}
				sink.in.Write(pong.Encode())
			}
			return <-pd
		}
		for _, op := range c.Ops {
			var err error
			switch op.Kind {
			case "write":
				p := unhx(op.Chunks[0])
				keep := append([]byte(nil), p...)
				sink.setWatch(func() {
					if !bytes.Equal(p, keep) {
						o.Mutated = "Write modified the caller's buffer while the transport write was in progress"
					}
				})
				err = conn.Write(ctx, websocket.MessageType(op.Typ), p)
				sink.setWatch(nil)
				if !bytes.Equal(p, keep) {
					o.Mutated = "Write modified the caller's buffer"
				}
			case "writer":
				var w io.WriteCloser
				w, err = conn.Writer(ctx, websocket.MessageType(op.Typ))
				if err == nil {
					for ci, ch := range op.Chunks {
						p := unhx(ch)
						keep := append([]byte(nil), p...)
						sink.setWatch(func() {
							if !bytes.Equal(p, keep) {
								o.Mutated = "Writer.Write modified the caller's buffer while the transport write was in progress"
							}
						})
						_, err = w.Write(p)
						sink.setWatch(nil)
						if !bytes.Equal(p, keep) {
							o.Mutated = "Writer.Write modified the caller's buffer"
						}
						if err != nil {
							break
						}
						wd.tick()
						if op.PingAfterChunk == ci+1 {
							if err = doPing(); err != nil {
								break
							}
						}
					}
					if err == nil {
						err = w.Close()
					}
					if err == nil && op.ThenMisuse {
						if e2 := w.Close(); e2 == nil {
							o.Misuse = "a second Close on a closed writer returned nil"
						}
						if _, e3 := w.Write([]byte("written after Close")); e3 == nil {
							o.Misuse = "Write on a closed writer returned nil"
						}
					}
				}
			case "ping":
				err = doPing()
			case "close":
				go func() {
					// let waitCloseHandshake see EOF as soon as the Close frame is on the wire
					for i := 0; i < 5000; i++ {
						fs, _ := parseRawFrames(sink.snapshot())
						if len(fs) > 0 && fs[len(fs)-1].Op == 8 {
							break
						}
						time.Sleep(200 * time.Microsecond)
					}
					sink.releaseEOF()
				}()
				err = conn.Close(websocket.StatusCode(op.Code), string(unhx(op.Reason)))
			}
			wd.tick()
			if err != nil {
				o.Errs = append(o.Errs, trunc(err.Error(), 120))
			} else {
				o.Errs = append(o.Errs, "")
			}
		}
	}()
	select {
	case <-done:
	case <-wd.ctx.Done():
		// the watchdog saw no progress and cancelled the context; a library call that still does not return
		// (blocked on something that ignores its context) is not waited for
		select {
		case <-done:
		case <-time.After(5 * time.Second):
		}
	case <-time.After(10 * time.Minute):
		o.Panic = "hang: the write program did not finish"
	}
	if wd.hung.Load() {
		o.Panic = "hang: the write program made no progress for 20 s"
	}
	o.Wire = sink.snapshot()
	cd := make(chan struct{})
	go func() { defer func() { recover(); close(cd) }(); conn.CloseNow() }()
	select {
	case <-cd:
	case <-time.After(20 * time.Second):
	}
	return o
}

type wireMsg struct {
	Typ    int
	Frames []RawFrame // data frames of the message
}

// conformance checks the wire against RFC 6455 §5 / RFC 7692 and reconstructs the messages with
// the reference peer's inflater. Returns messages (plaintext), control frames, and ("","") or a violation.
func checkConformance(c *WriteCase, wire []byte) (msgs []ExpMsg, ctl []RawFrame, keys []byte, shape, what string) {
	frames, used := parseRawFrames(wire)
	if used != len(wire) {
		return nil, nil, nil, "wire-not-whole-frames", fmt.Sprintf("%d trailing bytes do not form a frame", len(wire)-used)
	}
	inf := &rawInflater{takeover: c.writeTakeover()}
	var cur *wireMsg
	var prevKey *[4]byte
	closeSeen := false
	for i, f := range frames {
		f := f
		if f.Masked != c.Client {
			return nil, nil, nil, "masking-wrong-for-role", fmt.Sprintf("frame %d masked=%v but the endpoint is client=%v", i, f.Masked, c.Client)
		}
		if f.Masked {
			keys = append(keys, f.Key[:]...)
			if prevKey != nil && *prevKey == f.Key {
				return nil, nil, nil, "mask-key-reused", fmt.Sprintf("frames %d and %d use the same masking key %x", i-1, i, f.Key)
			}
			k := f.Key
			prevKey = &k
		}
		if f.Rsv2 || f.Rsv3 {
			return nil, nil, nil, "rsv23-set", fmt.Sprintf("frame %d has rsv2/rsv3 set", i)
		}
		if !f.minimalLen() {
			return nil, nil, nil, "length-not-minimal", fmt.Sprintf("frame %d (%d bytes) does not use the minimal length encoding", i, len(f.Payload))
		}
		if closeSeen {
			// C16's concern; conformance of the individual frame is still checked
		}
		switch f.Op {
		case 8, 9, 10:
			if !f.Fin || len(f.Payload) > 125 || f.Rsv1 {
				return nil, nil, nil, "bad-control-frame", fmt.Sprintf("control frame %d: fin=%v len=%d rsv1=%v", i, f.Fin, len(f.Payload), f.Rsv1)
			}
			if f.Op == 8 {
				closeSeen = true
				if len(f.Payload) == 1 {
					return nil, nil, nil, "bad-close-payload", "Close frame with a 1-byte payload"
				}
				if len(f.Payload) >= 2 {
					code := int(f.Payload[0])<<8 | int(f.Payload[1])
					if !rfcSendable(code) {
						return nil, nil, nil, "unsendable-close-code", fmt.Sprintf("Close frame carries status %d", code)
					}
				}
			}
			ctl = append(ctl, f)
		case 1, 2:
			if cur != nil {
				return nil, nil, nil, "message-interleaved", fmt.Sprintf("frame %d starts a message while another is unfinished", i)
			}
			if f.Rsv1 && !c.Flate {
				return nil, nil, nil, "rsv1-without-extension", fmt.Sprintf("frame %d has rsv1 but permessage-deflate was not negotiated", i)
			}
			cur = &wireMsg{Typ: f.Op, Frames: []RawFrame{f}}
		case 0:
			if cur == nil {
				return nil, nil, nil, "continuation-without-start", fmt.Sprintf("frame %d", i)
			}
			if f.Rsv1 {
				return nil, nil, nil, "rsv1-on-continuation", fmt.Sprintf("frame %d", i)
			}
			cur.Frames = append(cur.Frames, f)
		default:
			return nil, nil, nil, "reserved-opcode", fmt.Sprintf("frame %d has opcode %d", i, f.Op)
		}
		if cur != nil && f.Op <= 2 && f.Fin {
			var payload []byte
			for _, g := range cur.Frames {
				payload = append(payload, g.Payload...)
			}
			if cur.Frames[0].Rsv1 {
				plain, err := inf.message(payload)
				if err != nil {
					return nil, nil, nil, "does-not-inflate", fmt.Sprintf("message %d: %v", len(msgs), err)
				}
				payload = plain
			}
			msgs = append(msgs, ExpMsg{Typ: cur.Typ, Data: hx(payload)})
			cur = nil
		}
	}
	if cur != nil {
		return msgs, ctl, keys, "message-unfinished", "the wire ends inside a message"
	}
	return msgs, ctl, keys, "", ""
}

// expectedMsgs: what the program wrote.
func (c *WriteCase) expectedMsgs(o *writeObs) []ExpMsg {
	var out []ExpMsg
	for i, op := range c.Ops {
		if (op.Kind == "write" || op.Kind == "writer") && i < len(o.Errs) && o.Errs[i] == "" {
			var p []byte
			for _, ch := range op.Chunks {
				p = append(p, unhx(ch)...)
			}
			out = append(out, ExpMsg{Typ: op.Typ, Data: hx(p)})
		}
	}
	return out
}

// modelLine builds the request for the Lean writer model from the case and the observed wire.
func (c *WriteCase) modelLine(o *writeObs, keys []byte) string {
	frames, _ := parseRawFrames(o.Wire)
	b := func(x bool) string {
		if x {
			return "1"
		}
		return "0"
	}
	// split the wire's data frames per message to extract the observed compressed chunks
	var perMsg [][]RawFrame
	var cur []RawFrame
	var pings []RawFrame
	for _, f := range frames {
		switch {
		case f.Op <= 2:
			cur = append(cur, f)
			if f.Fin {
				perMsg = append(perMsg, cur)
				cur = nil
			}
		case f.Op == 9:
			pings = append(pings, f)
		}
	}
	var ops []string
	mi, pi := 0, 0
	for i, op := range c.Ops {
		failed := i < len(o.Errs) && o.Errs[i] != ""
		switch op.Kind {
		case "write", "writer":
			if failed {
				continue
			}
			obs := ""
			if mi < len(perMsg) && perMsg[mi][0].Rsv1 {
				var parts []string
				for _, f := range perMsg[mi][:len(perMsg[mi])-1] {
					parts = append(parts, hx(f.Payload))
				}
				obs = strings.Join(parts, ",")
			}
			mi++
			ops = append(ops, fmt.Sprintf("m:%d:%s:%s:%s", op.Typ, b(op.Kind == "writer"), strings.Join(op.Chunks, ","), obs))
		case "ping":
			p := "-"
			if pi < len(pings) {
				p = hx(pings[pi].Payload)
			}
			pi++
			ops = append(ops, "p:"+p)
		case "close":
			ops = append(ops, fmt.Sprintf("c:%d:%s", op.Code, op.Reason))
		}
	}
	opss := strings.Join(ops, ";")
	if opss == "" {
		opss = "-"
	}
	return fmt.Sprintf("writer %s %s %s %d %s %s", b(c.Client), b(c.Flate), b(c.writeTakeover()), c.Threshold, hx(keys), opss)
}

// peerReadCase: the wire is fed to a real peer Conn of the opposite role.
func (c *WriteCase) peerReadCase(o *writeObs, exp []ExpMsg, pings []RawFrame) *ReadCase {
	unl := int64(-1)
	rc := &ReadCase{Desc: "roundtrip: " + c.Desc, Client: !c.Client, Flate: c.Flate, CNCT: c.CNCT, SNCT: c.SNCT, Limit: &unl,
		Stream: hex.EncodeToString(o.Wire), Term: "eof", Chunks: []int{4096}, Bufs: []int{4096}}
	rc.Exp = Expect{Msgs: exp, Pongs: []string{}, Why: "end of the writer's stream"}
	for _, p := range pings {
		rc.Exp.Pongs = append(rc.Exp.Pongs, hx(p.Payload))
	}
	return rc
}
