package main

import (
	"bytes"
	"context"
	"encoding/hex"
	"fmt"
	"math/rand"
	"runtime"
	"time"

	"nhooyr.io/websocket"
)

func init() { runners["C08"] = runC08 }

// genLimitCase: messages sized around the limit L; the first one above L must fail with 1009.
func genLimitCase(rng *rand.Rand, L int64, thorough bool) *ReadCase {
	o := randOpts(rng, 10)
	o.CtlProb = 0.15
	// compressed messages may end their deflate stream with a final block (the inflater then returns its
	// last bytes together with io.EOF)
	o.BFinalProb = 0.3
	defaultLimit := L == -2
	eff := L
	if defaultLimit {
		eff = 32768
	}
	var sizes []int
	n := 1 + rng.Intn(3)
	for i := 0; i < n; i++ {
		var s int64
		if eff < 0 {
			s = int64(pickSize(rng, 100000))
		} else {
			switch rng.Intn(6) {
			case 0:
				s = eff - 1
			case 1, 2:
				s = eff
			case 3:
				s = eff + 1
			case 4:
				s = 2*eff + int64(rng.Intn(10))
			default:
				s = int64(rng.Intn(int(eff) + 1))
			}
			if s < 0 {
				s = 0
			}
		}
		sizes = append(sizes, int(s))
	}
	o.Sizes = sizes
	o.MaxMsgs = n
	// buildValid draws 1+Intn(MaxMsgs) messages; force exactly n by regenerating
	var gs *genStream
	for {
		gs = buildValid(rng, o)
		if len(gs.Msgs) == n {
			break
		}
	}
	c := baseCase(rng, o, fmt.Sprintf("limit L=%d sizes=%v", L, sizes))
	if !defaultLimit {
		l := L
		c.Limit = &l
	}
	b, _ := gs.encode()
	c.Stream = hex.EncodeToString(b)
	// ground truth: stop at the first message whose plaintext exceeds the limit
	stop := len(gs.Frames)
	over := -1
	if eff >= 0 {
		for m, info := range gs.Msgs {
			if int64(len(info.Plain)) > eff {
				over = m
				break
			}
		}
	}
	if over >= 0 {
		for i, f := range gs.Frames {
			if f.Msg == over {
				stop = i
				break
			}
		}
		e := gs.expectPrefix(stop, fmt.Sprintf("message %d has %d bytes, limit %d", over, len(gs.Msgs[over].Plain), eff))
		e.InMsg = true
		e.PartialOf = hx(gs.Msgs[over].Plain)
		e.MaxPartial = int(eff) + 1
		e.WantClose = 1009
		// pings inside the over-limit message may or may not be reached
		for _, f := range gs.Frames[stop:] {
			if f.Msg >= 0 && f.Msg != over {
				break
			}
			if f.Ping {
				e.MaybePongs = append(e.MaybePongs, hx(f.F.Payload))
			}
		}
		c.Exp = e
	} else {
		c.Exp = gs.expectPrefix(len(gs.Frames), "all messages within the limit; end of stream")
	}
	return c
}

// genBigLimitCase: one compressed message of L+1 zero bytes (a few KB on the wire) or, for i odd and L small enough,
// an uncompressed one, under the large limit L: it must fail with 1009 after at most L+1 bytes.
func genBigLimitCase(rng *rand.Rand, L int64, i int) *ReadCase {
	client := rng.Intn(2) == 0
	n := int(L) + 1
	plain := make([]byte, n)
	lim := L
	var f RawFrame
	flate := i%2 == 0 || L > 4<<20
	if flate {
		d := newRawDeflater(false, 6)
		f = RawFrame{Fin: true, Rsv1: true, Op: 2, Masked: !client, Key: [4]byte{9, 8, 7, 6}, Payload: d.message(plain, false)}
	} else {
		f = RawFrame{Fin: true, Op: 2, Masked: !client, Key: [4]byte{9, 8, 7, 6}, Payload: plain}
	}
	c := &ReadCase{Desc: fmt.Sprintf("one message of %d bytes under the large limit %d (compressed: %v)", n, L, flate), Client: client, Flate: true, Limit: &lim,
		Term: "eof", Bufs: []int{65536}, Stream: hex.EncodeToString(f.Encode()), NoModel: true}
	c.Exp = Expect{Why: c.Desc, Msgs: []ExpMsg{}, Pongs: []string{}, InMsg: true, PartialOf: hx(plain), MaxPartial: int(L) + 1, WantClose: 1009}
	return c
}

// memoryProbe receives a frame that declares `declared` bytes (or a compression bomb) under a
// small limit and reports the heap growth in bytes.
func memoryProbe(kind string) (delta int64, res string) {
	var stream []byte
	flate := false
	limit := int64(4096)
	defer func() {
		if r := recover(); r != nil {
			delta, res = 1<<40, fmt.Sprint("panic: ", r)
		}
	}()
	switch kind {
	case "declared-128MiB-unlimited", "declared-128MiB-limit-1GiB":
		n := uint64(128 << 20)
		f := RawFrame{Fin: true, Op: 2, LenOverride: &n, ForceLen64: true, Payload: make([]byte, 1000)}
		stream = f.Encode()
		limit = -1
		if kind == "declared-128MiB-limit-1GiB" {
			limit = 1 << 30
		}
	case "declared-2^62-unlimited":
		n := uint64(1) << 62
		f := RawFrame{Fin: true, Op: 2, LenOverride: &n, ForceLen64: true, Payload: make([]byte, 1000)}
		stream = f.Encode()
		limit = -1
	case "declared-2^62":
		n := uint64(1) << 62
		f := RawFrame{Fin: true, Op: 2, LenOverride: &n, ForceLen64: true, Payload: make([]byte, 1000)}
		stream = f.Encode()
	case "final-block-then-24MiB":
		// a compressed message whose deflate stream ends with a final block after eleven bytes and which then goes on for
		// 24 MiB (RFC 7692 7.2.3.4 lets a sender do that): the rest has to be read, but not kept
		flate = true
		z := newRawDeflater(false, 6).message([]byte("hello world"), true)
		stream = RawFrame{Fin: false, Rsv1: true, Op: 2, Payload: z}.Encode()
		chunk := RawFrame{Fin: false, Op: 0, Payload: make([]byte, 4<<20)}.Encode()
		for i := 0; i < 6; i++ {
			stream = append(stream, chunk...)
		}
		stream = append(stream, RawFrame{Fin: true, Op: 0}.Encode()...)
	case "bomb-1000x":
		flate = true
		d := newRawDeflater(false, 9)
		z := d.message(make([]byte, 8<<20), false)
		stream = RawFrame{Fin: true, Rsv1: true, Op: 2, Payload: z}.Encode()
	}
	runtime.GC()
	var m0, m1 runtime.MemStats
	runtime.ReadMemStats(&m0)
	rwc := newScriptRWC(stream, nil, "eof")
	c := websocket.VerifNewConn(rwc, true, websocket.VerifCopts{Enabled: flate}, 0)
	c.SetReadLimit(limit)
	ctx, cancel := context.WithTimeout(context.Background(), 10*time.Second)
	defer cancel()
	_, b, err := c.Read(ctx)
	runtime.ReadMemStats(&m1)
	c.CloseNow()
	res = fmt.Sprintf("read returned %d bytes, err=%v", len(b), err)
	if kind == "final-block-then-24MiB" {
		if err != nil || string(b) != "hello world" {
			return 1 << 40, "message not delivered: " + res
		}
		return int64(m1.TotalAlloc) - int64(m0.TotalAlloc), res
	}
	if err == nil {
		return 0, "no-error: " + res
	}
	return int64(m1.TotalAlloc) - int64(m0.TotalAlloc), res
}

func runC08(ctx *runCtx) {
	ctx.rep.Rule = "limits L in {0,1,125,4096,default(untouched),-1, 1MiB in thorough} x 1..3 messages sized L-1, L, L+1, 2L, random (any fragmentation, compressed and not, control frames inside), " +
		"a crafted stored block that swallows the deflate tail (last bytes arrive with io.ErrUnexpectedEOF), limit changes between messages (finite to finite, unlimited to finite, finite to unlimited), both roles; ground truth: messages <= L delivered in full, the first message > L fails after at most L+1 bytes (a prefix) and a Close 1009 is written; " +
		"plus memory probes through Conn.Read (frames declaring 2^62 / 128 MiB bytes but delivering 1000, under limits 4096, 1 GiB and -1; an 8 MiB -> ~8 KiB compression bomb under a 4096-byte limit) measured with runtime.MemStats, panics observed. distinct = (L, sizes, role, flate)"
	if replayRead(ctx) {
		return
	}
	rng := newRng(ctx.seed, "c08")
	limits := []int64{0, 1, 125, 4096, -2, -1, 300, 32768}
	per := 60
	if ctx.thorough() {
		limits = append(limits, 1<<20, 65536, 2)
		per = 400
	}
	var cases []*ReadCase
	for _, L := range limits {
		for i := 0; i < per; i++ {
			cases = append(cases, genLimitCase(rng, L, ctx.thorough()))
		}
	}
	// large limits (the Close 1009 must still reach the peer: its reason text grows with the limit)
	bigPer := 3
	if ctx.thorough() {
		bigPer = 12
	}
	for _, L := range []int64{999999, 1000000, 1 << 20, 12345678} {
		for i := 0; i < bigPer; i++ {
			if L > 4<<20 && i > 0 {
				break // one over-limit message of that size is enough
			}
			cases = append(cases, genBigLimitCase(rng, L, i))
		}
	}
	// limit change between messages: first message under limit A, then limit B applies to the second
	for i := 0; i < per; i++ {
		A, B := int64(100+rng.Intn(100)), int64(rng.Intn(50))
		// also: from unlimited to a finite limit (the new limit must apply) and from a finite limit to unlimited
		unlimitedFirst, unlimitedSecond := i%4 == 1, i%4 == 3
		o := randOpts(rng, 10)
		o.CtlProb, o.BFinalProb, o.MaxMsgs = 0, 0, 2
		s1 := int(A) - rng.Intn(50)
		s2 := int(B) + rng.Intn(3) - 1
		if s2 < 0 {
			s2 = 0
		}
		if unlimitedFirst {
			A = -1
			s1 = 300 + rng.Intn(3000)
		}
		if unlimitedSecond {
			B = -1
			s2 = 500 + rng.Intn(40000)
		}
		o.Sizes = []int{s1, s2}
		var gs *genStream
		for {
			gs = buildValid(rng, o)
			if len(gs.Msgs) == 2 {
				break
			}
		}
		c := baseCase(rng, o, fmt.Sprintf("limit change %d -> %d sizes=%v", A, B, o.Sizes))
		c.Limit, c.Limit2, c.ChangeAfter = &A, &B, 1
		b, _ := gs.encode()
		c.Stream = hex.EncodeToString(b)
		if B >= 0 && int64(s2) > B {
			stop := 0
			for i, f := range gs.Frames {
				if f.Msg == 1 {
					stop = i
					break
				}
			}
			e := gs.expectPrefix(stop, "second message exceeds the changed limit")
			e.InMsg, e.PartialOf, e.MaxPartial, e.WantClose = true, hx(gs.Msgs[1].Plain), int(B)+1, 1009
			c.Exp = e
		} else {
			c.Exp = gs.expectPrefix(len(gs.Frames), "both messages within their limits")
		}
		cases = append(cases, c)
	}
	// a compressed message whose deflate stream is one non-final stored block that also swallows the four tail
	// bytes the receiver appends: the inflater then returns its last bytes together with io.ErrUnexpectedEOF.
	// With LEN = L+1 the message has L+1 bytes: one more than the limit, it must not be reported complete.
	for _, L := range []int64{10, 100, 4096} {
		for _, client := range []bool{true, false} {
			for _, bufSz := range []int{int(L) + 50, 7} {
				n := int(L) + 1 // decompressed size
				body := bytes.Repeat([]byte("s"), n-4)
				pay := append([]byte{0x00, byte(n), byte(n >> 8), ^byte(n), ^byte(n >> 8)}, body...)
				f := RawFrame{Fin: true, Rsv1: true, Op: 2, Masked: !client, Key: [4]byte{1, 2, 3, 4}, Payload: pay}
				lim := L
				plain := append(append([]byte(nil), body...), 0x00, 0x00, 0xff, 0xff)
				c := &ReadCase{Desc: fmt.Sprintf("stored block swallowing the tail: %d bytes under limit %d", n, L), Client: client, Flate: true, Limit: &lim,
					Term: "eof", Chunks: nil, Bufs: []int{bufSz}, Stream: hex.EncodeToString(f.Encode()), NoModel: true}
				c.Exp = Expect{Why: c.Desc, Msgs: []ExpMsg{}, Pongs: []string{}, InMsg: true, PartialOf: hx(plain), MaxPartial: int(L) + 1, WantClose: 1009}
				cases = append(cases, c)
			}
		}
	}
	runReadCases(ctx, cases, func(c *ReadCase) string { return "limit" })
	// memory probes
	for _, k := range []string{"declared-2^62", "bomb-1000x", "declared-128MiB-unlimited", "declared-128MiB-limit-1GiB", "declared-2^62-unlimited", "final-block-then-24MiB"} {
		delta, res := memoryProbe(k)
		ctx.rep.eval("mem/" + k)
		ctx.rep.note("memory probe %s: allocated %d bytes while receiving (%s)", k, delta, res)
		ctx.rep.Dist["mem-probe-bytes:"+k] = int(delta)
		// the 8 MiB zero buffer + its compression are allocated by the probe's generator before m0;
		// the receive path itself must stay far below the declared / decompressed size
		if delta > 4<<20 {
			ctx.rep.violate(Violation{Kind: "property", Shape: "memory:" + k, What: fmt.Sprintf("receiving allocated %d bytes (%s)", delta, res), Replay: map[string]string{"probe": k}})
		}
	}
}
