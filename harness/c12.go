package main

import (
	"fmt"
	"net/http"
	"net/url"
	"path/filepath"
	"strings"

	"nhooyr.io/websocket"
)

type c12Case struct {
	Host     string   `json:"host"`
	Origin   string   `json:"origin"`
	Patterns []string `json:"patterns"`
	Skip     bool     `json:"insecure_skip_verify"`
	TrueHost string   `json:"true_host,omitempty"` // authority host[:port] by construction ("" = not constructed)
	Known    bool     `json:"-"`
}

// simpleGlob: independent matcher for the restricted pattern grammar used for ground truth:
// literals, '*' (any run without '/'), '?' (one non-'/' char). Patterns are lower-cased by the caller.
func simpleGlob(p, s string) bool {
	if p == "" {
		return s == ""
	}
	switch p[0] {
	case '*':
		for i := 0; i <= len(s); i++ {
			if simpleGlob(p[1:], s[i:]) {
				return true
			}
			if i < len(s) && s[i] == '/' {
				break
			}
		}
		return false
	case '?':
		return len(s) > 0 && s[0] != '/' && simpleGlob(p[1:], s[1:])
	}
	return len(s) > 0 && s[0] == p[0] && simpleGlob(p[1:], s[1:])
}

func asciiLower(s string) string {
	b := []byte(s)
	for i, c := range b {
		if 'A' <= c && c <= 'Z' {
			b[i] = c + 32
		}
	}
	return string(b)
}

// authorised: the property's rule on the origin's true authority.
func (c *c12Case) authorised() bool {
	if c.Skip || c.Origin == "" {
		return true
	}
	if asciiLower(c.TrueHost) == asciiLower(c.Host) {
		return true
	}
	for _, p := range c.Patterns {
		if simpleGlob(asciiLower(p), asciiLower(c.TrueHost)) {
			return true
		}
	}
	return false
}

func runC12Case(rep *Report, c *c12Case, lines, expect, what *[]string) {
	r, _ := http.NewRequest("GET", "http://"+c.Host+"/ws", nil)
	r.Host = c.Host
	r.Header.Set("Connection", "Upgrade")
	r.Header.Set("Upgrade", "websocket")
	r.Header.Set("Sec-WebSocket-Version", "13")
	r.Header.Set("Sec-WebSocket-Key", testKey)
	if c.Origin != "" {
		r.Header.Set("Origin", c.Origin)
	}
	desc := fmt.Sprintf("Host %q Origin %q patterns %q skip=%v", c.Host, c.Origin, c.Patterns, c.Skip)
	w := newHijackRW(nil)
	conn, err := websocket.Accept(w, r, &websocket.AcceptOptions{OriginPatterns: c.Patterns, InsecureSkipVerify: c.Skip})
	if conn != nil {
		conn.CloseNow()
	}
	w.peerSide.Close()
	if err != nil {
		if w.Code != 403 {
			rep.violate(Violation{Kind: "property", Shape: "origin-reject-status", What: fmt.Sprintf("%s: rejected with status %d, want 403", desc, w.Code), Replay: c})
		}
		if w.hijacked || w.Header().Get("Sec-WebSocket-Accept") != "" {
			rep.violate(Violation{Kind: "property", Shape: "origin-reject-upgraded", What: desc + ": upgrade headers written / connection taken over although refused", Replay: c})
		}
	}
	if c.Known {
		if want := c.authorised(); (err == nil) != want {
			shape := "cross-origin-accepted"
			if want {
				shape = "authorised-origin-refused"
			}
			rep.violate(Violation{Kind: "property", Shape: shape, What: fmt.Sprintf("%s (origin's host is %q): Accept err=%v", desc, c.TrueHost, err), Replay: c})
		}
	} else if err == nil && !c.Skip && c.Origin != "" {
		// unconstructed origins: an accepted one must at least be justified by what net/url says its host is
		u, perr := url.Parse(c.Origin)
		ok := perr == nil && strings.EqualFold(u.Host, c.Host)
		if perr == nil {
			for _, p := range c.Patterns {
				if m, _ := filepath.Match(strings.ToLower(p), strings.ToLower(u.Host)); m {
					ok = true
				}
			}
		}
		if !ok {
			rep.violate(Violation{Kind: "property", Shape: "cross-origin-accepted", What: desc + ": accepted without host equality or pattern match", Replay: c})
		}
	}
	// model: authenticateOrigin with url.Parse's result as input
	if !c.Skip {
		parsed := "none"
		if u, perr := url.Parse(c.Origin); perr == nil {
			parsed = hs(u.Host)
		}
		ferr := websocket.VerifAuthenticateOrigin(r, c.Patterns)
		exp := "ok"
		if ferr != nil {
			exp = "forbidden"
			if strings.Contains(ferr.Error(), "syntax error in pattern") {
				exp = "badpattern"
			}
		}
		if inDomain(c.Host) && inDomain(c.Origin) && allInDomain(c.Patterns) {
			*lines = append(*lines, fmt.Sprintf("origin %s %s %s %s", hs(c.Host), hs(c.Origin), parsed, hsList(c.Patterns)))
			*expect = append(*expect, exp)
			*what = append(*what, "authenticateOrigin "+desc)
		}
	}
}

// inDomain: the Lean string model covers ASCII plus U+212A, U+017F.
func inDomain(s string) bool {
	for _, r := range s {
		if r > 0x7e && r != 0x212A && r != 0x17F {
			return false
		}
	}
	return true
}
func allInDomain(l []string) bool {
	for _, s := range l {
		if !inDomain(s) {
			return false
		}
	}
	return true
}

func runC12(ctx *runCtx) {
	rep := ctx.rep
	rep.Rule = "origins built from components (scheme x userinfo tricks x host x port x path/query/fragment containing the victim host) so that the true authority is known by construction, against Host values (DNS names, ports, IPv6 literals, i.e. Hosts that would be character classes if they were treated as patterns) and pattern sets (literals, *, ?, mixed case); look-alikes (suffix, prefix, sub-domain, trailing dot), 'null', schemeless and malformed origins; InsecureSkipVerify; through Accept (403, no upgrade headers, no hijack) and authenticateOrigin; " +
		"filepath.Match vs the Lean glob model on a pattern grammar incl. malformed patterns. Ground truth: accept iff no Origin, skip, true host equals Host case-insensitively, or a pattern matches the true host. distinct = case tuple"
	rng := newRng(ctx.seed, "c12")
	// the request's own Host is compared for equality (case-insensitively), never used as a pattern: Hosts with
	// glob metacharacters (IPv6 literals are character classes to filepath.Match) must behave like any other
	victim := []string{"example.com", "Example.COM", "example.com:8080", "api.example.com", "localhost:3000", "[::1]:8080", "[2001:db8::1]", "[::1]"}
	hosts := []string{"example.com", "EXAMPLE.com", "evil.com", "example.com.evil.com", "evilexample.com", "example.comx", "xexample.com", "sub.example.com", "example.com.", "example.co", "api.example.com", "localhost", "127.0.0.1", "[::1]", "exKample.com", "eſample.com"}
	schemes := []string{"https", "http", "HTTPS", "ws", "chrome-extension"}
	users := []string{"", "", "example.com@", "user:pw@", "example.com:443@", "a@b@"}
	ports := []string{"", "", ":8080", ":443", ":80"}
	tails := []string{"", "/", "/example.com", "?h=example.com", "#example.com", "/x?y#z", "/@example.com", "?@example.com"}
	patsets := [][]string{nil, {"example.com"}, {"*.example.com"}, {"*"}, {"evil.com"}, {"EXAMPLE.*"}, {"*.com"}, {"exampl?.com"}, {"example.com:*"}, {"*example.com"}, {"foo", "*.evil.com"}}
	// every host also as a literal pattern (and with its first / last character replaced by a wildcard), plus hosts that are
	// a pattern with leading or trailing characters removed: a matcher that mangles the ends of a pattern (trims a
	// character set, drops a prefix, appends a wildcard) authorises the neighbours and refuses the owner
	hosts = append(hosts, "shop.example.com", "op.example.com", "top.example.com", "partner.org", "artner.org", "partner.or", "https.example.org",
		".example.org", "example.org", "s.evil.com", "static.example.com", "atic.example.com", "tps.example.net", "example.net")
	for _, h := range append([]string{}, hosts...) {
		if strings.ContainsAny(h, "[]ſK") {
			continue
		}
		patsets = append(patsets, []string{h}, []string{"*" + h[1:]}, []string{h[:len(h)-1] + "?"})
	}
	patsets = append(patsets, []string{"s*evil.com"}, []string{"h*.example.org"}, []string{"t?p.example.com"}, []string{"/example.com"}, []string{":example.com"})
	// patterns that look like URLs or carry URL punctuation: a pattern is matched against the origin's host and nothing else, so
	// these authorise nobody (no host contains "://", '?', '#' or '@')
	patsets = append(patsets, []string{"https://*.example.com"}, []string{"https://example.com"}, []string{"other.org", "https://*.example.com"}, []string{"https://app.example.com:*"},
		[]string{"*://*.example.com"}, []string{"*?*.example.com"}, []string{"*#*example.com"}, []string{"*@evil.com"}, []string{"http*"})
	hosts = append(hosts, "app.example.com")
	tails = append(tails, "?.example.com", "#app.example.com", "?x=App.Example.COM")
	users = append(users, "app.example.com:@")
	var cases []*c12Case
	add := func(c *c12Case) { cases = append(cases, c) }
	n := 9000
	if ctx.thorough() {
		n = 120000
	}
	for i := 0; i < n; i++ {
		h := hosts[rng.Intn(len(hosts))]
		p := ports[rng.Intn(len(ports))]
		c := &c12Case{Host: victim[rng.Intn(len(victim))], Patterns: patsets[rng.Intn(len(patsets))], Known: true, TrueHost: h + p}
		c.Origin = schemes[rng.Intn(len(schemes))] + "://" + users[rng.Intn(len(users))] + h + p + tails[rng.Intn(len(tails))]
		if rng.Intn(40) == 0 {
			c.Skip = true
		}
		if rng.Intn(6) == 0 { // same host as the victim, varying case
			c.TrueHost = c.Host
			if rng.Intn(2) == 0 {
				c.TrueHost = strings.ToUpper(c.Host)
			}
			c.Origin = "https://" + c.TrueHost + tails[rng.Intn(len(tails))]
		}
		add(c)
	}
	for _, v := range victim {
		add(&c12Case{Host: v, Origin: "", Known: true})
		for _, ps := range patsets {
			// unconstructed / malformed origins: consistency with net/url only
			for _, o := range []string{"null", "example.com", "//example.com", "https:example.com", "https:///example.com", "https://example.com\\@evil.com", "https://evil.com\\.example.com",
				"https://evil.com%2f@example.com", "https://example.com%00.evil.com", "https://exa mple.com", "http://[::1", "https://evil.com:x", "%zz", "https://", "file:///etc/passwd", "about:blank", " https://example.com"} {
				add(&c12Case{Host: v, Origin: o, Patterns: ps})
			}
		}
	}
	// bad patterns
	for _, bp := range []string{"[", "[a-", "a[", "\\", "[]", "[^]", "*[", "example.[com"} {
		add(&c12Case{Host: "example.com", Origin: "https://evil.com", Patterns: []string{bp}})
		add(&c12Case{Host: "example.com", Origin: "https://evil.com", Patterns: []string{"evil.com", bp}})
		add(&c12Case{Host: "example.com", Origin: "https://evil.com", Patterns: []string{bp, "evil.com"}})
	}
	var lines, expect, what []string
	for _, c := range cases {
		runC12Case(rep, c, &lines, &expect, &what)
		rep.eval(fmt.Sprintf("%s|%s|%q|%v", c.Host, c.Origin, c.Patterns, c.Skip))
		if c.Known {
			if c.authorised() {
				rep.count("truth:authorised")
			} else {
				rep.count("truth:refused")
			}
		} else {
			rep.count("unconstructed-origin")
		}
	}
	// glob model vs filepath.Match
	alphabet := []string{"a", "b", ".", "*", "?", "[", "]", "-", "^", "\\", "/", "c"}
	ng := 6000
	if ctx.thorough() {
		ng = 150000
	}
	for i := 0; i < ng; i++ {
		var p, s string
		for j := rng.Intn(7); j > 0; j-- {
			p += alphabet[rng.Intn(len(alphabet))]
		}
		for j := rng.Intn(6); j > 0; j-- {
			s += []string{"a", "b", ".", "c", "/", "-", "]"}[rng.Intn(7)]
		}
		m, err := filepath.Match(p, s)
		exp := "no"
		if err != nil {
			exp = "bad"
		} else if m {
			exp = "yes"
		}
		lines = append(lines, fmt.Sprintf("glob %s %s", hs(p), hs(s)))
		expect = append(expect, exp)
		what = append(what, fmt.Sprintf("filepath.Match(%q, %q)", p, s))
		rep.eval("glob/" + p + "/" + s)
	}
	rep.count("glob-compared")
	askAndCompare(ctx, lines, expect, what, "origin-model-vs-impl")
	rep.sample(cases[0])
	rep.sample(cases[len(cases)-1])
}
