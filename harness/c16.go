package main

import (
	"context"
	"fmt"
	"sync"
	"time"

	"nhooyr.io/websocket"
)

func init() { runners["C16"] = runC16 }

type c16Case struct {
	Client    bool   `json:"client"`
	Trigger   string `json:"trigger"` // local-close | peer-close | proto-error | read-limit | closeread-data
	Echo      string `json:"echo"`    // early | late | never   (peer's answer to our Close)
	Writers   int    `json:"writers"`
	Pingers   int    `json:"pingers"`
	Flate     bool   `json:"flate"`
	ThenClose bool   `json:"then_user_close"`     // after an error-triggered close the user calls Close as well
	NoStatus  bool   `json:"no_status,omitempty"` // the Close frame in question carries no status code (empty payload)
	Seed      int64  `json:"seed"`
}

// runC16Case returns the frame trace seen by the peer and a violation, if any.
func runC16Case(cc c16Case) (string, string) {
	a, b := newPipe()
	c := websocket.VerifNewConn(a, cc.Client, websocket.VerifCopts{Enabled: cc.Flate}, 0)
	peer := newRawPeer(b, !cc.Client)
	defer b.Close()
	defer c.CloseNow()
	bg, cancel := context.WithTimeout(context.Background(), 20*time.Second)
	defer cancel()
	var wg sync.WaitGroup
	stopW := make(chan struct{})
	for i := 0; i < cc.Writers; i++ {
		wg.Add(1)
		go func(i int) {
			defer wg.Done()
			p := historyMsg(i, 40+i*300)
			for j := 0; ; j++ {
				select {
				case <-stopW:
					return
				default:
				}
				var err error
				if j%2 == 0 {
					err = c.Write(bg, websocket.MessageText, p)
				} else {
					var w interface {
						Write([]byte) (int, error)
						Close() error
					}
					w, err = c.Writer(bg, websocket.MessageBinary)
					if err == nil {
						_, err = w.Write(p[:len(p)/2])
						if err == nil {
							_, err = w.Write(p[len(p)/2:])
						}
						if err == nil {
							err = w.Close()
						}
					}
				}
				if err != nil {
					return
				}
			}
		}(i)
	}
	for i := 0; i < cc.Pingers; i++ {
		wg.Add(1)
		go func() {
			defer wg.Done()
			for {
				select {
				case <-stopW:
					return
				default:
				}
				pctx, pc := context.WithTimeout(bg, 20*time.Millisecond)
				err := c.Ping(pctx)
				pc()
				if err != nil && bg.Err() == nil {
					select {
					case <-stopW:
						return
					case <-time.After(time.Millisecond):
					}
				}
			}
		}()
	}
	// reader on the library side (needed for control frames); CloseRead for the closeread trigger
	readerDone := make(chan struct{})
	if cc.Trigger == "closeread-data" {
		c.CloseRead(bg)
		close(readerDone)
	} else {
		if cc.Trigger == "read-limit" {
			c.SetReadLimit(10)
		}
		go func() {
			defer close(readerDone)
			for {
				if _, _, err := c.Read(bg); err != nil {
					return
				}
			}
		}()
	}
	// the peer records every frame until the transport ends
	type rec struct {
		f  RawFrame
		at time.Time
	}
	var trace []RawFrame
	peerDone := make(chan struct{})
	echoed := false
	go func() {
		defer close(peerDone)
		for {
			f, err := peer.readFrame(12 * time.Second)
			if err != nil {
				return
			}
			trace = append(trace, *f)
			if f.Op == 9 {
				peer.writeFrame(RawFrame{Fin: true, Op: 10, Payload: f.Payload})
			}
			if f.Op == 8 && !echoed && cc.Trigger == "local-close" {
				echoed = true
				switch cc.Echo {
				case "early":
					peer.writeFrame(RawFrame{Fin: true, Op: 8, Payload: f.Payload})
				case "late":
					go func(p []byte) {
						time.Sleep(150 * time.Millisecond)
						peer.writeFrame(RawFrame{Fin: true, Op: 8, Payload: p})
					}(f.Payload)
				}
			}
		}
	}()
	time.Sleep(time.Duration(1+cc.Seed%5) * time.Millisecond)
	closeRet := make(chan error, 1)
	switch cc.Trigger {
	case "local-close":
		if cc.NoStatus {
			go func() { closeRet <- c.Close(websocket.StatusNoStatusRcvd, "") }()
		} else {
			go func() { closeRet <- c.Close(websocket.StatusNormalClosure, "bye") }()
		}
	case "peer-close":
		if cc.NoStatus {
			peer.writeFrame(RawFrame{Fin: true, Op: 8})
		} else {
			peer.writeFrame(RawFrame{Fin: true, Op: 8, Payload: []byte{0x03, 0xe9}})
		}
	case "proto-error":
		peer.writeFrame(RawFrame{Fin: true, Op: 1, Rsv2: true, Payload: []byte("x")})
	case "read-limit":
		peer.writeFrame(RawFrame{Fin: true, Op: 1, Payload: []byte("more than ten bytes of text")})
	case "closeread-data":
		peer.writeFrame(RawFrame{Fin: true, Op: 1, Payload: []byte("unexpected")})
	}
	if cc.Trigger != "local-close" {
		<-readerDone
		if cc.Trigger == "closeread-data" {
			time.Sleep(20 * time.Millisecond)
		}
		if cc.ThenClose {
			go func() { closeRet <- c.Close(websocket.StatusGoingAway, "user close") }()
		} else {
			closeRet <- nil
		}
	}
	// give the writers some time to keep going during the close handshake wait
	wait := 400 * time.Millisecond
	if cc.Echo == "never" && cc.Trigger == "local-close" {
		wait = 700 * time.Millisecond
	}
	select {
	case <-closeRet:
	case <-time.After(wait):
	}
	time.Sleep(30 * time.Millisecond)
	close(stopW)
	// end the connection so that the peer sees EOF and the trace is complete
	c.CloseNow()
	b.Close()
	wg.Wait()
	select {
	case <-peerDone:
	case <-time.After(3 * time.Second):
	}
	// the property
	closeAt := -1
	for i, f := range trace {
		if f.Op == 8 {
			if closeAt >= 0 {
				return "second-close-frame", fmt.Sprintf("frames %d and %d are both Close frames (payloads %s / %s); trace ops %s", closeAt, i, hx(trace[closeAt].Payload), hx(f.Payload), opsOf(trace))
			}
			closeAt = i
			continue
		}
		if closeAt >= 0 && f.Op <= 2 {
			return "data-frame-after-close", fmt.Sprintf("data frame %d (op %d, %d bytes) follows the Close frame at %d; trace ops %s", i, f.Op, len(f.Payload), closeAt, opsOf(trace))
		}
	}
	if rest := peer.leftover(); len(rest) > 0 && closeAt >= 0 {
		return "bytes-after-close", fmt.Sprintf("%d bytes of a partial frame follow the Close frame", len(rest))
	}
	return "", ""
}

// runC16RaceCase: two close initiators that both start before either Close frame is written. A Write is stuck in the transport
// (it holds the frame lock); a local Close / the CloseRead policy close queues behind it; then the reader meets a protocol
// violation, a message over the read limit or the peer's own Close frame, whose Close frame / echo queues as well. When the
// transport accepts writes again exactly one Close frame may follow.
func runC16RaceCase(client bool, first, second string) (string, string) {
	a, b := newPipe()
	gate := make(chan struct{}, 256)
	a.writeGate = gate
	c := websocket.VerifNewConn(a, client, websocket.VerifCopts{}, 0)
	peer := newRawPeer(b, !client)
	defer b.Close()
	defer c.CloseNow()
	bg, cancel := context.WithTimeout(context.Background(), 20*time.Second)
	defer cancel()
	if second == "read-limit" {
		c.SetReadLimit(10)
	}
	// the stuck writer: larger than the write buffer, so that it blocks in the transport while holding the frame lock
	wret := make(chan error, 1)
	go func() { wret <- c.Write(bg, websocket.MessageBinary, make([]byte, 20000)) }()
	time.Sleep(30 * time.Millisecond)
	closeRet := make(chan error, 2)
	readerDone := make(chan struct{})
	if first == "closeread" {
		c.CloseRead(bg)
		close(readerDone)
	} else {
		if first == "close-after-failed-pings" {
			// control-frame writes that give up on their context while the frame lock is held by the stuck writer
			for i := 0; i < 3; i++ {
				pctx, pc := context.WithTimeout(bg, 15*time.Millisecond)
				c.Ping(pctx)
				pc()
			}
		}
		go func() { closeRet <- c.Close(websocket.StatusNormalClosure, "bye") }()
		time.Sleep(30 * time.Millisecond)
		go func() {
			defer close(readerDone)
			for {
				if _, _, err := c.Read(bg); err != nil {
					return
				}
			}
		}()
	}
	switch second {
	case "proto-error":
		peer.writeFrame(RawFrame{Fin: true, Op: 1, Rsv2: true, Payload: []byte("x")})
	case "read-limit":
		peer.writeFrame(RawFrame{Fin: true, Op: 1, Payload: []byte("more than ten bytes of text")})
	case "peer-close":
		peer.writeFrame(RawFrame{Fin: true, Op: 8, Payload: []byte{0x03, 0xe9, 'g', 'o'}})
	case "data": // for the CloseRead policy close; followed by a protocol violation is not possible (the reader is gone)
		peer.writeFrame(RawFrame{Fin: true, Op: 1, Payload: []byte("unexpected")})
	}
	time.Sleep(60 * time.Millisecond)
	if first == "closeread" {
		// the second initiator is the user
		go func() { closeRet <- c.Close(websocket.StatusGoingAway, "user close") }()
		time.Sleep(30 * time.Millisecond)
	}
	// the transport accepts writes again
	var trace []RawFrame
	peerDone := make(chan struct{})
	go func() {
		defer close(peerDone)
		for {
			f, err := peer.readFrame(3 * time.Second)
			if err != nil {
				return
			}
			trace = append(trace, *f)
		}
	}()
	for i := 0; i < 200; i++ {
		select {
		case gate <- struct{}{}:
		default:
		}
	}
	time.Sleep(300 * time.Millisecond)
	c.CloseNow()
	b.Close()
	select {
	case <-peerDone:
	case <-time.After(4 * time.Second):
	}
	closes, closeAt := 0, -1
	for i, f := range trace {
		if f.Op == 8 {
			closes++
			if closeAt < 0 {
				closeAt = i
			}
		} else if closeAt >= 0 && f.Op <= 2 {
			return "data-frame-after-close", fmt.Sprintf("client=%v first=%s second=%s: data frame %d (op %d, %d bytes) follows the Close frame at %d; trace ops %s", client, first, second, i, f.Op, len(f.Payload), closeAt, opsOf(trace))
		}
	}
	if closes > 1 {
		return "second-close-frame", fmt.Sprintf("client=%v first=%s second=%s: %d Close frames on the wire; trace ops %s", client, first, second, closes, opsOf(trace))
	}
	if rest := peer.leftover(); len(rest) > 0 {
		return "bytes-after-close", fmt.Sprintf("client=%v first=%s second=%s: the emitted stream ends with %d bytes that are not a whole frame (every write had been released and had time to finish); trace ops %s", client, first, second, len(rest), opsOf(trace))
	}
	if closes == 0 {
		return "close-frame-missing", fmt.Sprintf("client=%v first=%s second=%s: a close was initiated and every write was released, but no Close frame can be decoded from the emitted stream; trace ops %s", client, first, second, opsOf(trace))
	}
	return "", ""
}

func opsOf(tr []RawFrame) string {
	s := ""
	for i, f := range tr {
		if i > 60 {
			s += "…"
			break
		}
		s += fmt.Sprintf("%x", f.Op)
	}
	return s
}

func runC16(ctx *runCtx) {
	rep := ctx.rep
	rep.Rule = "scenarios: trigger {local Close, peer-initiated Close (each also with a status-less Close frame), protocol violation (1002), read limit (1009), CloseRead policy violation (1008)} x peer echo {early, late, never} x 0..4 concurrent writers (Write and streaming Writer) x 0..2 pingers x role x compression x user Close after an error-triggered close; " +
		"the raw peer records the complete frame trace until transport EOF; oracle: after the endpoint's first Close frame no data frame and no second Close frame. Timing perturbed by the seed. distinct = scenario tuple"
	if cirTraceReplay(ctx) {
		return
	}
	if ctx.replay != "" {
		var cc c16Case
		if err := loadReplay(ctx.replay, &cc); err == nil && cc.Trigger != "" {
			if sh, w := runC16Case(cc); sh != "" {
				rep.violate(Violation{Kind: "property", Shape: sh + ":" + cc.Trigger, What: w, Replay: cc})
			}
			rep.eval("replay")
		}
		return
	}
	var cases []c16Case
	reps := 1
	if ctx.thorough() {
		reps = 6
	}
	for r := 0; r < reps; r++ {
		for _, trig := range []string{"local-close", "peer-close", "proto-error", "read-limit", "closeread-data"} {
			for _, client := range []bool{true, false} {
				for _, wr := range []int{0, 2, 4} {
					echoes := []string{"early"}
					if trig == "local-close" {
						echoes = []string{"early", "late", "never"}
					}
					for _, echo := range echoes {
						for _, then := range []bool{false, true} {
							if trig == "local-close" && then {
								continue
							}
							cases = append(cases, c16Case{Client: client, Trigger: trig, Echo: echo, Writers: wr, Pingers: wr / 2, Flate: (wr+r)%2 == 1, ThenClose: then, Seed: ctx.seed + int64(len(cases))})
							if (trig == "local-close" || trig == "peer-close") && wr > 0 {
								cases = append(cases, c16Case{Client: client, Trigger: trig, Echo: echo, Writers: wr, Pingers: wr / 2, Flate: (wr+r)%2 == 0, ThenClose: then, NoStatus: true, Seed: ctx.seed + int64(len(cases))})
							}
						}
					}
				}
			}
		}
	}
	type res struct {
		i     int
		sh, w string
	}
	out := make(chan res, len(cases))
	sem := make(chan struct{}, 24)
	for i := range cases {
		sem <- struct{}{}
		go func(i int) {
			defer func() { <-sem }()
			sh, w := guarded(40*time.Second, func() (string, string) { return runC16Case(cases[i]) })
			out <- res{i, sh, w}
		}(i)
	}
	for range cases {
		r := <-out
		cc := cases[r.i]
		rep.eval(fmt.Sprintf("%+v", cc))
		rep.count("trigger:" + cc.Trigger)
		if r.sh != "" {
			rep.violate(Violation{Kind: "property", Shape: r.sh + ":" + cc.Trigger, What: fmt.Sprintf("%+v: %s", cc, r.w), Replay: cc})
		}
	}
	// two close initiators queued behind a stuck frame write
	for _, client := range []bool{true, false} {
		for _, pr := range [][2]string{{"close", "proto-error"}, {"close", "read-limit"}, {"close", "peer-close"}, {"closeread", "data"}, {"close-after-failed-pings", "none"}} {
			client, pr := client, pr
			sh, w := guarded(40*time.Second, func() (string, string) { return runC16RaceCase(client, pr[0], pr[1]) })
			rep.eval(fmt.Sprintf("racing-closers/%v/%s/%s", client, pr[0], pr[1]))
			rep.count("trigger:racing-closers")
			if sh != "" {
				rep.violate(Violation{Kind: "property", Shape: sh + ":racing-closers", What: w, Replay: map[string]interface{}{"scenario": "racing-closers", "client": client, "first": pr[0], "second": pr[1]}})
			}
		}
	}
	cirTraceValidation(ctx, cirTraceN(ctx))
	rep.sample(cases[0])
	rep.sample(cases[len(cases)-1])
}
