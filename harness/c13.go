package main

import (
	"bytes"
	"context"
	"encoding/base64"
	"errors"
	"fmt"
	"io"
	"net/http"
	"reflect"
	"strings"
	"sync/atomic"
	"time"

	"nhooyr.io/websocket"
)

type c13Case struct {
	Status     int      `json:"status"`
	Connection []string `json:"connection"`
	Upgrade    []string `json:"upgrade"`
	AcceptKind string   `json:"accept"` // correct | other-key | missing | garbage | other-case | lower-case | padded | doubled (near misses of the right value)
	Proto      string   `json:"protocol"`
	// ProtoMore: further Sec-WebSocket-Protocol header lines after Proto (only used with a first line that was not requested)
	ProtoMore []string `json:"protocol_more_lines,omitempty"`
	Requested []string `json:"requested"`
	Ext       []string `json:"extensions"`
	Mode      int      `json:"mode"`
	HostOpt   string   `json:"host_option,omitempty"`
	ExtraHdr  string   `json:"extra_header,omitempty"`
}

func (c *c13Case) want() bool {
	if c.Status != 101 || !tokenOK(c.Connection, "upgrade") || !tokenOK(c.Upgrade, "websocket") || c.AcceptKind != "correct" {
		return false
	}
	if c.Proto != "" {
		ok := false
		for _, r := range c.Requested {
			if strings.EqualFold(r, c.Proto) {
				ok = true
			}
		}
		if !ok {
			return false
		}
	}
	a, _ := clientExpect(c.Ext, c.Mode)
	return a
}

func runC13Case(rep *Report, c *c13Case, ent []byte, lines, expect, what *[]string) {
	a, b := newPipe()
	body := &dialBody{pipeEnd: a}
	var seen *http.Request
	var sentKey string
	var respHdr http.Header
	rt := rtFunc(func(req *http.Request) (*http.Response, error) {
		seen = req
		sentKey = req.Header.Get("Sec-WebSocket-Key")
		h := http.Header{}
		for _, v := range c.Connection {
			h.Add("Connection", v)
		}
		for _, v := range c.Upgrade {
			h.Add("Upgrade", v)
		}
		switch c.AcceptKind {
		case "correct":
			h.Set("Sec-WebSocket-Accept", wantAccept(sentKey))
		case "other-key":
			h.Set("Sec-WebSocket-Accept", wantAccept(testKey))
		case "garbage":
			h.Set("Sec-WebSocket-Accept", "AAAA")
		case "other-case", "lower-case", "padded", "doubled":
			// near misses of the right value: base64 is case sensitive, the value is one token
			right := wantAccept(sentKey)
			v := []byte(right)
			switch c.AcceptKind {
			case "other-case":
				for i, ch := range v {
					if ch >= 'a' && ch <= 'z' {
						v[i] = ch - 32
						break
					} else if ch >= 'A' && ch <= 'Z' {
						v[i] = ch + 32
						break
					}
				}
			case "lower-case":
				v = []byte(strings.ToLower(right))
			case "padded":
				v = []byte(right + "=")
			case "doubled":
				v = []byte(right + ", " + right)
			}
			if string(v) == right {
				v = append(v, 'x')
			}
			h.Set("Sec-WebSocket-Accept", string(v))
		}
		if c.Proto != "" {
			h.Set("Sec-WebSocket-Protocol", c.Proto)
			for _, v := range c.ProtoMore {
				h.Add("Sec-WebSocket-Protocol", v)
			}
		}
		for _, v := range c.Ext {
			h.Add("Sec-WebSocket-Extensions", v)
		}
		respHdr = h
		return &http.Response{StatusCode: c.Status, Header: h, Body: body, Request: req}, nil
	})
	opts := &websocket.DialOptions{HTTPClient: &http.Client{Transport: rt}, Subprotocols: c.Requested, CompressionMode: websocket.CompressionMode(c.Mode), Host: c.HostOpt}
	if c.ExtraHdr != "" {
		opts.HTTPHeader = http.Header{"X-Extra": {c.ExtraHdr}, "Cookie": {"a=b"}}
	}
	if c.ExtraHdr == "collide" {
		// a caller (say, a proxy forwarding an incoming request's headers) whose headers carry the handshake's own names: what
		// Dial sends under those names is Dial's
		opts.HTTPHeader.Set("Connection", "keep-alive")
		opts.HTTPHeader.Set("Upgrade", "h2c")
		opts.HTTPHeader.Set("Sec-WebSocket-Version", "8")
		opts.HTTPHeader.Set("Sec-WebSocket-Key", "c3RhbGUgc3RhbGUgc3RhbGUhIQ==")
	}
	callerHdr := opts.HTTPHeader.Clone()
	ctx, cancel := context.WithTimeout(context.Background(), 5*time.Second)
	defer cancel()
	conn, _, err := websocket.VerifDial(ctx, "ws://example.com/path?q=1", opts, bytes.NewReader(ent))
	desc := fmt.Sprintf("%+v", *c)
	// the caller's headers are preserved: Dial sends them, it does not write its own into the caller's map
	if !reflect.DeepEqual(callerHdr, opts.HTTPHeader) {
		rep.violate(Violation{Kind: "property", Shape: "caller-headers-modified", What: fmt.Sprintf("%s: DialOptions.HTTPHeader was %v before Dial and is %v after", desc, callerHdr, opts.HTTPHeader), Replay: c})
	}
	if c.ExtraHdr != "" {
		// a second attempt that reuses the same header map and asks for nothing must request nothing
		var seen2 *http.Request
		rt2 := rtFunc(func(req *http.Request) (*http.Response, error) {
			seen2 = req
			return &http.Response{StatusCode: 400, Header: http.Header{}, Body: http.NoBody, Request: req}, nil
		})
		ctx2, cancel2 := context.WithTimeout(context.Background(), 2*time.Second)
		websocket.Dial(ctx2, "ws://example.com/", &websocket.DialOptions{HTTPClient: &http.Client{Transport: rt2}, HTTPHeader: opts.HTTPHeader})
		cancel2()
		if seen2 != nil && (seen2.Header.Get("Sec-WebSocket-Protocol") != "" || seen2.Header.Get("Sec-WebSocket-Extensions") != "") {
			rep.violate(Violation{Kind: "property", Shape: "request-carries-unrequested-offer", What: fmt.Sprintf("%s: a later Dial with the same caller headers, no subprotocols and compression disabled sent Sec-WebSocket-Protocol %q, Sec-WebSocket-Extensions %q", desc, seen2.Header.Get("Sec-WebSocket-Protocol"), seen2.Header.Get("Sec-WebSocket-Extensions")), Replay: c})
		}
	}
	if conn != nil {
		atomic.StoreInt32(&body.established, 1)
		conn.CloseNow()
	}
	b.Close()
	a.Close()
	if seen == nil {
		rep.violate(Violation{Kind: "property", Shape: "no-request-sent", What: desc, Replay: c})
		return
	}
	// request well-formedness
	bad := func(shape, w string) {
		rep.violate(Violation{Kind: "property", Shape: shape, What: desc + ": " + w, Replay: c})
	}
	if seen.Method != "GET" || !strings.EqualFold(seen.Header.Get("Connection"), "upgrade") || !strings.EqualFold(seen.Header.Get("Upgrade"), "websocket") || seen.Header.Get("Sec-WebSocket-Version") != "13" {
		bad("request-malformed", fmt.Sprintf("method %s headers %v", seen.Method, seen.Header))
	}
	if seen.URL.Scheme != "http" || seen.URL.Path != "/path" || seen.URL.RawQuery != "q=1" {
		bad("request-url", seen.URL.String())
	}
	kb, kerr := base64.StdEncoding.DecodeString(sentKey)
	if kerr != nil || len(kb) != 16 || !bytes.Equal(kb, ent[:16]) {
		bad("request-key", fmt.Sprintf("Sec-WebSocket-Key %q is not base64 of the next 16 entropy bytes", sentKey))
	}
	if len(c.Requested) > 0 && seen.Header.Get("Sec-WebSocket-Protocol") != strings.Join(c.Requested, ",") {
		bad("request-subprotocols", seen.Header.Get("Sec-WebSocket-Protocol"))
	}
	wantOffer := ""
	if c.Mode == 1 {
		wantOffer = "permessage-deflate"
	} else if c.Mode == 2 {
		wantOffer = "permessage-deflate; client_no_context_takeover; server_no_context_takeover"
	}
	if seen.Header.Get("Sec-WebSocket-Extensions") != wantOffer {
		bad("request-extension-offer", fmt.Sprintf("offer %q, want %q", seen.Header.Get("Sec-WebSocket-Extensions"), wantOffer))
	}
	if c.HostOpt != "" && seen.Host != c.HostOpt {
		bad("request-host-override", seen.Host)
	}
	if c.ExtraHdr != "" && (seen.Header.Get("X-Extra") != c.ExtraHdr || seen.Header.Get("Cookie") != "a=b") {
		bad("request-caller-headers", fmt.Sprint(seen.Header))
	}
	// the request as the Lean model of handshakeRequest builds it
	{
		cop := "none"
		if c.Mode == 1 {
			cop = "00"
		} else if c.Mode == 2 {
			cop = "11"
		}
		var parts []string
		for _, k := range []string{"Connection", "Cookie", "Sec-Websocket-Extensions", "Sec-Websocket-Key", "Sec-Websocket-Protocol", "Sec-Websocket-Version", "Upgrade", "X-Extra"} {
			var vs []string
			for _, v := range seen.Header[k] {
				vs = append(vs, hs(v))
			}
			parts = append(parts, k+"="+strings.Join(vs, ","))
		}
		*lines = append(*lines, fmt.Sprintf("dial-req %s %s %s %s", encHdr(callerHdr), hsList(c.Requested), cop, hs(sentKey)))
		*expect = append(*expect, "ok "+strings.Join(parts, ";"))
		*what = append(*what, "request headers "+desc)
	}
	// response decision
	if want := c.want(); (err == nil) != want {
		shape := "dial-accepts-invalid-response"
		if want {
			shape = "dial-rejects-valid-response"
		}
		bad(shape, fmt.Sprintf("Dial err=%v, want accepted=%v", err, want))
	}
	if err != nil && conn != nil {
		bad("conn-returned-with-error", "")
	}
	// model
	cop := "none"
	if c.Mode == 1 {
		cop = "00"
	} else if c.Mode == 2 {
		cop = "11"
	}
	if inDomain(c.Proto) {
		*lines = append(*lines, fmt.Sprintf("srv-resp %s %s %s %d %s", hsList(c.Requested), cop, hs(sentKey), c.Status, encHdr(respHdr)))
		if err != nil {
			*expect = append(*expect, "err")
		} else {
			st := "ok none"
			// the negotiated options are observable through the model comparison of verifyServerExtensions (C14); here only accept/reject
			_ = st
			*expect = append(*expect, "ok")
		}
		*what = append(*what, "verifyServerResponse "+desc)
	}
}

// c13DialPaths: the parts of Dial around the response check — URL schemes, transport failures, a 101
// response whose body is not a connection, the client's Timeout, redirects. In every failing case Dial
// must return an error and no connection; what it sends must always be a well-formed upgrade request.
func c13DialPaths(rep *Report) {
	bad := func(shape, what string, replay interface{}) {
		rep.violate(Violation{Kind: "property", Shape: shape, What: what, Replay: replay})
	}
	upgradeOK := func(req *http.Request) bool {
		return req.Method == "GET" && strings.EqualFold(req.Header.Get("Connection"), "upgrade") && strings.EqualFold(req.Header.Get("Upgrade"), "websocket") &&
			req.Header.Get("Sec-WebSocket-Version") == "13" && req.Header.Get("Sec-WebSocket-Key") != ""
	}
	ok101 := func(req *http.Request, body io.ReadCloser) *http.Response {
		h := http.Header{}
		h.Set("Connection", "Upgrade")
		h.Set("Upgrade", "websocket")
		h.Set("Sec-WebSocket-Accept", wantAccept(req.Header.Get("Sec-WebSocket-Key")))
		return &http.Response{StatusCode: 101, Header: h, Body: body, Request: req}
	}
	// 1. schemes
	for _, tc := range []struct {
		url, want string // want = scheme of the request sent, "" = no request may be sent / Dial must fail
	}{{"ws://example.com/p?q=1", "http"}, {"wss://example.com/p", "https"}, {"http://example.com/p", "http"}, {"https://example.com/p", "https"},
		{"ftp://example.com/p", ""}, {"example.com/p", ""}, {"ws://[::1/p", ""}, {"://x", ""}, {"", ""}} {
		var seen *http.Request
		rt := rtFunc(func(req *http.Request) (*http.Response, error) {
			seen = req
			return &http.Response{StatusCode: 400, Header: http.Header{}, Body: http.NoBody, Request: req}, nil
		})
		ctx, cancel := context.WithTimeout(context.Background(), 2*time.Second)
		conn, _, err := websocket.Dial(ctx, tc.url, &websocket.DialOptions{HTTPClient: &http.Client{Transport: rt}})
		cancel()
		rep.eval("dial-scheme/" + tc.url)
		if conn != nil {
			conn.CloseNow()
		}
		if err == nil || conn != nil {
			bad("dial-accepts-invalid-response", fmt.Sprintf("Dial(%q) against a 400 response: err=%v conn=%v", tc.url, err, conn != nil), tc.url)
		}
		if tc.want == "" && seen != nil {
			bad("request-for-unusable-url", fmt.Sprintf("Dial(%q) sent a request to %s", tc.url, seen.URL), tc.url)
		}
		if tc.want != "" && (seen == nil || seen.URL.Scheme != tc.want || !upgradeOK(seen)) {
			bad("request-url", fmt.Sprintf("Dial(%q): request %v (want scheme %s and a well-formed upgrade request)", tc.url, seen, tc.want), tc.url)
		}
	}
	// 2. the transport fails
	{
		rt := rtFunc(func(req *http.Request) (*http.Response, error) { return nil, errors.New("connection refused") })
		ctx, cancel := context.WithTimeout(context.Background(), 2*time.Second)
		conn, _, err := websocket.Dial(ctx, "ws://example.com/", &websocket.DialOptions{HTTPClient: &http.Client{Transport: rt}})
		cancel()
		rep.eval("dial-transport-error")
		if err == nil || conn != nil {
			bad("dial-accepts-invalid-response", fmt.Sprintf("transport error: Dial err=%v conn=%v", err, conn != nil), "transport-error")
		}
	}
	// 3. a correct 101 whose body cannot be written to (no connection behind it)
	{
		rt := rtFunc(func(req *http.Request) (*http.Response, error) {
			return ok101(req, io.NopCloser(strings.NewReader(""))), nil
		})
		ctx, cancel := context.WithTimeout(context.Background(), 2*time.Second)
		conn, _, err := websocket.Dial(ctx, "ws://example.com/", &websocket.DialOptions{HTTPClient: &http.Client{Transport: rt}})
		cancel()
		rep.eval("dial-body-not-a-connection")
		if conn != nil {
			conn.CloseNow()
		}
		if err == nil || conn != nil {
			bad("dial-accepts-invalid-response", fmt.Sprintf("101 with a read-only body: Dial err=%v conn=%v", err, conn != nil), "body-not-rwc")
		}
	}
	// 4. the HTTP client's Timeout bounds the handshake
	{
		rt := rtFunc(func(req *http.Request) (*http.Response, error) {
			<-req.Context().Done()
			return nil, req.Context().Err()
		})
		t0 := time.Now()
		conn, _, err := websocket.Dial(context.Background(), "ws://example.com/", &websocket.DialOptions{HTTPClient: &http.Client{Transport: rt, Timeout: 80 * time.Millisecond}})
		rep.eval("dial-client-timeout")
		if err == nil || conn != nil || time.Since(t0) > 3*time.Second {
			bad("dial-ignores-client-timeout", fmt.Sprintf("HTTPClient.Timeout=80ms, server never answers: Dial err=%v conn=%v after %v", err, conn != nil, time.Since(t0).Round(time.Millisecond)), "client-timeout")
		}
	}
	// 5. a redirect to a ws:// location is followed with a well-formed upgrade request over http
	for _, loc := range []string{"ws://other.example/next", "wss://other.example/next", "/next"} {
		a, b := newPipe()
		body := &dialBody{pipeEnd: a}
		var reqs []*http.Request
		rt := rtFunc(func(req *http.Request) (*http.Response, error) {
			reqs = append(reqs, req)
			if len(reqs) == 1 {
				h := http.Header{}
				h.Set("Location", loc)
				return &http.Response{StatusCode: 302, Header: h, Body: http.NoBody, Request: req}, nil
			}
			return ok101(req, body), nil
		})
		ctx, cancel := context.WithTimeout(context.Background(), 3*time.Second)
		conn, _, err := websocket.Dial(ctx, "ws://example.com/start", &websocket.DialOptions{HTTPClient: &http.Client{Transport: rt}})
		cancel()
		rep.eval("dial-redirect/" + loc)
		if conn != nil {
			atomic.StoreInt32(&body.established, 1)
			conn.CloseNow()
		}
		b.Close()
		a.Close()
		wantScheme := "http"
		if strings.HasPrefix(loc, "wss") {
			wantScheme = "https"
		}
		if len(reqs) != 2 || reqs[1].URL.Scheme != wantScheme || !upgradeOK(reqs[1]) || err != nil {
			sc := ""
			if len(reqs) > 1 {
				sc = reqs[1].URL.String()
			}
			bad("dial-redirect", fmt.Sprintf("302 -> %s: %d requests, second %q, Dial err=%v (a well-formed upgrade request over %s and a connection are expected)", loc, len(reqs), sc, err, wantScheme), loc)
		}
	}
}

func runC13(ctx *runCtx) {
	rep := ctx.rep
	rep.Rule = "responses from the cross product status x Connection/Upgrade value lists x accept-key variants (correct, for another key, missing, garbage) x subprotocol value (single names, other case, lists, trailing commas, look-alikes, several header lines) x requested lists x extension header variants x client compression modes, returned by a custom RoundTripper; the request seen by the RoundTripper is inspected " +
		"(GET, headers, version 13, key = base64 of the next 16 entropy bytes, subprotocols, extension offer per mode, Host override, caller headers sent and the caller's header map left untouched, a later Dial reusing that map requests nothing it was not asked for, ws->http scheme); URL schemes ws/wss/http/https and unusable URLs, transport failure, a 101 whose body is not a connection, HTTPClient.Timeout, redirects to ws:// / wss:// / relative locations; Dial must return a connection iff the response is valid. Lean model of verifyServerResponse compared. distinct = case tuple"
	c13DialPaths(rep)
	rng := newRng(ctx.seed, "c13")
	statuses := []int{101, 101, 101, 200, 400, 426, 301}
	conns := [][]string{{"Upgrade"}, {"upgrade"}, {"keep-alive, Upgrade"}, {"keep-alive"}, nil, {"Upgradex"}}
	upgs := [][]string{{"websocket"}, {"WebSocket"}, {"websocket, h2c"}, {"websockets"}, nil}
	accepts := []string{"correct", "correct", "correct", "other-key", "missing", "garbage", "other-case", "lower-case", "padded", "doubled"}
	// the value as a whole must be one requested name: lists, trailing commas and look-alikes are not
	protos := []string{"", "", "chat", "CHAT", "other", "evil, chat", "chat, evil", "chat,", ",chat", "chat evil", "chatx", "superchat,chat"}
	reqs := [][]string{nil, {"chat"}, {"superchat", "chat"}}
	exts := [][]string{nil, nil, {"permessage-deflate"}, {"permessage-deflate; client_no_context_takeover"}, {"permessage-deflate; server_no_context_takeover; client_no_context_takeover"},
		{"permessage-deflate; server_max_window_bits=10"}, {"permessage-deflate; client_max_window_bits=10"}, {"permessage-deflate; foo"}, {"x-webkit-deflate-frame"}, {"permessage-deflate", "permessage-deflate"}, {"permessage-deflate, foo"}}
	var cases []*c13Case
	// around the valid response
	for _, st := range statuses {
		cases = append(cases, &c13Case{Status: st, Connection: conns[0], Upgrade: upgs[0], AcceptKind: "correct"})
	}
	for _, co := range conns {
		for _, up := range upgs {
			cases = append(cases, &c13Case{Status: 101, Connection: co, Upgrade: up, AcceptKind: "correct"})
		}
	}
	for _, ak := range accepts {
		for _, pr := range protos {
			for _, rq := range reqs {
				cases = append(cases, &c13Case{Status: 101, Connection: conns[0], Upgrade: upgs[0], AcceptKind: ak, Proto: pr, Requested: rq})
			}
		}
	}
	for _, rq := range reqs {
		// several header lines, the first of which was not requested
		cases = append(cases, &c13Case{Status: 101, Connection: conns[0], Upgrade: upgs[0], AcceptKind: "correct", Proto: "evil", ProtoMore: []string{"chat"}, Requested: rq})
		cases = append(cases, &c13Case{Status: 101, Connection: conns[0], Upgrade: upgs[0], AcceptKind: "correct", Proto: "evil", ProtoMore: []string{"superchat", "chat"}, Requested: rq})
	}
	for _, ex := range exts {
		for mode := 0; mode <= 2; mode++ {
			cases = append(cases, &c13Case{Status: 101, Connection: conns[0], Upgrade: upgs[0], AcceptKind: "correct", Ext: ex, Mode: mode})
		}
	}
	n := 1500
	if ctx.thorough() {
		n = 40000
	}
	for i := 0; i < n; i++ {
		c := &c13Case{Status: statuses[rng.Intn(len(statuses))], Connection: conns[rng.Intn(len(conns))], Upgrade: upgs[rng.Intn(len(upgs))], AcceptKind: accepts[rng.Intn(len(accepts))],
			Proto: protos[rng.Intn(len(protos))], Requested: reqs[rng.Intn(len(reqs))], Ext: exts[rng.Intn(len(exts))], Mode: rng.Intn(3)}
		if rng.Intn(4) == 0 {
			c.HostOpt = "override.example"
		}
		if rng.Intn(4) == 0 {
			c.ExtraHdr = "v" + fmt.Sprint(i)
			if i%3 == 0 {
				c.ExtraHdr = "collide"
			}
		}
		cases = append(cases, c)
	}
	var lines, expect, what []string
	keysSeen := map[string]bool{}
	for i, c := range cases {
		ent := randBytes(rng, 32)
		runC13Case(rep, c, ent, &lines, &expect, &what)
		rep.eval(fmt.Sprintf("%+v", *c))
		if c.want() {
			rep.count("spec:accept")
		} else {
			rep.count("spec:reject")
		}
		_ = i
		keysSeen[string(ent[:16])] = true
	}
	// key freshness with the default entropy source: distinct keys across attempts
	fresh := map[string]bool{}
	for i := 0; i < 50; i++ {
		rt := rtFunc(func(req *http.Request) (*http.Response, error) {
			fresh[req.Header.Get("Sec-WebSocket-Key")] = true
			return &http.Response{StatusCode: 400, Header: http.Header{}, Body: http.NoBody, Request: req}, nil
		})
		ctx2, cancel := context.WithTimeout(context.Background(), 2*time.Second)
		websocket.Dial(ctx2, "ws://example.com", &websocket.DialOptions{HTTPClient: &http.Client{Transport: rt}})
		cancel()
	}
	rep.eval("fresh-keys")
	if len(fresh) != 50 {
		rep.violate(Violation{Kind: "property", Shape: "key-not-fresh", What: fmt.Sprintf("50 dial attempts used %d distinct keys", len(fresh)), Replay: "fresh-keys"})
	}
	// the model's verifyServerResponse answers ok none / ok xy: compare only accept vs reject
	if ctx.drv != nil && len(lines) > 0 {
		ans, err := ctx.drv.Ask(lines)
		if err != nil {
			rep.violate(Violation{Kind: "correspondence", Shape: "driver-failed", What: err.Error()})
		} else {
			for i := range lines {
				got := ans[i]
				if strings.HasPrefix(got, "ok") && !strings.HasPrefix(lines[i], "dial-req ") {
					got = "ok" // verifyServerResponse: only accept vs reject is compared
				}
				if got != expect[i] {
					rep.Disagree++
					rep.violate(Violation{Kind: "correspondence", Shape: "dial-model-vs-impl", What: fmt.Sprintf("%s: model %q, implementation %q", trunc(what[i], 300), ans[i], expect[i]), Replay: lines[i]})
				}
			}
			rep.count("model-compared")
		}
	}
	rep.sample(cases[0])
	rep.sample(cases[len(cases)-1])
}
