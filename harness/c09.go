package main

import (
	"context"
	"fmt"
	"io"
	"time"

	"nhooyr.io/websocket"
)

func init() { runners["C09"] = runC09 }

type c09Case struct {
	Client bool   `json:"client"`
	Peer   string `json:"peer"`  // silent | stall-header | stall-header-after-frame | stall-payload | flood-frames | flood-one-frame | never-reads | half-close | data-to-closeread
	K      int    `json:"k"`     // bytes sent before stalling
	Local  string `json:"local"` // idle | reader-blocked | half-read | half-read-then-reader | closeread | writer-blocked | writer-arrives | pinger-arrives
	Op     string `json:"op"`    // close | closenow | none (data-to-closeread)
}

const closeBound = 12500 * time.Millisecond // 5 s write + 5 s wait + scheduling slack
const promptBound = 1500 * time.Millisecond

func runC09Case(cc c09Case) (string, string) {
	a, b := newPipe()
	if cc.Peer == "never-reads" || cc.Peer == "flood-never-reads" {
		a.blockWrites = true
	}
	c := websocket.VerifNewConn(a, cc.Client, websocket.VerifCopts{}, 0)
	defer b.Close()
	bg, cancel := context.WithCancel(context.Background())
	defer cancel()
	peerMask := !cc.Client
	send := func(p []byte) { b.Write(p) }
	stopFlood := make(chan struct{})
	defer close(stopFlood)
	// local state
	readRet := make(chan error, 1)
	writeRet := make(chan error, 1)
	var crCtx context.Context
	halfRead := func() {
		// first fragment of a message is delivered, then the peer behaviour applies
		f := RawFrame{Fin: false, Op: 1, Masked: peerMask, Key: [4]byte{1, 2, 3, 4}, Payload: []byte("first fragment")}
		send(f.Encode())
		_, r, err := c.Reader(bg)
		if err == nil {
			buf := make([]byte, 5)
			io.ReadFull(r, buf)
		}
	}
	switch cc.Local {
	case "reader-blocked":
		go func() {
			for { // the peer may deliver whole messages; the call of interest is the one that is pending when the connection closes
				if _, _, err := c.Read(bg); err != nil {
					readRet <- err
					return
				}
			}
		}()
	case "half-read":
		halfRead()
	case "half-read-then-reader":
		// the application asks for the next message while the current one is unfinished: the documented error — after which
		// Close / CloseNow must still end in time
		halfRead()
		rctx, rcancel := context.WithTimeout(bg, time.Second)
		c.Reader(rctx)
		rcancel()
	case "closeread":
		crCtx = c.CloseRead(bg)
	case "writer-blocked":
		go func() { writeRet <- c.Write(bg, websocket.MessageBinary, make([]byte, 1<<16)) }()
	case "stream-writer-blocked":
		// the blocked write goes through the message writer (a streamed message): it holds the writer's own lock while it sits
		// in the transport
		go func() {
			w, err := c.Writer(bg, websocket.MessageBinary)
			if err == nil {
				_, err = w.Write(make([]byte, 1<<16))
			}
			writeRet <- err
		}()
	case "queued-writer":
		// a streamed message is open (and stays open); a Write without any deadline queues behind it on the message lock
		if w, err := c.Writer(bg, websocket.MessageText); err == nil {
			w.Write([]byte("an open message"))
		}
		go func() { writeRet <- c.Write(context.Background(), websocket.MessageBinary, make([]byte, 100)) }()
		time.Sleep(30 * time.Millisecond)
	}
	// peer behaviour
	hdrOf := func(n uint64) []byte {
		f := RawFrame{Fin: true, Op: 2, Masked: peerMask, Key: [4]byte{9, 9, 9, 9}, LenOverride: &n, ForceLen64: true}
		return f.Encode()
	}
	switch cc.Peer {
	case "stall-header":
		h := hdrOf(1 << 20)
		k := cc.K
		if k > len(h) {
			k = len(h)
		}
		send(h[:k])
	case "stall-header-after-frame":
		// a complete (empty) ping and the first k bytes of the next frame's header arrive in one piece: the
		// partial header is already buffered when the next header read starts
		pf := RawFrame{Fin: true, Op: 9, Masked: peerMask, Key: [4]byte{2, 7, 1, 8}}
		h := hdrOf(1 << 20)
		k := cc.K
		if k > len(h) {
			k = len(h)
		}
		send(append(pf.Encode(), h[:k]...))
	case "stall-payload":
		send(hdrOf(1 << 20))
		send(make([]byte, cc.K))
	case "flood-frames", "flood-never-reads":
		go func() {
			f := RawFrame{Fin: true, Op: 2, Masked: peerMask, Key: [4]byte{5, 6, 7, 8}, Payload: make([]byte, 512)}.Encode()
			for {
				select {
				case <-stopFlood:
					return
				default:
				}
				if _, err := b.Write(f); err != nil {
					return
				}
				time.Sleep(200 * time.Microsecond)
			}
		}()
	case "flood-one-frame":
		go func() {
			send(hdrOf(1 << 62))
			chunk := make([]byte, 4096)
			for {
				select {
				case <-stopFlood:
					return
				default:
				}
				if _, err := b.Write(chunk); err != nil {
					return
				}
				time.Sleep(200 * time.Microsecond)
			}
		}()
	case "half-close":
		b.w.CloseWith(nil) // the peer will send nothing more; it keeps reading
	case "data-to-closeread":
		send(RawFrame{Fin: true, Op: 1, Masked: peerMask, Key: [4]byte{1, 1, 1, 1}, Payload: []byte("unexpected")}.Encode())
	}
	if cc.Peer != "never-reads" && cc.Peer != "flood-never-reads" {
		go io.Copy(io.Discard, b) // the peer reads (and ignores) whatever the endpoint sends
	}
	time.Sleep(30 * time.Millisecond)
	desc := fmt.Sprintf("%+v", cc)
	if cc.Op == "none" {
		// CloseRead closes the connection itself because a data message arrived
		t0 := time.Now()
		select {
		case <-crCtx.Done():
		case <-time.After(closeBound):
			go c.CloseNow()
			return "closeread-ctx-not-cancelled", desc + fmt.Sprintf(": the CloseRead context is still not cancelled %v after the data message closed the connection", time.Since(t0).Round(time.Second))
		}
		if d := time.Since(t0); d > 11*time.Second {
			return "closeread-ctx-late", fmt.Sprintf("%s: CloseRead context cancelled only after %v", desc, d.Round(100*time.Millisecond))
		}
		go c.CloseNow()
		return "", ""
	}
	// a call with no deadline of its own that arrives while Close / CloseNow is already under way
	// (Close is then stuck writing its Close frame to a peer that does not read)
	switch cc.Local {
	case "writer-arrives":
		time.AfterFunc(200*time.Millisecond, func() { writeRet <- c.Write(context.Background(), websocket.MessageBinary, make([]byte, 100)) })
	case "pinger-arrives":
		time.AfterFunc(200*time.Millisecond, func() { writeRet <- c.Ping(context.Background()) })
	}
	opRet := make(chan error, 1)
	t0 := time.Now()
	go func() {
		if cc.Op == "close" {
			opRet <- c.Close(websocket.StatusNormalClosure, "")
		} else {
			opRet <- c.CloseNow()
		}
	}()
	bound := closeBound
	if cc.Op == "closenow" {
		bound = promptBound
	}
	select {
	case <-opRet:
	case <-time.After(bound + 2*time.Second):
		b.Close() // let it finish
		shape := "close-not-bounded"
		if cc.Op == "closenow" {
			shape = "closenow-not-prompt"
		}
		return shape, fmt.Sprintf("%s: %s has not returned after %v", desc, cc.Op, time.Since(t0).Round(100*time.Millisecond))
	}
	d := time.Since(t0)
	if d > bound {
		return "close-slow", fmt.Sprintf("%s: %s took %v (bound %v)", desc, cc.Op, d.Round(100*time.Millisecond), bound)
	}
	// blocked calls return once the connection is closed
	t1 := time.Now()
	switch cc.Local {
	case "reader-blocked":
		select {
		case err := <-readRet:
			if err == nil {
				return "blocked-read-returned-nil", desc
			}
		case <-time.After(promptBound):
			return "blocked-read-not-released", desc + ": Read still blocked after the connection was closed"
		}
	case "writer-blocked", "stream-writer-blocked", "writer-arrives", "pinger-arrives", "queued-writer":
		select {
		case <-writeRet:
		case <-time.After(promptBound):
			return "blocked-write-not-released", desc + ": Write / Ping still blocked after the connection was closed"
		}
	case "closeread":
		select {
		case <-crCtx.Done():
		case <-time.After(promptBound):
			return "closeread-ctx-not-cancelled", desc + ": CloseRead context not cancelled after " + cc.Op
		}
	}
	_ = t1
	return "", ""
}

func runC09(ctx *runCtx) {
	rep := ctx.rep
	rep.Rule = "scripted adversary peers {silent, stall after k bytes of a header (k=1,2,6,10,13; also with the k bytes arriving together with a preceding complete frame), stall after k payload bytes (k=0,1,100,5000), endless small data frames, one frame declaring 2^62 bytes fed forever, never reads (writes block), floods data frames and never reads, half-close, data message to a CloseRead connection} x local state at the time of the call {idle, reader blocked, message half read, CloseRead active, writer blocked, a Write / Ping without deadline arriving 200 ms after the call began (against a peer that never reads, a silent peer, a peer stalled inside a payload)} x {Close, CloseNow} x role; " +
		"wall clock: Close <= 12.5 s, CloseNow <= 1.5 s, blocked calls and the CloseRead context released <= 1.5 s after. distinct = scenario tuple"
	if cirTraceReplay(ctx) {
		return
	}
	if ctx.replay != "" {
		var cc c09Case
		if err := loadReplay(ctx.replay, &cc); err == nil && cc.Peer != "" {
			if sh, w := runC09Case(cc); sh != "" {
				rep.violate(Violation{Kind: "property", Shape: sh + ":" + cc.Peer + ":" + cc.Local, What: w, Replay: cc})
			}
			rep.eval("replay")
		}
		return
	}
	var cases []c09Case
	type pk struct {
		p string
		k int
	}
	peers := []pk{{"silent", 0}, {"stall-header", 1}, {"stall-header", 6}, {"stall-header-after-frame", 2}, {"stall-header-after-frame", 5}, {"stall-payload", 0}, {"stall-payload", 100}, {"flood-frames", 0}, {"flood-one-frame", 0}, {"never-reads", 0}, {"half-close", 0}}
	if ctx.thorough() {
		peers = append(peers, pk{"stall-header-after-frame", 3}, pk{"stall-header-after-frame", 9}, pk{"stall-header", 2}, pk{"stall-header", 10}, pk{"stall-header", 13}, pk{"stall-payload", 1}, pk{"stall-payload", 5000})
	}
	locals := []string{"idle", "reader-blocked", "half-read", "closeread", "writer-blocked"}
	for i, p := range peers {
		for j, l := range locals {
			if l == "writer-blocked" && p.p != "never-reads" {
				continue
			}
			if p.p == "never-reads" && l == "idle" {
				// also: a Write / Ping without a deadline arriving while the close is under way
				for _, op := range []string{"close", "closenow"} {
					for _, l2 := range []string{"writer-arrives", "pinger-arrives"} {
						cases = append(cases, c09Case{Client: (i+j)%2 == 0, Peer: p.p, Local: l2, Op: op}, c09Case{Client: (i+j)%2 != 0, Peer: p.p, Local: l2, Op: op})
					}
				}
			}
			if p.p == "never-reads" && (l == "half-read") {
				continue
			}
			if l == "half-read" && (p.p == "half-close") {
				continue
			}
			for _, op := range []string{"close", "closenow"} {
				client := (i+j)%2 == 0
				if ctx.thorough() {
					cases = append(cases, c09Case{Client: !client, Peer: p.p, K: p.k, Local: l, Op: op})
				}
				cases = append(cases, c09Case{Client: client, Peer: p.p, K: p.k, Local: l, Op: op})
			}
		}
	}
	for _, client := range []bool{true, false} {
		cases = append(cases, c09Case{Client: client, Peer: "data-to-closeread", Local: "closeread", Op: "none"})
		// both directions busy at once: the deadline of the blocked direction must survive the arming and
		// disarming of the other one. The peer floods data to an active reader and never reads (Close is stuck
		// writing its Close frame); the peer reads but never answers and a Ping goes out while Close waits for
		// the peer's Close frame.
		for _, op := range []string{"close", "closenow"} {
			cases = append(cases, c09Case{Client: client, Peer: "flood-never-reads", Local: "reader-blocked", Op: op},
				c09Case{Client: client, Peer: "flood-never-reads", Local: "closeread", Op: op},
				c09Case{Client: client, Peer: "silent", Local: "queued-writer", Op: op},
				c09Case{Client: client, Peer: "never-reads", Local: "stream-writer-blocked", Op: op},
				c09Case{Client: client, Peer: "silent", Local: "half-read-then-reader", Op: op},
				c09Case{Client: client, Peer: "stall-payload", K: 100, Local: "half-read-then-reader", Op: op},
				c09Case{Client: client, Peer: "silent", Local: "pinger-arrives", Op: op},
				c09Case{Client: client, Peer: "stall-payload", K: 100, Local: "pinger-arrives", Op: op})
		}
	}
	type res struct {
		i     int
		sh, w string
	}
	out := make(chan res, len(cases))
	for i := range cases {
		go func(i int) {
			sh, w := guarded(45*time.Second, func() (string, string) { return runC09Case(cases[i]) })
			out <- res{i, sh, w}
		}(i)
	}
	for range cases {
		r := <-out
		cc := cases[r.i]
		rep.eval(fmt.Sprintf("%+v", cc))
		rep.count("peer:" + cc.Peer)
		rep.count("local:" + cc.Local)
		if r.sh != "" {
			rep.violate(Violation{Kind: "property", Shape: r.sh + ":" + cc.Peer + ":" + cc.Local, What: r.w, Replay: cc})
		}
	}
	// the timeout goroutine itself against WS.Model.Timeout (Close's bound rests on its two independent slots)
	{
		var lines, expect, what []string
		timeoutDifferential(rep, newRng(ctx.seed, "c09timeout"), 60, &lines, &expect, &what)
		askAndCompare(ctx, lines, expect, what, "timeout-goroutine-model-vs-impl")
	}
	cirTraceValidation(ctx, cirTraceN(ctx))
	rep.sample(cases[0])
	rep.sample(cases[len(cases)-1])
}
