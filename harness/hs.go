package main

// Handshake plumbing shared by C11–C14: encoding of headers for the Lean driver, an in-memory
// net.Conn, a hijackable ResponseWriter, a scripted RoundTripper, and the compressed exchange
// with the reference peer.

import (
	"bufio"
	"bytes"
	"context"
	"crypto/sha1"
	"encoding/base64"
	"fmt"
	"io"
	"net"
	"net/http"
	"net/http/httptest"
	"sort"
	"strings"
	"sync/atomic"
	"time"

	"nhooyr.io/websocket"
)

func hs(s string) string { return hx([]byte(s)) }

func hsList(l []string) string {
	if len(l) == 0 {
		return "."
	}
	var p []string
	for _, s := range l {
		p = append(p, hs(s))
	}
	return strings.Join(p, ",")
}

// encHdr encodes an http.Header for the driver (keys sorted; values in order).
func encHdr(h http.Header) string {
	var keys []string
	for k := range h {
		keys = append(keys, k)
	}
	sort.Strings(keys)
	var parts []string
	for _, k := range keys {
		if len(h[k]) == 0 {
			continue
		}
		var vs []string
		for _, v := range h[k] {
			vs = append(vs, hs(v))
		}
		parts = append(parts, hs(k)+":"+strings.Join(vs, ","))
	}
	if len(parts) == 0 {
		return "."
	}
	return strings.Join(parts, ";")
}

func wantAccept(key string) string {
	h := sha1.Sum([]byte(key + "258EAFA5-E914-47DA-95CA-C5AB0DC85B11"))
	return base64.StdEncoding.EncodeToString(h[:])
}

type pipeNetConn struct{ *pipeEnd }

type dummyAddr struct{}

func (dummyAddr) Network() string { return "mem" }
func (dummyAddr) String() string  { return "mem" }

func (pipeNetConn) LocalAddr() net.Addr              { return dummyAddr{} }
func (pipeNetConn) RemoteAddr() net.Addr             { return dummyAddr{} }
func (pipeNetConn) SetDeadline(time.Time) error      { return nil }
func (pipeNetConn) SetReadDeadline(time.Time) error  { return nil }
func (pipeNetConn) SetWriteDeadline(time.Time) error { return nil }

// hijackRW records the response and hands out one end of an in-memory pipe on Hijack.
type hijackRW struct {
	*httptest.ResponseRecorder
	connSide *pipeEnd
	peerSide *pipeEnd
	hijacked bool
	pre      []byte // bytes "already buffered" by the http server (pipelined client frames)
}

func newHijackRW(pre []byte) *hijackRW {
	a, b := newPipe()
	return &hijackRW{ResponseRecorder: httptest.NewRecorder(), connSide: a, peerSide: b, pre: pre}
}

func (h *hijackRW) Hijack() (net.Conn, *bufio.ReadWriter, error) {
	h.hijacked = true
	nc := pipeNetConn{h.connSide}
	br := bufio.NewReader(nc)
	if len(h.pre) > 0 {
		// emulate net/http having buffered bytes that followed the request
		br = bufio.NewReader(io_multi(bytes.NewReader(h.pre), nc))
		br.Peek(len(h.pre))
	}
	return nc, bufio.NewReadWriter(br, bufio.NewWriter(nc)), nil
}

// dialBody is the response body handed to Dial: until the harness marks it established, a Read
// with nothing to deliver returns EOF quickly (Dial drains up to 1 KiB of the body of a rejected
// response and would otherwise wait 3 s for it).
type dialBody struct {
	*pipeEnd
	established int32
}

func (d *dialBody) Read(p []byte) (int, error) {
	if atomic.LoadInt32(&d.established) == 0 {
		d.r.mu.Lock()
		empty := len(d.r.buf) == 0
		d.r.mu.Unlock()
		if empty {
			time.Sleep(5 * time.Millisecond)
			if atomic.LoadInt32(&d.established) == 0 {
				return 0, io.EOF
			}
		}
	}
	return d.pipeEnd.Read(p)
}

type rtFunc func(*http.Request) (*http.Response, error)

func (f rtFunc) RoundTrip(r *http.Request) (*http.Response, error) { return f(r) }

// negotiated context-takeover parameters as a conforming reader of the response understands them.
type negotiated struct {
	Enabled bool
	CNCT    bool
	SNCT    bool
}

func parseRespExt(v string) (negotiated, bool) {
	v = strings.TrimSpace(v)
	if v == "" {
		return negotiated{}, true
	}
	parts := strings.Split(v, ";")
	if strings.TrimSpace(parts[0]) != "permessage-deflate" {
		return negotiated{}, false
	}
	n := negotiated{Enabled: true}
	for _, p := range parts[1:] {
		switch strings.TrimSpace(p) {
		case "client_no_context_takeover":
			n.CNCT = true
		case "server_no_context_takeover":
			n.SNCT = true
		default:
			return n, false
		}
	}
	return n, true
}

var phrases = []string{"the quick brown fox jumps over the lazy dog. ", "pack my box with five dozen liquor jugs. ", "websocket permessage-deflate context takeover. "}

func historyMsg(i int, n int) []byte {
	var b bytes.Buffer
	for b.Len() < n {
		b.WriteString(phrases[(i+b.Len())%len(phrases)])
	}
	return b.Bytes()[:n]
}

// exchangeCompressed runs a multi-message compressed exchange in both directions between the library
// endpoint and the reference peer that applies the negotiated parameters and really uses history.
func exchangeCompressed(c *websocket.Conn, peer *rawPeer, connIsClient bool, n negotiated) (string, string) {
	ctx, cancel := context.WithTimeout(context.Background(), 10*time.Second)
	defer cancel()
	c.SetReadLimit(-1)
	// peer → library
	peerWriterTakeover := !n.SNCT
	libWriterTakeover := !n.CNCT
	if !connIsClient {
		peerWriterTakeover, libWriterTakeover = !n.CNCT, !n.SNCT
	}
	d := newRawDeflater(peerWriterTakeover, 9)
	for i := 0; i < 4; i++ {
		p := historyMsg(i, 600+200*i)
		f := RawFrame{Fin: true, Op: 1, Payload: p}
		if n.Enabled {
			f.Rsv1 = true
			f.Payload = d.message(p, false)
		}
		if err := peer.writeFrame(f); err != nil {
			return "exchange-io", err.Error()
		}
		_, got, err := c.Read(ctx)
		if err != nil {
			return "peer-message-undecodable", fmt.Sprintf("message %d from a peer that uses its negotiated rights (compression=%v, peer keeps context=%v) failed: %v", i, n.Enabled, peerWriterTakeover, err)
		}
		if !bytes.Equal(got, p) {
			return "peer-message-corrupted", fmt.Sprintf("message %d decoded to different bytes", i)
		}
	}
	// library → peer
	inf := &rawInflater{takeover: libWriterTakeover}
	for i := 0; i < 4; i++ {
		p := historyMsg(i+1, 700+150*i)
		errc := make(chan error, 1)
		go func() { errc <- c.Write(ctx, websocket.MessageText, p) }()
		var payload []byte
		rsv1 := false
		for {
			f, err := peer.readFrame(5 * time.Second)
			if err != nil {
				return "exchange-io", "reading the library's frames: " + err.Error()
			}
			if f.Op == 1 {
				rsv1 = f.Rsv1
			}
			if f.Op <= 2 {
				payload = append(payload, f.Payload...)
				if f.Fin {
					break
				}
			}
		}
		if err := <-errc; err != nil {
			return "exchange-io", "library write: " + err.Error()
		}
		if rsv1 && !n.Enabled {
			return "compressed-without-agreement", "the library sent a compressed message although the handshake did not agree on permessage-deflate"
		}
		got := payload
		if rsv1 {
			var err error
			got, err = inf.message(payload)
			if err != nil {
				return "library-message-undecodable", fmt.Sprintf("message %d from the library does not inflate under the negotiated parameters (library keeps context allowed=%v): %v", i, libWriterTakeover, err)
			}
		}
		if !bytes.Equal(got, p) {
			return "library-message-corrupted", fmt.Sprintf("message %d from the library decodes to different bytes", i)
		}
	}
	return "", ""
}
