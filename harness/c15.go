package main

import (
	"bytes"
	"context"
	"encoding/hex"
	"fmt"
	"sort"
	"sync"
	"time"

	"nhooyr.io/websocket"
)

func init() { runners["C15"] = runC15 }

type pingCase struct {
	Client   bool   `json:"client"`
	N        int    `json:"n"`
	Policy   string `json:"policy"`   // reverse | duplicate | withhold | foreign-first | shuffle
	Withhold []int  `json:"withhold"` // indices of pings whose pong is never sent
	Reader   string `json:"reader"`   // closeread | reader
	Seed     int64  `json:"seed"`
}

// runPingCase: N outstanding Ping calls; the peer answers according to the policy.
func runPingCase(pc pingCase) (string, string) {
	rng := newRng(pc.Seed, "pingcase")
	c, peer, pend := newConnPair(pc.Client)
	defer pend.Close()
	defer c.CloseNow()
	bg, cancelAll := context.WithCancel(context.Background())
	defer cancelAll()
	if pc.Reader == "closeread" {
		c.CloseRead(bg)
	} else {
		go func() {
			for {
				if _, _, err := c.Read(bg); err != nil {
					return
				}
			}
		}()
	}
	type result struct {
		err error
		at  time.Time
	}
	results := make([]result, pc.N)
	payloads := make([]string, pc.N)
	var wg sync.WaitGroup
	wait := 400 * time.Millisecond
	withheld := map[int]bool{}
	for _, w := range pc.Withhold {
		withheld[w] = true
	}
	for i := 0; i < pc.N; i++ {
		wg.Add(1)
		go func(i int) {
			defer wg.Done()
			ctx, cancel := context.WithTimeout(bg, wait+time.Duration(pc.N)*20*time.Millisecond)
			defer cancel()
			err := c.Ping(ctx)
			results[i] = result{err, time.Now()}
		}(i)
		// wait for this ping's frame so that call i ↔ payload is known
		f, err := peer.readFrame(5 * time.Second)
		if err != nil || f.Op != 9 {
			return "ping-frame-missing", fmt.Sprintf("ping %d: frame %+v err %v", i, f, err)
		}
		payloads[i] = string(f.Payload)
	}
	seen := map[string]bool{}
	for _, p := range payloads {
		if seen[p] {
			return "ping-payload-reused", fmt.Sprintf("two outstanding pings share payload %q", p)
		}
		seen[p] = true
	}
	order := make([]int, 0, pc.N)
	for i := 0; i < pc.N; i++ {
		if !withheld[i] {
			order = append(order, i)
		}
	}
	switch pc.Policy {
	case "reverse":
		sort.Sort(sort.Reverse(sort.IntSlice(order)))
	case "shuffle":
		rng.Shuffle(len(order), func(a, b int) { order[a], order[b] = order[b], order[a] })
	}
	sentAt := map[int]time.Time{}
	if pc.Policy == "foreign-first" {
		// unsolicited pongs: payloads nobody is waiting for, and the empty payload
		peer.writeFrame(RawFrame{Fin: true, Op: 10, Payload: []byte("9999999")})
		peer.writeFrame(RawFrame{Fin: true, Op: 10, Payload: nil})
		peer.writeFrame(RawFrame{Fin: true, Op: 10, Payload: []byte("x" + payloads[0])})
		time.Sleep(30 * time.Millisecond)
		for i := range results {
			if !results[i].at.IsZero() && results[i].err == nil {
				return "ping-released-by-foreign-pong", fmt.Sprintf("ping %d (%q) returned nil after pongs with other payloads only", i, payloads[i])
			}
		}
	}
	for _, i := range order {
		sentAt[i] = time.Now()
		peer.writeFrame(RawFrame{Fin: true, Op: 10, Payload: []byte(payloads[i])})
		if pc.Policy == "duplicate" {
			peer.writeFrame(RawFrame{Fin: true, Op: 10, Payload: []byte(payloads[i])})
		}
		time.Sleep(time.Millisecond)
	}
	wg.Wait()
	for i, r := range results {
		if withheld[i] {
			if r.err == nil {
				return "ping-returned-without-own-pong", fmt.Sprintf("ping %d (%q) returned nil although its pong was withheld (policy %s)", i, payloads[i], pc.Policy)
			}
		} else {
			if r.err != nil {
				return "ping-failed-despite-pong", fmt.Sprintf("ping %d (%q) returned %v although its pong was sent (policy %s)", i, payloads[i], r.err, pc.Policy)
			}
		}
	}
	// the connection must still be usable (duplicates / unsolicited pongs are ignored)
	ctx, cancel := context.WithTimeout(bg, 2*time.Second)
	defer cancel()
	done := make(chan error, 1)
	go func() { done <- c.Ping(ctx) }()
	f, err := peer.readFrame(3 * time.Second)
	if err != nil || f.Op != 9 {
		return "connection-dead-after-pongs", fmt.Sprintf("follow-up ping not sent: %v", err)
	}
	peer.writeFrame(RawFrame{Fin: true, Op: 10, Payload: f.Payload})
	if err := <-done; err != nil {
		return "connection-dead-after-pongs", "follow-up ping failed: " + err.Error()
	}
	return "", ""
}

func runC15(ctx *runCtx) {
	rep := ctx.rep
	rep.Rule = "receive side: streams with Ping frames of every payload length 0..125 placed before, between and inside fragmented (compressed) messages, runs of adjacent Pings arriving in one piece, read by an explicit reader; ground truth: one Pong per Ping, same payload, same order, nothing for Pongs. " +
		"Ping API: 1..12 outstanding Ping calls against a raw peer that answers in reverse / shuffled order, duplicates pongs, withholds some, or sends foreign and unsolicited pongs first; each call must return nil iff its own pong was sent; both roles; CloseRead or explicit reader. Ping registry programs (calls starting, Pongs with own / other calls' / future / look-alike / non-UTF-8 / empty payloads arriving, calls giving up, in generated orders) against by-construction ground truth and the Lean registry model. distinct = case tuple"
	if ctx.replay != "" {
		var pp pingProg
		if err := loadReplay(ctx.replay, &pp); err == nil && len(pp.Evs) > 0 {
			var l, w2 string
			if sh, w := runPingProg(pp, &l, &w2); sh != "" {
				rep.violate(Violation{Kind: "property", Shape: sh, What: w, Replay: pp})
			}
			rep.eval("replay")
			return
		}
		var pc pingCase
		if err := loadReplay(ctx.replay, &pc); err == nil && pc.N > 0 {
			if sh, w := runPingCase(pc); sh != "" {
				rep.violate(Violation{Kind: "property", Shape: sh, What: w, Replay: pc})
			}
			rep.eval("replay")
			return
		}
		if replayRead(ctx) {
			return
		}
	}
	// started now, collected at the end: two connections that stay silent for 5.3 s before a Ping arrives
	type idleRes struct {
		client, inside bool
		sh, w          string
	}
	idle := make(chan idleRes, 4)
	idleN := 0
	for _, client := range []bool{true, false} {
		inside := client // one role with the CloseRead reader, the other with an explicit reader inside a message
		idleN++
		go func(client, inside bool) {
			sh, w := guarded(30*time.Second, func() (string, string) { return pingAfterIdle(client, inside) })
			idle <- idleRes{client, inside, sh, w}
		}(client, inside)
	}
	defer func() {
		for i := 0; i < idleN; i++ {
			r := <-idle
			rep.eval(fmt.Sprintf("ping-after-idle/%v/%v", r.client, r.inside))
			rep.count("ping-after-idle")
			if r.sh != "" {
				rep.violate(Violation{Kind: "property", Shape: r.sh, What: r.w, Replay: map[string]interface{}{"scenario": "ping-after-idle", "client": r.client, "inside_message": r.inside}})
			}
		}
	}()
	// Ping returns once its context ends also when its frame cannot be written: the peer does not drain the transport, or a
	// data write is stuck in it and holds the frame lock
	for _, client := range []bool{true, false} {
		for _, behind := range []bool{false, true} {
			client, behind := client, behind
			sh, w := guarded(30*time.Second, func() (string, string) { return pingUnwritable(client, behind) })
			rep.eval(fmt.Sprintf("ping-unwritable/%v/%v", client, behind))
			rep.count("ping-unwritable")
			if sh != "" {
				rep.violate(Violation{Kind: "property", Shape: sh, What: w, Replay: map[string]interface{}{"scenario": "ping-unwritable", "client": client, "behind_stuck_write": behind}})
			}
		}
	}
	rng := newRng(ctx.seed, "c15")
	// receive side
	var cases []*ReadCase
	n := 400
	if ctx.thorough() {
		n = 5000
	}
	for i := 0; i < n; i++ {
		o := randOpts(rng, 3000)
		o.CtlProb = 0.8
		o.BFinalProb = 0
		gs := buildValid(rng, o)
		// make ping payload lengths systematic: frame k's ping gets length (i+k) mod 126
		k := 0
		for j := range gs.Frames {
			if gs.Frames[j].Ping {
				gs.Frames[j].F.Payload = randBytes(rng, (i+k)%126)
				k++
			}
		}
		c := baseCase(rng, o, "pings")
		b, _ := gs.encode()
		c.Stream = hex.EncodeToString(b)
		c.Exp = gs.expectPrefix(len(gs.Frames), "end of stream at a frame boundary")
		cases = append(cases, c)
	}
	// runs of adjacent Pings that reach the library in one piece (the next Ping is already buffered when the
	// previous one is answered): before a message, between two fragments, after the last message
	for i := 0; i < 24; i++ {
		client := i%2 == 0
		mk := func(f RawFrame) []byte {
			f.Masked, f.Key = !client, [4]byte{byte(i), 2, 3, 4}
			return f.Encode()
		}
		var stream []byte
		var pongs []string
		run := func() {
			for k := 2 + rng.Intn(3); k > 0; k-- {
				p := randBytes(rng, []int{0, 1, 3, 125, rng.Intn(126)}[rng.Intn(5)])
				stream = append(stream, mk(RawFrame{Fin: true, Op: 9, Payload: p})...)
				pongs = append(pongs, hx(p))
			}
		}
		body := randBytes(rng, 40)
		where := i % 3
		if where == 0 {
			run()
		}
		stream = append(stream, mk(RawFrame{Fin: false, Op: 2, Payload: body[:20]})...)
		if where == 1 {
			run()
		}
		stream = append(stream, mk(RawFrame{Fin: true, Op: 0, Payload: body[20:]})...)
		if where == 2 {
			run()
		}
		c := &ReadCase{Desc: fmt.Sprintf("adjacent pings (position %d)", where), Client: client, Term: "eof", Chunks: nil, Bufs: []int{4096},
			Stream: hex.EncodeToString(stream)}
		c.Exp = Expect{Why: "end of stream at a frame boundary", Msgs: []ExpMsg{{Typ: 2, Data: hx(body)}}, Pongs: pongs}
		cases = append(cases, c)
	}
	runReadCases(ctx, cases, func(c *ReadCase) string { return "pings" })
	// Ping API
	var pcs []pingCase
	policies := []string{"reverse", "shuffle", "duplicate", "withhold", "foreign-first"}
	reps := 2
	if ctx.thorough() {
		reps = 12
	}
	for r := 0; r < reps; r++ {
		for _, pol := range policies {
			for _, client := range []bool{true, false} {
				for _, reader := range []string{"closeread", "reader"} {
					nn := 1 + rng.Intn(12)
					pc := pingCase{Client: client, N: nn, Policy: pol, Reader: reader, Seed: ctx.seed + int64(len(pcs))}
					if pol == "withhold" || rng.Intn(3) == 0 {
						for j := 0; j < nn; j++ {
							if rng.Intn(3) == 0 {
								pc.Withhold = append(pc.Withhold, j)
							}
						}
						if pol == "withhold" && len(pc.Withhold) == 0 {
							pc.Withhold = []int{rng.Intn(nn)}
						}
					}
					pcs = append(pcs, pc)
				}
			}
		}
	}
	type res struct {
		i     int
		sh, w string
	}
	out := make(chan res, len(pcs))
	sem := make(chan struct{}, 16)
	for i := range pcs {
		sem <- struct{}{}
		go func(i int) {
			defer func() { <-sem }()
			sh, w := guarded(30*time.Second, func() (string, string) { return runPingCase(pcs[i]) })
			out <- res{i, sh, w}
		}(i)
	}
	for range pcs {
		r := <-out
		pc := pcs[r.i]
		rep.eval(fmt.Sprintf("pingapi/%v/%d/%s/%v/%s", pc.Client, pc.N, pc.Policy, pc.Withhold, pc.Reader))
		rep.count("pingapi:" + pc.Policy)
		if r.sh != "" {
			rep.violate(Violation{Kind: "property", Shape: r.sh, What: r.w, Replay: pc})
		}
	}
	rep.sample(pcs[0])
	_ = websocket.MessageText
	// Ping registry programs vs ground truth and the Lean registry model
	np := 40
	if ctx.thorough() {
		np = 600
	}
	progs := make([]pingProg, np)
	for i := range progs {
		progs[i] = genPingProg(rng)
	}
	type pres struct {
		i                int
		sh, w, line, exp string
	}
	pout := make(chan pres, len(progs))
	psem := make(chan struct{}, 8)
	for i := range progs {
		psem <- struct{}{}
		go func(i int) {
			defer func() { <-psem }()
			r := pres{i: i}
			var line, want string
			r.sh, r.w = guarded(40*time.Second, func() (string, string) { return runPingProg(progs[i], &line, &want) })
			if r.sh != "case-hangs" {
				r.line, r.exp = line, want
			}
			pout <- r
		}(i)
	}
	var lines, expect, what []string
	for range progs {
		r := <-pout
		pp := progs[r.i]
		rep.eval(fmt.Sprintf("pingprog/%v/%s/%v", pp.Client, pp.Reader, pp.Evs))
		rep.count("pingprog")
		if r.sh != "" {
			rep.violate(Violation{Kind: "property", Shape: r.sh, What: r.w, Replay: pp})
			continue
		}
		if r.line != "" {
			lines, expect, what = append(lines, r.line), append(expect, r.exp), append(what, fmt.Sprintf("ping registry program %+v", pp))
		}
	}
	askAndCompare(ctx, lines, expect, what, "ping-registry-model-vs-impl")
	// pings received while Close waits for the peer's Close frame
	for _, client := range []bool{false, true} {
		for _, reader := range []string{"close", "closeread", "reader"} {
			for _, lens := range [][]int{{0}, {5, 125, 1}} {
				client, reader, lens := client, reader, lens
				sh, w := guarded(30*time.Second, func() (string, string) { return pingDuringCloseWait(client, reader, lens) })
				rep.eval(fmt.Sprintf("ping-during-close-wait/%v/%s/%v", client, reader, lens))
				rep.count("ping-during-close-wait")
				if sh != "" {
					rep.violate(Violation{Kind: "property", Shape: sh, What: w, Replay: map[string]interface{}{"scenario": "ping-during-close-wait", "client": client, "reader": reader, "payload_lengths": lens}})
				}
			}
		}
	}
	rep.sample(progs[0])
}

// pingDuringCloseWait: the endpoint has sent its Close frame and waits for the peer's; the peer has not received…
// sent a Close frame yet and pings (RFC 6455 5.5.2: a Ping is answered unless a Close frame was already *received*).
// Whoever is doing the reading then - Close itself, the CloseRead goroutine, an explicit reader - the pings must be
// answered with their payloads, in order, before the peer's Close ends the handshake.
func pingDuringCloseWait(client bool, reader string, lens []int) (string, string) {
	a, b := newPipe()
	c := websocket.VerifNewConn(a, client, websocket.VerifCopts{}, 0)
	peer := newRawPeer(b, !client)
	defer b.Close()
	defer c.CloseNow()
	desc := fmt.Sprintf("pings while the endpoint waits for the peer's Close frame: client=%v reader=%s payload lengths %v", client, reader, lens)
	bg, cancel := context.WithTimeout(context.Background(), 10*time.Second)
	defer cancel()
	switch reader {
	case "closeread":
		c.CloseRead(bg)
	case "reader":
		go func() {
			for {
				if _, _, err := c.Read(bg); err != nil {
					return
				}
			}
		}()
	}
	closeRet := make(chan error, 1)
	go func() { closeRet <- c.Close(websocket.StatusNormalClosure, "bye") }()
	f, err := peer.readFrame(2 * time.Second)
	if err != nil || f.Op != 8 {
		return "no-close-frame", fmt.Sprintf("%s: the peer did not receive the Close frame (%v, %+v)", desc, err, f)
	}
	for i, n := range lens {
		p := bytes.Repeat([]byte{byte('a' + i)}, n)
		peer.writeFrame(RawFrame{Fin: true, Op: 9, Payload: p})
		g, err := peer.readFrame(1500 * time.Millisecond)
		if err != nil {
			return "ping-unanswered-during-close-wait", fmt.Sprintf("%s: ping %d (%d bytes) sent after the endpoint's Close frame and before the peer's was not answered: %v", desc, i, n, err)
		}
		if g.Op != 10 || !bytes.Equal(g.Payload, p) {
			return "wrong-pong-during-close-wait", fmt.Sprintf("%s: ping %d answered by frame op=%d payload %q", desc, i, g.Op, trunc(string(g.Payload), 40))
		}
	}
	peer.writeFrame(RawFrame{Fin: true, Op: 8, Payload: f.Payload})
	select {
	case err := <-closeRet:
		if err != nil {
			return "close-failed-after-pings", fmt.Sprintf("%s: Close returned %v although the peer echoed its Close frame", desc, err)
		}
	case <-time.After(8 * time.Second):
		return "close-hangs-after-pings", desc + ": Close did not return after the peer's Close frame"
	}
	return "", ""
}

// pingAfterIdle: a connection whose reader (the CloseRead goroutine, or an explicit Reader inside a fragmented message) has
// been waiting for more than five seconds — longer than the time the library allows itself for handling one control
// frame — receives a Ping: the Pong comes back and the connection stays usable. (The allowance is per control frame,
// counted from its arrival, not from the moment the reader started to wait.)
func pingAfterIdle(client bool, insideMessage bool) (string, string) {
	a, b := newPipe()
	c := websocket.VerifNewConn(a, client, websocket.VerifCopts{}, 0)
	peer := newRawPeer(b, !client)
	defer b.Close()
	defer c.CloseNow()
	desc := fmt.Sprintf("ping-after-idle client=%v inside-message=%v", client, insideMessage)
	bg, cancel := context.WithTimeout(context.Background(), 20*time.Second)
	defer cancel()
	if insideMessage {
		peer.writeFrame(RawFrame{Fin: false, Op: 1, Payload: []byte("first fragment")})
		go func() {
			if _, r, err := c.Reader(bg); err == nil {
				buf := make([]byte, 64)
				for {
					if _, err := r.Read(buf); err != nil {
						return
					}
				}
			}
		}()
	} else {
		c.CloseRead(bg)
	}
	time.Sleep(5300 * time.Millisecond)
	peer.writeFrame(RawFrame{Fin: true, Op: 9, Payload: []byte("after the pause")})
	f, err := peer.readFrame(3 * time.Second)
	if err != nil || f.Op != 10 || string(f.Payload) != "after the pause" {
		return "ping-not-answered", fmt.Sprintf("%s: a Ping received after 5.3 s of silence got %+v, %v instead of its Pong", desc, f, err)
	}
	wctx, wcancel := context.WithTimeout(context.Background(), 2*time.Second)
	defer wcancel()
	if err := c.Write(wctx, websocket.MessageText, []byte("still here")); err != nil {
		return "ping-not-answered", fmt.Sprintf("%s: the connection is unusable after a Ping that followed 5.3 s of silence: %v", desc, err)
	}
	return "", ""
}

// pingUnwritable: the ping frame cannot leave — the transport accepts nothing (optionally a 64 KiB Write is already stuck in it,
// holding the frame lock) — and the Ping's context ends after 150 ms: the call must come back with an error soon after.
func pingUnwritable(client, behindStuckWrite bool) (string, string) {
	a, b := newPipe()
	a.blockWrites = true
	c := websocket.VerifNewConn(a, client, websocket.VerifCopts{}, 0)
	defer b.Close()
	defer c.CloseNow()
	bg, cancel := context.WithTimeout(context.Background(), 20*time.Second)
	defer cancel()
	c.CloseRead(bg)
	if behindStuckWrite {
		go c.Write(bg, websocket.MessageBinary, make([]byte, 1<<16))
		time.Sleep(40 * time.Millisecond)
	}
	pctx, pc := context.WithTimeout(bg, 150*time.Millisecond)
	defer pc()
	t0 := time.Now()
	done := make(chan error, 1)
	go func() { done <- c.Ping(pctx) }()
	select {
	case err := <-done:
		if err == nil {
			return "ping-succeeds-without-pong", fmt.Sprintf("client=%v: Ping returned nil although its frame could not even be written", client)
		}
		if d := time.Since(t0); d > 2*time.Second {
			return "ping-outlives-its-context", fmt.Sprintf("client=%v behind-stuck-write=%v: Ping under a 150 ms context returned after %v (%v)", client, behindStuckWrite, d, err)
		}
	case <-time.After(4 * time.Second):
		return "ping-outlives-its-context", fmt.Sprintf("client=%v behind-stuck-write=%v: Ping under a 150 ms context had not returned after 4 s (its frame cannot be written: the peer does not read)", client, behindStuckWrite)
	}
	return "", ""
}
