package main

import "io"

func io_multi(rs ...io.Reader) io.Reader { return io.MultiReader(rs...) }
