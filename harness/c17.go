package main

import (
	"bytes"
	"fmt"
	"math/bits"
	"runtime/debug"

	"nhooyr.io/websocket"
)

// C17: masking.  Oracle written from the property text (independent of maskGo).
func specMask(b []byte, key uint32) ([]byte, uint32) {
	out := make([]byte, len(b))
	for i, x := range b {
		out[i] = x ^ byte(key>>(8*uint(i%4)))
	}
	return out, bits.RotateLeft32(key, -8*(len(b)%4))
}

type maskCase struct {
	Impl  string `json:"impl"` // maskGo | mask | maskAsm
	Len   int    `json:"len"`
	Align int    `json:"align"`
	Key   uint32 `json:"key"`
	Seed  int64  `json:"content_seed"`
	Split []int  `json:"split,omitempty"` // piece boundaries
	// SpareCap: the slice handed to the implementation has capacity beyond its length (buf[a:b] of a larger
	// array, as callers' buffers usually are); the bytes after it are guard bytes all the same
	SpareCap bool `json:"spare_cap,omitempty"`
	// Page: "after" / "before": the buffer lies flush against an inaccessible page that follows / precedes it
	Page string `json:"guard_page,omitempty"`
}

const guard = 64

func implMask(name string) func([]byte, uint32) uint32 {
	switch name {
	case "maskGo":
		return websocket.VerifMaskGo
	case "mask":
		return websocket.VerifMask
	case "maskAsm":
		return websocket.VerifMaskAsm
	}
	return nil
}

// runMaskCase executes one case on the implementation; returns "" or a description of the failure.
func runMaskCase(c maskCase) (got []byte, gotKey uint32, in []byte, fail string) {
	rng := newRng(c.Seed, "c17content")
	// over-allocate so that the start alignment and guard zones can be controlled
	raw := make([]byte, c.Len+2*guard+128)
	rng.Read(raw)
	base := 0
	for (uintptrOf(raw)+uintptr(base+guard))%64 != uintptr(c.Align) {
		base++
	}
	buf := raw[base+guard : base+guard+c.Len : base+guard+c.Len]
	if c.SpareCap {
		buf = raw[base+guard : base+guard+c.Len]
	}
	in = append([]byte(nil), buf...)
	before := append([]byte(nil), raw...)
	f := implMask(c.Impl)
	key := c.Key
	func() {
		// an invalid memory access (e.g. an aligned vector move on an unaligned address) must show up as this
		// case's failure, not kill the process
		defer debug.SetPanicOnFault(debug.SetPanicOnFault(true))
		defer func() {
			if r := recover(); r != nil {
				fail = fmt.Sprintf("panic: %v", r)
			}
		}()
		if len(c.Split) == 0 {
			key = f(buf, key)
		} else {
			prev := 0
			for _, s := range append(append([]int{}, c.Split...), c.Len) {
				if c.SpareCap {
					key = f(buf[prev:s], key)
				} else {
					key = f(buf[prev:s:s], key)
				}
				prev = s
			}
		}
	}()
	if fail != "" {
		return nil, 0, in, fail
	}
	got = append([]byte(nil), buf...)
	// guard bytes untouched
	if !bytes.Equal(raw[:base+guard], before[:base+guard]) || !bytes.Equal(raw[base+guard+c.Len:], before[base+guard+c.Len:]) {
		fail = "memory outside the buffer was modified"
	}
	return got, key, in, fail
}

func init() { runners["C17"] = runC17 }

func runC17(ctx *runCtx) {
	rep := ctx.rep
	rep.Rule = "cases = impl x length x start alignment (mod 64) x key (4 distinguishable bytes) x optional split into 2/3 pieces; " +
		"every case is compared with a byte-wise oracle written from the property and guard zones are checked, with slices whose capacity ends at their length and slices with spare capacity behind them, and with the buffer flush against an inaccessible (PROT_NONE) page before or after it, faults caught; " +
		"a stratified subset is also run through the Lean spec (mask) and the regenerated Lean program (maskprog). " +
		"non-trivial = length>0; distinct key = impl/len/align/splitcount"
	rng := newRng(ctx.seed, "c17")
	impls := []string{"maskGo", "mask"}
	if websocket.VerifHaveMaskAsm {
		impls = append(impls, "maskAsm")
	}
	maxLen := 4200
	var lens []int
	var aligns []int
	if ctx.thorough() {
		for l := 0; l <= maxLen; l++ {
			lens = append(lens, l)
		}
		for a := 0; a < 64; a++ {
			aligns = append(aligns, a)
		}
	} else {
		for l := 0; l <= 300; l++ {
			lens = append(lens, l)
		}
		for l := 301; l <= maxLen; l += 1 + rng.Intn(40) {
			lens = append(lens, l)
		}
		lens = append(lens, 4095, 4096, 4097, 4200)
		aligns = []int{0, 1, 2, 3, 4, 7, 8, 15, 16, 31, 32, 33, 63}
	}
	keys := []uint32{0x04030201, 0xa1b2c3d4}
	type job struct {
		c maskCase
	}
	var modelLines []string
	var modelCases []maskCase
	var modelGot [][]byte
	var modelKey []uint32
	check := func(c maskCase) {
		var got, in []byte
		var gotKey uint32
		var fail string
		if c.Page != "" {
			var skipped bool
			if got, gotKey, in, fail, skipped = runMaskPageCase(c); skipped {
				rep.count("guard-page-skipped")
				return
			}
			rep.count("guard-page:" + c.Page)
		} else {
			got, gotKey, in, fail = runMaskCase(c)
		}
		nt := ""
		if c.Len > 0 {
			nt = fmt.Sprintf("%s/%d/%d/%d", c.Impl, c.Len, c.Align, len(c.Split))
		}
		rep.eval(nt)
		rep.count("impl:" + c.Impl)
		rep.count(fmt.Sprintf("pieces:%d", len(c.Split)+1))
		if fail == "" {
			want, wantKey := specMask(in, c.Key)
			if !bytes.Equal(got, want) {
				fail = "masked bytes differ from byte-wise XOR definition"
			} else if gotKey != wantKey {
				fail = fmt.Sprintf("returned key %#x, want %#x", gotKey, wantKey)
			}
		}
		if fail != "" {
			rep.violate(Violation{Kind: "property", Shape: c.Impl + ":" + shapeOf(fail), What: fmt.Sprintf("%s len=%d align=%d key=%#x split=%v: %s", c.Impl, c.Len, c.Align, c.Key, c.Split, fail), Replay: c})
			return
		}
		// model sample: all short lengths at align 0, plus a stratified sample
		if ctx.drv != nil && len(c.Split) == 0 && c.Impl == "maskGo" && c.Align == aligns[0] && (c.Len <= 300 || c.Len%97 == 0 || c.Len >= 4090) {
			modelLines = append(modelLines, fmt.Sprintf("mask %d %s", c.Key, hx(in)), fmt.Sprintf("maskprog %d %s", c.Key, hx(in)))
			modelCases = append(modelCases, c)
			modelGot = append(modelGot, got)
			modelKey = append(modelKey, gotKey)
		}
	}
	cs := int64(0)
	// screening pass: every implementation first runs inside the guarded arena (a buffer that ends 0..7 bytes before an
	// inaccessible page, so every start alignment mod 8 occurs): an implementation that runs past its buffer there faults and is
	// caught, and is then kept away from the ordinary heap, where the same defect would corrupt the harness itself
	unsafeImpl := map[string]bool{}
	for _, impl := range impls {
		for _, l := range lens {
			for gap := 0; gap < 8; gap++ {
				if l > 300 && (l%8 != 0 || gap%2 == 0) && l%97 != 0 {
					continue
				}
				cs++
				nv := rep.nviol()
				check(maskCase{Impl: impl, Len: l, Align: gap, Key: keys[int(cs)%len(keys)], Seed: ctx.seed + cs, Page: "after"})
				if rep.nviol() > nv {
					unsafeImpl[impl] = true
				}
			}
			if unsafeImpl[impl] {
				break
			}
		}
	}
	for _, impl := range impls {
		if unsafeImpl[impl] {
			rep.count("heap-grid-skipped:" + impl)
			continue
		}
		for _, l := range lens {
			for _, a := range aligns {
				cs++
				k := keys[int(cs)%len(keys)]
				check(maskCase{Impl: impl, Len: l, Align: a, Key: k, Seed: ctx.seed + cs})
				if l < 140 || cs%7 == 0 {
					check(maskCase{Impl: impl, Len: l, Align: a, Key: k, Seed: ctx.seed + cs, SpareCap: true})
				}
			}
		}
	}
	// the same lengths with the buffer flush against an inaccessible page on either side
	for _, impl := range impls {
		for _, l := range lens {
			for _, pg := range []string{"after", "before"} {
				cs++
				check(maskCase{Impl: impl, Len: l, Key: keys[int(cs)%len(keys)], Seed: ctx.seed + cs, Page: pg})
			}
		}
	}
	// splits: every 2-split of lengths up to L2, sampled 3-splits
	l2 := 96
	n3 := 3000
	if ctx.thorough() {
		l2 = 300
		n3 = 60000
	}
	for _, impl := range impls {
		if unsafeImpl[impl] {
			continue
		}
		for l := 1; l <= l2; l++ {
			for s := 0; s <= l; s++ {
				cs++
				check(maskCase{Impl: impl, Len: l, Align: int(cs) % 64, Key: keys[int(cs)%2], Seed: ctx.seed + cs, Split: []int{s}, SpareCap: cs%2 == 0})
			}
		}
		for i := 0; i < n3; i++ {
			l := 1 + rng.Intn(maxLen)
			if i%2 == 0 {
				l = 1 + rng.Intn(200)
			}
			s1 := rng.Intn(l + 1)
			s2 := s1 + rng.Intn(l-s1+1)
			cs++
			check(maskCase{Impl: impl, Len: l, Align: rng.Intn(64), Key: rng.Uint32(), Seed: ctx.seed + cs, Split: []int{s1, s2}})
		}
	}
	rep.sample(maskCase{Impl: "maskGo", Len: 131, Align: 3, Key: keys[0], Seed: ctx.seed})
	rep.sample(maskCase{Impl: impls[len(impls)-1], Len: 77, Align: 17, Key: keys[1], Seed: ctx.seed, Split: []int{5, 40}})
	// model correspondence
	if ctx.drv != nil {
		ans, err := ctx.drv.Ask(modelLines)
		if err != nil {
			rep.violate(Violation{Kind: "correspondence", Shape: "driver-failed", What: err.Error(), Replay: nil})
			return
		}
		for i, c := range modelCases {
			want := fmt.Sprintf("ok %s %d", hx(modelGot[i]), modelKey[i])
			rep.count("model-compared")
			for j, which := range []string{"Spec.mask", "Gen.maskGo"} {
				if ans[2*i+j] != want {
					rep.Disagree++
					rep.violate(Violation{Kind: "correspondence", Shape: "model-vs-impl:" + which,
						What:   fmt.Sprintf("Lean %s disagrees with Go maskGo at len=%d key=%#x: model %s impl %s", which, c.Len, c.Key, trunc(ans[2*i+j], 80), trunc(want, 80)),
						Replay: c})
				}
			}
		}
	}
}

func shapeOf(fail string) string {
	switch {
	case len(fail) >= 5 && fail[:5] == "panic":
		return "panic"
	case fail == "memory outside the buffer was modified":
		return "out-of-bounds-write"
	case len(fail) >= 8 && fail[:8] == "returned":
		return "wrong-key"
	}
	return "wrong-bytes"
}
