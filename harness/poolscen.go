package main

// Targeted isolation scenarios (C07; the first also runs under C19):
//  - jsonPoolScenario: after an invalid-JSON read somewhere, overlapping wsjson.Read calls on other
//    connections must each decode their own message (the pooled bytes.Buffer must not be shared);
//  - staleWriterScenario: a client connection is closed while one of its frame writes is stuck in a
//    transport that is slow to return; connections created afterwards must not see its bytes;
//  - windowPoolScenario: see below.

import (
	"bytes"
	"compress/flate"
	"context"
	"encoding/json"
	"fmt"
	"io"
	"runtime"
	"strings"
	"sync"
	"time"

	"nhooyr.io/websocket"
	"nhooyr.io/websocket/wsjson"
)

type tagged struct {
	Owner  string `json:"owner"`
	Secret string `json:"secret"`
	Pad    string `json:"pad"`
}

func jsonPoolScenario(rounds int) (string, string) {
	for r := 0; r < rounds; r++ {
		// 1. an invalid document on a throw-away connection
		{
			a, b := newPipe()
			c := websocket.VerifNewConn(a, false, websocket.VerifCopts{}, 0)
			peer := newRawPeer(b, true)
			peer.writeFrame(RawFrame{Fin: true, Op: 1, Payload: []byte(`{"broken":`)})
			go func() { // answer the 1007 close by going away, so that Close does not wait 5 s
				for {
					f, err := peer.readFrame(3 * time.Second)
					if err != nil || f.Op == 8 {
						b.Close()
						return
					}
				}
			}()
			ctx, cancel := context.WithTimeout(context.Background(), 2*time.Second)
			var v interface{}
			wsjson.Read(ctx, c, &v)
			cancel()
			c.CloseNow()
			b.Close()
		}
		// 2. N connections read fragmented messages at overlapping times
		const n = 4
		type ep struct {
			c    *websocket.Conn
			peer *rawPeer
			end  *pipeEnd
			doc  tagged
		}
		var eps []ep
		for i := 0; i < n; i++ {
			a, b := newPipe()
			c := websocket.VerifNewConn(a, i%2 == 0, websocket.VerifCopts{}, 0)
			eps = append(eps, ep{c, newRawPeer(b, i%2 != 0), b, tagged{Owner: fmt.Sprintf("conn-%d-round-%d", i, r), Secret: fmt.Sprintf("secret-%d-%d", i, r), Pad: string(make([]byte, 0))}})
		}
		docs := make([][]byte, n)
		for i := range eps {
			docs[i] = []byte(fmt.Sprintf(`{"owner":%q,"secret":%q,"pad":%q}`, eps[i].doc.Owner, eps[i].doc.Secret, historyMsg(i, 300+50*i)))
			h := len(docs[i]) / 2
			eps[i].peer.writeFrame(RawFrame{Fin: false, Op: 1, Payload: docs[i][:h]})
		}
		results := make([]tagged, n)
		errs := make([]error, n)
		var wg sync.WaitGroup
		for i := range eps {
			wg.Add(1)
			go func(i int) {
				defer wg.Done()
				ctx, cancel := context.WithTimeout(context.Background(), 5*time.Second)
				defer cancel()
				errs[i] = wsjson.Read(ctx, eps[i].c, &results[i])
			}(i)
		}
		time.Sleep(3 * time.Millisecond) // all readers hold their buffers now
		for i := range eps {
			h := len(docs[i]) / 2
			eps[i].peer.writeFrame(RawFrame{Fin: true, Op: 0, Payload: docs[i][h:]})
		}
		wg.Wait()
		var bad string
		for i := range eps {
			if errs[i] != nil {
				bad = fmt.Sprintf("round %d: connection %d: wsjson.Read failed: %v", r, i, errs[i])
			} else if results[i].Owner != eps[i].doc.Owner || results[i].Secret != eps[i].doc.Secret {
				bad = fmt.Sprintf("round %d: connection %d decoded owner=%q secret=%q, its own message says owner=%q secret=%q", r, i, results[i].Owner, results[i].Secret, eps[i].doc.Owner, eps[i].doc.Secret)
			}
			eps[i].c.CloseNow()
			eps[i].end.Close()
		}
		if bad != "" {
			return "json-buffer-shared-between-connections", bad
		}
	}
	return "", ""
}

// stuckRWC: Write blocks until released and ignores Close (a transport that is slow to return).
type stuckRWC struct {
	release chan struct{}
	wrote   chan struct{}
	once    sync.Once
	closed  chan struct{}
	co      sync.Once
}

func (s *stuckRWC) Read(p []byte) (int, error) { <-s.closed; return 0, io.ErrClosedPipe }
func (s *stuckRWC) Write(p []byte) (int, error) {
	s.once.Do(func() { close(s.wrote) })
	<-s.release
	return len(p), nil // slow, not failing: the writer goes on after it returns
}
func (s *stuckRWC) Close() error { s.co.Do(func() { close(s.closed) }); return nil }

// With failedPing, a keep-alive Ping with a short deadline gives up first while the write holds the frame lock: a
// lock attempt that fails must leave the lock with its holder, or CloseNow hands the writer's buffers to the pool.
func staleWriterScenario(rounds int, failedPing bool) (string, string) {
	// sync.Pool hands an object back to the P that released it: one P makes the reuse that the
	// scenario is about certain instead of likely
	defer runtime.GOMAXPROCS(runtime.GOMAXPROCS(1))
	for r := 0; r < rounds; r++ {
		st := &stuckRWC{release: make(chan struct{}), wrote: make(chan struct{}), closed: make(chan struct{})}
		a := websocket.VerifNewConn(st, true, websocket.VerifCopts{}, 0)
		big := make([]byte, 3*4096+100)
		for i := range big {
			big[i] = 0xAA
		}
		wdone := make(chan struct{})
		go func() {
			defer close(wdone)
			ctx, cancel := context.WithTimeout(context.Background(), 10*time.Second)
			defer cancel()
			a.Write(ctx, websocket.MessageBinary, big)
		}()
		select {
		case <-st.wrote:
		case <-time.After(2 * time.Second):
			return "", "" // the write did not reach the transport; nothing to test
		}
		if failedPing {
			pctx, pcancel := context.WithTimeout(context.Background(), 30*time.Millisecond)
			err := a.Ping(pctx)
			pcancel()
			if err == nil {
				return "ping-succeeded-on-stalled-transport", "Ping returned nil while the transport accepted nothing"
			}
		}
		cdone := make(chan struct{})
		go func() { defer close(cdone); a.CloseNow() }()
		time.Sleep(10 * time.Millisecond)
		// new client connections: none of them may see 0xAA bytes
		const n = 6
		var peers []*rawPeer
		var conns []*websocket.Conn
		var ends []*pipeEnd
		for i := 0; i < n; i++ {
			x, y := newPipe()
			conns = append(conns, websocket.VerifNewConn(x, true, websocket.VerifCopts{}, 0))
			peers = append(peers, newRawPeer(y, false))
			ends = append(ends, y)
		}
		close(st.release) // the stuck write returns; the stale writer goes on
		<-wdone
		ctx, cancel := context.WithTimeout(context.Background(), 5*time.Second)
		var bad string
		for i, c := range conns {
			msg := []byte(fmt.Sprintf("own-message-of-connection-%d", i))
			for k := 0; k < 3; k++ {
				if err := c.Write(ctx, websocket.MessageText, msg); err != nil {
					bad = fmt.Sprintf("round %d: write on fresh connection %d failed: %v", r, i, err)
				}
			}
			for k := 0; k < 3 && bad == ""; k++ {
				f, err := peers[i].readFrame(2 * time.Second)
				if err != nil || f.Op != 1 || string(f.Payload) != string(msg) {
					bad = fmt.Sprintf("round %d: the peer of fresh connection %d received frame %+v (err %v) instead of the message written: bytes of a closed connection's stale writer reached it", r, i, f, err)
				}
			}
		}
		cancel()
		for i := range conns {
			conns[i].CloseNow()
			ends[i].Close()
		}
		select {
		case <-cdone:
		case <-time.After(20 * time.Second):
			return "closenow-stuck", "CloseNow did not return after the transport write returned"
		}
		if bad != "" {
			return "stale-writer-reaches-other-connection", bad
		}
	}
	return "", ""
}

// windowPoolScenario: connections with context takeover read a tagged compressed message and are
// closed; a connection created afterwards receives a compressed message whose back-references point
// before the start of its own stream (a peer that deflates with a preset dictionary). Nothing that
// was sent on this connection determines those bytes, so the read must fail; in particular it must
// never hand out bytes of the earlier connections (their sliding windows go back to a pool).
func windowPoolScenario(rounds int) (string, string) {
	for r := 0; r < rounds; r++ {
		for _, client := range []bool{false, true} {
			for _, viaReader := range []bool{false, true} {
				for i := 0; i < 4; i++ {
					a, b := newPipe()
					c := websocket.VerifNewConn(a, client, websocket.VerifCopts{Enabled: true}, 0)
					peer := newRawPeer(b, !client)
					secret := []byte(fmt.Sprintf("conn/victim-%d-%d|", r, i))
					for len(secret) < 160 {
						secret = append(secret, byte('A'+len(secret)%26))
					}
					d := newRawDeflater(true, 6)
					peer.writeFrame(RawFrame{Fin: true, Rsv1: true, Op: 2, Payload: d.message(secret, false)})
					ctx, cancel := context.WithTimeout(context.Background(), 3*time.Second)
					_, got, err := c.Read(ctx)
					cancel()
					if err != nil || !bytes.Equal(got, secret) {
						c.CloseNow()
						b.Close()
						return "window-scenario-setup", fmt.Sprintf("victim %d: read %d bytes, %v", i, len(got), err)
					}
					if i%2 == 0 {
						c.CloseNow()
					} else {
						peer.writeFrame(RawFrame{Fin: true, Op: 8, Payload: []byte{0x03, 0xe8}})
						rctx, rc := context.WithTimeout(context.Background(), time.Second)
						c.Read(rctx)
						rc()
						c.CloseNow()
					}
					b.Close()
				}
				// the probe: 160 arbitrary bytes deflated against themselves as preset dictionary, so the stream
				// is essentially "copy 160 bytes from distance 160" at position 0
				guess := bytes.Repeat([]byte{'?'}, 160)
				var buf bytes.Buffer
				fw, _ := flate.NewWriterDict(&buf, 9, guess)
				fw.Write(guess)
				fw.Flush()
				payload := bytes.TrimSuffix(buf.Bytes(), []byte{0, 0, 0xff, 0xff})
				a, b := newPipe()
				c := websocket.VerifNewConn(a, client, websocket.VerifCopts{Enabled: true}, 0)
				peer := newRawPeer(b, !client)
				peer.writeFrame(RawFrame{Fin: true, Rsv1: true, Op: 2, Payload: payload})
				ctx, cancel := context.WithTimeout(context.Background(), 3*time.Second)
				var got []byte
				var err error
				if viaReader {
					var rd io.Reader
					_, rd, err = c.Reader(ctx)
					if err == nil {
						got, err = io.ReadAll(rd)
					}
				} else {
					_, got, err = c.Read(ctx)
				}
				cancel()
				c.CloseNow()
				b.Close()
				desc := fmt.Sprintf("client=%v reader=%v round=%d", client, viaReader, r)
				if bytes.Contains(got, []byte("conn/victim")) {
					return "foreign-bytes-returned", fmt.Sprintf("%s: a new connection's read returned %q — bytes received earlier on another, closed connection (stale sliding window used as dictionary)", desc, trunc(string(got), 60))
				}
				if err == nil {
					return "bytes-not-sent-on-connection", fmt.Sprintf("%s: a message whose back-references point before the start of the stream was read successfully (%d bytes %q)", desc, len(got), trunc(string(got), 40))
				}
			}
		}
	}
	return "", ""
}

// bigJSONScenario: a JSON document of more than a megabyte is read with wsjson.Read (limit lifted), then small
// documents are read on the same and on a fresh connection: each must decode to exactly what was sent (the
// pooled read buffer, grown large, must come back empty).
func bigJSONScenario(rounds int) (string, string) {
	for r := 0; r < rounds; r++ {
		for _, client := range []bool{false, true} {
			a, b := newPipe()
			c := websocket.VerifNewConn(a, client, websocket.VerifCopts{}, 0)
			c.SetReadLimit(-1)
			peer := newRawPeer(b, !client)
			big := `{"owner":"big","pad":"` + string(bytes.Repeat([]byte("p"), (1<<20)+(r+1)*300000)) + `"}`
			peer.writeFrame(RawFrame{Fin: true, Op: 1, Payload: []byte(big)})
			ctx, cancel := context.WithTimeout(context.Background(), 10*time.Second)
			var v tagged
			err := wsjson.Read(ctx, c, &v)
			if err != nil || v.Owner != "big" || len(v.Pad) != len(big)-len(`{"owner":"big","pad":""}`) {
				cancel()
				c.CloseNow()
				b.Close()
				return "big-json-scenario-setup", fmt.Sprintf("round %d: reading the %d-byte document: owner %q, %v", r, len(big), v.Owner, err)
			}
			// same connection, then a new one
			a2, b2 := newPipe()
			c2 := websocket.VerifNewConn(a2, !client, websocket.VerifCopts{}, 0)
			peer2 := newRawPeer(b2, client)
			for k, tc := range []struct {
				conn *websocket.Conn
				p    *rawPeer
				name string
			}{{c, peer, "same connection"}, {c2, peer2, "new connection"}, {c, peer, "same connection again"}} {
				small := fmt.Sprintf(`{"owner":"small-%d-%d","secret":"s%d"}`, r, k, k)
				tc.p.writeFrame(RawFrame{Fin: true, Op: 1, Payload: []byte(small)})
				var w tagged
				if err := wsjson.Read(ctx, tc.conn, &w); err != nil || w.Owner != fmt.Sprintf("small-%d-%d", r, k) || w.Pad != "" {
					cancel()
					c.CloseNow()
					c2.CloseNow()
					b.Close()
					b2.Close()
					return "json-read-sees-earlier-document", fmt.Sprintf("round %d client=%v: after a %d-byte document, wsjson.Read of %s on the %s returned owner %q pad %d bytes, err %v", r, client, len(big), small, tc.name, w.Owner, len(w.Pad), err)
				}
			}
			cancel()
			c.CloseNow()
			c2.CloseNow()
			b.Close()
			b2.Close()
		}
	}
	return "", ""
}

// nestedDoc decodes itself only after its hook has run: the hook reads a JSON message on ANOTHER connection, which
// is legitimate (UnmarshalJSON may do anything) and puts the buffer pool under the sharpest possible test: while
// connection A's message is being decoded, connection B's read takes a buffer from the pool.
type nestedDoc struct {
	Rest []string
	hook func()
}

func (n *nestedDoc) UnmarshalJSON(b []byte) error {
	if n.hook != nil {
		n.hook()
	}
	var raw struct {
		Rest []string `json:"rest"`
	}
	err := json.Unmarshal(b, &raw)
	n.Rest = raw.Rest
	return err
}

// jsonNestedReadScenario: connection A receives {"rest":["aaaa…",…]}, and while it is being decoded connection B
// receives and decodes a document of b's of the same size. Each must decode its own message.
func jsonNestedReadScenario(rounds int) (sh, w string) {
	defer runtime.GOMAXPROCS(runtime.GOMAXPROCS(1)) // the pool hands a released buffer to the next Get on the same P
	defer func() {
		if r := recover(); r != nil {
			sh, w = "json-decode-panics-under-nested-read", fmt.Sprintf("decoding connection A's message panicked while connection B read its own: %v", r)
		}
	}()
	for r := 0; r < rounds; r++ {
		mk := func(ch byte) (string, []string) {
			var items []string
			for i := 0; i < 6; i++ {
				items = append(items, string(bytes.Repeat([]byte{ch}, 200+r)))
			}
			bs, _ := json.Marshal(map[string][]string{"rest": items})
			return string(bs), items
		}
		docA, wantA := mk('a')
		docB, wantB := mk('b')
		a1, b1 := newPipe()
		a2, b2 := newPipe()
		cA := websocket.VerifNewConn(a1, false, websocket.VerifCopts{}, 0)
		cB := websocket.VerifNewConn(a2, true, websocket.VerifCopts{}, 0)
		pA, pB := newRawPeer(b1, true), newRawPeer(b2, false)
		cA.SetReadLimit(-1)
		cB.SetReadLimit(-1)
		pA.writeFrame(RawFrame{Fin: true, Op: 1, Payload: []byte(docA)})
		pB.writeFrame(RawFrame{Fin: true, Op: 1, Payload: []byte(docB)})
		ctx, cancel := context.WithTimeout(context.Background(), 5*time.Second)
		var gotB nestedDoc
		var errB error
		gotA := nestedDoc{hook: func() { errB = wsjson.Read(ctx, cB, &gotB) }}
		errA := wsjson.Read(ctx, cA, &gotA)
		cancel()
		cA.CloseNow()
		cB.CloseNow()
		b1.Close()
		b2.Close()
		eq := func(x, y []string) bool {
			if len(x) != len(y) {
				return false
			}
			for i := range x {
				if x[i] != y[i] {
					return false
				}
			}
			return true
		}
		if errA != nil || errB != nil {
			return "json-read-fails-under-nested-read", fmt.Sprintf("round %d: reading valid documents on two connections, one inside the other's UnmarshalJSON: errA=%v errB=%v", r, errA, errB)
		}
		if !eq(gotA.Rest, wantA) || !eq(gotB.Rest, wantB) {
			first := ""
			if len(gotA.Rest) > 0 {
				first = trunc(gotA.Rest[0], 12)
			}
			return "json-buffer-shared-between-connections", fmt.Sprintf("round %d: connection A decoded %d items starting %q from its message of a's while connection B read a message of b's inside A's UnmarshalJSON", r, len(gotA.Rest), first)
		}
	}
	return "", ""
}

// jsonKeptResultsScenario: what a wsjson.Read handed to its caller on one connection (a RawMessage, a []byte, a
// decoded struct) must not change when other connections — live ones and ones opened after the first was closed —
// read their own messages afterwards: bytes received on connection A may not turn into bytes received on B.
func jsonKeptResultsScenario(rounds int) (string, string) {
	for r := 0; r < rounds; r++ {
		mk := func(client bool) (*websocket.Conn, *rawPeer, *pipeEnd) {
			a, b := newPipe()
			return websocket.VerifNewConn(a, client, websocket.VerifCopts{}, 0), newRawPeer(b, !client), b
		}
		ctx, cancel := context.WithTimeout(context.Background(), 5*time.Second)
		ca, pa, ea := mk(r%2 == 0)
		docA := fmt.Sprintf(`{"owner":"A-%d","secret":"%s"}`, r, strings.Repeat("a", 40+r))
		pa.writeFrame(RawFrame{Fin: true, Op: 1, Payload: []byte(docA)})
		var raw json.RawMessage
		if err := wsjson.Read(ctx, ca, &raw); err != nil {
			cancel()
			return "read-failed", fmt.Sprintf("round %d: %v", r, err)
		}
		pa.writeFrame(RawFrame{Fin: true, Op: 1, Payload: []byte(`"QS1ieXRlcy1BLWJ5dGVzLUEtYnl0ZXM="`)})
		var bs []byte
		if err := wsjson.Read(ctx, ca, &bs); err != nil {
			cancel()
			return "read-failed", fmt.Sprintf("round %d: %v", r, err)
		}
		keepRaw, keepBs := string(raw), string(bs)
		if r%2 == 1 {
			ca.CloseNow() // the later reads happen on connections opened after A was closed
			ea.Close()
		}
		for k := 0; k < 3; k++ {
			cb, pb, eb := mk(k%2 == 0)
			docB := fmt.Sprintf(`{"owner":"B-%d-%d","secret":"%s"}`, r, k, strings.Repeat("b", 30+7*k+r))
			pb.writeFrame(RawFrame{Fin: true, Op: 1, Payload: []byte(docB)})
			var rb json.RawMessage
			err := wsjson.Read(ctx, cb, &rb)
			cb.CloseNow()
			eb.Close()
			if err != nil || string(rb) != docB {
				cancel()
				return "json-buffer-shared-between-connections", fmt.Sprintf("round %d: connection B%d read %q, %v; its message was %q", r, k, rb, err, docB)
			}
		}
		cancel()
		ca.CloseNow()
		ea.Close()
		if string(raw) != keepRaw || keepRaw != docA {
			return "json-buffer-shared-between-connections", fmt.Sprintf("round %d: the RawMessage read on connection A was %q and reads %q after reads on other connections (its message was %q)", r, keepRaw, raw, docA)
		}
		if string(bs) != keepBs {
			return "json-buffer-shared-between-connections", fmt.Sprintf("round %d: the []byte read on connection A was %q and reads %q after reads on other connections", r, keepBs, bs)
		}
	}
	return "", ""
}

// flateWriterPoolScenario: a compressor may be in the write-side pool only once. A message writer whose Close fails
// (the transport died under it) on a connection without context takeover, followed by the close of that connection, must
// not leave the same compressor in the pool twice — two later connections would then compress into each other's streams.
func flateWriterPoolScenario(rounds int) (string, string) {
	noTakeover := websocket.VerifCopts{Enabled: true, ClientNoContextTakeover: true, ServerNoContextTakeover: true}
	takeover := websocket.VerifCopts{Enabled: true}
	for r := 0; r < rounds; r++ {
		// 1. a compressed message whose Close fails, then the connection is closed
		{
			a, b := newPipe()
			x := websocket.VerifNewConn(a, r%2 == 0, noTakeover, 16)
			ctx, cancel := context.WithTimeout(context.Background(), 2*time.Second)
			w, err := x.Writer(ctx, websocket.MessageText)
			if err == nil {
				_, err = w.Write(bytes.Repeat([]byte("doomed message "), 20))
			}
			a.Close() // the transport dies: flushing the compressor / writing the final frame fails
			if err == nil {
				w.Close()
			}
			cancel()
			x.CloseNow()
			b.Close()
		}
		// 2. two fresh connections that keep their compressor write alternately; library peers read
		type ep struct {
			c, peer *websocket.Conn
			a, b    *pipeEnd
		}
		var eps []ep
		for i := 0; i < 2; i++ {
			a, b := newPipe()
			eps = append(eps, ep{websocket.VerifNewConn(a, false, takeover, 16), websocket.VerifNewConn(b, true, takeover, 16), a, b})
		}
		bad := ""
		for k := 0; k < 3 && bad == ""; k++ {
			for i := range eps {
				msg := bytes.Repeat([]byte(fmt.Sprintf("connection-%d-message-%d-round-%d ", i, k, r)), 8)
				ctx, cancel := context.WithTimeout(context.Background(), 3*time.Second)
				werr := eps[i].c.Write(ctx, websocket.MessageText, msg)
				var got []byte
				var rerr error
				if werr == nil {
					_, got, rerr = eps[i].peer.Read(ctx)
				}
				cancel()
				if werr != nil || rerr != nil || !bytes.Equal(got, msg) {
					bad = fmt.Sprintf("round %d: connection %d wrote %q; its peer read %q (write err %v, read err %v) — after a failed writer Close on an earlier connection two connections share one pooled compressor", r, i, trunc(string(msg), 40), trunc(string(got), 60), werr, rerr)
					break
				}
			}
		}
		for i := range eps {
			eps[i].c.CloseNow()
			eps[i].peer.CloseNow()
			eps[i].a.Close()
			eps[i].b.Close()
		}
		if bad != "" {
			return "compressor-shared-between-connections", bad
		}
	}
	return "", ""
}
