package main

import (
	"bytes"
	"context"
	"errors"
	"fmt"
	"io"
	"math/rand"
	"net"
	"os"
	"strings"
	"sync/atomic"
	"time"

	"nhooyr.io/websocket"
)

func init() { runners["C18"] = runC18 }

type c18Case struct {
	Kind    string   `json:"kind"` // stream | eof | wrong-type | deadline-idle | deadline-active | deadline-write-idle | pair
	Client  bool     `json:"client"`
	MsgType int      `json:"msg_type"`
	Writes  []int    `json:"write_sizes"`
	Reads   []int    `json:"read_buf_sizes"`
	Code    int      `json:"close_code"`
	Seed    int64    `json:"seed"`
	Prog    []string `json:"deadline_program,omitempty"` // <k><side>: k in z f p c b, side in r w x(both; not for c, b)
}

func isDeadlineErr(err error) bool {
	return err != nil && (errors.Is(err, context.DeadlineExceeded) || errors.Is(err, os.ErrDeadlineExceeded))
}

func runC18Case(cc c18Case, modelLine *string, modelWant *string) (string, string) {
	rng := newRng(cc.Seed, "c18case")
	a, b := newPipe()
	c := websocket.VerifNewConn(a, cc.Client, websocket.VerifCopts{}, 0)
	defer b.Close()
	defer c.CloseNow()
	peer := newRawPeer(b, !cc.Client)
	bg, cancel := context.WithTimeout(context.Background(), 15*time.Second)
	defer cancel()
	nc := websocket.NetConn(bg, c, websocket.MessageType(cc.MsgType))
	desc := fmt.Sprintf("%+v", cc)
	switch cc.Kind {
	case "stream", "eof":
		// the peer sends one message per write size, then (eof) a Close frame; the adapter reads with the given buffers
		var all []byte
		var msgs []string
		for _, n := range cc.Writes {
			p := randBytes(rng, n)
			all = append(all, p...)
			msgs = append(msgs, fmt.Sprintf("%d:%s", cc.MsgType, hx(p)))
			frs := []int{n}
			if cc.Seed%2 == 1 {
				frs = splitSizes(rng, n) // fragmented by the peer: read chunking then follows frame boundaries
			}
			pos := 0
			for i, s := range frs {
				op := 0
				if i == 0 {
					op = cc.MsgType
				}
				peer.writeFrame(RawFrame{Fin: i == len(frs)-1, Op: op, Payload: p[pos : pos+s]})
				pos += s
			}
		}
		payload := []byte{byte(cc.Code >> 8), byte(cc.Code)}
		peer.writeFrame(RawFrame{Fin: true, Op: 8, Payload: payload})
		var got []byte
		var results []string
		for i := 0; ; i++ {
			sz := cc.Reads[i%len(cc.Reads)]
			buf := make([]byte, sz)
			n, err := nc.Read(buf)
			if n == 0 && err == nil {
				return "read-returned-0-nil", desc + ": Read returned 0, nil"
			}
			got = append(got, buf[:n]...)
			if n > 0 {
				results = append(results, "d:"+hx(buf[:n]))
			}
			if err != nil {
				wantEOF := cc.Code == 1000 || cc.Code == 1001
				if wantEOF != (err == io.EOF) {
					return "close-code-mapping", fmt.Sprintf("%s: peer closed with %d, Read returned %v", desc, cc.Code, err)
				}
				if wantEOF {
					results = append(results, "eof")
					// and keeps returning EOF
					if _, err2 := nc.Read(buf); err2 != io.EOF {
						return "eof-not-sticky", fmt.Sprintf("%s: second Read after EOF returned %v", desc, err2)
					}
					results = append(results, "eof")
				} else {
					results = append(results, "err")
				}
				break
			}
			if i > 200000 {
				return "read-loop", desc
			}
		}
		if !bytes.Equal(got, all) {
			return "byte-stream-differs", fmt.Sprintf("%s: read %d bytes, written %d; first difference at %d", desc, len(got), len(all), firstDiff(got, all))
		}
		// model line: the same read sizes as were actually issued
		var ks []string
		for i := range results {
			ks = append(ks, fmt.Sprint(cc.Reads[i%len(cc.Reads)]))
		}
		// results has one entry per Read call (data or terminal)
		ml := "."
		if len(msgs) > 0 {
			ml = strings.Join(msgs, ",")
		}
		if cc.Seed%2 == 0 { // unfragmented: the chunking of the reads is determined by the buffer sizes alone
			*modelLine = fmt.Sprintf("netconn %d %s close:%d %s", cc.MsgType, ml, cc.Code, strings.Join(ks, ","))
			*modelWant = "ok " + strings.Join(results, ",") + " 0"
		}
	case "wrong-type":
		other := 3 - cc.MsgType
		peer.writeFrame(RawFrame{Fin: true, Op: other, Payload: []byte("wrong")})
		buf := make([]byte, 16)
		_, err := nc.Read(buf)
		if err == nil {
			return "wrong-type-accepted", desc + ": a message of the wrong type was read"
		}
		// a Close frame with status 1003 must reach the peer
		deadline := time.Now().Add(3 * time.Second)
		for time.Now().Before(deadline) {
			f, ferr := peer.readFrame(3 * time.Second)
			if ferr != nil {
				break
			}
			if f.Op == 8 {
				if len(f.Payload) >= 2 && int(f.Payload[0])<<8|int(f.Payload[1]) == 1003 {
					return "", ""
				}
				return "wrong-type-close-code", fmt.Sprintf("%s: Close frame payload %s", desc, hx(f.Payload))
			}
		}
		return "wrong-type-no-close", desc + ": no Close frame with status 1003 was sent"
	case "deadline-idle":
		nc.SetReadDeadline(time.Now().Add(-time.Second)) // in the past, no call active
		time.Sleep(30 * time.Millisecond)
		buf := make([]byte, 8)
		if _, err := nc.Read(buf); !isDeadlineErr(err) {
			return "idle-deadline-no-error", fmt.Sprintf("%s: Read after an expired idle deadline returned %v", desc, err)
		}
		if _, err := nc.Read(buf); !isDeadlineErr(err) {
			return "idle-deadline-not-sticky", fmt.Sprintf("%s: second Read returned %v", desc, err)
		}
		nc.SetReadDeadline(time.Time{}) // reset: usable again
		peer.writeFrame(RawFrame{Fin: true, Op: cc.MsgType, Payload: []byte("after")})
		n, err := nc.Read(buf)
		if err != nil || string(buf[:n]) != "after" {
			return "idle-deadline-broke-connection", fmt.Sprintf("%s: after resetting the deadline Read returned %q, %v", desc, buf[:n], err)
		}
		// future deadline that does not fire must not disturb
		nc.SetReadDeadline(time.Now().Add(time.Hour))
		peer.writeFrame(RawFrame{Fin: true, Op: cc.MsgType, Payload: []byte("again")})
		n, err = nc.Read(buf)
		if err != nil || string(buf[:n]) != "again" {
			return "future-deadline-disturbs", fmt.Sprintf("%s: %q %v", desc, buf[:n], err)
		}
	case "deadline-removed":
		// a deadline in the near future that is removed (zero time) before it passes must never fire: neither on an idle
		// direction nor on a call that is blocked when the old instant goes by
		for _, sd := range []byte{'r', 'w', 'x'} {
			set := func(t time.Time) {
				switch sd {
				case 'r':
					nc.SetReadDeadline(t)
				case 'w':
					nc.SetWriteDeadline(t)
				default:
					nc.SetDeadline(t)
				}
			}
			// idle
			set(time.Now().Add(120 * time.Millisecond))
			set(time.Time{})
			time.Sleep(260 * time.Millisecond)
			if _, err := nc.Write([]byte("w")); err != nil {
				return "removed-deadline-fires", fmt.Sprintf("%s: side %c: a future deadline was removed before it passed; a Write after the old instant returned %v", desc, sd, err)
			}
			peer.writeFrame(RawFrame{Fin: true, Op: cc.MsgType, Payload: []byte("idle")})
			buf := make([]byte, 8)
			if n, err := nc.Read(buf); err != nil || string(buf[:n]) != "idle" {
				return "removed-deadline-fires", fmt.Sprintf("%s: side %c: a future deadline was removed before it passed; a Read after the old instant returned %q, %v", desc, sd, buf[:n], err)
			}
			// a Read blocked while the old instant goes by
			rdone := make(chan error, 1)
			go func() {
				b2 := make([]byte, 8)
				_, err := nc.Read(b2)
				rdone <- err
			}()
			time.Sleep(20 * time.Millisecond)
			set(time.Now().Add(120 * time.Millisecond))
			set(time.Time{})
			time.Sleep(260 * time.Millisecond)
			peer.writeFrame(RawFrame{Fin: true, Op: cc.MsgType, Payload: []byte("blocked")})
			select {
			case err := <-rdone:
				if err != nil {
					return "removed-deadline-fires", fmt.Sprintf("%s: side %c: a Read that was blocked when a removed deadline's instant passed failed: %v", desc, sd, err)
				}
			case <-time.After(3 * time.Second):
				return "removed-deadline-fires", fmt.Sprintf("%s: side %c: the blocked Read did not return after the peer sent a message", desc, sd)
			}
		}
	case "deadline-write-idle":
		nc.SetWriteDeadline(time.Now().Add(-time.Second))
		time.Sleep(30 * time.Millisecond)
		if _, err := nc.Write([]byte("x")); !isDeadlineErr(err) {
			return "idle-deadline-no-error", fmt.Sprintf("%s: Write after an expired idle deadline returned %v", desc, err)
		}
		nc.SetDeadline(time.Time{})
		if _, err := nc.Write([]byte("ok")); err != nil {
			return "idle-deadline-broke-connection", fmt.Sprintf("%s: Write after reset: %v", desc, err)
		}
		f, err := peer.readFrame(3 * time.Second)
		if err != nil || string(f.Payload) != "ok" || f.Op != cc.MsgType {
			return "write-not-one-message", fmt.Sprintf("%s: peer got %+v %v", desc, f, err)
		}
	case "transport-failure":
		// the transport breaks (no Close frame): reads must fail with an error that is not io.EOF
		go func() { time.Sleep(20 * time.Millisecond); b.Close() }()
		_, err := nc.Read(make([]byte, 8))
		if err == nil || err == io.EOF {
			return "failure-reads-as-eof", fmt.Sprintf("%s: the transport broke without a Close frame and Read returned %v", desc, err)
		}
		if _, err2 := nc.Read(make([]byte, 8)); err2 == nil || err2 == io.EOF {
			return "failure-reads-as-eof", fmt.Sprintf("%s: second Read after a transport failure returned %v", desc, err2)
		}
	case "deadline-active":
		nc.SetReadDeadline(time.Now().Add(40 * time.Millisecond))
		buf := make([]byte, 8)
		t0 := time.Now()
		_, err := nc.Read(buf) // nothing arrives: the deadline fires during the call
		if err == nil {
			return "active-deadline-no-error", desc
		}
		if err == io.EOF {
			return "failure-reads-as-eof", desc + ": a deadline that fired during a blocked Read made it return io.EOF (only a normal / going-away close reads as io.EOF; io.ReadAll would take the stream for complete)"
		}
		if d := time.Since(t0); d > 2*time.Second {
			return "active-deadline-slow", fmt.Sprintf("%s: Read returned after %v", desc, d)
		}
		time.Sleep(20 * time.Millisecond)
		wctx, wc := context.WithTimeout(bg, time.Second)
		defer wc()
		if werr := c.Write(wctx, websocket.MessageText, []byte("x")); werr == nil {
			return "active-deadline-connection-open", desc + ": the connection is still open after a deadline fired during a call"
		}
	case "deadline-past-during-read", "deadline-past-during-write":
		// a deadline that is already in the past, set while a call is blocked inside the connection:
		// it "fires during an active call", so that call must fail and the connection must be closed
		done := make(chan error, 1)
		if cc.Kind == "deadline-past-during-read" {
			go func() { _, err := nc.Read(make([]byte, 8)); done <- err }() // nothing arrives
		} else {
			a.blockWrites = true // a peer that never reads: the transport write blocks
			go func() { _, err := nc.Write(make([]byte, 1<<16)); done <- err }()
		}
		time.Sleep(60 * time.Millisecond) // let the call block
		select {
		case err := <-done:
			return "blocked-call-returned-early", fmt.Sprintf("%s: %v", desc, err)
		default:
		}
		past := time.Now().Add(-time.Duration(1+cc.Seed%3) * time.Second)
		if cc.Kind == "deadline-past-during-read" {
			nc.SetReadDeadline(past)
		} else if cc.Seed%2 == 0 {
			nc.SetWriteDeadline(past)
		} else {
			nc.SetDeadline(past)
		}
		select {
		case err := <-done:
			if err == nil {
				return "active-deadline-no-error", desc + ": the blocked call succeeded after a past deadline was set during it"
			}
			if err == io.EOF {
				return "failure-reads-as-eof", desc + ": the blocked call returned io.EOF although the peer never closed"
			}
		case <-time.After(3 * time.Second):
			return "active-deadline-no-error", desc + ": the blocked call did not fail within 3s of a past deadline being set during it"
		}
		time.Sleep(20 * time.Millisecond)
		a.blockWrites = false
		wctx, wc := context.WithTimeout(bg, time.Second)
		defer wc()
		if werr := c.Write(wctx, websocket.MessageText, []byte("x")); werr == nil {
			return "active-deadline-connection-open", desc + ": the connection is still open after a deadline fired during a call"
		}
	case "deadline-program":
		// a program of deadline settings (zero / future / past) and calls on both directions, with deadlines
		// set before, between and during calls. Ground truth by construction: expired flags + closed.
		exp := map[byte]bool{'r': false, 'w': false}
		closed := false
		pendingR := 0 // bytes sent by the peer and not yet returned by a Read
		var lastRead int32
		var lastData, sentR, gotR []byte // the byte stream: what the peer sent, what the Reads returned
		var evs, results []string
		past := func() time.Time { return time.Now().Add(-time.Duration(1+rng.Intn(5000)) * time.Millisecond) }
		setDL := func(sd byte, t time.Time) {
			switch sd {
			case 'r':
				nc.SetReadDeadline(t)
			case 'w':
				nc.SetWriteDeadline(t)
			default:
				nc.SetDeadline(t)
			}
		}
		class := func(err error) string {
			if err == nil {
				return "ok"
			}
			if isDeadlineErr(err) {
				return "dl"
			}
			return "fail"
		}
		want := func(sd byte) string {
			if exp[sd] {
				return "dl"
			}
			if closed {
				return "fail"
			}
			return "ok"
		}
		start := func(sd byte, blocked bool) chan error {
			done := make(chan error, 1)
			if sd == 'r' {
				if !blocked && pendingR == 0 {
					// 12-byte messages read with an 8-byte buffer: between two reads a message is often partly
					// consumed, so deadlines are also set (and expire) in the middle of a message
					msg := []byte(fmt.Sprintf("%04d456789ab", len(sentR)/12%10000)) // 12 bytes
					peer.writeFrame(RawFrame{Fin: true, Op: cc.MsgType, Payload: msg})
					sentR = append(sentR, msg...)
					pendingR += 12
				}
				go func() {
					buf := make([]byte, 8)
					n, err := nc.Read(buf)
					lastData = buf[:n]
					atomic.StoreInt32(&lastRead, int32(n))
					done <- err
				}()
			} else {
				n := 1
				if blocked {
					a.blockWrites = true
					n = 1 << 16
				}
				go func() { _, err := nc.Write(make([]byte, n)); done <- err }()
			}
			return done
		}
		for _, ev := range cc.Prog {
			k, sd := ev[0], ev[1]
			sides := []byte{sd}
			if sd == 'x' {
				sides = []byte{'r', 'w'}
			}
			switch k {
			case 'z', 'f', 'p':
				t := time.Time{}
				if k == 'f' {
					t = time.Now().Add(time.Hour)
				} else if k == 'p' {
					t = past()
				}
				setDL(sd, t)
				for _, x := range sides {
					exp[x] = k == 'p'
					evs = append(evs, string([]byte{k, x}))
				}
				if k == 'p' {
					time.Sleep(40 * time.Millisecond) // the 1ns timer fires
				}
			case 'c':
				w := want(sd)
				done := start(sd, false)
				var got string
				select {
				case err := <-done:
					got = class(err)
					if sd == 'r' && err == nil {
						pendingR -= int(atomic.LoadInt32(&lastRead))
						gotR = append(gotR, lastData...)
						if !bytes.HasPrefix(sentR, gotR) {
							return "stream-bytes-differ", fmt.Sprintf("%s: after %v the Reads returned %q so far, the peer sent %q: not a prefix (a deadline that expired between two Reads of one message lost the position in the stream)", desc, evs, gotR, sentR)
						}
					} else if sd == 'r' && atomic.LoadInt32(&lastRead) != 0 {
						return "read-returns-data-with-error", fmt.Sprintf("%s: after %v a read returned %d bytes together with %v", desc, evs, atomic.LoadInt32(&lastRead), err)
					}
				case <-time.After(3 * time.Second):
					return "deadline-program-call-hangs", fmt.Sprintf("%s: event %s after %v", desc, ev, evs)
				}
				evs, results = append(evs, ev), append(results, got)
				if got != w {
					return "deadline-program:" + want2shape(w, got), fmt.Sprintf("%s: after %v a %c call returned %s, expected %s", desc, evs[:len(evs)-1], sd, got, w)
				}
			case 'b':
				if sd == 'r' && pendingR > 0 {
					continue // a message is waiting: the Read would not block
				}
				w := want(sd)
				done := start(sd, true)
				time.Sleep(60 * time.Millisecond)
				got := ""
				select {
				case err := <-done:
					got = class(err)
				default:
				}
				if (got == "") != (w == "ok") {
					a.blockWrites = false
					return "deadline-program:" + want2shape(w, got+"(blocked-call)"), fmt.Sprintf("%s: after %v a blocked %c call: returned early=%q, expected %s", desc, evs, sd, got, w)
				}
				setDL(sd, past())
				if got == "" { // the call is inside the connection: the past deadline fires during it
					select {
					case err := <-done:
						if err == nil {
							a.blockWrites = false
							return "active-deadline-no-error", fmt.Sprintf("%s: after %v the blocked %c call succeeded although a past deadline was set during it", desc, evs, sd)
						}
						got = "fail"
					case <-time.After(3 * time.Second):
						a.blockWrites = false
						return "active-deadline-no-error", fmt.Sprintf("%s: after %v the blocked %c call did not fail within 3s of a past deadline set during it", desc, evs, sd)
					}
					closed = true
				} else {
					exp[sd] = true
				}
				time.Sleep(40 * time.Millisecond)
				a.blockWrites = false
				evs, results = append(evs, ev), append(results, got)
			}
		}
		wctx, wc := context.WithTimeout(bg, time.Second)
		defer wc()
		isClosed := c.Write(wctx, websocket.MessageText, []byte("x")) != nil
		if isClosed != closed {
			sh := "idle-deadline-broke-connection"
			if closed {
				sh = "active-deadline-connection-open"
			}
			return sh, fmt.Sprintf("%s: after %v the connection is closed=%v, expected %v", desc, evs, isClosed, closed)
		}
		if len(evs) > 0 {
			*modelLine = "deadline " + strings.Join(evs, ",")
			cl := "0"
			if closed {
				cl = "1"
			}
			*modelWant = "ok " + strings.Join(results, ",") + " " + cl
		}
	case "pair":
		// two library endpoints through the adapter: concatenation of writes == concatenation of reads
		a2, b2 := newPipe()
		c1 := websocket.VerifNewConn(a2, true, websocket.VerifCopts{}, 0)
		c2 := websocket.VerifNewConn(b2, false, websocket.VerifCopts{}, 0)
		defer c1.CloseNow()
		defer c2.CloseNow()
		n1 := websocket.NetConn(bg, c1, websocket.MessageType(cc.MsgType))
		n2 := websocket.NetConn(bg, c2, websocket.MessageType(cc.MsgType))
		var all []byte
		go func() {
			for _, n := range cc.Writes {
				p := randBytes(newRng(cc.Seed+int64(n), "w"), n)
				n1.Write(p)
			}
			n1.Close()
		}()
		for _, n := range cc.Writes {
			all = append(all, randBytes(newRng(cc.Seed+int64(n), "w"), n)...)
		}
		var got []byte
		for i := 0; ; i++ {
			buf := make([]byte, cc.Reads[i%len(cc.Reads)])
			n, err := n2.Read(buf)
			got = append(got, buf[:n]...)
			if err != nil {
				if err != io.EOF {
					return "pair-read-error", fmt.Sprintf("%s: %v", desc, err)
				}
				break
			}
		}
		if !bytes.Equal(got, all) {
			return "byte-stream-differs", fmt.Sprintf("%s: pair: read %d bytes, written %d", desc, len(got), len(all))
		}
		var _ net.Conn = n2
	}
	return "", ""
}

func want2shape(want, got string) string { return "got-" + got + "-want-" + want }

func genDeadlineProg(rng *rand.Rand) []string {
	n := 3 + rng.Intn(10)
	var p []string
	for i := 0; i < n; i++ {
		k := "zfpppccccb"[rng.Intn(10)]
		sd := "rwx"[rng.Intn(3)]
		if (k == 'c' || k == 'b') && sd == 'x' {
			sd = "rw"[rng.Intn(2)]
		}
		p = append(p, string([]byte{k, sd}))
	}
	return p
}

func firstDiff(a, b []byte) int {
	for i := 0; i < len(a) && i < len(b); i++ {
		if a[i] != b[i] {
			return i
		}
	}
	if len(a) < len(b) {
		return len(a)
	}
	return len(b)
}

func runC18(ctx *runCtx) {
	rep := ctx.rep
	rep.Rule = "sequences of write sizes (0..70000, empty messages, fragmented by the peer) x sequences of read-buffer sizes (1..70000), both message types, both roles, ended by peer Close codes {1000, 1001, others}: bytes read == bytes written, EOF mapping and stickiness, no (0, nil) reads, compared with the Lean NetConn model; " +
		"wrong message type -> error + Close 1003 at the peer; a broken transport or a deadline during a blocked Read never reads as io.EOF; deadlines in the past / future / zero while idle (calls fail with a deadline error until reset, connection stays usable) and firing during a call, including a past deadline set while a Read / Write is blocked (call fails, connection closed); generated deadline programs (zero / future / past deadlines on either or both directions, before, between and during calls) against by-construction ground truth and the Lean deadline model; library-to-library pairs. distinct = case tuple"
	if ctx.replay != "" {
		var cc c18Case
		if err := loadReplay(ctx.replay, &cc); err == nil && cc.Kind != "" {
			var l, w string
			if sh, what := runC18Case(cc, &l, &w); sh != "" {
				rep.violate(Violation{Kind: "property", Shape: sh, What: what, Replay: cc})
			}
			rep.eval("replay")
		}
		return
	}
	rng := newRng(ctx.seed, "c18")
	n := 150
	if ctx.thorough() {
		n = 2500
	}
	var cases []c18Case
	sizes := func() []int {
		k := 1 + rng.Intn(5)
		var out []int
		for i := 0; i < k; i++ {
			out = append(out, []int{0, 0, 1, 2, 125, 126, 4096, 4097, 65536, rng.Intn(300), rng.Intn(70000)}[rng.Intn(11)])
		}
		return out
	}
	bufs := func() []int {
		k := 1 + rng.Intn(3)
		var out []int
		for i := 0; i < k; i++ {
			out = append(out, []int{1, 2, 3, 7, 512, 4096, 65536, 70000, 1 + rng.Intn(2000)}[rng.Intn(9)])
		}
		return out
	}
	for i := 0; i < n; i++ {
		code := []int{1000, 1001, 1000, 1002, 1008, 3000, 4999}[rng.Intn(7)]
		rd := bufs()
		wr := sizes()
		// keep 1-byte buffers for small streams only
		tot := 0
		for _, w := range wr {
			tot += w
		}
		if tot > 5000 {
			for j := range rd {
				if rd[j] < 64 {
					rd[j] = 64 + rd[j]
				}
			}
		}
		cases = append(cases, c18Case{Kind: "stream", Client: rng.Intn(2) == 0, MsgType: 1 + rng.Intn(2), Writes: wr, Reads: rd, Code: code, Seed: ctx.seed + int64(i)})
	}
	for i := 0; i < n/5; i++ {
		cases = append(cases, c18Case{Kind: "pair", MsgType: 1 + rng.Intn(2), Writes: sizes(), Reads: []int{64 + rng.Intn(5000)}, Seed: ctx.seed + int64(i)})
	}
	for i := 0; i < n/3; i++ {
		cases = append(cases, c18Case{Kind: "deadline-program", Client: rng.Intn(2) == 0, MsgType: 1 + rng.Intn(2), Prog: genDeadlineProg(rng), Seed: ctx.seed + int64(i)})
	}
	for _, client := range []bool{true, false} {
		cases = append(cases, c18Case{Kind: "deadline-removed", Client: client, MsgType: 1, Seed: ctx.seed})
	}
	// a read deadline that expires idle between two Reads of one message (12-byte messages, 8-byte buffer), is seen
	// by a Read, is reset, and reading continues: the stream goes on where it was
	for i, prog := range [][]string{{"cr", "pr", "cr", "zr", "cr", "cr", "cr"}, {"cr", "px", "cr", "cw", "zx", "cr", "cw", "cr"}, {"cr", "cr", "cr", "pr", "cr", "fr", "cr", "cr"}} {
		for _, client := range []bool{true, false} {
			cases = append(cases, c18Case{Kind: "deadline-program", Client: client, MsgType: 1 + i%2, Prog: prog, Seed: ctx.seed})
		}
	}
	for _, client := range []bool{true, false} {
		for mt := 1; mt <= 2; mt++ {
			for _, k := range []string{"wrong-type", "deadline-idle", "deadline-write-idle", "deadline-active", "deadline-past-during-read", "deadline-past-during-write", "transport-failure"} {
				cases = append(cases, c18Case{Kind: k, Client: client, MsgType: mt, Seed: ctx.seed})
			}
			cases = append(cases, c18Case{Kind: "stream", Client: client, MsgType: mt, Writes: nil, Reads: []int{8}, Code: 1000, Seed: ctx.seed})
			cases = append(cases, c18Case{Kind: "stream", Client: client, MsgType: mt, Writes: []int{0, 0, 0}, Reads: []int{8}, Code: 1001, Seed: ctx.seed})
		}
	}
	type res struct {
		i          int
		sh, w      string
		line, want string
	}
	out := make(chan res, len(cases))
	sem := make(chan struct{}, 16)
	for i := range cases {
		sem <- struct{}{}
		go func(i int) {
			defer func() { <-sem }()
			r := res{i: i}
			var line, want string
			r.sh, r.w = guarded(40*time.Second, func() (string, string) { return runC18Case(cases[i], &line, &want) })
			if r.sh != "case-hangs" {
				r.line, r.want = line, want
			}
			out <- r
		}(i)
	}
	var lines, expect, what []string
	for range cases {
		r := <-out
		cc := cases[r.i]
		rep.eval(fmt.Sprintf("%+v", cc))
		rep.count("kind:" + cc.Kind)
		if r.sh != "" {
			rep.violate(Violation{Kind: "property", Shape: r.sh, What: r.w, Replay: cc})
			continue
		}
		if r.line != "" && len(r.line) < 600000 {
			lines = append(lines, r.line)
			expect = append(expect, r.want)
			what = append(what, fmt.Sprintf("NetConn model %+v", cc))
		}
	}
	askAndCompare(ctx, lines, expect, what, "netconn-model-vs-impl")
	rep.sample(cases[0])
	rep.sample(cases[len(cases)-1])
}
