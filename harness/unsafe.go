package main

import "unsafe"

func uintptrOf(b []byte) uintptr { return uintptr(unsafe.Pointer(&b[0])) }
