package main

import (
	"bytes"
	"context"
	"encoding/binary"
	"fmt"
	"hash/crc32"
	"io"
	"runtime"
	"sync"
	"time"

	"nhooyr.io/websocket"
)

func init() { runners["C05"] = runC05 }

type c05Case struct {
	Client    bool   `json:"client"`
	Flate     int    `json:"flate"` // 0 off, 1 context takeover, 2 no context takeover
	Writers   int    `json:"writers"`
	Pingers   int    `json:"pingers"`
	Closer    string `json:"closer"` // none | close | closenow | ctx
	CloseAt   int    `json:"close_after_us"`
	Split     int    `json:"transport_split"` // the transport delivers writes in pieces of this size (0 = whole) and yields between pieces
	Seed      int64  `json:"seed"`
	PeerIsLib bool   `json:"peer_is_library"`
}

// tagged payload: writer id, sequence number, length, crc of the body.
func taggedMsg(w, seq, n int) []byte {
	b := make([]byte, 16+n)
	binary.BigEndian.PutUint32(b[0:], uint32(w))
	binary.BigEndian.PutUint32(b[4:], uint32(seq))
	binary.BigEndian.PutUint32(b[8:], uint32(n))
	for i := 0; i < n; i++ {
		b[16+i] = byte(w*31 + seq*7 + i%13)
	}
	binary.BigEndian.PutUint32(b[12:], crc32.ChecksumIEEE(b[16:]))
	return b
}

func checkTagged(b []byte) (w, seq int, ok bool) {
	if len(b) < 16 {
		return 0, 0, false
	}
	n := int(binary.BigEndian.Uint32(b[8:]))
	if len(b) != 16+n || binary.BigEndian.Uint32(b[12:]) != crc32.ChecksumIEEE(b[16:]) {
		return 0, 0, false
	}
	return int(binary.BigEndian.Uint32(b[0:])), int(binary.BigEndian.Uint32(b[4:])), true
}

// splitEnd wraps a pipeEnd so that writes are delivered in small pieces with scheduling points in between.
type splitEnd struct {
	*pipeEnd
	n int
}

func (s *splitEnd) Write(p []byte) (int, error) {
	if s.n <= 0 {
		return s.pipeEnd.Write(p)
	}
	total := 0
	for len(p) > 0 {
		k := s.n
		if k > len(p) {
			k = len(p)
		}
		m, err := s.pipeEnd.Write(p[:k])
		total += m
		if err != nil {
			return total, err
		}
		p = p[k:]
		runtime.Gosched()
	}
	return total, nil
}

func runC05Case(cc c05Case) (string, string) {
	pb := &panicBox{}
	sh, w := runC05CaseInner(cc, pb)
	if m := pb.get(); m != "" {
		return "panic-in-library-goroutine", fmt.Sprintf("%+v: %s", cc, m)
	}
	return sh, w
}

func runC05CaseInner(cc c05Case, pb *panicBox) (string, string) {
	a, b := newPipe()
	copts := websocket.VerifCopts{Enabled: cc.Flate != 0, ClientNoContextTakeover: cc.Flate == 2, ServerNoContextTakeover: cc.Flate == 2}
	c := websocket.VerifNewConn(&splitEnd{a, cc.Split}, cc.Client, copts, 64)
	peer := newRawPeer(b, !cc.Client)
	// two goroutines write for the peer (its messages; its pongs and Close echo): once the echo is out nothing may follow it —
	// a reference peer that went on sending data frames after its own Close frame would not be a WebSocket peer, and the
	// frames it sent there (say the second half of a later message) would be what a racing read then returns
	peer.stopAfterClose = true
	defer b.Close()
	defer c.CloseNow()
	bg, cancel := context.WithTimeout(context.Background(), 20*time.Second)
	defer cancel()
	wctx, wcancel := context.WithCancel(bg)
	defer wcancel()
	desc := fmt.Sprintf("%+v", cc)
	var mu sync.Mutex
	sent := map[[2]int]bool{} // (writer, seq) → write call returned nil
	var wg sync.WaitGroup
	perWriter := 40
	for w := 0; w < cc.Writers; w++ {
		wg.Add(1)
		go func(w int) {
			defer wg.Done()
			defer pb.guard()
			for seq := 0; seq < perWriter; seq++ {
				p := taggedMsg(w, seq, (w*53+seq*97)%700)
				var err error
				if (w+seq)%2 == 0 {
					err = c.Write(wctx, websocket.MessageBinary, p)
				} else {
					var wr io.WriteCloser
					wr, err = c.Writer(wctx, websocket.MessageBinary)
					if err == nil {
						k := len(p) / 3
						for _, part := range [][]byte{p[:k], p[k : 2*k], p[2*k:]} {
							if _, err = wr.Write(part); err != nil {
								break
							}
							runtime.Gosched()
						}
						if err == nil {
							err = wr.Close()
						}
					}
				}
				if err != nil {
					return
				}
				mu.Lock()
				sent[[2]int{w, seq}] = true
				mu.Unlock()
			}
		}(w)
	}
	for i := 0; i < cc.Pingers; i++ {
		wg.Add(1)
		go func() {
			defer wg.Done()
			defer pb.guard()
			for j := 0; j < 30; j++ {
				pctx, pc := context.WithTimeout(wctx, 50*time.Millisecond)
				err := c.Ping(pctx)
				pc()
				if err != nil && wctx.Err() != nil {
					return
				}
			}
		}()
	}
	// library-side reader: the peer sends tagged messages and pings; the reader must get each intact or fail
	type rd struct {
		data []byte
		err  error
	}
	var reads []rd
	readerDone := make(chan struct{})
	go func() {
		defer close(readerDone)
		defer pb.guard()
		for {
			_, r, err := c.Reader(wctx)
			if err != nil {
				reads = append(reads, rd{nil, err})
				return
			}
			data, err := io.ReadAll(r)
			reads = append(reads, rd{data, err})
			if err != nil {
				return
			}
		}
	}()
	var peerSent [][]byte
	peerSendDone := make(chan struct{})
	go func() {
		defer close(peerSendDone)
		var d *rawDeflater
		if cc.Flate != 0 {
			d = newRawDeflater(cc.Flate == 1, 6)
		}
		for i := 0; i < 60; i++ {
			p := taggedMsg(1000, i, (i*131)%900)
			peerSent = append(peerSent, p)
			wire := p
			rsv1 := false
			if d != nil && i%2 == 0 {
				wire = d.message(p, false)
				rsv1 = true
			}
			h := len(wire) / 2
			if err := peer.writeFrame(RawFrame{Fin: false, Op: 2, Rsv1: rsv1, Payload: wire[:h]}); err != nil {
				return
			}
			if i%3 == 0 {
				peer.writeFrame(RawFrame{Fin: true, Op: 9, Payload: []byte{byte(i)}})
			}
			if err := peer.writeFrame(RawFrame{Fin: true, Op: 0, Payload: wire[h:]}); err != nil {
				return
			}
			if i%7 == 0 {
				runtime.Gosched()
			}
		}
	}()
	// the peer records everything the endpoint emits and answers pings
	var trace []RawFrame
	peerDone := make(chan struct{})
	go func() {
		defer close(peerDone)
		for {
			f, err := peer.readFrame(10 * time.Second)
			if err != nil {
				return
			}
			trace = append(trace, *f)
			if f.Op == 9 {
				peer.writeFrame(RawFrame{Fin: true, Op: 10, Payload: f.Payload})
			}
			if f.Op == 8 {
				peer.writeFrame(RawFrame{Fin: true, Op: 8, Payload: f.Payload})
			}
		}
	}()
	allWritten := make(chan struct{})
	go func() { wg.Wait(); close(allWritten) }()
	switch cc.Closer {
	case "none":
		<-allWritten
		<-peerSendDone
		time.Sleep(20 * time.Millisecond)
	default:
		time.Sleep(time.Duration(cc.CloseAt) * time.Microsecond)
		switch cc.Closer {
		case "close":
			c.Close(websocket.StatusNormalClosure, "")
		case "closenow":
			c.CloseNow()
		case "ctx":
			wcancel()
		}
		select {
		case <-allWritten:
		case <-time.After(8 * time.Second):
			return "writers-stuck", desc + ": writers did not return after the connection was closed"
		}
	}
	c.CloseNow()
	b.Close()
	<-peerSendDone
	<-peerDone
	select {
	case <-readerDone:
	case <-time.After(5 * time.Second):
		return "reader-stuck", desc
	}
	// ---- emitted stream ----
	wc := &WriteCase{Client: cc.Client, Flate: cc.Flate != 0, CNCT: cc.Flate == 2, SNCT: cc.Flate == 2}
	var wire []byte
	for _, f := range trace {
		wire = append(wire, f.Encode()...)
	}
	// conformance on the reassembled frames (masking for the role, sequencing, rsv bits, inflation)
	msgs, _, _, shape, what := checkConformance(wc, reencode(trace, cc.Client))
	if shape != "" && shape != "message-unfinished" && shape != "mask-key-reused" {
		return "emitted-stream:" + shape, desc + ": " + what
	}
	// (bytes of one unfinished frame at the very end are legitimate: CloseNow tears the transport down under a writer)
	last := map[int]int{}
	seen := map[[2]int]bool{}
	for i, m := range msgs {
		w, seq, ok := checkTagged(unhx(m.Data))
		if !ok {
			return "message-corrupted-or-mixed", fmt.Sprintf("%s: message %d received by the peer (%d bytes) is not a message that was written", desc, i, len(m.Data)/2)
		}
		if seen[[2]int{w, seq}] {
			return "message-duplicated", fmt.Sprintf("%s: writer %d message %d arrived twice", desc, w, seq)
		}
		seen[[2]int{w, seq}] = true
		if l, ok := last[w]; ok && seq < l {
			return "writer-order-violated", fmt.Sprintf("%s: writer %d: message %d arrived after %d", desc, w, seq, l)
		}
		last[w] = seq
	}
	mu.Lock()
	for k := range sent {
		if !seen[k] {
			mu.Unlock()
			return "acknowledged-message-lost", fmt.Sprintf("%s: writer %d message %d was written successfully but never reached the peer", desc, k[0], k[1])
		}
	}
	mu.Unlock()
	// ---- reads racing with the closer ----
	for i, r := range reads {
		if i < len(peerSent) {
			if r.err == nil {
				if !bytes.Equal(r.data, peerSent[i]) {
					return "read-returned-wrong-message", fmt.Sprintf("%s: read %d returned %d bytes that are not message %d", desc, i, len(r.data), i)
				}
			} else if !bytes.HasPrefix(peerSent[i], r.data) {
				return "racing-read-not-prefix", fmt.Sprintf("%s: read %d failed (%v) after returning %d bytes that are not a prefix of the message", desc, i, r.err, len(r.data))
			}
		}
	}
	return "", ""
}

// abandonedCloseScenario: a streaming writer has written part of a message; its Close cannot get the frame lock
// before the writer's context expires, because a Ping frame is stuck in the transport. Nothing failed in the
// transport, so the connection stays open with the message unfinished on the wire. Whatever later writers do,
// the peer must never see a new data message start inside the open one, and every Write that returned nil must
// arrive as exactly one whole message.
func abandonedCloseScenario(client bool, flate int) (string, string) {
	a, b := newPipe()
	gate := make(chan struct{}, 64)
	a.writeGate = gate
	copts := websocket.VerifCopts{Enabled: flate != 0, ClientNoContextTakeover: flate == 2, ServerNoContextTakeover: flate == 2}
	c := websocket.VerifNewConn(a, client, copts, 64)
	peer := newRawPeer(b, !client)
	defer b.Close()
	defer c.CloseNow()
	desc := fmt.Sprintf("abandoned Close, client=%v flate=%d", client, flate)
	bg, cancel := context.WithTimeout(context.Background(), 15*time.Second)
	defer cancel()
	go func() { c.Reader(bg) }() // pongs are processed
	ctxW, cancelW := context.WithTimeout(bg, 150*time.Millisecond)
	defer cancelW()
	w, err := c.Writer(ctxW, websocket.MessageBinary)
	if err != nil {
		return "writer-failed", desc + ": " + err.Error()
	}
	first := taggedMsg(0, 0, 300)
	if _, err := w.Write(first[:200]); err != nil {
		return "first-chunk-failed", desc + ": " + err.Error()
	}
	pingRet := make(chan error, 1)
	go func() { pingRet <- c.Ping(bg) }() // takes the frame lock and blocks in the transport: no token yet
	time.Sleep(30 * time.Millisecond)
	cerr := w.Close() // waits for the frame lock until ctxW expires
	for i := 0; i < 32; i++ {
		gate <- struct{}{} // the transport accepts writes again
	}
	// the peer answers the ping
	peerDone := make(chan struct{})
	go func() {
		defer close(peerDone)
		for {
			f, err := peer.readFrame(1500 * time.Millisecond)
			if err != nil {
				return
			}
			if f.Op == 9 {
				peer.writeFrame(RawFrame{Fin: true, Op: 10, Payload: f.Payload})
			}
		}
	}()
	select {
	case <-pingRet:
	case <-time.After(3 * time.Second):
		return "ping-stuck", desc + ": Ping did not return after the transport resumed and the peer answered"
	}
	// later writers on the same connection
	var acked [][]byte
	for seq := 1; seq <= 3; seq++ {
		p := taggedMsg(1, seq, 100+seq)
		ctx2, c2 := context.WithTimeout(bg, 150*time.Millisecond)
		if c.Write(ctx2, websocket.MessageBinary, p) == nil {
			acked = append(acked, p)
		}
		c2()
	}
	if cerr == nil {
		acked = append(acked, first[:200])
	}
	c.CloseNow()
	<-peerDone
	peer.mu.Lock()
	trace := append([]RawFrame(nil), peer.frames...)
	peer.mu.Unlock()
	wc := &WriteCase{Client: client, Flate: flate != 0, CNCT: flate == 2, SNCT: flate == 2}
	msgs, _, _, shape, what := checkConformance(wc, reencode(trace, client))
	if shape != "" && shape != "message-unfinished" && shape != "mask-key-reused" {
		return "emitted-stream:" + shape, fmt.Sprintf("%s (Close of the first writer returned %v): %s", desc, cerr, what)
	}
	for _, p := range acked {
		n := 0
		for _, m := range msgs {
			if m.Data == hx(p) {
				n++
			}
		}
		if n != 1 {
			return "acknowledged-message-lost", fmt.Sprintf("%s: a message whose write returned nil reached the peer %d times (Close of the first writer returned %v)", desc, n, cerr)
		}
	}
	return "", ""
}

// headerScratchScenario: a frame header of a streamed message straddles a flush of the 4096-byte write buffer and the transport
// blocks there; meanwhile the (one permitted) reader decodes an incoming frame whose header has an extended length and a mask
// key. Reader and writer work concurrently by right: what the writer emits after the transport resumes must still be its own
// header, and the reader must get the peer's message.
func headerScratchScenario(client bool) (string, string) {
	a, b := newPipe()
	gate := make(chan struct{}, 64)
	a.writeGate = gate
	c := websocket.VerifNewConn(a, client, websocket.VerifCopts{}, 0)
	peer := newRawPeer(b, !client)
	defer b.Close()
	defer c.CloseNow()
	desc := fmt.Sprintf("frame header straddling a flush while the reader decodes a header, client=%v", client)
	bg, cancel := context.WithTimeout(context.Background(), 15*time.Second)
	defer cancel()
	type rres struct {
		data []byte
		err  error
	}
	readRet := make(chan rres, 1)
	go func() {
		_, d, err := c.Read(bg)
		readRet <- rres{d, err}
	}()
	w, err := c.Writer(bg, websocket.MessageBinary)
	if err != nil {
		return "writer-failed", desc + ": " + err.Error()
	}
	// frame 1 leaves exactly two free bytes in the write buffer: header 2+2 (+4 key for a client) + payload
	hdr := 4
	if client {
		hdr = 8
	}
	chunk1 := taggedMsg(0, 0, 4094-hdr-16)
	chunk2 := taggedMsg(0, 1, 300)
	if _, err := w.Write(chunk1); err != nil {
		return "first-chunk-failed", desc + ": " + err.Error()
	}
	wret := make(chan error, 1)
	go func() {
		_, err := w.Write(chunk2) // its header's first two bytes fill the buffer; the flush blocks at the gate
		if err == nil {
			err = w.Close()
		}
		wret <- err
	}()
	time.Sleep(40 * time.Millisecond)
	incoming := taggedMsg(7, 7, 400) // 16-bit extended length, masked when the library is the server
	peer.writeFrame(RawFrame{Fin: true, Op: 2, Payload: incoming})
	var got rres
	select {
	case got = <-readRet:
	case <-time.After(3 * time.Second):
		return "read-stuck", desc + ": the reader did not return the peer's message"
	}
	for i := 0; i < 32; i++ {
		gate <- struct{}{}
	}
	select {
	case err := <-wret:
		if err != nil {
			return "write-failed", desc + ": " + err.Error()
		}
	case <-time.After(3 * time.Second):
		return "write-stuck", desc + ": the writer did not finish after the transport resumed"
	}
	if got.err != nil || !bytes.Equal(got.data, incoming) {
		return "read-returned-wrong-message", fmt.Sprintf("%s: the reader returned %d bytes, err=%v, while a frame header of the writer was in flight", desc, len(got.data), got.err)
	}
	peerDone := make(chan struct{})
	go func() {
		defer close(peerDone)
		for {
			if _, err := peer.readFrame(500 * time.Millisecond); err != nil {
				return
			}
		}
	}()
	<-peerDone
	c.CloseNow()
	peer.mu.Lock()
	trace := append([]RawFrame(nil), peer.frames...)
	peer.mu.Unlock()
	var data []byte
	for _, f := range trace {
		if f.Op <= 2 {
			data = append(data, f.Payload...)
		}
	}
	want := append(append([]byte(nil), chunk1...), chunk2...)
	if rest := peer.leftover(); len(rest) > 0 || !bytes.Equal(data, want) {
		return "emitted-stream:frame-header-corrupted", fmt.Sprintf("%s: the peer decoded %d frames carrying %d bytes (want %d) and %d undecodable bytes; trace ops %s", desc, len(trace), len(data), len(want), len(rest), opsOf(trace))
	}
	return "", ""
}

// reencode: checkConformance works on bytes; rebuild the byte stream from the parsed frames.
func reencode(tr []RawFrame, client bool) []byte {
	var b []byte
	for _, f := range tr {
		g := f
		g.ForceLen16, g.ForceLen64 = false, false
		b = append(b, g.Encode()...)
	}
	return b
}

func runC05(ctx *runCtx) {
	rep := ctx.rep
	rep.Rule = "2..8 writers (alternating Write and 3-chunk streaming Writer) x 0..2 pingers x one reader receiving fragmented (compressed) messages with interleaved pings x a closer {none, Close, CloseNow, context cancel} firing after a seeded delay, both roles, compression {off, takeover, no takeover}, transport delivering writes whole or in 1/7/64-byte pieces with yields; " +
		"every payload carries (writer, sequence, length, crc); oracle at a raw peer: the emitted stream is conformant, every message equals exactly one written message, per-writer order holds, every acknowledged write arrives; reads racing with the closer return the message or a prefix plus an error. Thorough tier repeats under the Go race detector. distinct = scenario tuple"
	if cirTraceReplay(ctx) {
		return
	}
	if ctx.replay != "" {
		var cc c05Case
		if err := loadReplay(ctx.replay, &cc); err == nil && cc.Writers > 0 {
			if sh, w := runC05Case(cc); sh != "" {
				rep.violate(Violation{Kind: "property", Shape: sh, What: w, Replay: cc})
			}
			rep.eval("replay")
		}
		return
	}
	rng := newRng(ctx.seed, "c05")
	n := 60
	if ctx.thorough() {
		n = 900
	}
	if raceEnabled {
		n = n / 3
	}
	var cases []c05Case
	for i := 0; i < n; i++ {
		cc := c05Case{Client: rng.Intn(2) == 0, Flate: rng.Intn(3), Writers: 2 + rng.Intn(7), Pingers: rng.Intn(3),
			Closer: []string{"none", "none", "close", "closenow", "ctx"}[rng.Intn(5)], CloseAt: rng.Intn(4000), Split: []int{0, 0, 1, 7, 64}[rng.Intn(5)], Seed: ctx.seed + int64(i)}
		cases = append(cases, cc)
	}
	type res struct {
		i     int
		sh, w string
	}
	out := make(chan res, len(cases))
	sem := make(chan struct{}, 8)
	for i := range cases {
		sem <- struct{}{}
		go func(i int) {
			defer func() { <-sem }()
			sh, w := guarded(40*time.Second, func() (string, string) { return runC05Case(cases[i]) })
			out <- res{i, sh, w}
		}(i)
	}
	for range cases {
		r := <-out
		cc := cases[r.i]
		rep.eval(fmt.Sprintf("%+v", cc))
		rep.count("closer:" + cc.Closer)
		rep.count(fmt.Sprintf("flate:%d", cc.Flate))
		rep.count(fmt.Sprintf("split:%d", cc.Split))
		if r.sh != "" {
			rep.violate(Violation{Kind: "property", Shape: r.sh, What: r.w, Replay: cc})
		}
	}
	// a client connection closed while one of its frame writes is stuck in the transport: later
	// connections must not receive its bytes (the frame lock must cover the whole life of the frame)
	{
		sh, w := staleWriterScenario(3, false)
		if sh == "" {
			sh, w = staleWriterScenario(3, true)
		}
		rep.eval("scenario/stale-writer")
		rep.count("scenario:stale-writer")
		if sh != "" {
			rep.violate(Violation{Kind: "property", Shape: sh, What: w, Replay: map[string]interface{}{"scenario": "stale-writer"}})
		}
	}
	// a streaming writer whose Close gives up waiting for the frame lock while the connection stays open
	for _, client := range []bool{false, true} {
		for fl := 0; fl <= 2; fl++ {
			client, fl := client, fl
			sh, w := guarded(40*time.Second, func() (string, string) { return abandonedCloseScenario(client, fl) })
			rep.eval(fmt.Sprintf("scenario/abandoned-close/%v/%d", client, fl))
			rep.count("scenario:abandoned-close")
			if sh != "" {
				rep.violate(Violation{Kind: "property", Shape: sh, What: w, Replay: map[string]interface{}{"scenario": "abandoned-close", "client": client, "flate": fl}})
			}
		}
	}
	// reader and writer inside header code at the same moment
	for _, client := range []bool{false, true} {
		client := client
		sh, w := guarded(40*time.Second, func() (string, string) { return headerScratchScenario(client) })
		rep.eval(fmt.Sprintf("scenario/header-scratch/%v", client))
		rep.count("scenario:header-scratch")
		if sh != "" {
			rep.violate(Violation{Kind: "property", Shape: sh, What: w, Replay: map[string]interface{}{"scenario": "header-scratch", "client": client}})
		}
	}
	// the channel mutex itself against WS.Model.Mu (the tie of WS.Props.C05Mu)
	{
		var lines, expect, what []string
		progs := 300
		if ctx.thorough() {
			progs = 4000
		}
		muDifferential(rep, newRng(ctx.seed, "c05mu"), progs, 30, &lines, &expect, &what)
		askAndCompare(ctx, lines, expect, what, "channel-mutex-model-vs-impl")
	}
	if raceEnabled {
		rep.count("race-detector-on")
	}
	cirTraceValidation(ctx, cirTraceN(ctx))
	rep.sample(cases[0])
	rep.sample(cases[len(cases)-1])
}
