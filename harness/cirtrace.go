package main

// Trace validation of the synchronisation skeleton (WS.Gen.ConnCIR, the CIR program all the
// schedule-quantified theorems are about): the library, built with the verif tag, reports an event at
// every synchronisation point that succeeds (verif_on.go, "sync:*"); this file runs generated
// multi-goroutine scenarios against a scripted raw peer, splits the log into one event sequence per
// thread of the model (one per API call, plus the timeout goroutine and the CloseRead goroutine) and
// asks the Lean acceptor (WS.CIR.Trace.accepts, soundness theorem accepts_sound_*) whether each
// sequence is the observation of a path of the program from that call's entry ending the way the call
// ended.  A sequence that is not accepted means the hand-written skeleton does not describe what the code
// does (any more): the tie of C05 / C06 / C09 / C10 / C16 / C20's certificates is broken.

import (
	"sync/atomic"
	"context"
	"errors"
	"fmt"
	"io"
	"math/rand"
	"runtime"
	"strconv"
	"strings"
	"sync"
	"time"

	"nhooyr.io/websocket"
)

func gid() int64 {
	var b [64]byte
	s := string(b[:runtime.Stack(b[:], false)])
	s = strings.TrimPrefix(s, "goroutine ")
	if i := strings.IndexByte(s, ' '); i > 0 {
		n, _ := strconv.ParseInt(s[:i], 10, 64)
		return n
	}
	return -1
}

type syncEv struct {
	g   int64
	tok string
}

type syncRec struct {
	mu    sync.Mutex
	names map[uintptr]string
	evs   []syncEv
}

var syncRecs sync.Map // *websocket.Conn → *syncRec

var lockID = map[string]string{"readMu": "0", "writeFrameMu": "1", "msgWriter.mu": "2", "msgWriter.writeMu": "3"}

var syncTok = map[string]string{
	"sync:set-closed": "S0", "sync:set-closeSent": "S2", "sync:set-peerClosed": "S3", "sync:cas-closing": "C1",
	"sync:arm-write-own": "A1o", "sync:arm-write-bg": "A1b", "sync:arm-read-own": "A0o", "sync:arm-read-bg": "A0b",
	"sync:io": "I", "sync:spawn-closeRead": "P", "sync:signal-tld": "G0", "sync:signal-crd": "G1",
	"sync:await-tld": "W0", "sync:await-crd": "W1", "sync:await-closed": "W2",
}

var syncLockTok = map[string]string{"sync:lock": "L", "sync:forcelock": "F", "sync:trylock": "T", "sync:unlock": "U", "sync:lock-abort": "X"}

func syncHook(c *websocket.Conn, kind string, obj uintptr) {
	if !strings.HasPrefix(kind, "sync:") {
		return
	}
	v, ok := syncRecs.Load(c)
	if !ok {
		return
	}
	r := v.(*syncRec)
	tok := syncTok[kind]
	if p, isLock := syncLockTok[kind]; isLock {
		id, known := lockID[r.names[obj]]
		if !known {
			return // a mutex created through VerifNewMu
		}
		tok = p + id
	}
	if tok == "" {
		tok = "?" + kind
	}
	g := gid()
	r.mu.Lock()
	r.evs = append(r.evs, syncEv{g, tok})
	r.mu.Unlock()
}

func frameClass(opcode int, fin bool) int {
	switch opcode {
	case 1, 2:
		if fin {
			return 2
		}
		return 1
	case 0:
		if fin {
			return 4
		}
		return 3
	case 9:
		return 5
	case 10:
		return 6
	case 8:
		return 7
	}
	return 0
}

func syncFrameHook(c *websocket.Conn, kind string, opcode int, fin bool) {
	v, ok := syncRecs.Load(c)
	if !ok {
		return
	}
	r := v.(*syncRec)
	p := "B"
	if kind == "sync:wr-end" {
		p = "E"
	}
	g := gid()
	r.mu.Lock()
	r.evs = append(r.evs, syncEv{g, p + strconv.Itoa(frameClass(opcode, fin))})
	r.mu.Unlock()
}

func (r *syncRec) mark(tok string) {
	g := gid()
	r.mu.Lock()
	r.evs = append(r.evs, syncEv{g, tok})
	r.mu.Unlock()
}

// call wraps one API call (one thread of the model): entries = the model entry points it may correspond to.
func (r *syncRec) call(entries string, okErr func(error) bool, f func() error) error {
	r.mark("enter:" + entries)
	err := f()
	if okErr(err) {
		r.mark("exit:ok")
	} else {
		r.mark("exit:err")
	}
	return err
}

func isNil(err error) bool    { return err == nil }
func nilOrEOF(err error) bool { return err == nil || err == io.EOF }
func always(error) bool       { return true }

// ---------- scenarios ----------

type ctScenario struct {
	Seed    int64  `json:"seed"`
	Client  bool   `json:"client"`
	Flate   int    `json:"flate"` // 0 off, 1 context takeover, 2 no context takeover
	Peer    string `json:"peer"`  // polite | silent | closes | hangup | pinger | flood
	PeerAt  int    `json:"peer_at"`
	Actors  string `json:"actors"` // letters: W write, S stream, R reader, P ping, C close, N closenow, D closeread
	CloseAt int    `json:"close_at_ms"`
}

type ctSegment struct {
	Entries string
	Fin     string
	Evs     []string
}

// ctRun runs one scenario and returns the per-thread segments of its event log.
func ctRun(sc ctScenario) ([]ctSegment, string) {
	rng := rand.New(rand.NewSource(sc.Seed))
	a, b := newPipe()
	var copts websocket.VerifCopts
	thr := 0
	switch sc.Flate {
	case 1:
		copts = websocket.VerifCopts{Enabled: true}
		thr = 16
	case 2:
		copts = websocket.VerifCopts{Enabled: true, ClientNoContextTakeover: true, ServerNoContextTakeover: true}
		thr = 16
	}
	rec := &syncRec{}
	c := websocket.VerifNewConn(a, sc.Client, copts, thr)
	rec.names = websocket.VerifMuNames(c)
	syncRecs.Store(c, rec)
	defer syncRecs.Delete(c)

	peer := newRawPeer(b, !sc.Client)
	var pb panicBox
	peerDone := make(chan struct{})
	go func() {
		defer close(peerDone)
		n := 0
		for {
			f, err := peer.readFrame(8 * time.Second)
			if err != nil {
				return
			}
			n++
			if sc.Peer == "hangup" && n >= sc.PeerAt {
				b.Close()
				return
			}
			if sc.Peer == "closes" && n == sc.PeerAt {
				peer.writeFrame(RawFrame{Fin: true, Op: 8, Payload: []byte{0x03, 0xe8}})
			}
			switch f.Op {
			case 9:
				if sc.Peer != "silent" {
					peer.writeFrame(RawFrame{Fin: true, Op: 10, Payload: f.Payload})
				}
			case 8:
				if sc.Peer != "silent" {
					peer.writeFrame(RawFrame{Fin: true, Op: 8, Payload: f.Payload})
					return
				}
			case 0, 1, 2:
				if f.Fin && sc.Peer != "silent" {
					if sc.Peer == "pinger" {
						peer.writeFrame(RawFrame{Fin: true, Op: 9, Payload: []byte("p")})
					}
					if n%3 == 0 {
						peer.writeFrame(RawFrame{Fin: false, Op: 1, Payload: []byte("frag")})
						peer.writeFrame(RawFrame{Fin: true, Op: 0, Payload: []byte("ment")})
					} else {
						peer.writeFrame(RawFrame{Fin: true, Op: 2, Payload: []byte("echo")})
					}
				}
			}
		}
	}()
	if sc.Peer == "flood" {
		go func() {
			for i := 0; i < 200; i++ {
				if peer.writeFrame(RawFrame{Fin: true, Op: 2, Payload: make([]byte, 300)}) != nil {
					return
				}
			}
		}()
	}

	var wg sync.WaitGroup
	run := func(f func()) {
		wg.Add(1)
		go func() {
			defer wg.Done()
			defer pb.guard()
			f()
		}()
	}
	opCtx := func() (context.Context, context.CancelFunc) {
		return context.WithTimeout(context.Background(), 2*time.Second)
	}
	payload := func(n int) []byte {
		p := make([]byte, n)
		for i := range p {
			p[i] = "abcdefgh"[rng.Intn(4)]
		}
		return p
	}
	for _, actor := range sc.Actors {
		switch actor {
		case 'W':
			sizes := []int{0, 5, 200, 5000}
			k := 1 + rng.Intn(3)
			ps := make([][]byte, k)
			for i := range ps {
				ps[i] = payload(sizes[rng.Intn(len(sizes))])
			}
			run(func() {
				for _, p := range ps {
					ctx, cancel := opCtx()
					err := rec.call("Write,Writer", isNil, func() error { return c.Write(ctx, websocket.MessageText, p) })
					cancel()
					if err != nil {
						return
					}
				}
			})
		case 'S':
			chunks := make([][]byte, 1+rng.Intn(3))
			for i := range chunks {
				chunks[i] = payload([]int{0, 3, 40, 3000}[rng.Intn(4)])
			}
			run(func() {
				ctx, cancel := opCtx()
				defer cancel()
				rec.call("Writer", isNil, func() error {
					w, err := c.Writer(ctx, websocket.MessageBinary)
					if err != nil {
						return err
					}
					for _, ch := range chunks {
						if _, err := w.Write(ch); err != nil {
							return err
						}
					}
					return w.Close()
				})
			})
		case 'R':
			bufN := []int{1, 7, 4096}[rng.Intn(3)]
			run(func() {
				for i := 0; i < 40; i++ {
					ctx, cancel := opCtx()
					var rd io.Reader
					err := rec.call("Reader", isNil, func() error {
						var err error
						_, rd, err = c.Reader(ctx)
						return err
					})
					if err != nil {
						cancel()
						return
					}
					buf := make([]byte, bufN)
					for {
						var rerr error
						rec.call("Read", nilOrEOF, func() error {
							_, rerr = rd.Read(buf)
							return rerr
						})
						if rerr != nil {
							break
						}
					}
					cancel()
				}
			})
		case 'P':
			run(func() {
				for i := 0; i < 2; i++ {
					ctx, cancel := context.WithTimeout(context.Background(), 300*time.Millisecond)
					err := rec.call("Ping", isNil, func() error { return c.Ping(ctx) })
					cancel()
					if err != nil {
						return
					}
				}
			})
		case 'C':
			d := time.Duration(sc.CloseAt) * time.Millisecond
			run(func() {
				time.Sleep(d)
				rec.call("Close", isNil, func() error { return c.Close(websocket.StatusNormalClosure, "bye") })
			})
		case 'N':
			d := time.Duration(sc.CloseAt) * time.Millisecond
			run(func() {
				time.Sleep(d)
				rec.call("CloseNow", isNil, func() error { return c.CloseNow() })
			})
		case 'D':
			run(func() {
				rec.call("CloseRead", always, func() error { c.CloseRead(context.Background()); return nil })
			})
		}
	}
	done := make(chan struct{})
	go func() { wg.Wait(); close(done) }()
	select {
	case <-done:
	case <-time.After(20 * time.Second):
		b.Close()
		a.Close()
		return nil, "scenario did not finish within 20 s; library goroutines: " + libStacks(800)
	}
	// final clean-up, itself a traced call
	func() {
		defer pb.guard()
		rec.call("CloseNow", isNil, func() error { return c.CloseNow() })
	}()
	b.Close()
	select {
	case <-peerDone:
	case <-time.After(2 * time.Second):
	}
	// the timeout goroutine and the CloseRead goroutine end shortly after the connection is closed
	time.Sleep(2 * time.Millisecond)
	if p := pb.get(); p != "" {
		return nil, "panic: " + p
	}
	rec.mu.Lock()
	evs := append([]syncEv(nil), rec.evs...)
	rec.mu.Unlock()
	return ctSegments(evs), ""
}

// ctSegments splits the log by goroutine and, within a goroutine, by API call.
func ctSegments(evs []syncEv) []ctSegment {
	byG := map[int64][]string{}
	var order []int64
	for _, e := range evs {
		if _, ok := byG[e.g]; !ok {
			order = append(order, e.g)
		}
		byG[e.g] = append(byG[e.g], e.tok)
	}
	var out []ctSegment
	for _, g := range order {
		toks := byG[g]
		// fold "lock acquired, found closed, released": X<m> U<m> is a failed lock attempt (silent)
		var f []string
		for i := 0; i < len(toks); i++ {
			if strings.HasPrefix(toks[i], "X") && i+1 < len(toks) && toks[i+1] == "U"+toks[i][1:] {
				i++
				continue
			}
			f = append(f, toks[i])
		}
		var cur *ctSegment
		var loose []string
		for _, t := range f {
			switch {
			case strings.HasPrefix(t, "enter:"):
				cur = &ctSegment{Entries: strings.TrimPrefix(t, "enter:"), Fin: "running"}
			case strings.HasPrefix(t, "exit:"):
				if cur != nil {
					cur.Fin = strings.TrimPrefix(t, "exit:")
					out = append(out, *cur)
					cur = nil
				}
			default:
				if cur != nil {
					cur.Evs = append(cur.Evs, t)
				} else {
					loose = append(loose, t)
				}
			}
		}
		if cur != nil {
			out = append(out, *cur)
		}
		if len(loose) > 0 {
			// a goroutine of the library itself
			seg := ctSegment{Entries: "timeoutLoop,closeReadGoroutine", Fin: "running", Evs: loose}
			last := loose[len(loose)-1]
			if last == "G0" || last == "G1" {
				seg.Fin = "err" // both goroutines end in a `done false` node (they return nothing)
			}
			out = append(out, seg)
		}
	}
	return out
}

func ctScenarios(seed int64, stream string, n int) []ctScenario {
	rng := newRng(seed, "cirtrace"+stream)
	peers := []string{"polite", "polite", "polite", "closes", "hangup", "pinger", "flood", "silent"}
	actorSets := []string{"W", "WR", "WWR", "SR", "WSR", "WSRP", "RP", "WRC", "WSRC", "WRN", "SRN", "WRPC", "DW", "DWC", "DWP", "DN", "WWSSRPC", "RC", "C", "N", "CC", "CN", "WRCC", "SRCN", "DCN"}
	var out []ctScenario
	for i := 0; i < n; i++ {
		sc := ctScenario{Seed: rng.Int63(), Client: rng.Intn(2) == 0, Flate: rng.Intn(3), Peer: peers[rng.Intn(len(peers))],
			PeerAt: 1 + rng.Intn(5), Actors: actorSets[rng.Intn(len(actorSets))], CloseAt: rng.Intn(12)}
		if sc.Peer == "silent" && strings.ContainsAny(sc.Actors, "C") && i%4 != 0 {
			sc.Peer = "polite" // a Close against a silent peer waits 5 s: keep a few
		}
		out = append(out, sc)
	}
	return out
}

// cirTraceValidation runs the scenarios and compares with the Lean acceptor.
func cirTraceValidation(ctx *runCtx, n int) {
	rep := ctx.rep
	if ctx.drv == nil {
		rep.note("cirtrace: model driver unavailable, trace validation skipped")
		return
	}
	if atomic.LoadInt32(&hangCount) > 0 {
		// library calls already hang in this run (reported with their cases): scenarios run on such a library do not finish
		rep.note("cirtrace: skipped, library calls hang in this run")
		return
	}
	websocket.VerifSetEventHook(syncHook)
	websocket.VerifSetFrameEventHook(syncFrameHook)
	defer websocket.VerifSetEventHook(nil)
	defer websocket.VerifSetFrameEventHook(nil)
	scs := ctScenarios(ctx.seed, ctx.rep.Property, n)
	if ctx.replay != "" {
		var one ctScenario
		if err := loadReplay(ctx.replay, &one); err == nil && one.Actors != "" {
			scs = []ctScenario{one}
		}
	}
	type res struct {
		sc   ctScenario
		segs []ctSegment
		bad  string
	}
	results := make([]res, len(scs))
	sem := make(chan struct{}, 12)
	var wg sync.WaitGroup
	for i, sc := range scs {
		wg.Add(1)
		sem <- struct{}{}
		go func(i int, sc ctScenario) {
			defer wg.Done()
			defer func() { <-sem }()
			segs, bad := ctRun(sc)
			results[i] = res{sc, segs, bad}
		}(i, sc)
	}
	wg.Wait()
	var lines, expect, what []string
	var owners []ctScenario
	for _, r := range results {
		rep.eval(fmt.Sprintf("cirtrace %+v", r.sc))
		rep.count("cirtrace-scenario:peer=" + r.sc.Peer)
		if r.bad != "" {
			shape := "cirtrace-scenario-hangs"
			if strings.HasPrefix(r.bad, "panic") {
				shape = "panic"
			}
			rep.violate(Violation{Kind: "property", Shape: shape, What: r.bad, Replay: r.sc})
			continue
		}
		for _, s := range r.segs {
			rep.count("cirtrace-thread:" + s.Entries + ":" + s.Fin)
			rep.Dist["cirtrace-events"] += len(s.Evs)
			unknown := ""
			for _, e := range s.Evs {
				if strings.HasPrefix(e, "?") {
					unknown = e
				}
			}
			if unknown != "" {
				rep.violate(Violation{Kind: "correspondence", Shape: "cirtrace-unknown-event", What: unknown, Replay: r.sc})
				continue
			}
			lines = append(lines, "cirtrace "+s.Entries+" "+s.Fin+" "+strings.Join(s.Evs, " "))
			expect = append(expect, "ok accept")
			what = append(what, fmt.Sprintf("thread %s (%s) of scenario %+v: its synchronisation events are not a path of the skeleton WS.Gen.ConnCIR", s.Entries, s.Fin, r.sc))
			owners = append(owners, r.sc)
		}
	}
	ans, err := ctx.drv.Ask(lines)
	if err != nil {
		rep.violate(Violation{Kind: "correspondence", Shape: "driver-failed", What: err.Error()})
		return
	}
	for i := range lines {
		if ans[i] != expect[i] {
			rep.Disagree++
			rep.violate(Violation{Kind: "correspondence", Shape: "cir-trace-not-a-path-of-the-skeleton",
				What: fmt.Sprintf("%s: acceptor says %q for: %s", what[i], ans[i], trunc(lines[i], 600)), Replay: owners[i]})
		}
	}
	rep.count("model-compared")
	rep.Dist["cirtrace-threads-checked"] += len(lines)
}

var _ = errors.New

// cirTraceN: scenarios per check run.
func cirTraceN(ctx *runCtx) int {
	if ctx.thorough() {
		return 800
	}
	return 60
}

// cirTraceReplay: when the replay file holds a trace-validation scenario, run just that.
func cirTraceReplay(ctx *runCtx) bool {
	if ctx.replay == "" {
		return false
	}
	var one ctScenario
	if err := loadReplay(ctx.replay, &one); err != nil || one.Actors == "" {
		return false
	}
	cirTraceValidation(ctx, 1)
	ctx.rep.eval("replay")
	return true
}

func init() {
	runners["CIRTRACE"] = func(ctx *runCtx) {
		n := 150
		if ctx.thorough() {
			n = 2000
		}
		cirTraceValidation(ctx, n)
	}
}
