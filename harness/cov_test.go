//go:build verif

package main

import (
	"fmt"
	"os"
	"testing"
)

// TestCovAll runs every property's quick runner in-process (without the model driver) so that
// `go test -coverpkg` can report which library statements the harness never executes (bin/coverage).
// It is not part of any check and is skipped unless VERIF_COV is set.
func TestCovAll(t *testing.T) {
	if os.Getenv("VERIF_COV") == "" {
		t.Skip("set VERIF_COV=1 (see /verif/bin/coverage)")
	}
	for i := 1; i <= 20; i++ {
		id := fmt.Sprintf("C%02d", i)
		rep := newReport(id, "quick", 1)
		runners[id](&runCtx{rep: rep, tier: "quick", seed: 1})
		fmt.Println(id, rep.Evaluations, len(rep.Violations))
	}
}
