package main

import (
	"strings"
	"errors"
	"io"
	"sync"
)

var errScripted = errors.New("scripted transport failure")

// scriptRWC is a scripted transport: reads are served from a byte script in chosen chunk
// sizes and end with EOF, an error, or by blocking until Close; writes are recorded.
type scriptRWC struct {
	mu            sync.Mutex
	in            []byte
	pos           int
	chunks        []int // read sizes, cycled; nil = as much as asked
	ci            int
	term          string // "eof" | "err" | "block"
	closed        bool
	closeCh       chan struct{}
	wrote         []byte
	writes        [][]byte
	onWrite       func(p []byte) // optional hook (called without the lock)
	onRead        func()         // optional progress hook (called without the lock, when bytes were served)
	readsAfterEnd int
}

func newScriptRWC(in []byte, chunks []int, term string) *scriptRWC {
	return &scriptRWC{in: in, chunks: chunks, term: term, closeCh: make(chan struct{})}
}

func (s *scriptRWC) Read(p []byte) (int, error) {
	s.mu.Lock()
	if s.closed {
		s.mu.Unlock()
		return 0, io.ErrClosedPipe
	}
	if s.pos < len(s.in) {
		n := len(p)
		if len(s.chunks) > 0 {
			c := s.chunks[s.ci%len(s.chunks)]
			s.ci++
			if c < 1 {
				c = 1
			}
			if c < n {
				n = c
			}
		}
		if n > len(s.in)-s.pos {
			n = len(s.in) - s.pos
		}
		copy(p, s.in[s.pos:s.pos+n])
		s.pos += n
		f := s.onRead
		glued := s.pos == len(s.in) && strings.HasSuffix(s.term, "-glued")
		term := s.term
		s.mu.Unlock()
		if f != nil {
			f()
		}
		if glued {
			// a transport that hands over its last bytes together with its end (n > 0 and an error from one Read), as
			// io.Reader allows and e.g. crypto/tls does when the close notification follows the data
			if term == "eof-glued" {
				return n, io.EOF
			}
			return n, errScripted
		}
		return n, nil
	}
	s.readsAfterEnd++
	term := s.term
	s.mu.Unlock()
	switch term {
	case "eof", "eof-glued":
		return 0, io.EOF
	case "err", "err-glued":
		return 0, errScripted
	}
	<-s.closeCh
	return 0, io.ErrClosedPipe
}

func (s *scriptRWC) Write(p []byte) (int, error) {
	s.mu.Lock()
	if s.closed {
		s.mu.Unlock()
		return 0, io.ErrClosedPipe
	}
	s.wrote = append(s.wrote, p...)
	s.writes = append(s.writes, append([]byte(nil), p...))
	h := s.onWrite
	s.mu.Unlock()
	if h != nil {
		h(p)
	}
	return len(p), nil
}

func (s *scriptRWC) Close() error {
	s.mu.Lock()
	defer s.mu.Unlock()
	if !s.closed {
		s.closed = true
		close(s.closeCh)
	}
	return nil
}

func (s *scriptRWC) written() []byte {
	s.mu.Lock()
	defer s.mu.Unlock()
	return append([]byte(nil), s.wrote...)
}
