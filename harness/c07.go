package main

import (
	"context"
	"fmt"
	"io"
	"math/rand"
	"runtime"
	"strings"
	"sync"
	"time"

	"nhooyr.io/websocket"
)

func init() { runners["C07"] = runC07 }

type c07Case struct {
	Conns  int   `json:"conns"`
	Rounds int   `json:"rounds"`
	Seed   int64 `json:"seed"`
}

// one connection's life: messages whose every byte is the connection's own tag; programs that
// misuse the reader in the ways the property lists.
// c07Tags: connection → the tag byte of every payload byte it receives (for the dictionary check in the hook).
var c07Tags sync.Map

func c07Conn(id int, tag byte, rng *rand.Rand, rounds int, leak chan<- string) {
	for r := 0; r < rounds; r++ {
		client := rng.Intn(2) == 0
		mode := rng.Intn(3)
		a, b := newPipe()
		copts := websocket.VerifCopts{Enabled: mode != 0, ClientNoContextTakeover: mode == 2, ServerNoContextTakeover: mode == 2}
		c := websocket.VerifNewConn(a, client, copts, 16)
		c07Tags.Store(c, tag)
		peer := newRawPeer(b, !client)
		go io.Copy(io.Discard, &peerDrain{peer})
		takeover := mode == 1
		d := newRawDeflater(takeover, 6)
		ctx, cancel := context.WithTimeout(context.Background(), 5*time.Second)
		check := func(where string, data []byte) {
			for i, x := range data {
				if x != tag {
					select {
					case leak <- fmt.Sprintf("connection %d (tag %#x) %s: byte %d of %d returned is %#x, which this connection never received", id, tag, where, i, len(data), x):
					default:
					}
					return
				}
			}
		}
		sendMsg := func(n int, frags int, closeAfterFrag int) {
			p := make([]byte, n)
			for i := range p {
				p[i] = tag
			}
			wire := p
			rsv1 := false
			if mode != 0 {
				wire = d.message(p, false)
				rsv1 = true
			}
			if frags < 1 {
				frags = 1
			}
			step := len(wire)/frags + 1
			pos := 0
			for f := 0; f < frags; f++ {
				end := pos + step
				if end > len(wire) || f == frags-1 {
					end = len(wire)
				}
				op := 0
				if f == 0 {
					op = 2
				}
				peer.writeFrame(RawFrame{Fin: f == frags-1, Op: op, Rsv1: rsv1 && f == 0, Payload: wire[pos:end]})
				pos = end
				if f == closeAfterFrag {
					peer.writeFrame(RawFrame{Fin: true, Op: 8, Payload: []byte{0x03, 0xe8}})
					return
				}
			}
		}
		action := rng.Intn(7)
		switch action {
		case 0: // read again after end-of-message
			sendMsg(300+rng.Intn(3000), 1+rng.Intn(3), -1)
			_, rd, err := c.Reader(ctx)
			if err == nil {
				data, _ := io.ReadAll(rd)
				check("message", data)
				for k := 0; k < 4; k++ {
					buf := make([]byte, 512)
					n, _ := rd.Read(buf)
					check("read after end-of-message", buf[:n])
					time.Sleep(time.Duration(rng.Intn(300)) * time.Microsecond)
				}
			}
		case 1: // abandon a message half way, then close
			sendMsg(5000, 3, -1)
			_, rd, err := c.Reader(ctx)
			if err == nil {
				buf := make([]byte, 100)
				n, _ := rd.Read(buf)
				check("partial read", buf[:n])
			}
		case 2: // peer Close frame in the middle of a (compressed) message
			sendMsg(4000, 3, rng.Intn(2))
			_, rd, err := c.Reader(ctx)
			if err == nil {
				data, _ := io.ReadAll(rd)
				check("message cut by peer close", data)
				buf := make([]byte, 256)
				n, _ := rd.Read(buf)
				check("read after peer close", buf[:n])
			}
		case 3: // local close while a reader is in the middle of a message
			sendMsg(6000, 4, -1)
			_, rd, err := c.Reader(ctx)
			if err == nil {
				buf := make([]byte, 64)
				n, _ := rd.Read(buf)
				check("partial read", buf[:n])
				go c.CloseNow()
				for k := 0; k < 5; k++ {
					n, _ := rd.Read(buf)
					check("read racing with CloseNow", buf[:n])
				}
			}
		case 4: // context expiry in the middle of a message
			sendMsg(3000, 1, -1)
			ectx, ecancel := context.WithTimeout(ctx, time.Duration(rng.Intn(400))*time.Microsecond)
			_, rd, err := c.Reader(ectx)
			if err == nil {
				data, _ := io.ReadAll(rd)
				check("read with expiring context", data)
			}
			ecancel()
		case 5: // several whole messages (normal use keeps the pools busy)
			for k := 0; k < 3; k++ {
				sendMsg(100+rng.Intn(2000), 1+rng.Intn(2), -1)
				_, data, err := c.Read(ctx)
				if err == nil {
					check("message", data)
				}
			}
		case 6: // write side: compressed writes, then close mid-writer
			p := make([]byte, 2000)
			for i := range p {
				p[i] = tag
			}
			c.Write(ctx, websocket.MessageBinary, p)
			if w, err := c.Writer(ctx, websocket.MessageBinary); err == nil {
				w.Write(p[:500])
			}
		}
		cancel()
		if rng.Intn(2) == 0 {
			c.CloseNow()
		} else {
			go c.Close(websocket.StatusNormalClosure, "")
			time.Sleep(time.Duration(rng.Intn(200)) * time.Microsecond)
		}
		b.Close()
	}
}

type peerDrain struct{ p *rawPeer }

func (d *peerDrain) Read(buf []byte) (int, error) {
	_, err := d.p.readFrame(6 * time.Second)
	if err != nil {
		return 0, io.EOF
	}
	return 0, nil
}

// poolLog records the flate-reader get/put/use events of all connections through the verif hook.
type poolLog struct {
	mu    sync.Mutex
	evs   []string // g:c:o / p:c:o / u:c:o with small integer ids
	conns map[*websocket.Conn]int
	objs  map[uintptr]int
	owner map[int]int // object → connection (the harness's own monitor)
	bad   string
	// dictionary ownership
	badDict    string
	dictChecks int
	dictBytes  int
}

func newPoolLog() *poolLog {
	return &poolLog{conns: map[*websocket.Conn]int{}, objs: map[uintptr]int{}, owner: map[int]int{}}
}

func (l *poolLog) hook(c *websocket.Conn, kind string, obj uintptr) {
	l.mu.Lock()
	defer l.mu.Unlock()
	ci, ok := l.conns[c]
	if !ok {
		ci = len(l.conns)
		l.conns[c] = ci
	}
	switch kind {
	case "get-flate-reader":
		oi, ok := l.objs[obj]
		if !ok {
			oi = len(l.objs)
			l.objs[obj] = oi
		}
		if o, held := l.owner[oi]; held && l.bad == "" {
			l.bad = fmt.Sprintf("inflater %d handed to connection %d while connection %d still owns it", oi, ci, o)
		}
		l.owner[oi] = ci
		l.evs = append(l.evs, fmt.Sprintf("g:%d:%d", ci, oi))
		// the dictionary handed to the inflater (the connection's sliding window, possibly fresh from the pool)
		// must hold nothing but bytes this connection received itself (WS.Props.C07.dict_own)
		if t, ok := c07Tags.Load(c); ok && l.badDict == "" {
			d := websocket.VerifReadDict(c)
			l.dictChecks++
			l.dictBytes += len(d)
			for i, x := range d {
				if x != t.(byte) {
					l.badDict = fmt.Sprintf("connection %d (tag %#x) starts a compressed message with a %d-byte dictionary whose byte %d is %#x: bytes it never received (a sliding window came back from the pool with another connection's data)", ci, t.(byte), len(d), i, x)
					break
				}
			}
		}
	case "put-flate-reader":
		oi, ok := l.objs[obj]
		if !ok {
			return
		}
		if o, held := l.owner[oi]; (!held || o != ci) && l.bad == "" {
			l.bad = fmt.Sprintf("connection %d released inflater %d which it does not own", ci, oi)
		}
		delete(l.owner, oi)
		l.evs = append(l.evs, fmt.Sprintf("p:%d:%d", ci, oi))
	case "use-limit-reader-source":
		oi, ok := l.objs[obj]
		if !ok {
			return // not an inflater (the frame reader itself, or the detached EOF source)
		}
		if o, held := l.owner[oi]; (!held || o != ci) && l.bad == "" {
			l.bad = fmt.Sprintf("connection %d read through inflater %d which it does not own (use after Put)", ci, oi)
		}
		l.evs = append(l.evs, fmt.Sprintf("u:%d:%d", ci, oi))
	}
}

func runC07(ctx *runCtx) {
	rep := ctx.rep
	rep.Rule = "2..8 connections run concurrently (both roles, compression off / takeover / no takeover), every byte of every payload on connection i is the tag byte of i; per round one of: read again after end-of-message, abandon a message, peer Close frame inside a (compressed, fragmented) message, CloseNow racing a reader inside a message, context expiry inside a message, plain reads, writes with an abandoned Writer; then Close/CloseNow and a new connection that reuses the pools. " +
		"oracle: every byte returned by any read equals the connection's own tag; the verif hook logs every inflater Get/Put/use with connection and object identity, checked by an ownership monitor in the harness and by the Lean monitor; at every inflater Get the hook also inspects the dictionary (the connection's sliding window, fresh or from the pool): every byte must be the connection's own tag. Targeted scenarios: wsjson buffer pool after an invalid document; a connection closed while a frame write is stuck in the transport (also after a short-deadline Ping gave up waiting for that frame); sliding windows of closed context-takeover connections vs a new connection receiving a stream whose back-references point before its start (must fail, never return the earlier bytes). Thorough tier repeats under the race detector. distinct = (conns, rounds, seed)"
	rng := newRng(ctx.seed, "c07")
	batches := 12
	if ctx.thorough() {
		batches = 150
	}
	if raceEnabled {
		batches /= 3
	}
	var lines, expect, what []string
	for bi := 0; bi < batches; bi++ {
		cc := c07Case{Conns: 2 + rng.Intn(7), Rounds: 25, Seed: ctx.seed*1000 + int64(bi)}
		plog := newPoolLog()
		websocket.VerifSetEventHook(plog.hook)
		leak := make(chan string, 1)
		var wg sync.WaitGroup
		panicked := make(chan string, 16)
		for i := 0; i < cc.Conns; i++ {
			wg.Add(1)
			go func(i int) {
				defer wg.Done()
				defer func() {
					if r := recover(); r != nil {
						select {
						case panicked <- fmt.Sprint(r) + " @ " + stackTop():
						default:
						}
					}
				}()
				c07Conn(i, byte(0x41+i), newRng(cc.Seed, fmt.Sprint("conn", i)), cc.Rounds, leak)
			}(i)
		}
		// bounded wait: with a broken library one connection can swallow another one's bytes and leave it
		// waiting for ever; the ownership log below then says why
		waitc := make(chan struct{})
		go func() { wg.Wait(); close(waitc) }()
		hung := false
		select {
		case <-waitc:
		case <-time.After(90 * time.Second):
			hung = true
		}
		websocket.VerifSetEventHook(nil)
		rep.eval(fmt.Sprintf("%+v", cc))
		rep.count(fmt.Sprintf("conns:%d", cc.Conns))
		plog.mu.Lock()
		rep.Dist["pool-events"] += len(plog.evs)
		rep.Dist["dictionary-checks"] += plog.dictChecks
		rep.Dist["dictionary-bytes-checked"] += plog.dictBytes
		if plog.badDict != "" {
			rep.violate(Violation{Kind: "property", Shape: "foreign-bytes-in-dictionary", What: plog.badDict, Replay: cc})
		}
		if plog.bad != "" {
			rep.violate(Violation{Kind: "property", Shape: "pooled-inflater-used-without-ownership", What: plog.bad, Replay: cc})
		} else if len(plog.evs) > 0 && len(plog.evs) < 40000 {
			lines = append(lines, "pool-monitor "+strings.Join(plog.evs, ","))
			expect = append(expect, "ok accept")
			what = append(what, fmt.Sprintf("ownership log of batch %d (%d events)", bi, len(plog.evs)))
		}
		plog.mu.Unlock()
		select {
		case l := <-leak:
			rep.violate(Violation{Kind: "property", Shape: "foreign-bytes-returned", What: l, Replay: cc})
		default:
		}
		select {
		case p := <-panicked:
			rep.violate(Violation{Kind: "property", Shape: "panic", What: p, Replay: cc})
		default:
		}
		if bi == 0 {
			rep.sample(cc)
		}
		if hung {
			plog.mu.Lock()
			if plog.bad == "" {
				rep.violate(Violation{Kind: "property", Shape: "case-hangs", What: "the connections of the batch did not finish within 90 s; library goroutines: " + libStacks(1200), Replay: cc})
			}
			plog.mu.Unlock()
			break // goroutines of this batch are stuck: later batches would share the process-wide pools with them
		}
	}
	// targeted scenarios (run one at a time: they depend on what the process-wide pools hold)
	nr := 4
	if ctx.thorough() {
		nr = 40
	}
	for _, sc := range []struct {
		name string
		f    func(int) (string, string)
	}{{"json-pool", jsonPoolScenario}, {"json-kept-results", jsonKeptResultsScenario}, {"flate-writer-pool", flateWriterPoolScenario}, {"json-nested-read", jsonNestedReadScenario}, {"stale-writer", func(n int) (string, string) { return staleWriterScenario(n, false) }},
		{"stale-writer-after-failed-ping", func(n int) (string, string) { return staleWriterScenario(n, true) }}, {"window-pool", windowPoolScenario}, {"handshake-isolation", handshakeIsolationScenario}} {
		sh, w := "", ""
		func() {
			defer func() {
				if r := recover(); r != nil {
					sh, w = "panic", fmt.Sprint(r)
				}
			}()
			sh, w = sc.f(nr)
		}()
		rep.eval("scenario/" + sc.name)
		rep.count("scenario:" + sc.name)
		if sh != "" {
			rep.violate(Violation{Kind: "property", Shape: sh, What: w, Replay: map[string]interface{}{"scenario": sc.name, "rounds": nr}})
		}
	}
	askAndCompare(ctx, lines, expect, what, "pool-model-vs-impl")
	if raceEnabled {
		rep.count("race-detector-on")
	}
}

func stackTop() string {
	buf := make([]byte, 4096)
	n := runtime.Stack(buf, false)
	lines := strings.Split(string(buf[:n]), "\n")
	var keep []string
	for _, l := range lines {
		if strings.Contains(l, "websocket") || strings.Contains(l, "flate") {
			keep = append(keep, strings.TrimSpace(l))
		}
		if len(keep) > 8 {
			break
		}
	}
	return strings.Join(keep, " | ")
}
