package main

import (
	"context"
	"fmt"
	"io"
	"math/rand"
	"runtime"
	"strings"
	"time"

	"nhooyr.io/websocket"
)

func init() { runners["C20"] = runC20 }

type c20Case struct {
	Client bool     `json:"client"`
	Ops    []string `json:"ops"`  // write | read | ping | closeread | netconn | abandon-reader | abandon-writer | peer-data | peer-partial-frame
	End    string   `json:"end"`  // none | close | closenow | peer-close | proto-error | ctx-expiry | transport-failure | close-in-background
	Then   string   `json:"then"` // close | closenow | close-long-reason | close-bad-code : the call after which no goroutine may remain
	// EchoDelayMs: the peer answers a Close frame only after this long (a close handshake is then still
	// in progress when the final call is made)
	EchoDelayMs int `json:"echo_delay_ms,omitempty"`
	// SlowCloseMs: the transport's Close takes this long (whoever closes the connection - possibly one of the
	// library's own goroutines - is then still inside it when the final call is made)
	SlowCloseMs int `json:"slow_close_ms,omitempty"`
	// LateReadMs: the transport's Close returns at once but a Read that was pending only returns this much later (a
	// connection whose in-flight I/O is slow to unwind): nothing of the library may still be running when the final call returned
	LateReadMs int `json:"late_read_ms,omitempty"`
	// Flate: permessage-deflate negotiated (context takeover, threshold 1): an abandoned Writer then leaves a compressor
	// allocated and the message lock held when the connection ends
	Flate bool `json:"flate,omitempty"`
}

// lateReader delays the return of a failed (interrupted) Read.
type lateReader struct {
	*pipeEnd
	d time.Duration
}

func (l lateReader) Read(p []byte) (int, error) {
	n, err := l.pipeEnd.Read(p)
	if err != nil {
		time.Sleep(l.d)
	}
	return n, err
}

// slowCloser delays the transport's Close.
type slowCloser struct {
	*pipeEnd
	d time.Duration
}

func (s slowCloser) Close() error {
	time.Sleep(s.d)
	return s.pipeEnd.Close()
}

// lateWriter: a peer that does not drain — a Write blocks until the transport is closed and its failure is reported a little later
// (layered transports unwind that way).
type lateWriter struct {
	*pipeEnd
	d time.Duration
}

func (l lateWriter) Write(p []byte) (int, error) {
	<-l.pipeEnd.closedCh
	time.Sleep(l.d)
	return 0, io.ErrClosedPipe
}

// c20CancelledCloseRead: CloseRead under a context the caller cancels later. The peer sends a data message, the CloseRead
// goroutine starts the policy-violation close and is stuck writing its Close frame (the peer does not drain); the caller cancels
// its context and calls CloseNow / Close. A done CloseRead context says nothing about where that goroutine is: the call must
// still wait for it.
func c20CancelledCloseRead(client bool, then string) (string, string) {
	before, _ := libGoroutines()
	a, b := newPipe()
	c := websocket.VerifNewConn(lateWriter{a, 350 * time.Millisecond}, client, websocket.VerifCopts{}, 0)
	peer := newRawPeer(b, !client)
	defer b.Close()
	ctx, cancel := context.WithCancel(context.Background())
	crCtx := c.CloseRead(ctx)
	peer.writeFrame(RawFrame{Fin: true, Op: 1, Payload: []byte("unexpected data message")})
	time.Sleep(80 * time.Millisecond) // the goroutine is inside the write of its Close frame now
	cancel()
	time.Sleep(20 * time.Millisecond)
	done := make(chan struct{})
	go func() {
		defer close(done)
		if then == "close" {
			c.Close(websocket.StatusNormalClosure, "")
		} else {
			c.CloseNow()
		}
	}()
	select {
	case <-done:
	case <-time.After(25 * time.Second):
		return "final-call-hangs", fmt.Sprintf("client=%v: %s after a cancelled CloseRead context did not return", client, then)
	}
	time.Sleep(10 * time.Millisecond)
	after, which := libGoroutines()
	select {
	case <-crCtx.Done():
	default:
		return "closeread-ctx-not-cancelled", "the context returned by CloseRead is not done after the connection was closed"
	}
	if after > before {
		return "goroutine-outlives-final-call", fmt.Sprintf("client=%v: %d library goroutine(s) still alive right after %s returned (CloseRead under a context the caller had cancelled): %s", client, after-before, then, which)
	}
	return "", ""
}

// libGoroutines counts goroutines started by the library that are still alive.
func libGoroutines() (int, string) {
	buf := make([]byte, 1<<20)
	for {
		n := runtime.Stack(buf, true)
		if n < len(buf) {
			buf = buf[:n]
			break
		}
		buf = make([]byte, 2*len(buf))
	}
	cnt := 0
	var which []string
	for _, g := range strings.Split(string(buf), "\n\n") {
		if strings.Contains(g, "websocket.(*Conn).timeoutLoop") {
			cnt++
			which = append(which, "timeoutLoop")
		} else if strings.Contains(g, "websocket.(*Conn).CloseRead.func") {
			cnt++
			which = append(which, "CloseRead")
		} else if i := strings.Index(g, "created by nhooyr.io/websocket."); i >= 0 {
			// any other goroutine started by library code
			cnt++
			which = append(which, strings.TrimSpace(strings.SplitN(g[i+len("created by nhooyr.io/websocket."):], "\n", 2)[0]))
		}
	}
	return cnt, strings.Join(which, ",")
}

func runC20Case(cc c20Case) (string, string) {
	before, _ := libGoroutines()
	a, b := newPipe()
	var rwc io.ReadWriteCloser = a
	if cc.SlowCloseMs > 0 {
		rwc = slowCloser{a, time.Duration(cc.SlowCloseMs) * time.Millisecond}
	}
	if cc.LateReadMs > 0 {
		rwc = lateReader{a, time.Duration(cc.LateReadMs) * time.Millisecond}
	}
	c := websocket.VerifNewConn(rwc, cc.Client, websocket.VerifCopts{Enabled: cc.Flate}, 1)
	peer := newRawPeer(b, !cc.Client)
	bg, cancel := context.WithTimeout(context.Background(), 20*time.Second)
	defer cancel()
	// the peer answers pings, echoes closes and otherwise discards
	peerStop := make(chan struct{})
	go func() {
		defer close(peerStop)
		for {
			f, err := peer.readFrame(15 * time.Second)
			if err != nil {
				return
			}
			switch f.Op {
			case 9:
				peer.writeFrame(RawFrame{Fin: true, Op: 10, Payload: f.Payload})
			case 8:
				if cc.EchoDelayMs < 0 {
					continue // never answers
				}
				time.Sleep(time.Duration(cc.EchoDelayMs) * time.Millisecond)
				peer.writeFrame(RawFrame{Fin: true, Op: 8, Payload: f.Payload})
			}
		}
	}()
	closeRead := false
	var crCtx context.Context
	var readerRunning chan struct{}
	startReader := func() {
		if readerRunning != nil || closeRead {
			return
		}
		readerRunning = make(chan struct{})
		go func() {
			defer close(readerRunning)
			for {
				if _, _, err := c.Read(bg); err != nil {
					return
				}
			}
		}()
	}
	for _, op := range cc.Ops {
		octx, ocancel := context.WithTimeout(bg, 150*time.Millisecond)
		switch op {
		case "write":
			c.Write(octx, websocket.MessageText, []byte("hello"))
		case "read":
			if !closeRead && readerRunning == nil {
				peer.writeFrame(RawFrame{Fin: true, Op: 2, Payload: []byte("data")})
				c.Read(octx)
			}
		case "ping":
			startReader()
			c.Ping(octx)
		case "closeread":
			if readerRunning == nil {
				crCtx = c.CloseRead(bg)
				closeRead = true
			}
		case "netconn":
			if !closeRead && readerRunning == nil {
				nc := websocket.NetConn(octx, c, websocket.MessageBinary)
				nc.Write([]byte("via netconn"))
				nc.SetReadDeadline(time.Now().Add(time.Hour))
				nc.SetDeadline(time.Time{})
			}
		case "abandon-reader":
			if !closeRead && readerRunning == nil {
				peer.writeFrame(RawFrame{Fin: false, Op: 2, Payload: []byte("partial")})
				c.Reader(octx) // never read
			}
		case "peer-data":
			// a data message nobody asked for: after CloseRead it makes the CloseRead goroutine close the connection
			peer.writeFrame(RawFrame{Fin: true, Op: 1, Payload: []byte("unsolicited")})
			time.Sleep(10 * time.Millisecond)
		case "peer-partial-frame":
			// the peer starts a data frame and stalls inside its payload, leaving the transport open (after
			// CloseRead the CloseRead goroutine then closes the connection and has to skip that payload)
			f := RawFrame{Fin: true, Op: 2, Masked: !cc.Client, Key: [4]byte{3, 1, 4, 1}, Payload: make([]byte, 300)}
			b.Write(f.Encode()[:40])
			time.Sleep(10 * time.Millisecond)
		case "peer-chatty":
			// the peer keeps sending whole data messages, 300 ms apart, and never answers a Close frame: a close
			// handshake must still give up after its 5 s, however lively the peer is
			go func() {
				for peer.writeFrame(RawFrame{Fin: true, Op: 2, Payload: []byte("chatter")}) == nil {
					time.Sleep(300 * time.Millisecond)
				}
			}()
			time.Sleep(20 * time.Millisecond)
		case "abandon-writer":
			if w, err := c.Writer(octx, websocket.MessageText); err == nil {
				w.Write([]byte("unfinished")) // never closed
			}
		}
		ocancel()
	}
	switch cc.End {
	case "close":
		startReaderIfNone := false
		_ = startReaderIfNone
		c.Close(websocket.StatusNormalClosure, "")
	case "closenow":
		c.CloseNow()
	case "close-in-background":
		// another goroutine is in the middle of Close (waiting for the peer's echo) when the final call is made
		go c.Close(websocket.StatusNormalClosure, "")
		time.Sleep(30 * time.Millisecond)
	case "peer-close":
		peer.writeFrame(RawFrame{Fin: true, Op: 8, Payload: []byte{0x03, 0xe8}})
		if !closeRead && readerRunning == nil {
			c.Read(bg)
		}
		time.Sleep(5 * time.Millisecond)
	case "proto-error":
		peer.writeFrame(RawFrame{Fin: true, Op: 3, Payload: []byte("bad opcode")})
		if !closeRead && readerRunning == nil {
			c.Read(bg)
		}
		time.Sleep(5 * time.Millisecond)
	case "ctx-expiry":
		if !closeRead && readerRunning == nil {
			ectx, ecancel := context.WithTimeout(bg, 20*time.Millisecond)
			c.Read(ectx) // nothing arrives: the context expires while blocked and closes the connection
			ecancel()
		} else {
			ectx, ecancel := context.WithCancel(bg)
			ecancel()
			c.Write(ectx, websocket.MessageText, []byte("x"))
		}
	case "transport-failure":
		b.Close()
		time.Sleep(5 * time.Millisecond)
	}
	if cc.LateReadMs > 0 {
		time.Sleep(40 * time.Millisecond) // the reader of the history is blocked in the transport again
	}
	var err error
	t0 := time.Now()
	switch cc.Then {
	case "close":
		err = c.Close(websocket.StatusNormalClosure, "")
	case "close-long-reason": // cannot be put on the wire: Close returns an error, but it has returned
		err = c.Close(websocket.StatusInternalError, strings.Repeat("r", 124+len(cc.Ops)))
	case "close-bad-code":
		err = c.Close(websocket.StatusCode([]int{1006, 1004, 1015, 999, 2999, 5000, 0}[len(cc.Ops)%7]), "")
	default:
		err = c.CloseNow()
	}
	took := time.Since(t0)
	// the goroutines must be gone when the call has returned; allow the scheduler a moment to
	// retire goroutines that have already passed their last statement
	var after int
	var which string
	for i := 0; i < 50; i++ {
		after, which = libGoroutines()
		if after <= before {
			break
		}
		time.Sleep(2 * time.Millisecond)
	}
	b.Close()
	<-peerStop
	if crCtx != nil {
		// whoever waits on the context CloseRead returned must be released once the connection is closed
		select {
		case <-crCtx.Done():
		case <-time.After(300 * time.Millisecond):
			return "closeread-context-not-cancelled", fmt.Sprintf("%+v: the context returned by CloseRead is still not cancelled 300 ms after %s returned", cc, cc.Then)
		}
	}
	if after > before {
		return "goroutine-outlives-close", fmt.Sprintf("%+v: %d library goroutine(s) still alive 100 ms after %s returned (%v, err=%v): %s", cc, after-before, cc.Then, took.Round(time.Millisecond), err, which)
	}
	if took > 13*time.Second {
		return "final-close-slow", fmt.Sprintf("%+v: %s took %v", cc, cc.Then, took)
	}
	return "", ""
}

func genC20(rng *rand.Rand) c20Case {
	ops := []string{"write", "read", "ping", "closeread", "netconn", "abandon-reader", "abandon-writer", "peer-data"}
	ends := []string{"close", "closenow", "peer-close", "proto-error", "ctx-expiry", "transport-failure", "close-in-background"}
	cc := c20Case{Client: rng.Intn(2) == 0, End: ends[rng.Intn(len(ends))], Then: []string{"close", "closenow", "close", "closenow", "close-long-reason", "close-bad-code"}[rng.Intn(6)]}
	for n := rng.Intn(5); n > 0; n-- {
		cc.Ops = append(cc.Ops, ops[rng.Intn(len(ops))])
	}
	if rng.Intn(5) == 0 {
		cc.EchoDelayMs = 250 + rng.Intn(150)
	}
	cc.Flate = rng.Intn(3) == 0
	return cc
}

func runC20(ctx *runCtx) {
	rep := ctx.rep
	rep.Rule = "histories of 0..4 operations from {write, read, ping, CloseRead, NetConn, abandoned Reader, abandoned Writer} ended by {Close, CloseNow, peer Close, protocol error, context expiry, transport failure, a Close still running in another goroutine} and followed by Close, CloseNow or a Close whose code / reason cannot be sent (also as the only closing call), both roles, the peer echoing Close frames at once or after 250-400 ms (a close handshake is then in progress during the final call), also after CloseRead + an unsolicited data message; run one at a time; " +
		"oracle: the number of live goroutines whose stack is in Conn.timeoutLoop or the CloseRead goroutine is not higher after the final call returned than before the connection was created, and the context returned by CloseRead is cancelled. distinct = history"
	if cirTraceReplay(ctx) {
		return
	}
	if ctx.replay != "" {
		var cc c20Case
		if err := loadReplay(ctx.replay, &cc); err == nil && cc.End != "" {
			if sh, w := runC20Case(cc); sh != "" {
				rep.violate(Violation{Kind: "property", Shape: sh, What: w, Replay: cc})
			}
			rep.eval("replay")
		}
		return
	}
	for _, client := range []bool{false, true} {
		for _, then := range []string{"closenow", "close"} {
			client, then := client, then
			sh, w := guarded(60*time.Second, func() (string, string) { return c20CancelledCloseRead(client, then) })
			rep.eval(fmt.Sprintf("cancelled-closeread-ctx/%v/%s", client, then))
			rep.count("scenario:cancelled-closeread-ctx")
			if sh != "" {
				rep.violate(Violation{Kind: "property", Shape: sh, What: w, Replay: map[string]interface{}{"scenario": "cancelled-closeread-ctx", "client": client, "then": then}})
			}
		}
	}
	rng := newRng(ctx.seed, "c20")
	n := 220
	if ctx.thorough() {
		n = 3000
	}
	var cases []c20Case
	// every ending x final call x each single op, then random histories
	for _, e := range []string{"close", "closenow", "peer-close", "proto-error", "ctx-expiry", "transport-failure"} {
		for _, t := range []string{"close", "closenow", "close-long-reason", "close-bad-code"} {
			if (t == "close-long-reason" || t == "close-bad-code") && e != "peer-close" && e != "ctx-expiry" {
				// as the only closing call of the history (below) and after two other endings
				continue
			}
			cases = append(cases, c20Case{Client: len(cases)%2 == 0, End: e, Then: t})
			for _, op := range []string{"closeread", "abandon-reader", "abandon-writer", "ping"} {
				cases = append(cases, c20Case{Client: len(cases)%2 == 0, Ops: []string{op}, End: e, Then: t})
			}
			if t == "close" || t == "closenow" {
				cases = append(cases, c20Case{Client: len(cases)%2 == 0, Ops: []string{"abandon-writer"}, End: e, Then: t, Flate: true},
					c20Case{Client: len(cases)%2 == 1, Ops: []string{"closeread", "abandon-writer"}, End: e, Then: t, Flate: true})
			}
		}
	}
	// CloseRead, then the peer stalls inside a data frame: the close handshake started by the CloseRead goroutine
	// has to give up on its own (≈5 s) so that the final call finds no goroutine left
	cases = append(cases, c20Case{Client: false, Ops: []string{"closeread", "peer-partial-frame"}, End: "none", Then: "close"})
	if ctx.thorough() {
		cases = append(cases, c20Case{Client: true, Ops: []string{"closeread", "peer-partial-frame"}, End: "none", Then: "close"},
			c20Case{Client: true, Ops: []string{"closeread", "peer-partial-frame"}, End: "none", Then: "closenow"})
	}
	// a peer that keeps talking and never answers the Close frame sent by the CloseRead goroutine (quick) / by a
	// Close running in another goroutine (thorough): the handshake is bounded in total, not per frame
	cases = append(cases, c20Case{Client: false, Ops: []string{"closeread", "peer-chatty"}, End: "none", Then: "close", EchoDelayMs: -1})
	if ctx.thorough() {
		cases = append(cases, c20Case{Client: true, Ops: []string{"peer-chatty"}, End: "close-in-background", Then: "close", EchoDelayMs: -1})
	}
	// a Read in flight on another goroutine when the final call is made, over a transport whose pending Read is slow to
	// come back: the final call may take that long, but nothing it started may outlive it
	for _, client := range []bool{true, false} {
		for _, t := range []string{"closenow", "close"} {
			cases = append(cases, c20Case{Client: client, Ops: []string{"ping"}, End: "none", Then: t, LateReadMs: 400})
		}
	}
	// Close with arguments that cannot be sent, as the first and only closing call
	for _, t := range []string{"close-long-reason", "close-bad-code"} {
		for _, client := range []bool{true, false} {
			for _, ops := range [][]string{nil, {"closeread"}, {"write", "ping"}, {"abandon-reader"}} {
				cases = append(cases, c20Case{Client: client, Ops: ops, End: "none", Then: t})
			}
		}
	}
	// a close handshake still in progress (slow echo) when the final call is made: started by another
	// Close, or by the CloseRead goroutine after an unsolicited data message
	for _, t := range []string{"close", "closenow"} {
		for _, client := range []bool{true, false} {
			cases = append(cases, c20Case{Client: client, End: "close-in-background", Then: t, EchoDelayMs: 400})
			cases = append(cases, c20Case{Client: client, Ops: []string{"closeread", "peer-data"}, End: "closenow", Then: t, EchoDelayMs: 400})
			cases = append(cases, c20Case{Client: client, Ops: []string{"closeread", "peer-data"}, End: "close-in-background", Then: t, EchoDelayMs: 400})
		}
	}
	// the connection is ended by one of the library's own goroutines (the timeout watcher on context expiry, the
	// CloseRead reader on a peer close / protocol error / unsolicited message) over a transport whose Close is slow:
	// that goroutine is still inside close() when the final call is made
	for _, t := range []string{"closenow", "close"} {
		for _, client := range []bool{true, false} {
			cases = append(cases, c20Case{Client: client, End: "ctx-expiry", Then: t, SlowCloseMs: 350})
			cases = append(cases, c20Case{Client: client, Ops: []string{"closeread"}, End: "peer-close", Then: t, SlowCloseMs: 350})
			cases = append(cases, c20Case{Client: client, Ops: []string{"closeread"}, End: "proto-error", Then: t, SlowCloseMs: 350})
			cases = append(cases, c20Case{Client: client, Ops: []string{"closeread", "peer-data"}, End: "none", Then: t, SlowCloseMs: 350})
		}
	}
	for i := 0; i < n; i++ {
		cc := genC20(rng)
		if i%10 == 9 {
			cc.SlowCloseMs = 150 + rng.Intn(200)
		}
		cases = append(cases, cc)
	}
	for _, cc := range cases {
		tc := time.Now()
		sh, w := guarded(40*time.Second, func() (string, string) { return runC20Case(cc) })
		rep.eval(fmt.Sprintf("%+v", cc))
		if d := time.Since(tc); d > time.Second {
			rep.note("slow case (%v): %+v", d.Round(100*time.Millisecond), cc)
		}
		rep.count("end:" + cc.End)
		rep.count("then:" + cc.Then)
		if sh != "" {
			rep.violate(Violation{Kind: "property", Shape: sh + ":" + cc.End, What: w, Replay: cc})
		}
	}
	cirTraceValidation(ctx, cirTraceN(ctx))
	rep.sample(cases[0])
	rep.sample(cases[len(cases)-1])
}
