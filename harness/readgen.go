package main

import (
	"encoding/hex"
	"fmt"
	"math/rand"
)

type annFrame struct {
	F     RawFrame
	Msg   int  // message index for data frames, -1 for control frames
	Last  bool // final frame of its message
	Ping  bool
	Close string // "code:hexreason" for a valid Close frame
}

type genMsgInfo struct {
	Typ        int
	Plain      []byte
	Compressed bool
}

type genStream struct {
	Frames []annFrame
	Msgs   []genMsgInfo
}

type genOpts struct {
	Client          bool // endpoint under test is a client (so the peer's frames are unmasked)
	Flate           bool
	Takeover        bool // the peer→endpoint direction keeps context
	MaxMsgs         int
	MaxSize         int
	CtlProb         float64
	BFinalProb      float64
	Sizes           []int // if set, message sizes are drawn from here
	ForceCompressed bool
}

var boundarySizes = []int{0, 1, 2, 3, 4, 5, 124, 125, 126, 127, 128, 129, 255, 256, 257, 511, 512, 513, 1023, 1024, 4095, 4096, 4097, 8191, 8192, 8193, 32767, 32768, 32769, 65534, 65535, 65536, 65537}

func pickSize(rng *rand.Rand, max int) int {
	switch rng.Intn(4) {
	case 0:
		for i := 0; i < 8; i++ {
			s := boundarySizes[rng.Intn(len(boundarySizes))]
			if s <= max {
				return s
			}
		}
		return rng.Intn(max + 1)
	case 1:
		return rng.Intn(130)
	default:
		// log-uniform
		hi := 1
		for hi < max && rng.Intn(3) != 0 {
			hi *= 4
		}
		if hi > max {
			hi = max
		}
		return rng.Intn(hi + 1)
	}
}

func genPayload(rng *rand.Rand, n int) []byte {
	b := make([]byte, n)
	switch rng.Intn(3) {
	case 0: // incompressible
		rng.Read(b)
	case 1: // highly compressible
		x := byte(rng.Intn(256))
		for i := range b {
			b[i] = x
		}
	default: // text-like with repetition
		words := []string{"alpha ", "beta ", "gamma ", "websocket ", "deflate ", "{\"k\":1} "}
		i := 0
		for i < n {
			w := words[rng.Intn(len(words))]
			i += copy(b[i:], w)
		}
	}
	return b
}

func splitSizes(rng *rand.Rand, n int) []int {
	k := []int{1, 1, 1, 2, 2, 3, 5, 8}[rng.Intn(8)]
	if k == 1 {
		return []int{n}
	}
	out := make([]int, k)
	rest := n
	for i := 0; i < k-1; i++ {
		var s int
		switch rng.Intn(4) {
		case 0:
			s = 0 // empty fragment
		case 1:
			s = rest
		default:
			s = rng.Intn(rest + 1)
		}
		out[i] = s
		rest -= s
	}
	out[k-1] = rest
	return out
}

func (o *genOpts) key(rng *rand.Rand) (bool, [4]byte) {
	var k [4]byte
	if o.Client {
		return false, k
	}
	rng.Read(k[:])
	return true, k
}

func (o *genOpts) ctl(rng *rand.Rand) annFrame {
	masked, key := o.key(rng)
	n := []int{0, 1, 4, 125, rng.Intn(126)}[rng.Intn(5)]
	p := randBytes(rng, n)
	if rng.Intn(3) == 0 {
		return annFrame{F: RawFrame{Fin: true, Op: 10, Masked: masked, Key: key, Payload: p}, Msg: -1}
	}
	return annFrame{F: RawFrame{Fin: true, Op: 9, Masked: masked, Key: key, Payload: p}, Msg: -1, Ping: true}
}

// buildValid produces a valid inbound stream for the endpoint.
func buildValid(rng *rand.Rand, o *genOpts) *genStream {
	gs := &genStream{}
	var defl *rawDeflater
	if o.Flate {
		level := []int{1, 6, 9}[rng.Intn(3)]
		defl = newRawDeflater(o.Takeover, level)
	}
	nm := 1 + rng.Intn(o.MaxMsgs)
	for m := 0; m < nm; m++ {
		size := pickSize(rng, o.MaxSize)
		if len(o.Sizes) > 0 {
			size = o.Sizes[m%len(o.Sizes)]
		}
		plain := genPayload(rng, size)
		typ := 1 + rng.Intn(2)
		info := genMsgInfo{Typ: typ, Plain: plain}
		wire := plain
		if o.Flate && (o.ForceCompressed || rng.Intn(3) != 0) {
			info.Compressed = true
			wire = defl.message(plain, rng.Float64() < o.BFinalProb)
		}
		gs.Msgs = append(gs.Msgs, info)
		if rng.Float64() < o.CtlProb {
			gs.Frames = append(gs.Frames, o.ctl(rng))
		}
		frs := splitSizes(rng, len(wire))
		pos := 0
		for i, s := range frs {
			if i > 0 && rng.Float64() < o.CtlProb {
				gs.Frames = append(gs.Frames, o.ctl(rng))
			}
			masked, key := o.key(rng)
			f := RawFrame{Fin: i == len(frs)-1, Op: 0, Masked: masked, Key: key, Payload: wire[pos : pos+s]}
			if i == 0 {
				f.Op = typ
				f.Rsv1 = info.Compressed
			}
			pos += s
			gs.Frames = append(gs.Frames, annFrame{F: f, Msg: m, Last: f.Fin})
		}
	}
	if rng.Float64() < o.CtlProb {
		gs.Frames = append(gs.Frames, o.ctl(rng))
	}
	return gs
}

func (gs *genStream) encode() ([]byte, []int) {
	var b []byte
	var ends []int
	for _, f := range gs.Frames {
		b = append(b, f.F.Encode()...)
		ends = append(ends, len(b))
	}
	return b, ends
}

// expectPrefix computes the ground truth for processing frames[:stop] and then stopping.
func (gs *genStream) expectPrefix(stop int, why string) Expect {
	e := Expect{Why: why, Msgs: []ExpMsg{}, Pongs: []string{}}
	cur := -1
	var pend []string // pings seen inside the current compressed message
	for _, f := range gs.Frames[:stop] {
		if f.Msg >= 0 {
			cur = f.Msg
			if f.Last {
				e.Msgs = append(e.Msgs, ExpMsg{Typ: gs.Msgs[cur].Typ, Data: hx(gs.Msgs[cur].Plain)})
				e.Pongs = append(e.Pongs, pend...)
				pend = nil
				cur = -1
			}
			continue
		}
		if f.Ping {
			if cur >= 0 && gs.Msgs[cur].Compressed {
				pend = append(pend, hx(f.F.Payload))
			} else {
				e.Pongs = append(e.Pongs, hx(f.F.Payload))
			}
		}
	}
	if cur >= 0 {
		e.InMsg = true
		e.PartialOf = hx(gs.Msgs[cur].Plain)
		// compressed message in progress: how far the inflater has pulled is not determined
		e.MaybePongs = pend
	}
	return e
}

func baseCase(rng *rand.Rand, o *genOpts, desc string) *ReadCase {
	c := &ReadCase{Desc: desc, Client: o.Client, Flate: o.Flate, Term: []string{"eof", "err"}[rng.Intn(2)]}
	if o.Flate {
		// choose copts so that the read direction has the wanted takeover
		if o.Client {
			c.SNCT = !o.Takeover
			c.CNCT = rng.Intn(2) == 0
		} else {
			c.CNCT = !o.Takeover
			c.SNCT = rng.Intn(2) == 0
		}
	}
	c.Chunks = [][]int{nil, {1}, {1, 2, 3}, {7}, {4096}, {1 + rng.Intn(50)}}[rng.Intn(6)]
	c.Bufs = [][]int{{512}, {1}, {7}, {4096}, {32768}, {1 + rng.Intn(300), 1 + rng.Intn(5000)}}[rng.Intn(6)]
	return c
}

func randOpts(rng *rand.Rand, maxSize int) *genOpts {
	o := &genOpts{Client: rng.Intn(2) == 0, Flate: rng.Intn(2) == 0, MaxMsgs: 4, MaxSize: maxSize, CtlProb: 0.3}
	if o.Flate {
		o.Takeover = rng.Intn(2) == 0
		if rng.Intn(4) == 0 {
			o.BFinalProb = 0.5
		}
	}
	return o
}

// ---------- case generators ----------

// genFinalBlockHistoryCase: context takeover, every message compressed, the first (or second) ends with a final deflate block,
// the sender keeps its window across it, and the messages share content, so that later ones refer back to bytes the endpoint
// received together with the end of the earlier deflate stream.
func genFinalBlockHistoryCase(rng *rand.Rand, k int) *ReadCase {
	o := &genOpts{Client: k%2 == 0, Flate: true, Takeover: true, MaxMsgs: 1, MaxSize: 100, ForceCompressed: true}
	gs := &genStream{}
	defl := newRawDeflater(true, []int{1, 6, 9}[k%3])
	defl.keepWindow = true
	base := genPayload(rand.New(rand.NewSource(int64(k)*7+3)), 300+40*(k%5))
	for i := range base { // not a constant run: back-references must carry information
		base[i] = "abcdefghijklmnopqrstuvwxyz0123456789 "[(int(base[i])+i*7)%37]
	}
	for m := 0; m < 3; m++ {
		plain := append([]byte(fmt.Sprintf("message %d of case %d: ", m, k)), base...)
		wire := defl.message(plain, m == (k/2)%2)
		gs.Msgs = append(gs.Msgs, genMsgInfo{Typ: 1, Plain: plain, Compressed: true})
		masked, key := o.key(rng)
		frs := []int{len(wire)}
		if k%3 == 1 && len(wire) > 4 {
			frs = []int{len(wire) / 2, len(wire) - len(wire)/2}
		}
		pos := 0
		for i, n := range frs {
			op := 0
			if i == 0 {
				op = 1
			}
			gs.Frames = append(gs.Frames, annFrame{F: RawFrame{Fin: i == len(frs)-1, Rsv1: i == 0, Op: op, Masked: masked, Key: key, Payload: wire[pos : pos+n]}, Msg: m, Last: i == len(frs)-1})
			pos += n
		}
	}
	c := baseCase(rng, o, "valid")
	c.Bufs = [][]int{{4096}, {64}, {7}, {32768}}[k%4]
	b, _ := gs.encode()
	c.Stream = hex.EncodeToString(b)
	c.Exp = gs.expectPrefix(len(gs.Frames), "end of stream at a frame boundary")
	c.Desc = "valid"
	return c
}

// genValidCase: a valid stream, then the transport ends at a frame boundary.
func genValidCase(rng *rand.Rand, maxSize int) *ReadCase {
	o := randOpts(rng, maxSize)
	gs := buildValid(rng, o)
	c := baseCase(rng, o, "valid")
	b, _ := gs.encode()
	c.Stream = hex.EncodeToString(b)
	c.Exp = gs.expectPrefix(len(gs.Frames), "end of stream at a frame boundary")
	return c
}

var badCloseCodes = []int{0, 999, 1004, 1005, 1006, 1015, 1016, 2000, 2999, 5000, 65535}
var goodCloseCodes = []int{1000, 1001, 1002, 1003, 1007, 1008, 1009, 1010, 1011, 1012, 1013, 1014, 3000, 3999, 4000, 4999}

// genViolationCase: a valid stream with one violation (or a Close frame) inserted at a random
// frame position, followed by the rest of the valid stream.
func genViolationCase(rng *rand.Rand, maxSize int, kind int) *ReadCase {
	o := randOpts(rng, maxSize)
	o.BFinalProb = 0
	gs := buildValid(rng, o)
	c := baseCase(rng, o, "")
	v := rng.Intn(len(gs.Frames) + 1)
	inMsg := false
	{
		cur := -1
		for _, f := range gs.Frames[:v] {
			if f.Msg >= 0 {
				cur = f.Msg
				if f.Last {
					cur = -1
				}
			}
		}
		inMsg = cur >= 0
	}
	masked, key := o.key(rng)
	var bad RawFrame
	replace := false
	why := ""
	closeExp := ""
	mk := func(op int, fin bool, p []byte) RawFrame {
		return RawFrame{Fin: fin, Op: op, Masked: masked, Key: key, Payload: p}
	}
	switch kind {
	case 0: // rsv2/rsv3 on an existing frame (or a fresh ping)
		if v < len(gs.Frames) && rng.Intn(2) == 0 {
			bad = gs.Frames[v].F
			replace = true
		} else {
			bad = mk(9, true, randBytes(rng, rng.Intn(20)))
		}
		if rng.Intn(2) == 0 {
			bad.Rsv2 = true
		} else {
			bad.Rsv3 = true
		}
		why = "violation: reserved bit rsv2/rsv3 set"
	case 1: // rsv1 where it is illegal
		if o.Flate {
			if inMsg {
				bad = mk(0, false, randBytes(rng, rng.Intn(20))) // continuation with rsv1
			} else {
				bad = mk(9, true, randBytes(rng, rng.Intn(20))) // control frame with rsv1
			}
		} else {
			if inMsg {
				bad = mk(0, true, randBytes(rng, rng.Intn(20)))
			} else {
				bad = mk(1+rng.Intn(2), true, randBytes(rng, rng.Intn(20)))
			}
		}
		bad.Rsv1 = true
		why = "violation: rsv1 set where not allowed"
	case 2: // reserved opcode
		ops := []int{3, 4, 5, 6, 7, 11, 12, 13, 14, 15}
		bad = mk(ops[rng.Intn(len(ops))], rng.Intn(2) == 0, randBytes(rng, rng.Intn(20)))
		why = "violation: reserved opcode"
	case 3: // wrong masking for the role
		if v < len(gs.Frames) && rng.Intn(2) == 0 {
			bad = gs.Frames[v].F
			replace = true
		} else if inMsg {
			bad = mk(0, true, randBytes(rng, 1+rng.Intn(20)))
		} else {
			bad = mk(1+rng.Intn(2), true, randBytes(rng, 1+rng.Intn(20)))
		}
		bad.Masked = !bad.Masked
		if bad.Masked {
			rng.Read(bad.Key[:])
			if bad.Key == [4]byte{} {
				bad.Key[0] = 1
			}
			why = "violation: masked frame sent to client"
		} else {
			why = "violation: unmasked frame sent to server"
		}
	case 4: // oversized control frame
		bad = mk([]int{8, 9, 10}[rng.Intn(3)], true, randBytes(rng, 126+rng.Intn(200)))
		why = "violation: control frame longer than 125 bytes"
	case 5: // fragmented control frame
		bad = mk([]int{8, 9, 10}[rng.Intn(3)], false, randBytes(rng, rng.Intn(20)))
		if bad.Op == 8 {
			bad.Payload = []byte{0x03, 0xe8}
		}
		why = "violation: fragmented control frame"
	case 6: // sequencing
		if inMsg {
			bad = mk(1+rng.Intn(2), rng.Intn(2) == 0, randBytes(rng, rng.Intn(20)))
			why = "violation: new data message before the previous one finished"
		} else {
			bad = mk(0, rng.Intn(2) == 0, randBytes(rng, rng.Intn(20)))
			why = "violation: continuation frame without a message in progress"
		}
	case 7: // 64-bit length with the top bit set
		bad = mk([]int{1, 2, 0, 9}[rng.Intn(4)], true, randBytes(rng, rng.Intn(20)))
		if inMsg && bad.Op != 9 {
			bad.Op = 0
		}
		if !inMsg && bad.Op == 0 {
			bad.Op = 2
		}
		n := uint64(1)<<63 | uint64(rng.Int63())
		bad.LenOverride = &n
		bad.ForceLen64 = true
		why = "violation: payload length with the top bit set"
	case 8: // malformed close payload
		if rng.Intn(3) == 0 {
			bad = mk(8, true, []byte{byte(rng.Intn(256))})
		} else {
			code := badCloseCodes[rng.Intn(len(badCloseCodes))]
			if rng.Intn(3) == 0 {
				code = []int{rng.Intn(1000), 1016 + rng.Intn(1984), 5000 + rng.Intn(60536)}[rng.Intn(3)]
			}
			bad = mk(8, true, append([]byte{byte(code >> 8), byte(code)}, randBytes(rng, rng.Intn(30))...))
		}
		why = "violation: malformed Close payload"
	default: // a valid Close frame
		var p []byte
		code := 1005
		var reason []byte
		if rng.Intn(5) != 0 {
			code = goodCloseCodes[rng.Intn(len(goodCloseCodes))]
			if rng.Intn(4) == 0 {
				code = 3000 + rng.Intn(2000)
			}
			reason = []byte(fmt.Sprintf("r%d", rng.Intn(1000)))
			if rng.Intn(4) == 0 {
				reason = randBytes(rng, 123)
			}
			if rng.Intn(4) == 0 {
				reason = nil
			}
			p = append([]byte{byte(code >> 8), byte(code)}, reason...)
		}
		bad = mk(8, true, p)
		closeExp = fmt.Sprintf("%d:%s", code, hx(reason))
		why = "stop: valid Close frame"
	}
	exp := gs.expectPrefix(v, why)
	exp.Close = closeExp
	var frames []annFrame
	frames = append(frames, gs.Frames[:v]...)
	frames = append(frames, annFrame{F: bad, Msg: -1})
	if replace {
		frames = append(frames, gs.Frames[v+1:]...)
	} else {
		frames = append(frames, gs.Frames[v:]...)
	}
	var b []byte
	for _, f := range frames {
		b = append(b, f.F.Encode()...)
	}
	c.Stream = hex.EncodeToString(b)
	c.Exp = exp
	c.Desc = fmt.Sprintf("violation kind %d at frame %d (in message: %v)", kind, v, inMsg)
	return c
}

// genCutCases: a valid stream cut at offset k (all offsets if all, else sampled).
func genCutCases(rng *rand.Rand, maxSize int, all bool, nsample int, emit func(*ReadCase)) {
	o := randOpts(rng, maxSize)
	o.CtlProb = 0.25
	gs := buildValid(rng, o)
	b, ends := gs.encode()
	base := baseCase(rng, o, "")
	var ks []int
	if all {
		for k := 0; k <= len(b); k++ {
			ks = append(ks, k)
		}
	} else {
		// every frame boundary, boundary±1..±3, header bytes, and random offsets
		seen := map[int]bool{}
		add := func(k int) {
			if k >= 0 && k <= len(b) && !seen[k] {
				seen[k] = true
				ks = append(ks, k)
			}
		}
		add(0)
		add(len(b))
		for _, e := range ends {
			for d := -3; d <= 14; d++ {
				add(e + d)
			}
		}
		for i := 0; i < nsample; i++ {
			add(rng.Intn(len(b) + 1))
		}
	}
	for _, k := range ks {
		j := 0
		for j < len(ends) && ends[j] <= k {
			j++
		}
		c := *base
		c.Term = []string{"eof", "err"}[(k+len(ks))%2]
		c.Chunks = [][]int{nil, {1}, {3}, {4096}}[k%4]
		c.Bufs = [][]int{{512}, {1}, {7}, {4096}, {32768}}[k%5]
		c.Stream = hex.EncodeToString(b[:k])
		start := 0
		if j > 0 {
			start = ends[j-1]
		}
		where := "at a frame boundary"
		if k > start {
			where = fmt.Sprintf("%d bytes into frame %d", k-start, j)
		}
		c.Exp = gs.expectPrefix(j, fmt.Sprintf("cut at offset %d of %d (%s)", k, len(b), where))
		if k > start && j < len(gs.Frames) {
			// the cut falls inside frame j: if it is a data frame its message is in progress
			f := gs.Frames[j]
			if f.Msg >= 0 {
				c.Exp.InMsg = true
				c.Exp.PartialOf = hx(gs.Msgs[f.Msg].Plain)
			}
		}
		c.Desc = fmt.Sprintf("cut k=%d/%d", k, len(b))
		cc := c
		emit(&cc)
	}
}
