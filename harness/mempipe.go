package main

import (
	"errors"
	"io"
	"sync"
	"time"
)

// byteQueue is an unbounded in-memory byte stream with blocking reads.
type byteQueue struct {
	mu     sync.Mutex
	cond   *sync.Cond
	buf    []byte
	closed bool
	err    error
	total  int
	stall  bool // when set, readers block even if data is available (used by adversaries)
}

func newByteQueue() *byteQueue {
	q := &byteQueue{}
	q.cond = sync.NewCond(&q.mu)
	return q
}

func (q *byteQueue) Write(p []byte) (int, error) {
	q.mu.Lock()
	defer q.mu.Unlock()
	if q.closed {
		return 0, io.ErrClosedPipe
	}
	q.buf = append(q.buf, p...)
	q.total += len(p)
	q.cond.Broadcast()
	return len(p), nil
}

func (q *byteQueue) Read(p []byte) (int, error) {
	q.mu.Lock()
	defer q.mu.Unlock()
	for (len(q.buf) == 0 || q.stall) && !q.closed {
		q.cond.Wait()
	}
	if len(q.buf) == 0 || (q.stall && q.closed) {
		if q.err != nil {
			return 0, q.err
		}
		return 0, io.EOF
	}
	n := copy(p, q.buf)
	q.buf = q.buf[n:]
	return n, nil
}

func (q *byteQueue) CloseWith(err error) {
	q.mu.Lock()
	if !q.closed {
		q.closed = true
		q.err = err
	}
	q.cond.Broadcast()
	q.mu.Unlock()
}

// pipeEnd is one side of a bidirectional in-memory connection.
type pipeEnd struct {
	r, w     *byteQueue
	closedCh chan struct{}
	once     sync.Once
	// blockWrites makes Write block until the end is closed (a peer that never reads)
	blockWrites bool
	// writeGate, when non-nil, makes every Write wait for one token (or for Close): a peer whose
	// reads can be released one at a time
	writeGate chan struct{}
}

func (e *pipeEnd) Read(p []byte) (int, error) { return e.r.Read(p) }
func (e *pipeEnd) Write(p []byte) (int, error) {
	if g := e.writeGate; g != nil {
		select {
		case <-g:
		case <-e.closedCh:
			return 0, io.ErrClosedPipe
		}
	}
	if e.blockWrites {
		<-e.closedCh
		return 0, io.ErrClosedPipe
	}
	select {
	case <-e.closedCh:
		return 0, io.ErrClosedPipe
	default:
	}
	return e.w.Write(p)
}
func (e *pipeEnd) Close() error {
	e.once.Do(func() {
		close(e.closedCh)
		e.r.CloseWith(io.ErrClosedPipe)
		e.w.CloseWith(nil) // the other side reads EOF after draining
	})
	return nil
}

func newPipe() (*pipeEnd, *pipeEnd) {
	a2b, b2a := newByteQueue(), newByteQueue()
	a := &pipeEnd{r: b2a, w: a2b, closedCh: make(chan struct{})}
	b := &pipeEnd{r: a2b, w: b2a, closedCh: make(chan struct{})}
	return a, b
}

// rawPeer speaks RFC 6455 on a pipeEnd using the independent codec of rawpeer.go.
type rawPeer struct {
	end    *pipeEnd
	client bool // the peer is a client (masks its frames)
	mu     sync.Mutex
	acc    []byte
	eof    error
	notify chan struct{}
	frames []RawFrame // every frame received so far
	rng    func([]byte)
	// stopAfterClose: behave like a conformant endpoint after its own Close frame (RFC 6455 5.5.1: no data frame may follow it):
	// writeFrame refuses everything but Close frames from then on. For scenarios in which several goroutines write for the peer.
	stopAfterClose bool
	wmu            sync.Mutex
	closeWritten   bool
}

var errPeerTimeout = errors.New("raw peer: timeout")

func newRawPeer(end *pipeEnd, client bool) *rawPeer {
	p := &rawPeer{end: end, client: client, notify: make(chan struct{}, 1)}
	go func() {
		buf := make([]byte, 65536)
		for {
			n, err := end.Read(buf)
			p.mu.Lock()
			p.acc = append(p.acc, buf[:n]...)
			if err != nil {
				p.eof = err
			}
			p.mu.Unlock()
			select {
			case p.notify <- struct{}{}:
			default:
			}
			if err != nil {
				return
			}
		}
	}()
	return p
}

// frameLen returns the encoded length of the first frame in b, if its header is complete.
func frameLen(b []byte) (int, bool) {
	if len(b) < 2 {
		return 0, false
	}
	h := 2
	n := uint64(b[1] & 0x7f)
	switch n {
	case 126:
		if len(b) < 4 {
			return 0, false
		}
		n = uint64(b[2])<<8 | uint64(b[3])
		h = 4
	case 127:
		if len(b) < 10 {
			return 0, false
		}
		n = 0
		for i := 2; i < 10; i++ {
			n = n<<8 | uint64(b[i])
		}
		h = 10
	}
	if b[1]&0x80 != 0 {
		h += 4
	}
	if n > 1<<40 {
		return 0, false
	}
	return h + int(n), true
}

// readFrame returns the next complete frame sent by the endpoint; (nil, err) at end of stream.
func (p *rawPeer) readFrame(timeout time.Duration) (*RawFrame, error) {
	deadline := time.After(timeout)
	for {
		p.mu.Lock()
		if n, ok := frameLen(p.acc); ok && len(p.acc) >= n {
			fs, _ := parseRawFrames(p.acc[:n])
			p.acc = p.acc[n:]
			p.frames = append(p.frames, fs[0])
			p.mu.Unlock()
			return &fs[0], nil
		}
		eof := p.eof
		p.mu.Unlock()
		if eof != nil {
			return nil, eof
		}
		select {
		case <-p.notify:
		case <-deadline:
			return nil, errPeerTimeout
		}
	}
}

// leftover returns bytes received that do not (yet) form a whole frame.
func (p *rawPeer) leftover() []byte {
	p.mu.Lock()
	defer p.mu.Unlock()
	return append([]byte(nil), p.acc...)
}

var errPeerSentClose = errors.New("raw peer: Close frame already sent")

func (p *rawPeer) writeFrame(f RawFrame) error {
	if p.stopAfterClose {
		p.wmu.Lock()
		defer p.wmu.Unlock()
		if p.closeWritten && f.Op != 8 {
			return errPeerSentClose
		}
		if f.Op == 8 {
			p.closeWritten = true
		}
	}
	if p.client {
		f.Masked = true
		if p.rng != nil {
			p.rng(f.Key[:])
		} else {
			f.Key = [4]byte{0x11, 0x22, 0x33, 0x44}
		}
	}
	_, err := p.end.Write(f.Encode())
	return err
}
