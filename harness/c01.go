package main

import (
	"bytes"
	"compress/flate"
	"fmt"
	"math/rand"
	"strings"
	"sync"
	"time"

	"nhooyr.io/websocket"
)

func init() {
	runners["C01"] = runC01
	runners["C02"] = runC02
}

func chunkings(rng *rand.Rand, p []byte) []string {
	var out []string
	switch rng.Intn(6) {
	case 0: // single chunk
		out = []string{hx(p)}
	case 1: // many small
		pos := 0
		for pos < len(p) {
			n := 1 + rng.Intn(200)
			if n > len(p)-pos {
				n = len(p) - pos
			}
			out = append(out, hx(p[pos:pos+n]))
			pos += n
			if len(out) > 400 {
				out = append(out, hx(p[pos:]))
				break
			}
		}
	case 2: // 4096-sized
		pos := 0
		for pos < len(p) {
			n := 4096
			if n > len(p)-pos {
				n = len(p) - pos
			}
			out = append(out, hx(p[pos:pos+n]))
			pos += n
		}
	case 3: // empty chunks mixed in
		mid := 0
		if len(p) > 0 {
			mid = rng.Intn(len(p) + 1)
		}
		out = []string{"-", hx(p[:mid]), "-", hx(p[mid:])}
	case 4: // no chunk at all when empty, else two
		if len(p) == 0 {
			out = nil
		} else {
			mid := rng.Intn(len(p) + 1)
			out = []string{hx(p[:mid]), hx(p[mid:])}
		}
	default: // small first chunk (below any threshold), rest after
		k := rng.Intn(100)
		if k > len(p) {
			k = len(p)
		}
		out = []string{hx(p[:k]), hx(p[k:])}
	}
	return out
}

func genWriteCase(rng *rand.Rand, maxSize int, withClose bool) *WriteCase {
	c := &WriteCase{Client: rng.Intn(2) == 0, Flate: rng.Intn(3) != 0}
	if c.Flate {
		c.CNCT, c.SNCT = rng.Intn(2) == 0, rng.Intn(2) == 0
		c.Threshold = []int{0, 0, 1, 64, 4096, 1 << 30, 1 + rng.Intn(2000)}[rng.Intn(7)]
	}
	n := 1 + rng.Intn(6)
	for i := 0; i < n; i++ {
		switch {
		case rng.Intn(8) == 0:
			c.Ops = append(c.Ops, WriteOp{Kind: "ping"})
		default:
			p := genPayload(rng, pickSize(rng, maxSize))
			typ := 1 + rng.Intn(2)
			if rng.Intn(2) == 0 {
				c.Ops = append(c.Ops, WriteOp{Kind: "write", Typ: typ, Chunks: []string{hx(p)}})
			} else {
				c.Ops = append(c.Ops, WriteOp{Kind: "writer", Typ: typ, Chunks: chunkings(rng, p), ThenMisuse: rng.Intn(4) == 0})
			}
		}
	}
	if withClose && rng.Intn(2) == 0 {
		code := goodCloseCodes[rng.Intn(len(goodCloseCodes))]
		reason := randBytes(rng, []int{0, 5, 123}[rng.Intn(3)])
		switch rng.Intn(6) {
		case 0:
			code = 1005
		case 1:
			code = badCloseCodes[rng.Intn(len(badCloseCodes))]
		case 2:
			reason = randBytes(rng, 124+rng.Intn(10))
		}
		c.Ops = append(c.Ops, WriteOp{Kind: "close", Code: code, Reason: hx(reason)})
	}
	c.Desc = fmt.Sprintf("client=%v flate=%v cnct=%v snct=%v thr=%d ops=%d", c.Client, c.Flate, c.CNCT, c.SNCT, c.Threshold, len(c.Ops))
	return c
}

// countWrites counts the pieces a deflater hands to its underlying writer.
type countWrites struct{ n, bytes int }

func (c *countWrites) Write(p []byte) (int, error) { c.n++; c.bytes += len(p); return len(p), nil }

// genPingInsideCase: a compressed message streamed through Writer with a Ping issued when exactly k data
// frames of it have been written (they may still sit in the write buffer). The compressor hands out its output in pieces (each becomes a frame) and
// only when an input block is full, so the first chunk is searched for: > 64 KiB of periodic text whose
// first block leaves the deflater (same level as the library's) in exactly k pieces.
func genPingInsideCase(rng *rand.Rand, k int) *WriteCase {
	c := &WriteCase{Client: rng.Intn(2) == 0, Flate: true, Threshold: []int{0, 1, 64}[rng.Intn(3)], NoModel: true}
	c.CNCT, c.SNCT = rng.Intn(2) == 0, rng.Intn(2) == 0
	var first []byte
	for try := 0; try < 400 && first == nil; try++ {
		period := 1 + rng.Intn(40+try)
		pat := randBytes(rng, period)
		for i := range pat {
			pat[i] = 'a' + pat[i]%26
		}
		p := make([]byte, 66000+rng.Intn(3000))
		for i := range p {
			p[i] = pat[i%period]
		}
		var cw countWrites
		fw, _ := flate.NewWriter(&cw, flate.BestSpeed)
		fw.Write(p)
		// the trim writer in front of the frame writer turns the first piece into one frame and every later
		// piece into two (the four bytes it held back, then the piece)
		frames := 0
		if cw.n > 0 {
			frames = 2*cw.n - 1
		}
		if frames == k {
			first = p
		}
	}
	if first == nil {
		first = bytes.Repeat([]byte("a"), 66000)
	}
	c.Ops = []WriteOp{{Kind: "writer", Typ: 1 + rng.Intn(2), Chunks: []string{hx(first), hx([]byte(" and the rest of the message"))}, PingAfterChunk: 1},
		{Kind: "write", Typ: 1, Chunks: []string{hx([]byte("after"))}}}
	c.Desc = fmt.Sprintf("ping inside a compressed streamed message at %d frame(s) client=%v", k, c.Client)
	return c
}

// windowAndTrimDifferential ties C01.slide_spec and C01.trim_spec to the code: the real slidingWindow and
// trimLastFourBytesWriter (through their verif exports) against the closed forms the theorems state — the
// window after any sequence of writes is the last min(cap, total) bytes written; what the trim writer passed
// on followed by what it withholds is what was written, and it withholds the last min(4, total) bytes.
func windowAndTrimDifferential(rep *Report, rng *rand.Rand, thorough bool) {
	rounds := 300
	if thorough {
		rounds = 6000
	}
	for r := 0; r < rounds; r++ {
		capN := []int{1, 2, 7, 64, 100, 1000, 32768}[rng.Intn(7)]
		var writes [][]byte
		for k := 1 + rng.Intn(8); k > 0; k-- {
			var n int
			switch rng.Intn(7) {
			case 0:
				n = 0
			case 1:
				n = capN - 1
			case 2:
				n = capN
			case 3:
				n = capN + 1
			case 4:
				n = 2*capN + rng.Intn(5)
			default:
				n = rng.Intn(capN + 3)
			}
			if n < 0 {
				n = 0
			}
			if capN == 32768 && rng.Intn(3) != 0 {
				n = rng.Intn(9000)
			}
			writes = append(writes, randBytes(rng, n))
		}
		got := websocket.VerifSlidingWindow(capN, writes)
		rep.eval(fmt.Sprintf("window/%d/%d", capN, len(writes)))
		var all []byte
		for i, w := range writes {
			all = append(all, w...)
			want := all
			if len(want) > capN {
				want = want[len(want)-capN:]
			}
			if i >= len(got) || !bytes.Equal(got[i], want) {
				var sizes []int
				for _, x := range writes {
					sizes = append(sizes, len(x))
				}
				rep.violate(Violation{Kind: "property", Shape: "sliding-window-not-last-bytes", What: fmt.Sprintf("slidingWindow(cap %d) after writes of sizes %v: after write %d the window is not the last %d bytes written (first difference at %d)", capN, sizes, i, len(want), firstDiff(got[i], want)), Replay: map[string]interface{}{"cap": capN, "write_sizes": sizes}})
				break
			}
		}
		// trim writer
		var chunks [][]byte
		for k := rng.Intn(7); k > 0; k-- {
			chunks = append(chunks, randBytes(rng, []int{0, 1, 2, 3, 4, 5, 9, 300}[rng.Intn(8)]))
		}
		passed, tail := websocket.VerifTrimWriter(chunks)
		rep.eval(fmt.Sprintf("trim/%d", len(chunks)))
		var in, out []byte
		for _, c := range chunks {
			in = append(in, c...)
		}
		for _, c := range passed {
			out = append(out, c...)
		}
		wantTail := len(in)
		if wantTail > 4 {
			wantTail = 4
		}
		if !bytes.Equal(append(append([]byte(nil), out...), tail...), in) || len(tail) != wantTail {
			var sizes []int
			for _, x := range chunks {
				sizes = append(sizes, len(x))
			}
			rep.violate(Violation{Kind: "property", Shape: "trim-writer", What: fmt.Sprintf("trimLastFourBytesWriter over chunks %v: passed %d bytes + withheld %d bytes, written %d", sizes, len(out), len(tail), len(in)), Replay: map[string]interface{}{"chunk_sizes": sizes}})
		}
	}
	rep.count("fn:slidingWindow+trimWriter")
}

var historyCaseNo int

// genHistoryCase: compressible messages totalling more than the 32 KiB window, context takeover.
func genHistoryCase(rng *rand.Rand) *WriteCase {
	// all four takeover-flag pairs (asymmetric ones included) in both roles, in rotation
	historyCaseNo++
	k := historyCaseNo
	c := &WriteCase{Client: k%2 == 0, Flate: true, Threshold: 1, CNCT: (k/2)%2 == 1, SNCT: (k/4)%2 == 1}
	total := 0
	for total < 100000 {
		n := 5000 + rng.Intn(30000)
		// text over a small vocabulary, so that every message refers back into the earlier ones
		p := make([]byte, n)
		words := []string{"alpha ", "beta ", "gamma ", "websocket ", "deflate ", "{\"k\":1} ", "lorem ipsum dolor ", "0123456789 "}
		for i := 0; i < n; {
			i += copy(p[i:], words[rng.Intn(len(words))])
		}
		c.Ops = append(c.Ops, WriteOp{Kind: "write", Typ: 1, Chunks: []string{hx(p)}})
		total += n
	}
	c.Desc = fmt.Sprintf("history>32KiB client=%v cnct=%v snct=%v msgs=%d", c.Client, c.CNCT, c.SNCT, len(c.Ops))
	return c
}

func runWriteCases(ctx *runCtx, cases []*WriteCase, tag string) {
	rep := ctx.rep
	obs := make([]*writeObs, len(cases))
	var wg sync.WaitGroup
	sem := make(chan struct{}, 16)
	for i := range cases {
		wg.Add(1)
		sem <- struct{}{}
		go func(i int) {
			defer wg.Done()
			defer func() { <-sem }()
			obs[i] = runWriteCase(cases[i])
		}(i)
	}
	wg.Wait()
	var lines []string
	var lineCase []int
	var lineKind []string
	var peerCases []*ReadCase
	for i, c := range cases {
		o := obs[i]
		nbytes := 0
		for _, op := range c.Ops {
			for _, ch := range op.Chunks {
				nbytes += len(ch) / 2
			}
		}
		rep.eval(fmt.Sprintf("%s/%s/%d", tag, c.Desc, nbytes))
		rep.count("role-client:" + fmt.Sprint(c.Client))
		rep.count(fmt.Sprintf("flate:%v/cnct:%v/snct:%v", c.Flate, c.CNCT, c.SNCT))
		rep.count(fmt.Sprintf("threshold:%d", c.Threshold))
		bad := func(shape, what string) {
			cc := *c
			rep.violate(Violation{Kind: "property", Shape: shape, What: c.Desc + ": " + what, Replay: cc})
		}
		if o.Panic != "" {
			bad("panic-or-hang", o.Panic)
			continue
		}
		if o.Mutated != "" {
			bad("caller-buffer-modified", o.Mutated)
			continue
		}
		if o.Misuse != "" {
			bad("closed-writer-accepts-call", o.Misuse)
			continue
		}
		// unexpected op failures
		closed := false
		failed := false
		for j, op := range c.Ops {
			if j >= len(o.Errs) {
				break
			}
			if op.Kind == "close" {
				closed = true
				okCode := op.Code == 1005 || (rfcSendable(op.Code) && len(op.Reason)/2 <= 123 && op.Reason != "-") || (rfcSendable(op.Code) && op.Reason == "-")
				if okCode && o.Errs[j] != "" && !strings.Contains(o.Errs[j], "EOF") {
					bad("close-failed", fmt.Sprintf("Close(%d) returned %s", op.Code, o.Errs[j]))
					failed = true
				}
				continue
			}
			if op.Kind != "ping" && o.Errs[j] != "" && !closed {
				bad("write-failed", fmt.Sprintf("op %d (%s) failed: %s", j, op.Kind, o.Errs[j]))
				failed = true
			}
		}
		if failed {
			continue
		}
		msgs, ctl, keys, shape, what := checkConformance(c, o.Wire)
		if shape != "" {
			bad(shape, what)
			continue
		}
		exp := c.expectedMsgs(o)
		if len(msgs) != len(exp) {
			bad("wire-message-count", fmt.Sprintf("the wire carries %d messages, %d were written", len(msgs), len(exp)))
			continue
		}
		mism := false
		for k := range exp {
			if msgs[k] != exp[k] {
				bad("wire-message-differs", fmt.Sprintf("message %d on the wire (typ %d, %d bytes) differs from what was written (typ %d, %d bytes)", k, msgs[k].Typ, len(msgs[k].Data)/2, exp[k].Typ, len(exp[k].Data)/2))
				mism = true
				break
			}
		}
		if mism {
			continue
		}
		var pings []RawFrame
		var closeF *RawFrame
		for k := range ctl {
			if ctl[k].Op == 9 {
				pings = append(pings, ctl[k])
			}
			if ctl[k].Op == 8 && closeF == nil {
				closeF = &ctl[k]
			}
		}
		// close frame content
		for _, op := range c.Ops {
			if op.Kind != "close" {
				continue
			}
			reason := unhx(op.Reason)
			sendable := rfcSendable(op.Code) && len(reason) <= 123
			switch {
			case op.Code == 1005:
				if closeF == nil || len(closeF.Payload) != 0 {
					bad("close-1005-payload", "Close(1005) did not put an empty Close frame on the wire")
				}
			case sendable:
				want := append([]byte{byte(op.Code >> 8), byte(op.Code)}, reason...)
				if closeF == nil || !bytes.Equal(closeF.Payload, want) {
					bad("close-frame-payload", fmt.Sprintf("Close(%d): wrong or missing Close frame", op.Code))
				}
			default:
				if closeF != nil {
					bad("unsendable-close-sent", fmt.Sprintf("Close(%d, %d-byte reason) put a Close frame on the wire", op.Code, len(reason)))
				}
			}
		}
		// peer round trip through the library's reader
		rc := c.peerReadCase(o, exp, pings)
		if closeF != nil {
			code := 1005
			var reason []byte
			if len(closeF.Payload) >= 2 {
				code = int(closeF.Payload[0])<<8 | int(closeF.Payload[1])
				reason = closeF.Payload[2:]
			}
			rc.Exp.Close = fmt.Sprintf("%d:%s", code, hx(reason))
			rc.Exp.Why = "the writer's stream ends with its Close frame"
		}
		peerCases = append(peerCases, rc)
		if ctx.drv != nil && !c.NoModel && len(o.Wire) < 400000 {
			lines = append(lines, c.modelLine(o, keys))
			lineCase = append(lineCase, i)
			lineKind = append(lineKind, "writer")
		}
	}
	if ctx.drv != nil && len(lines) > 0 {
		ans, err := ctx.drv.Ask(lines)
		if err != nil {
			rep.violate(Violation{Kind: "correspondence", Shape: "driver-failed", What: err.Error()})
		} else {
			for j, i := range lineCase {
				rep.count("model-compared:writer")
				want := "ok " + hx(obs[i].Wire)
				if ans[j] != want {
					rep.Disagree++
					// locate the first differing byte
					a, b := ans[j], want
					k := 0
					for k < len(a) && k < len(b) && a[k] == b[k] {
						k++
					}
					rep.violate(Violation{Kind: "correspondence", Shape: "writer-model-vs-impl",
						What:   fmt.Sprintf("%s: model wire differs from implementation wire at hex offset %d (model %d chars, impl %d chars): model …%s impl …%s", cases[i].Desc, k, len(a), len(b), trunc(a[maxi(0, k-8):], 40), trunc(b[maxi(0, k-8):], 40)),
						Replay: cases[i]})
				}
			}
		}
	}
	// the peer side (library reader + Lean reader model on the same wire)
	sub := *ctx
	runReadCases(&sub, peerCases, func(*ReadCase) string { return tag + "-peer" })
	for i := 0; i < len(cases) && i < 2; i++ {
		c := *cases[i*len(cases)/2]
		ops := make([]WriteOp, len(c.Ops))
		copy(ops, c.Ops)
		for k := range ops {
			cs := make([]string, len(ops[k].Chunks))
			for m := range ops[k].Chunks {
				cs[m] = trunc(ops[k].Chunks[m], 32)
			}
			ops[k].Chunks = cs
		}
		c.Ops = ops
		rep.sample(c)
	}
}

func maxi(a, b int) int {
	if a > b {
		return a
	}
	return b
}

func replayWrite(ctx *runCtx, tag string) bool {
	if ctx.replay == "" {
		return false
	}
	var c WriteCase
	if err := loadReplay(ctx.replay, &c); err == nil && len(c.Ops) > 0 {
		runWriteCases(ctx, []*WriteCase{&c}, tag)
		return true
	}
	var c5 c05Case
	if err := loadReplay(ctx.replay, &c5); err == nil && c5.Writers > 0 {
		if sh, w := runC05Case(c5); sh != "" {
			ctx.rep.violate(Violation{Kind: "property", Shape: "concurrent-writers:" + sh, What: w, Replay: c5})
		}
		ctx.rep.eval("replay")
		return true
	}
	return replayRead(ctx)
}

func runC01(ctx *runCtx) {
	ctx.rep.Rule = "programs of 1..6 Write / Writer(chunked) / Ping calls with boundary-heavy sizes (0,125,126,65535,65536,4096k±1,...), both types, compressible and not, both roles, " +
		"flate off / on with all four (client_no_context_takeover, server_no_context_takeover) pairs, thresholds {default,1,64,4096,huge,random}; plus histories > 32 KiB under context takeover; " +
		"wire recorded on a sink transport, decoded by an independent codec (+compress/flate with the sender's takeover), compared with the Lean writer model, and fed to a real peer Conn and the Lean reader model; caller buffers snapshotted. " +
		"the real sliding window and trim writer against the closed forms of slide_spec / trim_spec; a Ping issued inside a compressed streamed message when exactly 1 or 3 of its data frames have been written; Dial against Accept through a real handshake for all 3x3 compression-mode pairs followed by history-dependent messages both ways. distinct = (config, op count, total bytes)"
	if replayWrite(ctx, "C01") {
		return
	}
	rng := newRng(ctx.seed, "c01")
	n, maxSize, nh := 500, 70000, 8
	if ctx.thorough() {
		n, maxSize, nh = 6000, 300000, 60
	}
	var cases []*WriteCase
	for i := 0; i < n; i++ {
		cases = append(cases, genWriteCase(rng, maxSize, false))
	}
	for i := 0; i < nh; i++ {
		cases = append(cases, genHistoryCase(rng))
	}
	for i := 0; i < nh; i++ {
		cases = append(cases, genPingInsideCase(rng, 1+2*(i%2)))
	}
	if ctx.thorough() {
		// >= 1 MiB messages through the oracle only
		for i := 0; i < 12; i++ {
			c := genWriteCase(rng, 10, false)
			c.Ops = []WriteOp{{Kind: []string{"write", "writer"}[i%2], Typ: 2, Chunks: []string{hx(genPayload(rng, (1<<20)+rng.Intn(70000)))}}}
			c.NoModel = true
			c.Desc = "1MiB " + c.Desc
			cases = append(cases, c)
		}
	}
	runWriteCases(ctx, cases, "C01")
	// "one message per call" also when calls overlap: several goroutines writing at the same time on one connection (the
	// scenario runner of C05, whose oracle demands that every message the peer receives is exactly one written message)
	for i := 0; i < 8; i++ {
		cc := c05Case{Client: i%2 == 0, Flate: i % 3, Writers: 2 + i%4, Closer: "none", Seed: ctx.seed*100 + int64(i), PeerIsLib: i%4 == 3}
		sh, w := guarded(60*time.Second, func() (string, string) { return runC05Case(cc) })
		ctx.rep.eval(fmt.Sprintf("concurrent-writers/%+v", cc))
		ctx.rep.count("concurrent-writers")
		if sh != "" {
			ctx.rep.violate(Violation{Kind: "property", Shape: "concurrent-writers:" + sh, What: w, Replay: cc})
		}
	}
	windowAndTrimDifferential(ctx.rep, rng, ctx.thorough())
	// end to end through a real handshake: Dial against Accept for every pair of compression modes, then
	// messages that refer back to earlier ones, both directions (what the two ends negotiated decides
	// whether the peer can decode)
	for cm := 0; cm <= 2; cm++ {
		for sm := 0; sm <= 2; sm++ {
			for _, per := range []bool{false, true} {
				cm, sm, per := cm, sm, per
				sh, w := guarded(30*time.Second, func() (string, string) { return libLibExchange(cm, sm, per) })
				ctx.rep.eval(fmt.Sprintf("lib-lib/%d/%d/%v", cm, sm, per))
				ctx.rep.count("lib-lib-pairs")
				if sh != "" {
					ctx.rep.violate(Violation{Kind: "property", Shape: "round-trip-after-handshake:" + sh, What: w, Replay: map[string]interface{}{"client_mode": cm, "server_mode": sm, "per_message_read_contexts": per}})
				}
			}
		}
	}
}

func runC02(ctx *runCtx) {
	ctx.rep.Rule = "programs of Write / Writer / Ping / Close calls (valid and invalid close codes and reasons) as in C01; every frame on the wire is checked by a codec that shares no code with the library: " +
		"masking for the role and key change between frames, minimal length encoding, control frames final and <=125, text/binary then continuation sequencing, rsv2/rsv3 never, rsv1 only on a first frame and only if negotiated, " +
		"compressed messages inflate with compress/flate under the sender's own context-takeover flag (asymmetric pairs included), Close payloads sendable; the wire must equal the Lean writer model's and decode in the Lean reference reader. distinct = (config, op count, total bytes)"
	if replayWrite(ctx, "C02") {
		return
	}
	rng := newRng(ctx.seed, "c02")
	n, maxSize := 700, 20000
	if ctx.thorough() {
		n, maxSize = 8000, 100000
	}
	var cases []*WriteCase
	for i := 0; i < n; i++ {
		cases = append(cases, genWriteCase(rng, maxSize, true))
	}
	for i := 0; i < 8; i++ {
		cases = append(cases, genHistoryCase(rng))
	}
	for i := 0; i < 8; i++ {
		cases = append(cases, genPingInsideCase(rng, 1+2*(i%2)))
	}
	// every boundary of the length encoding as the payload of one uncompressed frame, by Write and as a Writer chunk, both roles
	for _, client := range []bool{true, false} {
		var ws, cs []WriteOp
		for _, sz := range []int{0, 1, 124, 125, 126, 127, 65534, 65535, 65536, 65537} {
			ws = append(ws, WriteOp{Kind: "write", Typ: 1 + sz%2, Chunks: []string{hx(genPayload(rng, sz))}})
			if sz > 125 {
				cs = append(cs, WriteOp{Kind: "writer", Typ: 2, Chunks: []string{hx(genPayload(rng, 7)), hx(genPayload(rng, sz)), hx(genPayload(rng, 3))}})
			}
		}
		cases = append(cases, &WriteCase{Client: client, Ops: ws, Desc: "length-encoding boundaries by Write"},
			&WriteCase{Client: client, Ops: cs, Desc: "length-encoding boundaries as Writer chunks"})
	}
	runWriteCases(ctx, cases, "C02")
	// parameters obtained through a real handshake, asymmetric ones from a foreign peer included: the library
	// server against a raw client's offers, the library client against a raw server's responses; then compressed
	// messages that refer back to earlier ones, the reference peer using exactly what was negotiated
	var hs []c14Case
	for _, off := range []string{"permessage-deflate", "permessage-deflate; client_no_context_takeover", "permessage-deflate; server_no_context_takeover",
		"permessage-deflate; client_no_context_takeover; server_no_context_takeover", "permessage-deflate; client_max_window_bits", "permessage-deflate; server_max_window_bits=15; server_no_context_takeover"} {
		for mode := 1; mode <= 2; mode++ {
			hs = append(hs, c14Case{Kind: "accept-e2e", Mode: mode, Header: []string{off}})
		}
	}
	for _, resp := range []string{"permessage-deflate", "permessage-deflate; client_no_context_takeover", "permessage-deflate; server_no_context_takeover",
		"permessage-deflate; server_no_context_takeover; client_no_context_takeover"} {
		for mode := 1; mode <= 2; mode++ {
			hs = append(hs, c14Case{Kind: "dial-e2e", Mode: mode, Header: []string{resp}})
		}
	}
	for _, cc := range hs {
		cc := cc
		sh, w := guarded(30*time.Second, func() (string, string) {
			if cc.Kind == "accept-e2e" {
				return c14AcceptE2E(cc)
			}
			return c14DialE2E(cc)
		})
		ctx.rep.eval("handshake/" + cc.Kind + "/" + cc.Header[0] + fmt.Sprint(cc.Mode))
		ctx.rep.count("negotiated-through-handshake:" + cc.Kind)
		// whether the handshake itself accepts or refuses is C14's business; here: what flows afterwards
		if sh != "" && sh != "client-rejects-valid-response" && sh != "client-accepts-bad-response" {
			ctx.rep.violate(Violation{Kind: "property", Shape: "after-handshake:" + sh, What: w, Replay: cc})
		}
	}
}
