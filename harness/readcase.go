package main

// Read-side cases: an inbound byte stream is fed to a real Conn on a scripted transport, the
// Conn is drained message by message, and what it returns and writes back is compared with
// (a) a ground-truth expectation computed by construction by the generator (property oracle)
// and (b) the Lean reader model (correspondence).

import (
	"bytes"
	"context"
	"encoding/hex"
	"errors"
	"fmt"
	"io"
	"net"
	"strconv"
	"strings"
	"time"

	"nhooyr.io/websocket"
)

type ExpMsg struct {
	Typ  int    `json:"typ"`
	Data string `json:"data"` // hex
}

type Expect struct {
	Msgs       []ExpMsg `json:"msgs"`
	Close      string   `json:"close,omitempty"` // "code:hexreason" when the stream ends with a valid Close frame at a message boundary / inside a message
	InMsg      bool     `json:"in_msg"`          // a message is in progress when reading stops
	PartialOf  string   `json:"partial_of,omitempty"`
	Pongs      []string `json:"pongs"`                 // pong payloads that must be written (hex), in order
	MaybePongs []string `json:"maybe_pongs,omitempty"` // further pongs that may follow (compressed read-ahead)
	Why        string   `json:"why"`                   // human description of the stop point
	MaxPartial int      `json:"max_partial,omitempty"` // >0: at most this many bytes may be handed out for the failing message
	WantClose  int      `json:"want_close,omitempty"`  // >0: a Close frame with this code must be written
}

type ReadCase struct {
	Desc        string `json:"desc"`
	Client      bool   `json:"client"`
	Flate       bool   `json:"flate"`
	CNCT        bool   `json:"cnct"`
	SNCT        bool   `json:"snct"`
	Limit       *int64 `json:"limit,omitempty"`
	ChangeAfter int    `json:"change_after,omitempty"` // SetReadLimit(Limit2) after this many complete messages (if Limit2 != nil)
	Limit2      *int64 `json:"limit2,omitempty"`
	Stream      string `json:"stream"`
	Chunks      []int  `json:"chunks"`
	Term        string `json:"term"`
	Bufs        []int  `json:"bufs"`
	Exp         Expect `json:"expect"`
	NoModel     bool   `json:"no_model,omitempty"` // malformed DEFLATE etc.: outside the model's contract
}

func (c *ReadCase) readTakeover() bool {
	if c.Client {
		return !c.SNCT
	}
	return !c.CNCT
}

type ObsEv struct {
	Kind  string `json:"kind"` // msg | partial | fail
	Typ   int    `json:"typ"`
	Data  []byte `json:"-"`
	DataH string `json:"data"`
	Class string `json:"class"`
	Err   string `json:"err,omitempty"`
}

type Obs struct {
	Evs     []ObsEv
	Replies []RawFrame
	Garbage bool // the endpoint wrote bytes that are not whole frames
	Panic   string
	Hang    bool
	// CleanAfterErr: after a Read of a message had failed, a further Read of the same reader reported a clean end / more bytes
	CleanAfterErr string
}

func classify(err error) string {
	var ce websocket.CloseError
	switch {
	case err == nil:
		return "nil"
	case errors.As(err, &ce):
		return fmt.Sprintf("close:%d:%s", int(ce.Code), hx([]byte(ce.Reason)))
	case strings.Contains(err.Error(), "read limited at"):
		return "limit"
	case errors.Is(err, errScripted), errors.Is(err, io.EOF), errors.Is(err, io.ErrUnexpectedEOF), errors.Is(err, io.ErrClosedPipe):
		return "io"
	case errors.Is(err, net.ErrClosed):
		return "closed"
	case errors.Is(err, context.DeadlineExceeded), errors.Is(err, context.Canceled):
		return "ctx"
	}
	return "other"
}

func runReadCase(c *ReadCase) *Obs {
	stream, _ := hex.DecodeString(c.Stream)
	rwc := newScriptRWC(stream, c.Chunks, c.Term)
	conn := websocket.VerifNewConn(rwc, c.Client, websocket.VerifCopts{Enabled: c.Flate, ClientNoContextTakeover: c.CNCT, ServerNoContextTakeover: c.SNCT}, 0)
	if c.Limit != nil {
		conn.SetReadLimit(*c.Limit)
	}
	obs := &Obs{}
	// no fixed deadline: the case ends when the stream is consumed; only a standstill of 15 s counts as a hang
	wd := newWatchdog(15 * time.Second)
	defer wd.stop()
	rwc.onRead = wd.tick
	done := make(chan struct{})
	go func() {
		defer close(done)
		defer func() {
			if r := recover(); r != nil {
				obs.Panic = fmt.Sprint(r)
			}
		}()
		ctx := wd.ctx
		bi := 0
		nmsg := 0
		for {
			typ, r, err := conn.Reader(ctx)
			if err != nil {
				obs.Evs = append(obs.Evs, ObsEv{Kind: "fail", Class: classify(err), Err: trunc(err.Error(), 160)})
				return
			}
			var data []byte
			for {
				sz := 512
				if len(c.Bufs) > 0 {
					sz = c.Bufs[bi%len(c.Bufs)]
					bi++
				}
				if sz < 1 {
					sz = 1
				}
				buf := make([]byte, sz)
				n, err := r.Read(buf)
				wd.tick()
				data = append(data, buf[:n]...)
				if err == io.EOF {
					obs.Evs = append(obs.Evs, ObsEv{Kind: "msg", Typ: int(typ), Data: data, Class: "nil"})
					break
				}
				if err != nil {
					obs.Evs = append(obs.Evs, ObsEv{Kind: "partial", Typ: int(typ), Data: data, Class: classify(err), Err: trunc(err.Error(), 160)})
					// a stream that was cut inside this message (C04): a caller that reads the same message again after the failure
					// must not be told that it ended cleanly. (Not after a protocol violation: there the rest of the message may
					// well follow in the stream, and the properties speak about the read that fails.)
					for k := 0; k < 3 && strings.HasPrefix(c.Exp.Why, "cut"); k++ {
						n2, err2 := r.Read(make([]byte, sz))
						wd.tick()

						if err2 == io.EOF {
							obs.CleanAfterErr = fmt.Sprintf("read %d after the failed one (%s) returned %d bytes and io.EOF; %d bytes of the message had been delivered", k+1, trunc(err.Error(), 80), n2, len(data))
							break
						}
						if err2 == nil && n2 == 0 {
							break
						}
					}
					return
				}
			}
			nmsg++
			if c.Limit2 != nil && nmsg == c.ChangeAfter {
				conn.SetReadLimit(*c.Limit2)
			}
		}
	}()
	select {
	case <-done:
	case <-wd.ctx.Done():
		// the watchdog saw no progress and cancelled the context; a library call that still does not return
		// (blocked on something that ignores its context) is not waited for
		select {
		case <-done:
		case <-time.After(5 * time.Second):
		}
	case <-time.After(10 * time.Minute):
		obs.Hang = true
	}
	if wd.hung.Load() {
		obs.Hang = true
	}
	w := rwc.written()
	frames, used := parseRawFrames(w)
	obs.Replies = frames
	obs.Garbage = used != len(w)
	cdone := make(chan struct{})
	go func() { defer func() { recover(); close(cdone) }(); conn.CloseNow() }()
	select {
	case <-cdone:
	case <-time.After(20 * time.Second):
	}
	for i := range obs.Evs {
		obs.Evs[i].DataH = hx(obs.Evs[i].Data)
	}
	return obs
}

// ---------- ground-truth oracle ----------

// checkExpect returns ("", "") when the observation satisfies the property for this case.
func checkExpect(c *ReadCase, o *Obs) (shape, what string) {
	if o.Panic != "" {
		site := "other"
		for _, k := range []string{"slidingWindow", "nil pointer", "slice bounds", "index out of range"} {
			if strings.Contains(o.Panic, k) {
				site = strings.ReplaceAll(k, " ", "-")
				break
			}
		}
		return "panic:" + site, "panic: " + trunc(o.Panic, 200)
	}
	if o.Hang {
		return "hang", "reading did not terminate"
	}
	if o.Garbage {
		return "garbage-written", "the endpoint wrote bytes that do not form whole frames"
	}
	if o.CleanAfterErr != "" && c.Exp.InMsg {
		return "clean-end-after-failed-read", o.CleanAfterErr + " (" + c.Exp.Why + ")"
	}
	var msgs []ObsEv
	var last *ObsEv
	for i := range o.Evs {
		if o.Evs[i].Kind == "msg" {
			msgs = append(msgs, o.Evs[i])
		} else {
			last = &o.Evs[i]
		}
	}
	exp := c.Exp
	for i, m := range msgs {
		if i >= len(exp.Msgs) {
			// an extra complete message
			po, _ := hex.DecodeString(exp.PartialOf)
			if exp.InMsg && exp.PartialOf != "" && len(m.Data) < len(po) && bytes.HasPrefix(po, m.Data) {
				return "truncated-message-reported-complete", fmt.Sprintf("message %d reported complete with %d of %d bytes (%s)", i, len(m.Data), len(po), exp.Why)
			}
			if exp.InMsg && bytes.Equal(po, m.Data) && strings.HasPrefix(exp.Why, "cut") {
				return "truncated-message-reported-complete", fmt.Sprintf("message %d reported complete although the stream was cut before its final frame ended (%s)", i, exp.Why)
			}
			return "message-delivered-past-stop", fmt.Sprintf("message %d (%d bytes) delivered although reading had to stop: %s", i, len(m.Data), exp.Why)
		}
		want, _ := hex.DecodeString(exp.Msgs[i].Data)
		if m.Typ != exp.Msgs[i].Typ || !bytes.Equal(m.Data, want) {
			if c.Client && len(m.Data) == len(want) && strings.Contains(exp.Why, "masked") {
				return "masked-frame-accepted-by-client", fmt.Sprintf("message %d delivered with wrong bytes", i)
			}
			return "wrong-message", fmt.Sprintf("message %d: got typ=%d %s want typ=%d %s", i, m.Typ, trunc(hx(m.Data), 60), exp.Msgs[i].Typ, trunc(exp.Msgs[i].Data, 60))
		}
	}
	if len(msgs) < len(exp.Msgs) {
		return "message-lost", fmt.Sprintf("only %d of %d complete messages delivered (%s); last event %+v", len(msgs), len(exp.Msgs), exp.Why, last)
	}
	if last == nil {
		return "no-failure", "reading never failed although the stream ends: " + exp.Why
	}
	if last.Kind == "partial" {
		po, _ := hex.DecodeString(exp.PartialOf)
		if !bytes.HasPrefix(po, last.Data) {
			if !c.Client && len(last.Data) <= len(po) {
				return "non-prefix-bytes-with-error", fmt.Sprintf("%d bytes handed out with the error are not a prefix of the message (%s)", len(last.Data), exp.Why)
			}
			return "non-prefix-bytes", fmt.Sprintf("bytes handed out for the failing message are not a prefix of its payload (%s): got %s", exp.Why, trunc(hx(last.Data), 60))
		}
	}
	// C06: the CloseError is required for a read at a message boundary; a Close frame that arrives
	// in the middle of a message fails the read, possibly with another error class.
	if exp.Close != "" && !exp.InMsg && last.Class != "close:"+exp.Close {
		return "close-not-reported", fmt.Sprintf("want CloseError %s, got class %s (%s)", exp.Close, last.Class, last.Err)
	}
	if exp.Close == "" && strings.HasPrefix(last.Class, "close:") {
		return "spurious-close-error", "CloseError reported without a valid Close frame: " + last.Class
	}
	// pongs
	var pongs []string
	closes := 0
	for _, f := range o.Replies {
		switch f.Op {
		case 10:
			pongs = append(pongs, hx(f.Payload))
		case 8:
			closes++
		case 9:
		default:
			return "unexpected-frame-written", fmt.Sprintf("the reader wrote a frame with opcode %d", f.Op)
		}
		if f.Masked != c.Client || !f.Fin || f.Rsv1 || f.Rsv2 || f.Rsv3 {
			return "malformed-reply", fmt.Sprintf("reply frame %+v is malformed for the role", f)
		}
	}
	if len(pongs) < len(exp.Pongs) || len(pongs) > len(exp.Pongs)+len(exp.MaybePongs) {
		return "pong-count", fmt.Sprintf("pongs written %v, want %v (+ maybe %v)", pongs, exp.Pongs, exp.MaybePongs)
	}
	all := append(append([]string{}, exp.Pongs...), exp.MaybePongs...)
	for i, p := range pongs {
		if p != all[i] {
			return "pong-payload", fmt.Sprintf("pong %d carries %s, want %s", i, p, all[i])
		}
	}
	if exp.MaxPartial > 0 && last.Kind == "partial" && len(last.Data) > exp.MaxPartial {
		return "limit-exceeded", fmt.Sprintf("%d bytes handed out, limit allows at most %d (%s)", len(last.Data), exp.MaxPartial, exp.Why)
	}
	if exp.WantClose > 0 {
		found := false
		for _, f := range o.Replies {
			if f.Op == 8 && len(f.Payload) >= 2 && int(f.Payload[0])<<8|int(f.Payload[1]) == exp.WantClose {
				found = true
			}
		}
		if !found {
			return "close-code-missing", fmt.Sprintf("no Close frame with status %d was written (%s)", exp.WantClose, exp.Why)
		}
	}
	if exp.Close != "" {
		// the Close must be echoed with the same code
		code := strings.SplitN(exp.Close, ":", 2)[0]
		found := false
		for _, f := range o.Replies {
			if f.Op == 8 {
				got := "1005"
				if len(f.Payload) >= 2 {
					got = strconv.Itoa(int(f.Payload[0])<<8 | int(f.Payload[1]))
				}
				if got == code {
					found = true
				}
			}
		}
		if !found {
			return "close-not-echoed", "no Close frame with code " + code + " was written back"
		}
	}
	return "", ""
}

// ---------- model correspondence ----------

func (c *ReadCase) modelLine() string {
	b := func(x bool) string {
		if x {
			return "1"
		}
		return "0"
	}
	lim := int64(32768)
	if c.Limit != nil {
		lim = *c.Limit
	}
	ch := "-"
	if c.Limit2 != nil {
		ch = fmt.Sprintf("%d:%d", c.ChangeAfter, *c.Limit2)
	}
	s := c.Stream
	if s == "" {
		s = "-"
	}
	return fmt.Sprintf("reader %s %s %s %d %s %s", b(c.Client), b(c.Flate), b(c.readTakeover()), lim, ch, s)
}

type modelEv struct {
	kind  string
	typ   int
	data  []byte
	class string
	amb   bool
	op    int
}

func parseModelEvs(ans string) ([]modelEv, error) {
	if !strings.HasPrefix(ans, "ok") {
		return nil, fmt.Errorf("model answered %q", trunc(ans, 80))
	}
	var out []modelEv
	for _, part := range strings.Split(strings.TrimPrefix(ans, "ok"), "|") {
		f := strings.Fields(part)
		if len(f) == 0 {
			continue
		}
		switch f[0] {
		case "msg":
			t, _ := strconv.Atoi(f[1])
			out = append(out, modelEv{kind: "msg", typ: t, data: unhx(f[2])})
		case "partial":
			t, _ := strconv.Atoi(f[1])
			out = append(out, modelEv{kind: "partial", typ: t, data: unhx(f[2]), class: f[3], amb: f[4] == "1"})
		case "fail":
			out = append(out, modelEv{kind: "fail", class: f[1]})
		case "reply":
			t, _ := strconv.Atoi(f[1])
			out = append(out, modelEv{kind: "reply", op: t, data: unhx(f[2])})
		default:
			return nil, fmt.Errorf("model event %q", part)
		}
	}
	return out, nil
}

func modelClass(cl string) string {
	switch {
	case cl == "proto", cl == "protonc", cl == "inflate":
		return "other"
	}
	return cl
}

// compareModel returns "" if the observation is one the model allows.
func compareModel(c *ReadCase, o *Obs, ans string) string {
	mevs, err := parseModelEvs(ans)
	if err != nil {
		return err.Error()
	}
	var mseq, mrep []modelEv
	for _, e := range mevs {
		if e.kind == "reply" {
			mrep = append(mrep, e)
		} else {
			mseq = append(mseq, e)
		}
	}
	if len(mseq) != len(o.Evs) {
		return fmt.Sprintf("model has %d read events, implementation %d (model %s)", len(mseq), len(o.Evs), trunc(ans, 200))
	}
	amb := false
	compressedFail := false
	for i, m := range mseq {
		e := o.Evs[i]
		switch m.kind {
		case "msg":
			if e.Kind != "msg" || e.Typ != m.typ || !bytes.Equal(e.Data, m.data) {
				return fmt.Sprintf("event %d: model msg typ=%d len=%d, implementation %s typ=%d len=%d class=%s", i, m.typ, len(m.data), e.Kind, e.Typ, len(e.Data), e.Class)
			}
		case "partial":
			if e.Kind != "partial" || e.Typ != m.typ {
				return fmt.Sprintf("event %d: model partial typ=%d %s, implementation %s typ=%d class=%s", i, m.typ, m.class, e.Kind, e.Typ, e.Class)
			}
			if !bytes.HasPrefix(m.data, e.Data) {
				return fmt.Sprintf("event %d: bytes handed out (%d) are not a prefix of what the model allows (%d)", i, len(e.Data), len(m.data))
			}
			amb = m.amb
			if c.Flate {
				compressedFail = true
			}
			// with compression the inflater hands out pending output before the error that stopped it; by the
			// next call the connection may already have been closed (peer close, or the cancelled 5 s control
			// context), so that call reports net.ErrClosed instead of the original cause
			closeLost := c.Flate && e.Class == "closed"
			if modelClass(m.class) != e.Class && !(amb && e.Class == "limit") && !closeLost {
				return fmt.Sprintf("event %d: model stops with %s, implementation with %s (%s)", i, m.class, e.Class, e.Err)
			}
		case "fail":
			if e.Kind != "fail" || modelClass(m.class) != e.Class {
				return fmt.Sprintf("event %d: model fail %s, implementation %s class=%s (%s)", i, m.class, e.Kind, e.Class, e.Err)
			}
		}
	}
	// replies
	loose := amb || compressedFail
	var irep []RawFrame
	for _, f := range o.Replies {
		irep = append(irep, f)
	}
	norm := func(op int, p []byte) string {
		if op == 8 && len(p) >= 2 {
			code := int(p[0])<<8 | int(p[1])
			if code == 1002 || code == 1009 {
				return fmt.Sprintf("close %d", code) // reason text is the Go error message
			}
		}
		return fmt.Sprintf("%d %s", op, hx(p))
	}
	if !loose {
		if len(irep) != len(mrep) {
			return fmt.Sprintf("model writes %d frames back, implementation %d", len(mrep), len(irep))
		}
		for i := range mrep {
			if norm(mrep[i].op, mrep[i].data) != norm(irep[i].Op, irep[i].Payload) {
				return fmt.Sprintf("reply %d: model %s, implementation %s", i, trunc(norm(mrep[i].op, mrep[i].data), 60), trunc(norm(irep[i].Op, irep[i].Payload), 60))
			}
		}
	} else {
		// pongs must be a prefix of the model's pongs; the close reply is one of the allowed codes
		var mp, ip []string
		for _, r := range mrep {
			if r.op == 10 {
				mp = append(mp, hx(r.data))
			}
		}
		for _, r := range irep {
			if r.Op == 10 {
				ip = append(ip, hx(r.Payload))
			}
		}
		if len(ip) > len(mp) {
			return fmt.Sprintf("implementation wrote %d pongs, model at most %d", len(ip), len(mp))
		}
		for i := range ip {
			if ip[i] != mp[i] {
				return fmt.Sprintf("pong %d differs", i)
			}
		}
	}
	return ""
}
