package main

import (
	"context"
	"fmt"
	"math/rand"
	"strings"
	"sync"
	"time"

	"nhooyr.io/websocket"
)

// timeoutDifferential drives the real timeout goroutine of a connection (conn.go timeoutLoop) with programs of
// hand-overs on its two channels (contexts 1..4 or Background, through the verif export) and cancellations, one event
// at a time with the goroutine given time to react, observes whether the connection is closed after each event, and
// compares with WS.Model.Timeout through the driver. It is the tie of WS.Props.C10Timeout.
func timeoutDifferential(rep *Report, rng *rand.Rand, progs int, lines, expect, what *[]string) {
	type res struct{ line, obs string }
	out := make([]res, progs)
	var wg sync.WaitGroup
	sem := make(chan struct{}, 32)
	for i := 0; i < progs; i++ {
		// the program
		n := 3 + rng.Intn(9)
		var evs []string
		for k := 0; k < n; k++ {
			switch r := rng.Intn(10); {
			case r < 3:
				evs = append(evs, fmt.Sprintf("r%d", 1+rng.Intn(4)))
			case r < 6:
				evs = append(evs, fmt.Sprintf("w%d", 1+rng.Intn(4)))
			case r < 7:
				evs = append(evs, "rb")
			case r < 8:
				evs = append(evs, "wb")
			default:
				evs = append(evs, fmt.Sprintf("x%d", 1+rng.Intn(4)))
			}
		}
		if rng.Intn(6) == 0 {
			evs = append(evs, "C", fmt.Sprintf("x%d", 1+rng.Intn(4)), "rb")
		}
		// shapes that matter, always present
		switch i {
		case 0:
			evs = []string{"w1", "r2", "rb", "x1"} // a read armed and disarmed while a write is blocked
		case 1:
			evs = []string{"r1", "w2", "wb", "x1"}
		case 2:
			evs = []string{"r1", "rb", "x1", "w2", "wb", "x2"} // finished calls
		case 3:
			evs = []string{"x3", "r3"} // a context that is already done
		}
		wg.Add(1)
		sem <- struct{}{}
		go func(i int, evs []string) {
			defer wg.Done()
			defer func() { <-sem }()
			a, b := newPipe()
			defer b.Close()
			c := websocket.VerifNewConn(a, i%2 == 0, websocket.VerifCopts{}, 0)
			defer c.CloseNow()
			type cc struct {
				ctx    context.Context
				cancel context.CancelFunc
				done   bool
			}
			ctxs := map[int]*cc{}
			get := func(k int) *cc {
				if ctxs[k] == nil {
					x, cn := context.WithCancel(context.Background())
					ctxs[k] = &cc{ctx: x, cancel: cn}
				}
				return ctxs[k]
			}
			defer func() {
				for _, x := range ctxs {
					x.cancel()
				}
			}()
			var obs []string
			for _, e := range evs {
				wait := 5 * time.Millisecond
				switch e[0] {
				case 'r', 'w':
					var ctx context.Context = context.Background()
					if e[1] != 'b' {
						x := get(int(e[1] - '0'))
						ctx = x.ctx
						if x.done {
							wait = 150 * time.Millisecond
						}
					}
					websocket.VerifArmTimeout(c, e[0] == 'r', ctx)
				case 'x':
					x := get(int(e[1] - '0'))
					x.cancel()
					x.done = true
					wait = 150 * time.Millisecond
				case 'C':
					c.CloseNow()
				}
				// give the goroutine time to react; stop waiting as soon as the connection is closed
				deadline := time.Now().Add(wait)
				for !websocket.VerifIsClosed(c) && time.Now().Before(deadline) {
					time.Sleep(200 * time.Microsecond)
				}
				if websocket.VerifIsClosed(c) {
					obs = append(obs, "1")
				} else {
					obs = append(obs, "0")
				}
			}
			out[i] = res{"timeout " + strings.Join(evs, ","), strings.Join(obs, ",")}
		}(i, evs)
	}
	wg.Wait()
	for _, r := range out {
		rep.eval("timeout/" + r.line)
		rep.count("timeout-programs")
		if strings.HasSuffix(r.obs, "1") {
			rep.count("timeout-programs-ending-closed")
		}
		*lines = append(*lines, r.line)
		*expect = append(*expect, r.obs)
		*what = append(*what, "timeout goroutine program "+strings.TrimPrefix(r.line, "timeout "))
	}
}
