package main

import (
	"bytes"
	"fmt"
)

func init() { runners["selftest-inflate"] = runSelfInflate }

// Lean Spec.inflate vs compress/flate on generated payloads.
func runSelfInflate(ctx *runCtx) {
	rng := newRng(ctx.seed, "inflate")
	bad := 0
	for i := 0; i < 600; i++ {
		takeover := rng.Intn(2) == 0
		d := newRawDeflater(takeover, []int{1, 6, 9, -2, 0}[rng.Intn(5)])
		inf := &rawInflater{takeover: takeover}
		for m := 0; m < 3; m++ {
			p := genPayload(rng, pickSize(rng, 70000))
			dict := append([]byte(nil), inf.window...)
			z := d.message(p, false)
			want, err := inf.message(z)
			if err != nil || !bytes.Equal(want, p) {
				fmt.Println("reference peer itself fails:", err)
			}
			ans, _ := ctx.drv.Ask1(fmt.Sprintf("inflate %s %s", hx(dict), hx(append(append([]byte{}, z...), 0, 0, 0xff, 0xff))))
			exp := "ok needmore " + hx(p)
			ctx.rep.eval(fmt.Sprint(i, m))
			if ans != exp {
				bad++
				if bad < 5 {
					fmt.Printf("MISMATCH level=%d takeover=%v len=%d zlen=%d: %s\n", d.level, takeover, len(p), len(z), trunc(ans, 100))
					fmt.Printf("  z=%s\n", trunc(hx(z), 200))
				}
			}
		}
	}
	fmt.Println("inflate mismatches:", bad)
}
