package main

import (
	"bytes"
	"context"
	"encoding/json"
	"fmt"
	"math"
	"math/rand"
	"reflect"
	"strings"
	"sync"
	"time"

	"nhooyr.io/websocket"
	"nhooyr.io/websocket/wsjson"
)

func init() { runners["C19"] = runC19 }

// genJSON: a recursive generator of JSON values (as Go values that json.Marshal accepts).
func genJSON(rng *rand.Rand, depth int, fragment bool) interface{} {
	k := rng.Intn(8)
	if depth <= 0 && k >= 6 {
		k = rng.Intn(6)
	}
	switch k {
	case 0:
		return nil
	case 1:
		return rng.Intn(2) == 0
	case 2:
		return float64(rng.Intn(2000000) - 1000000) // integers (the Lean codec's fragment)
	case 3:
		if fragment {
			return float64(rng.Intn(1 << 30))
		}
		return rng.NormFloat64() * 1e6
	case 4, 5:
		return genString(rng, fragment)
	case 6:
		n := rng.Intn(5)
		a := make([]interface{}, n)
		for i := range a {
			a[i] = genJSON(rng, depth-1, fragment)
		}
		return a
	default:
		n := rng.Intn(5)
		m := map[string]interface{}{}
		for i := 0; i < n; i++ {
			m[genString(rng, fragment)] = genJSON(rng, depth-1, fragment)
		}
		return m
	}
}

func genString(rng *rand.Rand, fragment bool) string {
	n := []int{0, 1, 5, 20, 200}[rng.Intn(5)]
	var sb strings.Builder
	for i := 0; i < n; i++ {
		switch rng.Intn(12) {
		case 0:
			sb.WriteByte("\"\\/<>&\n\r\t\x01\x1f"[rng.Intn(11)])
		case 1:
			if !fragment {
				sb.WriteString([]string{"é", "日本", "😀", " ", "ß"}[rng.Intn(5)])
			} else {
				sb.WriteByte('~')
			}
		default:
			sb.WriteByte(byte(32 + rng.Intn(95)))
		}
	}
	return sb.String()
}

type c19Case struct {
	Client bool   `json:"client"`
	Kind   string `json:"kind"` // roundtrip | invalid | truncated | raw-target | bytes-target | big
	Doc    string `json:"doc"`
	Seed   int64  `json:"seed"`
	Target int    `json:"target_kind,omitempty"` // invalid / truncated: 0 interface, 1 RawMessage, 2 map, 3 struct with a RawMessage field, 4 slice
}

func runC19Case(cc c19Case, lines, expect, what *[]string) (string, string) {
	rng := newRng(cc.Seed, "c19case")
	a, b := newPipe()
	c := websocket.VerifNewConn(a, cc.Client, websocket.VerifCopts{}, 0)
	defer b.Close()
	defer c.CloseNow()
	peer := newRawPeer(b, !cc.Client)
	ctx, cancel := context.WithTimeout(context.Background(), 8*time.Second)
	defer cancel()
	desc := fmt.Sprintf("%s client=%v seed=%d", cc.Kind, cc.Client, cc.Seed)
	switch cc.Kind {
	case "roundtrip", "big":
		fragment := rng.Intn(2) == 0
		v := genJSON(rng, 4, fragment)
		if cc.Kind == "big" {
			v = map[string]interface{}{"big": strings.Repeat("x", 40000+rng.Intn(30000)), "v": v}
			c.SetReadLimit(1 << 20)
		}
		want, _ := json.Marshal(v)
		// write side: exactly one text message holding the encoding
		errc := make(chan error, 1)
		go func() { errc <- wsjson.Write(ctx, c, v) }()
		var payload []byte
		nmsg := 0
		for {
			f, err := peer.readFrame(5 * time.Second)
			if err != nil {
				return "write-not-received", desc + ": " + err.Error()
			}
			if f.Op == 1 || f.Op == 2 {
				nmsg++
				if f.Op != 1 {
					return "write-not-text", desc + ": wsjson.Write sent a binary message"
				}
			}
			if f.Op <= 2 {
				payload = append(payload, f.Payload...)
				if f.Fin {
					break
				}
			}
		}
		if err := <-errc; err != nil {
			return "write-failed", desc + ": " + err.Error()
		}
		if nmsg != 1 || !bytes.Equal(bytes.TrimRight(payload, "\n"), want) {
			return "write-payload", fmt.Sprintf("%s: payload %s, want %s", desc, trunc(string(payload), 80), trunc(string(want), 80))
		}
		// nothing else follows
		if f, err := peer.readFrame(30 * time.Millisecond); err == nil {
			return "write-extra-frame", fmt.Sprintf("%s: extra frame op %d after the message", desc, f.Op)
		}
		// read side: the peer sends the document (fragmented), wsjson.Read decodes exactly that message
		frs := splitSizes(rng, len(want))
		pos := 0
		for i, s := range frs {
			op := 0
			if i == 0 {
				op = 1
			}
			peer.writeFrame(RawFrame{Fin: i == len(frs)-1, Op: op, Payload: want[pos : pos+s]})
			pos += s
		}
		peer.writeFrame(RawFrame{Fin: true, Op: 1, Payload: []byte(`"next"`)})
		var got interface{}
		if err := wsjson.Read(ctx, c, &got); err != nil {
			return "read-failed", desc + ": " + err.Error()
		}
		if !reflect.DeepEqual(got, v) && !(v == nil && got == nil) {
			gb, _ := json.Marshal(got)
			if !bytes.Equal(gb, want) {
				return "read-value-differs", fmt.Sprintf("%s: read %s, written %s", desc, trunc(string(gb), 80), trunc(string(want), 80))
			}
		}
		var next string
		if err := wsjson.Read(ctx, c, &next); err != nil || next != "next" {
			return "read-consumed-more-than-one-message", fmt.Sprintf("%s: the following message read as %q, %v", desc, next, err)
		}
		if fragment && cc.Kind == "roundtrip" && len(want) < 100000 {
			*lines = append(*lines, "json-rt "+hs(string(want)))
			*expect = append(*expect, "ok "+hs(string(want)))
			*what = append(*what, "Lean JSON codec on "+trunc(string(want), 60))
		}
	case "invalid", "truncated":
		doc := cc.Doc
		peer.writeFrame(RawFrame{Fin: true, Op: 1, Payload: []byte(doc)})
		// every kind of target: an invalid document is an error whatever the caller decodes into
		var err error
		tk := cc.Target % 5
		switch tk {
		case 0:
			var got interface{}
			err = wsjson.Read(ctx, c, &got)
		case 1:
			var got json.RawMessage
			err = wsjson.Read(ctx, c, &got)
		case 2:
			var got map[string]interface{}
			err = wsjson.Read(ctx, c, &got)
		case 3:
			var got struct {
				A json.RawMessage `json:"a"`
			}
			err = wsjson.Read(ctx, c, &got)
		default:
			var got []interface{}
			err = wsjson.Read(ctx, c, &got)
		}
		desc += fmt.Sprintf(" target-kind=%d", tk)
		if err == nil {
			return "invalid-json-accepted", fmt.Sprintf("%s: %q decoded without error", desc, trunc(doc, 60))
		}
		for {
			f, ferr := peer.readFrame(3 * time.Second)
			if ferr != nil {
				return "invalid-json-no-1007", fmt.Sprintf("%s: no Close frame with status 1007 after %q (%v)", desc, trunc(doc, 60), err)
			}
			if f.Op == 8 {
				if len(f.Payload) >= 2 && int(f.Payload[0])<<8|int(f.Payload[1]) == 1007 {
					break
				}
				return "invalid-json-close-code", fmt.Sprintf("%s: Close payload %s", desc, hx(f.Payload))
			}
		}
		if inDomain(doc) && !strings.ContainsAny(doc, ".eE") {
			*lines = append(*lines, "json-rt "+hs(doc))
			*expect = append(*expect, "invalid")
			*what = append(*what, "Lean JSON codec rejects "+trunc(doc, 60))
		}
	case "mismatch":
		// well-formed JSON that is not valid for the target ("not valid JSON for the target"): an error and a
		// Close frame with status 1007, exactly as for malformed input
		type person struct {
			Age  int    `json:"age"`
			Name string `json:"name"`
		}
		// the last two produce error texts far longer than a Close reason may be (encoding/json echoes the number
		// literal; a custom UnmarshalJSON is verbose): the peer must still get 1007, not an abrupt end
		docs := []string{`"hello"`, `300`, `{"age":"forty","name":"x"}`, `[1,2,3]`, `{"a":1}`, `[1,"two",3]`, strings.Repeat("1234567890", 30), `{"picky":true}`}
		doc := docs[cc.Target%8]
		peer.writeFrame(RawFrame{Fin: true, Op: 1, Payload: []byte(doc)})
		var err error
		switch cc.Target % 8 {
		case 6:
			var v int
			err = wsjson.Read(ctx, c, &v)
		case 7:
			var v verbosePicky
			err = wsjson.Read(ctx, c, &v)
		case 0:
			var v int
			err = wsjson.Read(ctx, c, &v)
		case 1:
			var v uint8
			err = wsjson.Read(ctx, c, &v)
		case 2:
			var v person
			err = wsjson.Read(ctx, c, &v)
		case 3:
			var v map[string]int
			err = wsjson.Read(ctx, c, &v)
		default:
			var v []int
			err = wsjson.Read(ctx, c, &v)
		}
		if err == nil {
			return "invalid-json-accepted", fmt.Sprintf("%s: %s decoded into a target it does not fit without error", desc, doc)
		}
		for {
			f, ferr := peer.readFrame(3 * time.Second)
			if ferr != nil {
				return "invalid-json-no-1007", fmt.Sprintf("%s: no Close frame with status 1007 after %s did not fit its target (Read returned %v)", desc, doc, err)
			}
			if f.Op == 8 {
				if len(f.Payload) >= 2 && int(f.Payload[0])<<8|int(f.Payload[1]) == 1007 {
					break
				}
				return "invalid-json-close-code", fmt.Sprintf("%s: Close payload %s", desc, hx(f.Payload))
			}
		}
	case "unmarshalable":
		// a value encoding/json cannot encode: wsjson.Write must fail, put nothing on the wire and leave the
		// connection usable for the next value
		vals := []interface{}{make(chan int), func() {}, math.Inf(1), map[string]interface{}{"ok": 1, "bad": make(chan bool)}, []interface{}{1, math.NaN()}}
		v := vals[int(cc.Seed)%len(vals)]
		if err := wsjson.Write(ctx, c, v); err == nil {
			return "unmarshalable-value-written", fmt.Sprintf("%s: wsjson.Write(%T) returned nil", desc, v)
		}
		if err := wsjson.Write(ctx, c, map[string]int{"after": 1}); err != nil {
			return "connection-dead-after-marshal-error", fmt.Sprintf("%s: the next wsjson.Write failed: %v", desc, err)
		}
		f, err := peer.readFrame(3 * time.Second)
		if err != nil || f.Op != 1 || !f.Fin || strings.TrimSpace(string(f.Payload)) != `{"after":1}` {
			return "marshal-error-left-bytes-on-the-wire", fmt.Sprintf("%s: after a failed wsjson.Write(%T) the peer received %+v (%q), %v — expected exactly the next value", desc, v, f, trunc(string(f.Payload), 60), err)
		}
	case "raw-target":
		doc := `{"a":[1,2,{"b":null}],"c":"x"}`
		peer.writeFrame(RawFrame{Fin: true, Op: 1, Payload: []byte(doc)})
		var raw json.RawMessage
		if err := wsjson.Read(ctx, c, &raw); err != nil {
			return "read-failed", desc + ": " + err.Error()
		}
		keep := append([]byte(nil), raw...)
		// later reads reuse the pooled buffer: the earlier result must not change
		for i := 0; i < 5; i++ {
			peer.writeFrame(RawFrame{Fin: true, Op: 1, Payload: []byte(fmt.Sprintf(`"%s"`, strings.Repeat("z", 40+i)))})
			var s string
			if err := wsjson.Read(ctx, c, &s); err != nil {
				return "read-failed", desc + ": " + err.Error()
			}
		}
		if !bytes.Equal(raw, keep) || string(raw) != doc {
			return "decoded-result-aliases-pooled-buffer", fmt.Sprintf("%s: RawMessage changed from %q to %q after later reads", desc, keep, raw)
		}
	case "bytes-target":
		peer.writeFrame(RawFrame{Fin: true, Op: 1, Payload: []byte(`"aGVsbG8gd29ybGQ="`)})
		var bs []byte
		if err := wsjson.Read(ctx, c, &bs); err != nil || string(bs) != "hello world" {
			return "bytes-target", fmt.Sprintf("%s: %q %v", desc, bs, err)
		}
		keep := append([]byte(nil), bs...)
		peer.writeFrame(RawFrame{Fin: true, Op: 1, Payload: []byte(`"` + strings.Repeat("QUFB", 20) + `"`)})
		var bs2 []byte
		wsjson.Read(ctx, c, &bs2)
		if !bytes.Equal(bs, keep) {
			return "decoded-result-aliases-pooled-buffer", desc + ": []byte result changed after a later read"
		}
	}
	return "", ""
}

func runC19(ctx *runCtx) {
	rep := ctx.rep
	rep.Rule = "JSON values from a recursive generator (nesting <= 4, null/bool/integers/floats, strings with escapes, unicode and control characters, arrays, objects, 40-70 KB strings beyond the default read limit with the limit raised), written with wsjson.Write and observed by a raw peer (exactly one text message, payload = json.Marshal + newline, nothing after it) and read back with wsjson.Read from a fragmented message followed by another message (exactly one consumed); " +
		"malformed and truncated documents into every kind of target, well-formed documents that do not fit their target (string into int, 300 into uint8, wrong field type, array into map, object into slice, mixed array) (interface, RawMessage, map, struct, slice: error + Close 1007); values encoding/json cannot encode (error, nothing on the wire, connection usable); RawMessage and []byte targets checked after later reads and 16 concurrent connections sharing the buffer pool (aliasing); a document of more than a megabyte followed by small ones on the same and on a fresh connection; the Lean JSON codec compared on the integer fragment. distinct = case tuple"
	if ctx.replay != "" {
		var cc c19Case
		if err := loadReplay(ctx.replay, &cc); err == nil && cc.Kind != "" {
			var l, e, w []string
			if sh, what := runC19Case(cc, &l, &e, &w); sh != "" {
				rep.violate(Violation{Kind: "property", Shape: sh, What: what, Replay: cc})
			}
			rep.eval("replay")
		}
		return
	}
	rng := newRng(ctx.seed, "c19")
	n := 300
	if ctx.thorough() {
		n = 6000
	}
	var cases []c19Case
	for i := 0; i < n; i++ {
		cases = append(cases, c19Case{Client: rng.Intn(2) == 0, Kind: "roundtrip", Seed: ctx.seed*100000 + int64(i)})
	}
	for i := 0; i < n/30+2; i++ {
		cases = append(cases, c19Case{Client: rng.Intn(2) == 0, Kind: "big", Seed: ctx.seed*100000 + int64(i)})
	}
	bad := []string{"", "{", "}", "[1,2", `{"a":}`, `{"a" 1}`, `{a:1}`, `"unterminated`, "nul", "tru", "[1,]", `{"a":1,}`, "1 2", `"\x"`, "\"\x01\"", "[", "]", "--1", "+1", "0x10", `{"a":1}}`, "'single'", `"\u12"`, `[1 2]`, "{}{}"}
	for i, d := range bad {
		if i < 5 {
			cases = append(cases, c19Case{Client: i%2 == 0, Kind: "unmarshalable", Seed: int64(i)})
			cases = append(cases, c19Case{Client: i%2 == 1, Kind: "mismatch", Target: i}, c19Case{Client: i%2 == 0, Kind: "mismatch", Target: i + 1})
			if i < 2 {
				cases = append(cases, c19Case{Client: i%2 == 0, Kind: "mismatch", Target: 6 + i}, c19Case{Client: i%2 == 1, Kind: "mismatch", Target: 6 + i})
			}
		}
		cases = append(cases, c19Case{Client: i%2 == 0, Kind: "invalid", Doc: d, Seed: ctx.seed}, c19Case{Client: i%2 == 1, Kind: "invalid", Doc: d, Seed: ctx.seed, Target: 1}, c19Case{Client: i%2 == 0, Kind: "invalid", Doc: d, Seed: ctx.seed, Target: 2 + i%3})
	}
	for i := 0; i < n/10; i++ {
		v := genJSON(newRng(ctx.seed+int64(i), "trunc"), 3, true)
		b, _ := json.Marshal(v)
		if len(b) < 3 || b[0] != '{' && b[0] != '[' && b[0] != '"' {
			continue
		}
		cases = append(cases, c19Case{Client: i%2 == 0, Kind: "truncated", Doc: string(b[:1+rng.Intn(len(b)-1)]), Seed: ctx.seed, Target: i % 5})
	}
	for i := 0; i < 16; i++ {
		cases = append(cases, c19Case{Client: i%2 == 0, Kind: []string{"raw-target", "bytes-target"}[i%2], Seed: ctx.seed + int64(i)})
	}
	var mu sync.Mutex
	var lines, expect, what []string
	type res struct {
		i     int
		sh, w string
	}
	out := make(chan res, len(cases))
	sem := make(chan struct{}, 16)
	for i := range cases {
		sem <- struct{}{}
		go func(i int) {
			defer func() { <-sem }()
			r := res{i: i}
			var l, e, w []string
			func() {
				defer func() {
					if p := recover(); p != nil {
						r.sh, r.w = "panic", fmt.Sprint(p)
					}
				}()
				r.sh, r.w = runC19Case(cases[i], &l, &e, &w)
			}()
			mu.Lock()
			lines, expect, what = append(lines, l...), append(expect, e...), append(what, w...)
			mu.Unlock()
			out <- r
		}(i)
	}
	for range cases {
		r := <-out
		cc := cases[r.i]
		rep.eval(fmt.Sprintf("%s/%v/%d/%s", cc.Kind, cc.Client, cc.Seed, trunc(cc.Doc, 20)))
		rep.count("kind:" + cc.Kind)
		if r.sh != "" {
			rep.violate(Violation{Kind: "property", Shape: r.sh, What: r.w, Replay: cc})
		}
	}
	if sh, w := jsonPoolScenario(4); sh != "" {
		rep.violate(Violation{Kind: "property", Shape: sh, What: w, Replay: map[string]interface{}{"scenario": "json-pool"}})
	}
	if sh, w := guarded(90*time.Second, func() (string, string) { return bigJSONScenario(2) }); sh != "" {
		rep.violate(Violation{Kind: "property", Shape: sh, What: w, Replay: map[string]interface{}{"scenario": "big-json", "rounds": 2}})
	}
	if sh, w := guarded(60*time.Second, func() (string, string) { return jsonNestedReadScenario(12) }); sh != "" {
		rep.violate(Violation{Kind: "property", Shape: sh, What: w, Replay: map[string]interface{}{"scenario": "json-nested-read", "rounds": 12}})
	}
	rep.eval("scenario/json-nested-read")
	rep.eval("scenario/big-json")
	rep.eval("scenario/json-pool")
	askAndCompare(ctx, lines, expect, what, "json-model-vs-impl")
	rep.sample(cases[0])
	rep.sample(cases[len(cases)-20])
}

// verbosePicky: a target whose UnmarshalJSON always fails with a long explanation.
type verbosePicky struct{}

func (*verbosePicky) UnmarshalJSON(b []byte) error {
	return fmt.Errorf("verbosePicky refuses %q: %s", b, strings.Repeat("this value is not acceptable for a great many reasons; ", 6))
}
