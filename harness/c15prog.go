package main

import (
	"context"
	"fmt"
	"math/rand"
	"sort"
	"strconv"
	"strings"
	"time"
)

// pingProg: a program over the Ping registry of one connection — Ping calls starting (`s`), Pongs with
// chosen payloads arriving (`p:<hex>`), calls giving up (`x:<k>`, k = 1-based start index). Ground truth
// by construction: a call returns nil exactly when a Pong carrying its own payload (the decimal
// counter) arrives while it is outstanding; every other Pong changes nothing; a call that gives up
// returns an error and a later Pong for it is ignored. The same program goes to the Lean registry model.
type pingProg struct {
	Client bool     `json:"client"`
	Reader string   `json:"reader"` // closeread | reader
	Evs    []string `json:"events"`
}

func genPingProg(rng *rand.Rand) pingProg {
	pp := pingProg{Client: rng.Intn(2) == 0, Reader: []string{"closeread", "reader"}[rng.Intn(2)]}
	started := 0
	n := 4 + rng.Intn(12)
	for i := 0; i < n; i++ {
		switch r := rng.Intn(10); {
		case r < 4 || started == 0:
			pp.Evs = append(pp.Evs, "s")
			started++
		case r < 8:
			var pl string
			switch rng.Intn(8) {
			case 0:
				pl = "" // empty
			case 1:
				pl = "0" + strconv.Itoa(1+rng.Intn(started)) // leading zero: not the decimal rendering
			case 2:
				pl = strconv.Itoa(1+rng.Intn(started)) + " "
			case 3:
				pl = strconv.Itoa(started + 1 + rng.Intn(3)) // a call that has not started yet
			case 4:
				pl = string([]byte{0xff, 0xfe, byte(rng.Intn(256))}) // not UTF-8
			case 5:
				pl = []string{"heartbeat", "+1", "1e0", "x1", strings.Repeat("9", 125)}[rng.Intn(5)]
			default:
				pl = strconv.Itoa(1 + rng.Intn(started)) // some call's own payload (outstanding, finished or cancelled)
			}
			pp.Evs = append(pp.Evs, "p:"+hx([]byte(pl)))
		default:
			pp.Evs = append(pp.Evs, "x:"+strconv.Itoa(1+rng.Intn(started)))
		}
	}
	return pp
}

func runPingProg(pp pingProg, modelLine, modelWant *string) (string, string) {
	c, peer, pend := newConnPair(pp.Client)
	defer pend.Close()
	defer c.CloseNow()
	bg, cancelAll := context.WithCancel(context.Background())
	defer cancelAll()
	if pp.Reader == "closeread" {
		c.CloseRead(bg)
	} else {
		go func() {
			for {
				if _, _, err := c.Read(bg); err != nil {
					return
				}
			}
		}()
	}
	type call struct {
		cancel  context.CancelFunc
		done    chan error
		payload string
		state   int // 0 outstanding, 1 returned nil, 2 gave up
	}
	var calls []*call
	var outs []string
	desc := fmt.Sprintf("%+v", pp)
	for ei, ev := range pp.Evs {
		switch {
		case ev == "s":
			ctx, cancel := context.WithCancel(bg)
			cl := &call{cancel: cancel, done: make(chan error, 1)}
			go func() { cl.done <- c.Ping(ctx) }()
			f, err := peer.readFrame(5 * time.Second)
			if err != nil || f.Op != 9 {
				return "ping-frame-missing", fmt.Sprintf("%s: event %d: frame %+v err %v", desc, ei, f, err)
			}
			cl.payload = string(f.Payload)
			for _, o := range calls {
				if o.state == 0 && o.payload == cl.payload {
					return "ping-payload-reused", fmt.Sprintf("%s: two outstanding pings share payload %q", desc, cl.payload)
				}
			}
			calls = append(calls, cl)
			outs = append(outs, "ping:"+hx(f.Payload))
			// let the call reach its wait: cancelling a context while its own frame write is still
			// finishing may legitimately close the connection (C10), which is not what is examined here
			time.Sleep(5 * time.Millisecond)
		case strings.HasPrefix(ev, "p:"):
			pl := unhx(ev[2:])
			peer.writeFrame(RawFrame{Fin: true, Op: 10, Payload: pl})
			var okIDs []int
			// the call that owns this payload (if outstanding) must return nil …
			for k, cl := range calls {
				if cl.state == 0 && cl.payload == string(pl) {
					select {
					case err := <-cl.done:
						if err != nil {
							return "ping-failed-despite-pong", fmt.Sprintf("%s: event %d: ping %d (%q) returned %v although its pong was sent", desc, ei, k+1, cl.payload, err)
						}
						cl.state = 1
						okIDs = append(okIDs, k+1)
					case <-time.After(3 * time.Second):
						return "ping-failed-despite-pong", fmt.Sprintf("%s: event %d: ping %d (%q) did not return within 3s of its pong", desc, ei, k+1, cl.payload)
					}
				}
			}
			// … and no other call may return
			time.Sleep(15 * time.Millisecond)
			for k, cl := range calls {
				if cl.state != 0 {
					continue
				}
				select {
				case err := <-cl.done:
					if err == nil {
						return "ping-returned-without-own-pong", fmt.Sprintf("%s: event %d: ping %d (%q) returned nil after a pong with payload %q", desc, ei, k+1, cl.payload, trunc(string(pl), 40))
					}
					return "ping-failed-spontaneously", fmt.Sprintf("%s: event %d: ping %d (%q) returned %v after a pong with payload %q", desc, ei, k+1, cl.payload, err, trunc(string(pl), 40))
				default:
				}
			}
			if len(okIDs) == 0 {
				outs = append(outs, "-")
			} else {
				sort.Ints(okIDs)
				var q []string
				for _, id := range okIDs {
					q = append(q, strconv.Itoa(id))
				}
				outs = append(outs, "ok:"+strings.Join(q, "+"))
			}
		case strings.HasPrefix(ev, "x:"):
			k, _ := strconv.Atoi(ev[2:])
			if k < 1 || k > len(calls) || calls[k-1].state != 0 {
				outs = append(outs, "-")
				continue
			}
			cl := calls[k-1]
			cl.cancel()
			select {
			case err := <-cl.done:
				if err == nil {
					return "ping-returned-without-own-pong", fmt.Sprintf("%s: event %d: ping %d returned nil when its context was cancelled", desc, ei, k)
				}
				cl.state = 2
				outs = append(outs, "err:"+strconv.Itoa(k))
			case <-time.After(3 * time.Second):
				return "ping-ignores-context", fmt.Sprintf("%s: event %d: ping %d did not return within 3s of its context being cancelled", desc, ei, k)
			}
		}
	}
	// by construction the k-th call carries the decimal counter k on a fresh connection
	for k, cl := range calls {
		if cl.payload != strconv.Itoa(k+1) {
			// not required by the property (any unique payload would do); recorded for the model comparison only
			*modelLine = ""
			return "", ""
		}
	}
	*modelLine = "pingreg " + strings.Join(pp.Evs, ",")
	*modelWant = "ok " + strings.Join(outs, ",")
	return "", ""
}
