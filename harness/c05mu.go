package main

import (
	"context"
	"fmt"
	"math/rand"
	"strings"
	"time"

	"nhooyr.io/websocket"
)

// muDifferential drives one real channel mutex (`mu` of conn.go, through the verif export) with random operation
// programs — lock under a live / already cancelled / soon expiring context, tryLock, forceLock, unlock, closing the
// connection — in one goroutine, probes the channel after every operation, and compares with WS.Model.Mu through the
// driver: the model is told what the call returned (the pick of a `select` is the runtime's) and answers whether
// that outcome is possible and what the channel must hold afterwards. It is the tie of WS.Props.C05Mu.
func muDifferential(rep *Report, rng *rand.Rand, progs, steps int, lines, expect, what *[]string) {
	for i := 0; i < progs; i++ {
		a, b := newPipe()
		c := websocket.VerifNewConn(a, rng.Intn(2) == 0, websocket.VerifCopts{}, 0)
		m := websocket.VerifNewMu(c)
		var ops, obs []string
		full, closed := false, false // the harness's own bookkeeping, only used to avoid operations that would block
		probe := func() string {
			if m.TryLock() {
				m.Unlock()
				return "0"
			}
			return "1"
		}
		bad := ""
		for k := 0; k < steps && bad == ""; k++ {
			switch r := rng.Intn(10); {
			case r < 5: // lock
				kind := "vps"[rng.Intn(3)]
				if kind == 'v' && full && !closed {
					kind = 's' // a live context on a held lock would wait for ever
				}
				var ctx context.Context
				var cancel context.CancelFunc
				switch kind {
				case 'v':
					ctx, cancel = context.WithTimeout(context.Background(), 3*time.Second)
				case 'p':
					ctx, cancel = context.WithCancel(context.Background())
					cancel()
				default:
					ctx, cancel = context.WithTimeout(context.Background(), 3*time.Millisecond)
				}
				err := m.Lock(ctx)
				cancel()
				res := "o"
				switch {
				case err == nil:
				case strings.Contains(err.Error(), "use of closed network connection"):
					res = "c"
				case strings.Contains(err.Error(), "failed to acquire lock"):
					res = "x"
				default:
					res = "?"
				}
				if kind == 'v' && res == "x" {
					bad = "lock under a live context returned a context error after 3 s: it was blocked although the model's lock is free or the connection closed"
				}
				ops = append(ops, fmt.Sprintf("L%c%s", kind, res))
				f := probe()
				obs = append(obs, "L:"+f)
				full = f == "1"
			case r < 7:
				ok := m.TryLock()
				ops = append(ops, "T")
				f := probe()
				obs = append(obs, fmt.Sprintf("T:%v:%s", ok, f))
				full = f == "1"
			case r < 8:
				if full {
					continue
				}
				done := make(chan struct{})
				go func() { m.ForceLock(); close(done) }()
				select {
				case <-done:
				case <-time.After(2 * time.Second):
					bad = "forceLock blocked on a lock the probe saw free"
				}
				ops = append(ops, "F")
				f := probe()
				obs = append(obs, "F:"+f)
				full = f == "1"
			case r < 9:
				m.Unlock()
				ops = append(ops, "U")
				f := probe()
				obs = append(obs, "U:"+f)
				full = f == "1"
			default:
				if closed || rng.Intn(3) != 0 {
					continue
				}
				c.CloseNow()
				closed = true
				ops = append(ops, "C")
				f := probe()
				obs = append(obs, "C:"+f)
				full = f == "1"
			}
		}
		c.CloseNow()
		b.Close()
		rep.eval(fmt.Sprintf("mu/%s", strings.Join(ops, "")))
		rep.count("mu-programs")
		for _, o := range ops {
			rep.count("mu-op:" + o[:1])
			if o[0] == 'L' {
				rep.count("mu-lock:" + o[1:])
			}
		}
		if bad != "" {
			rep.violate(Violation{Kind: "property", Shape: "channel-mutex-blocked", What: bad + " (program " + strings.Join(ops, ",") + ")", Replay: map[string]interface{}{"mu_program": ops}})
			continue
		}
		*lines = append(*lines, "mu "+strings.Join(ops, ","))
		*expect = append(*expect, strings.Join(obs, ","))
		*what = append(*what, "channel mutex program "+strings.Join(ops, ","))
	}
}
