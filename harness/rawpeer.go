package main

// An RFC 6455 frame codec that shares no code with the library: used to build inbound
// streams and to parse what the endpoint writes.

import (
	"bytes"
	"compress/flate"
	"encoding/binary"
	"fmt"
	"io"
)

type RawFrame struct {
	Fin, Rsv1, Rsv2, Rsv3 bool
	Op                    int
	Masked                bool
	Key                   [4]byte
	Payload               []byte // application payload (unmasked)
	// encoding overrides for violations
	LenOverride *uint64 // declared length (payload bytes still written as given)
	ForceLen64  bool    // use the 64-bit length form regardless of size
	ForceLen16  bool
}

func (f RawFrame) Encode() []byte {
	var b []byte
	b0 := byte(f.Op & 0xf)
	if f.Fin {
		b0 |= 0x80
	}
	if f.Rsv1 {
		b0 |= 0x40
	}
	if f.Rsv2 {
		b0 |= 0x20
	}
	if f.Rsv3 {
		b0 |= 0x10
	}
	b = append(b, b0)
	n := uint64(len(f.Payload))
	if f.LenOverride != nil {
		n = *f.LenOverride
	}
	m := byte(0)
	if f.Masked {
		m = 0x80
	}
	switch {
	case f.ForceLen64 || (!f.ForceLen16 && n > 65535):
		b = append(b, m|127)
		var x [8]byte
		binary.BigEndian.PutUint64(x[:], n)
		b = append(b, x[:]...)
	case f.ForceLen16 || n > 125:
		b = append(b, m|126)
		b = append(b, byte(n>>8), byte(n))
	default:
		b = append(b, m|byte(n))
	}
	if f.Masked {
		b = append(b, f.Key[:]...)
		for i, x := range f.Payload {
			b = append(b, x^f.Key[i%4])
		}
	} else {
		b = append(b, f.Payload...)
	}
	return b
}

// parseRawFrames parses complete frames from b; returns frames and the number of bytes consumed.
func parseRawFrames(b []byte) ([]RawFrame, int) {
	var out []RawFrame
	pos := 0
	for {
		if len(b)-pos < 2 {
			return out, pos
		}
		p := pos
		f := RawFrame{Fin: b[p]&0x80 != 0, Rsv1: b[p]&0x40 != 0, Rsv2: b[p]&0x20 != 0, Rsv3: b[p]&0x10 != 0, Op: int(b[p] & 0xf)}
		f.Masked = b[p+1]&0x80 != 0
		l7 := int(b[p+1] & 0x7f)
		p += 2
		var n uint64
		switch l7 {
		case 126:
			if len(b)-p < 2 {
				return out, pos
			}
			n = uint64(b[p])<<8 | uint64(b[p+1])
			p += 2
			f.ForceLen16 = true
		case 127:
			if len(b)-p < 8 {
				return out, pos
			}
			n = binary.BigEndian.Uint64(b[p:])
			p += 8
			f.ForceLen64 = true
		default:
			n = uint64(l7)
		}
		if f.Masked {
			if len(b)-p < 4 {
				return out, pos
			}
			copy(f.Key[:], b[p:p+4])
			p += 4
		}
		if uint64(len(b)-p) < n {
			return out, pos
		}
		f.Payload = make([]byte, n)
		for i := range f.Payload {
			f.Payload[i] = b[p+i]
			if f.Masked {
				f.Payload[i] ^= f.Key[i%4]
			}
		}
		p += int(n)
		pos = p
		out = append(out, f)
	}
}

// minimalLen reports whether the frame used the minimal length encoding.
func (f RawFrame) minimalLen() bool {
	n := len(f.Payload)
	switch {
	case f.ForceLen64:
		return n > 65535
	case f.ForceLen16:
		return n > 125
	}
	return n <= 125
}

// rawDeflater is the reference peer's permessage-deflate compressor (compress/flate used directly).
type rawDeflater struct {
	takeover bool
	level    int
	buf      bytes.Buffer
	w        *flate.Writer
	// hist: the last 32 KiB of what was compressed so far (context takeover): after a message that ended with a final block the
	// next deflate stream starts with this window as its dictionary, so it may refer back across the final block
	hist []byte
	// keepWindow: use hist in that situation (a sender that drops its history after a final block is also conformant)
	keepWindow bool
}

func newRawDeflater(takeover bool, level int) *rawDeflater {
	d := &rawDeflater{takeover: takeover, level: level}
	d.w, _ = flate.NewWriter(&d.buf, level)
	return d
}

// message compresses one message; bfinal ends it with a BFINAL=1 block + 0x00 (RFC 7692 7.2.3.4).
func (d *rawDeflater) message(p []byte, bfinal bool) []byte {
	d.buf.Reset()
	if !d.takeover || d.w == nil {
		if d.takeover && d.keepWindow && len(d.hist) > 0 {
			d.w, _ = flate.NewWriterDict(&d.buf, d.level, d.hist)
		} else {
			d.w, _ = flate.NewWriter(&d.buf, d.level)
		}
	}
	if d.takeover {
		d.hist = append(d.hist, p...)
		if len(d.hist) > 32768 {
			d.hist = d.hist[len(d.hist)-32768:]
		}
	}
	d.w.Write(p)
	if bfinal {
		d.w.Close()
		out := append([]byte(nil), d.buf.Bytes()...)
		d.w = nil // a closed writer cannot continue; history is lost (sender's choice)
		return append(out, 0x00)
	}
	d.w.Flush()
	out := append([]byte(nil), d.buf.Bytes()...)
	if len(out) < 4 || !bytes.Equal(out[len(out)-4:], []byte{0, 0, 0xff, 0xff}) {
		panic("flate sync flush does not end in 00 00 ff ff")
	}
	return out[:len(out)-4]
}

// rawInflater is the reference peer's decompressor.
type rawInflater struct {
	takeover bool
	window   []byte
}

func (r *rawInflater) message(z []byte) ([]byte, error) {
	src := io.MultiReader(bytes.NewReader(z), bytes.NewReader([]byte{0, 0, 0xff, 0xff}))
	var fr io.ReadCloser
	if r.takeover {
		fr = flate.NewReaderDict(src, r.window)
	} else {
		fr = flate.NewReader(src)
	}
	out, err := io.ReadAll(fr)
	if err == io.ErrUnexpectedEOF {
		err = nil // the stream ends after the empty stored block, as expected
	}
	if err != nil {
		return out, fmt.Errorf("reference inflate: %w", err)
	}
	if r.takeover {
		r.window = append(r.window, out...)
		if len(r.window) > 32768 {
			r.window = r.window[len(r.window)-32768:]
		}
	}
	return out, nil
}
