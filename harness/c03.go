package main

import (
	"encoding/hex"
	"fmt"
	"sync"
	"sync/atomic"
)

// runReadCases evaluates cases in parallel on the implementation, checks the ground truth and
// then the Lean model.
var readHangs int32

func runReadCases(ctx *runCtx, cases []*ReadCase, kindOf func(*ReadCase) string) {
	rep := ctx.rep
	// the ground truth of these generators does not account for the read limit (C08 does): a case whose
	// expected messages exceed the default limit of 32768 bytes runs with the limit lifted
	for _, c := range cases {
		if c.Limit != nil || c.Exp.WantClose == 1009 || c.Exp.MaxPartial > 0 {
			continue // an explicit limit, or a case that is about the limit itself (C08)
		}
		big := len(c.Exp.PartialOf)/2 > 32768
		for _, m := range c.Exp.Msgs {
			if len(m.Data)/2 > 32768 {
				big = true
			}
		}
		if big {
			unlimited := int64(-1)
			c.Limit = &unlimited
		}
	}
	obs := make([]*Obs, len(cases))
	var wg sync.WaitGroup
	sem := make(chan struct{}, 16)
	for i := range cases {
		wg.Add(1)
		sem <- struct{}{}
		go func(i int) {
			defer wg.Done()
			defer func() { <-sem }()
			if atomic.LoadInt32(&readHangs) >= 3 {
				return // the library evidently blocks: three cases with their replays are enough, do not wait 35 s for each of the rest
			}
			obs[i] = runReadCase(cases[i])
			if obs[i].Hang {
				atomic.AddInt32(&readHangs, 1)
			}
		}(i)
	}
	wg.Wait()
	var lines []string
	var idx []int
	for i, c := range cases {
		o := obs[i]
		if o == nil {
			rep.count("skipped-after-hangs")
			continue
		}
		key := fmt.Sprintf("%s/%v/%v/%d/%s", kindOf(c), c.Client, c.Flate, len(c.Stream)/2, c.Exp.Why)
		if len(c.Stream) == 0 {
			key = ""
		}
		rep.eval(key)
		rep.count("kind:" + kindOf(c))
		if c.Client {
			rep.count("role:client")
		} else {
			rep.count("role:server")
		}
		if c.Flate {
			rep.count("flate:on")
		} else {
			rep.count("flate:off")
		}
		for _, e := range o.Evs {
			rep.count("impl-event:" + e.Kind + ":" + classPrefix(e.Class))
		}
		if shape, what := checkExpect(c, o); shape != "" {
			rep.violate(Violation{Kind: "property", Shape: shape, What: c.Desc + ": " + what, Replay: c})
			continue
		}
		if ctx.drv != nil && !c.NoModel {
			lines = append(lines, c.modelLine())
			idx = append(idx, i)
		}
	}
	if ctx.drv != nil && len(lines) > 0 {
		ans, err := ctx.drv.Ask(lines)
		if err != nil {
			rep.violate(Violation{Kind: "correspondence", Shape: "driver-failed", What: err.Error()})
			return
		}
		for j, i := range idx {
			rep.count("model-compared")
			if d := compareModel(cases[i], obs[i], ans[j]); d != "" {
				rep.Disagree++
				rep.violate(Violation{Kind: "correspondence", Shape: "reader-model-vs-impl", What: cases[i].Desc + ": " + d + " | impl events: " + fmtEvs(obs[i]), Replay: cases[i]})
			}
		}
	}
	for i := 0; i < len(cases) && i < 3; i++ {
		c := *cases[i*len(cases)/3]
		if len(c.Stream) > 200 {
			c.Stream = c.Stream[:200] + "…"
		}
		c.Exp.PartialOf = trunc(c.Exp.PartialOf, 40)
		for k := range c.Exp.Msgs {
			c.Exp.Msgs[k].Data = trunc(c.Exp.Msgs[k].Data, 40)
		}
		rep.sample(c)
	}
}

func classPrefix(c string) string {
	if len(c) >= 5 && c[:5] == "close" {
		return "close"
	}
	return c
}

func fmtEvs(o *Obs) string {
	s := ""
	for _, e := range o.Evs {
		s += fmt.Sprintf("[%s typ=%d len=%d %s %s]", e.Kind, e.Typ, len(e.Data), e.Class, trunc(e.Err, 80))
	}
	for _, f := range o.Replies {
		s += fmt.Sprintf("(reply op=%d len=%d)", f.Op, len(f.Payload))
	}
	return s
}

func init() {
	runners["C03"] = runC03
	runners["C04"] = runC04
}

func replayRead(ctx *runCtx) bool {
	if ctx.replay == "" {
		return false
	}
	var c ReadCase
	if err := loadReplay(ctx.replay, &c); err != nil {
		ctx.rep.note("cannot load replay: %v", err)
		return true
	}
	runReadCases(ctx, []*ReadCase{&c}, func(*ReadCase) string { return "replay" })
	return true
}

func runC03(ctx *runCtx) {
	ctx.rep.Rule = "inbound streams from a grammar (1..4 messages, fragmentation incl. empty fragments, interleaved ping/pong, compressed/uncompressed, BFINAL endings) " +
		"encoded by a codec that shares no code with the library; each either valid or with one violation/Close inserted at a random frame position and followed by more valid frames; " +
		"fed to a real Conn over a scripted transport in varied chunkings and read-buffer sizes; results compared with the generator's ground truth and with the Lean reader model. " +
		"distinct = (kind, role, flate, stream length, stop description); non-trivial = non-empty stream"
	if replayRead(ctx) {
		return
	}
	rng := newRng(ctx.seed, "c03")
	n := 2500
	maxSize := 20000
	if ctx.thorough() {
		n = 40000
		maxSize = 70000
	}
	var cases []*ReadCase
	for i := 0; i < n; i++ {
		switch {
		case i%5 == 0:
			cases = append(cases, genValidCase(rng, maxSize))
		default:
			cases = append(cases, genViolationCase(rng, maxSize/4, i%10))
		}
	}
	// "where reading fails" includes the end of the byte stream: small streams cut at every offset (C04's generator): a message
	// the sender never finished is never delivered
	for i := 0; i < 6; i++ {
		genCutCases(rng, 60, true, 0, func(c *ReadCase) { cases = append(cases, c) })
	}
	// context takeover across a message that ended with a final deflate block (the sender keeps its window)
	for k := 0; k < 24; k++ {
		cases = append(cases, genFinalBlockHistoryCase(rng, k))
	}
	runReadCases(ctx, cases, func(c *ReadCase) string {
		if c.Desc == "valid" {
			return "valid"
		}
		return c.Exp.Why
	})
}

func runC04(ctx *runCtx) {
	ctx.rep.Rule = "valid multi-message multi-fragment streams (compressed and not) cut at byte offsets: every offset for small streams, and every frame boundary -3..+14 plus random offsets for larger ones; " +
		"every cut inside the header of a final frame for every length encoding after a message without extended lengths; transport ends with EOF or an error; read buffers 1..32768; ground truth: messages wholly before the cut are delivered, the message containing the cut fails with a prefix. " +
		"distinct = (role, flate, cut offset, stream length)"
	if replayRead(ctx) {
		return
	}
	rng := newRng(ctx.seed, "c04")
	var cases []*ReadCase
	nAll, nBig := 25, 25
	if ctx.thorough() {
		nAll, nBig = 300, 300
	}
	for i := 0; i < nAll; i++ {
		genCutCases(rng, 60, true, 0, func(c *ReadCase) { cases = append(cases, c) })
	}
	for i := 0; i < nBig; i++ {
		genCutCases(rng, 9000, false, 30, func(c *ReadCase) { cases = append(cases, c) })
	}
	// every cut inside the header of a final frame, for every length encoding (7-bit, 16-bit, 64-bit), after a
	// first message whose frames used no extended length (whatever a header buffer still holds from before must
	// not be taken for the missing bytes), both roles, both endings
	for _, client := range []bool{true, false} {
		for _, n2 := range []int{5, 125, 126, 200, 255, 256, 65535, 65536} {
			mk := func(f RawFrame) []byte {
				f.Masked, f.Key = !client, [4]byte{9, 8, 7, byte(n2)}
				return f.Encode()
			}
			m1 := []byte("first one")
			m2 := randBytes(rng, n2)
			f1 := mk(RawFrame{Fin: true, Op: 2, Payload: m1})
			f2 := mk(RawFrame{Fin: true, Op: 1, Payload: m2})
			hdr := len(f2) - n2
			for k := 0; k <= hdr+1 && k <= len(f2); k++ {
				for ti, term := range []string{"eof", "err"} {
					c := &ReadCase{Desc: fmt.Sprintf("cut %d bytes into the header of a %d-byte final frame", k, n2), Client: client, Term: term,
						Chunks: [][]int{nil, {1}}[(k+ti)%2], Bufs: []int{4096}, Stream: hex.EncodeToString(append(append([]byte(nil), f1...), f2[:k]...))}
					c.Exp = Expect{Why: c.Desc, Msgs: []ExpMsg{{Typ: 2, Data: hx(m1)}}, Pongs: []string{}}
					if k > 0 {
						c.Exp.InMsg, c.Exp.PartialOf = true, hx(m2)
					}
					cases = append(cases, c)
				}
			}
		}
	}
	// complete streams whose transport hands over the last bytes together with its end (n > 0 and EOF / an error from the
	// same Read): every message was received completely and must be delivered intact
	for i := 0; i < 64; i++ {
		// the last message is large and in one frame, so that the transport's last Read is a large one
		o := &genOpts{Client: i%2 == 0, Flate: i%4 >= 2, Takeover: i%8 >= 4, MaxMsgs: 2, MaxSize: 100, Sizes: []int{50, 9000 + 1000*(i%3)}, ForceCompressed: true}
		gs := buildValid(rng, o)
		for len(gs.Msgs) < 2 { // both messages wanted
			gs = buildValid(rng, o)
		}
		// single-frame messages only: regenerate until no message was split
		for tries := 0; tries < 50 && len(gs.Frames) != len(gs.Msgs); tries++ {
			gs = buildValid(rng, o)
			for len(gs.Msgs) < 2 {
				gs = buildValid(rng, o)
			}
		}
		c := baseCase(rng, o, "valid")
		b, _ := gs.encode()
		c.Stream = hex.EncodeToString(b)
		c.Exp = gs.expectPrefix(len(gs.Frames), "end of stream at a frame boundary")
		c.Term = []string{"eof-glued", "err-glued"}[(i/2)%2]
		c.Chunks = nil
		c.Bufs = [][]int{{4096}, {16384}, {32768}, {100}}[(i/8)%4]
		c.Desc = "valid"
		cases = append(cases, c)
	}
	runReadCases(ctx, cases, func(c *ReadCase) string { return "cut" })
}
