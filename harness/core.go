// Package main is the correspondence / oracle harness of /verif.  It runs the real
// nhooyr.io/websocket code (built from /repo's working tree with -tags verif) in-process,
// pipes the same operations to the Lean model driver (wsmodel) and compares.
package main

import (
	"bufio"
	"context"
	"encoding/hex"
	"encoding/json"
	"fmt"
	"io"
	"math/rand"
	"os"
	"os/exec"
	"runtime"
	"runtime/debug"
	"sort"
	"strings"
	"sync"
	"sync/atomic"
	"time"
)

// ---------- report ----------

type Violation struct {
	// Kind: "property" = the implementation breaks the property on a concrete input;
	// "correspondence" = model and implementation disagree (property not shown broken).
	Kind   string      `json:"kind"`
	Shape  string      `json:"shape"`
	What   string      `json:"what"`
	Replay interface{} `json:"replay"`
}

type Report struct {
	Property    string         `json:"property"`
	Tier        string         `json:"tier"`
	Seed        int64          `json:"seed"`
	Evaluations int            `json:"evaluations"`
	Distinct    int            `json:"distinct_nontrivial"`
	Rule        string         `json:"rule"`
	Samples     []interface{}  `json:"samples"`
	Dist        map[string]int `json:"distribution"`
	ModelLines  int            `json:"model_lines"`
	Disagree    int            `json:"disagreements_checked"`
	Violations  []Violation    `json:"violations"`
	Notes       []string       `json:"notes"`
	WallS       float64        `json:"wall_s"`

	mu       sync.Mutex
	distinct map[string]struct{}
	start    time.Time
}

func newReport(prop, tier string, seed int64) *Report {
	return &Report{Property: prop, Tier: tier, Seed: seed, Dist: map[string]int{}, distinct: map[string]struct{}{}, start: time.Now()}
}

func (r *Report) count(key string) {
	r.mu.Lock()
	r.Dist[key]++
	r.mu.Unlock()
}

// eval records one evaluation; nontrivialKey == "" means trivial.
func (r *Report) eval(nontrivialKey string) {
	r.mu.Lock()
	r.Evaluations++
	if nontrivialKey != "" {
		r.distinct[nontrivialKey] = struct{}{}
	}
	r.mu.Unlock()
}

func (r *Report) sample(s interface{}) {
	r.mu.Lock()
	if len(r.Samples) < 6 {
		r.Samples = append(r.Samples, s)
	}
	r.mu.Unlock()
}

// nviol: violations reported so far, repeated shapes included.
func (r *Report) nviol() int {
	r.mu.Lock()
	defer r.mu.Unlock()
	n := 0
	for k, v := range r.Dist {
		if strings.HasPrefix(k, "violation:") {
			n += v
		}
	}
	return n
}

func (r *Report) violate(v Violation) {
	r.mu.Lock()
	// keep one violation per shape (the first, which generators order smallest-first) plus a count
	for _, o := range r.Violations {
		if o.Shape == v.Shape && o.Kind == v.Kind {
			r.Dist["violation:"+v.Kind+":"+v.Shape]++
			r.mu.Unlock()
			return
		}
	}
	r.Dist["violation:"+v.Kind+":"+v.Shape]++
	r.Violations = append(r.Violations, v)
	r.mu.Unlock()
}

func (r *Report) note(format string, a ...interface{}) {
	r.mu.Lock()
	r.Notes = append(r.Notes, fmt.Sprintf(format, a...))
	r.mu.Unlock()
}

func (r *Report) write(path string) error {
	r.Distinct = len(r.distinct)
	r.WallS = time.Since(r.start).Seconds()
	if r.Violations == nil {
		r.Violations = []Violation{}
	}
	if r.Samples == nil {
		r.Samples = []interface{}{}
	}
	b, err := json.MarshalIndent(r, "", " ")
	if err != nil {
		return err
	}
	return os.WriteFile(path, b, 0o644)
}

// ---------- model driver ----------

type Driver struct {
	cmd *exec.Cmd
	in  *bufio.Writer
	out *bufio.Reader
	wc  io.WriteCloser
	mu  sync.Mutex
	n   int
}

func startDriver(path string) (*Driver, error) {
	cmd := exec.Command(path)
	wc, err := cmd.StdinPipe()
	if err != nil {
		return nil, err
	}
	rc, err := cmd.StdoutPipe()
	if err != nil {
		return nil, err
	}
	cmd.Stderr = os.Stderr
	if err := cmd.Start(); err != nil {
		return nil, err
	}
	d := &Driver{cmd: cmd, in: bufio.NewWriterSize(wc, 1<<20), out: bufio.NewReaderSize(rc, 1<<20), wc: wc}
	if ans, err := d.Ask([]string{"ping"}); err != nil || len(ans) != 1 || ans[0] != "pong" {
		return nil, fmt.Errorf("model driver does not answer ping: %v %v", ans, err)
	}
	return d, nil
}

// Ask sends the lines and returns one answer per line.
func (d *Driver) Ask(lines []string) ([]string, error) {
	d.mu.Lock()
	defer d.mu.Unlock()
	errc := make(chan error, 1)
	go func() {
		for _, l := range lines {
			if strings.ContainsAny(l, "\n\r") {
				errc <- fmt.Errorf("newline in driver request")
				return
			}
			d.in.WriteString(l)
			d.in.WriteByte('\n')
		}
		errc <- d.in.Flush()
	}()
	out := make([]string, 0, len(lines))
	for range lines {
		s, err := d.out.ReadString('\n')
		if err != nil {
			return out, fmt.Errorf("model driver died after %d answers: %v", len(out), err)
		}
		out = append(out, strings.TrimRight(s, "\n"))
	}
	d.n += len(lines)
	return out, <-errc
}

func (d *Driver) Ask1(line string) (string, error) {
	a, err := d.Ask([]string{line})
	if err != nil {
		return "", err
	}
	return a[0], nil
}

func (d *Driver) Close() {
	d.wc.Close()
	d.cmd.Wait()
}

// ---------- helpers ----------

func hx(b []byte) string {
	if len(b) == 0 {
		return "-"
	}
	return hex.EncodeToString(b)
}

func unhx(s string) []byte {
	if s == "-" {
		return nil
	}
	b, err := hex.DecodeString(s)
	if err != nil {
		panic("bad hex from driver: " + s)
	}
	return b
}

func newRng(seed int64, stream string) *rand.Rand {
	h := int64(1469598103934665603)
	for _, c := range []byte(stream) {
		h ^= int64(c)
		h *= 1099511628211
	}
	return rand.New(rand.NewSource(seed ^ h))
}

func randBytes(rng *rand.Rand, n int) []byte {
	b := make([]byte, n)
	rng.Read(b)
	return b
}

func sortedKeys(m map[string]int) []string {
	var ks []string
	for k := range m {
		ks = append(ks, k)
	}
	sort.Strings(ks)
	return ks
}

func trunc(s string, n int) string {
	if len(s) > n {
		return s[:n] + "…"
	}
	return s
}

func loadReplay(path string, into interface{}) error {
	b, err := os.ReadFile(path)
	if err != nil {
		return err
	}
	var wrap struct {
		Replay json.RawMessage `json:"replay"`
	}
	if err := json.Unmarshal(b, &wrap); err == nil && len(wrap.Replay) > 0 {
		return json.Unmarshal(wrap.Replay, into)
	}
	return json.Unmarshal(b, into)
}

// panicBox collects a panic raised in a goroutine that calls the library (a panic in any goroutine would
// otherwise kill the harness and lose the case that provoked it).
type panicBox struct {
	mu  sync.Mutex
	msg string
}

// guard must be deferred directly: defer pb.guard()
func (b *panicBox) guard() {
	if r := recover(); r != nil {
		st := string(debug.Stack())
		if len(st) > 1500 {
			st = st[:1500]
		}
		b.mu.Lock()
		if b.msg == "" {
			b.msg = fmt.Sprintf("%v\n%s", r, st)
		}
		b.mu.Unlock()
	}
}

func (b *panicBox) get() string {
	b.mu.Lock()
	defer b.mu.Unlock()
	return b.msg
}

var hangCount int32

// guarded runs one case with panic capture and a watchdog: a case that does not finish (a library call,
// or the CloseNow of the clean-up, hangs) is reported with the case as its replay instead of stalling
// the whole run. After three hanging cases the remaining ones are skipped.
func guarded(limit time.Duration, f func() (string, string)) (string, string) {
	if atomic.LoadInt32(&hangCount) >= 3 {
		return "", ""
	}
	type r struct{ sh, w string }
	ch := make(chan r, 1)
	go func() {
		var res r
		defer func() {
			if p := recover(); p != nil {
				res = r{"panic", fmt.Sprint(p)}
			}
			ch <- res
		}()
		res.sh, res.w = f()
	}()
	select {
	case x := <-ch:
		return x.sh, x.w
	case <-time.After(limit):
		atomic.AddInt32(&hangCount, 1)
		return "case-hangs", fmt.Sprintf("the case did not finish within %v (a library call or the final CloseNow hangs); library goroutines: %s", limit, libStacks(1200))
	}
}

// libStacks: the goroutines currently inside the library, abbreviated.
func libStacks(max int) string {
	buf := make([]byte, 1<<20)
	buf = buf[:runtime.Stack(buf, true)]
	var out []string
	for _, g := range strings.Split(string(buf), "\n\n") {
		if !strings.Contains(g, "nhooyr.io/websocket.") {
			continue
		}
		var fr []string
		for _, l := range strings.Split(g, "\n") {
			if strings.HasPrefix(l, "nhooyr.io/websocket.") {
				fr = append(fr, strings.TrimPrefix(strings.SplitN(l, "(0x", 2)[0], "nhooyr.io/websocket."))
			}
			if len(fr) == 4 {
				break
			}
		}
		out = append(out, strings.Join(fr, "<"))
	}
	res := strings.Join(out, " | ")
	if len(res) > max {
		res = res[:max]
	}
	return res
}

// watchdog: a context that is cancelled only when the case makes no progress for `idle` (a real hang),
// however slow the machine is. Runners call tick() whenever something moves (a read returned, the
// scripted transport served bytes, an operation finished).
type watchdog struct {
	ctx    context.Context
	cancel context.CancelFunc
	last   atomic.Int64
	hung   atomic.Bool
	stopc  chan struct{}
	once   sync.Once
}

func newWatchdog(idle time.Duration) *watchdog {
	w := &watchdog{stopc: make(chan struct{})}
	w.ctx, w.cancel = context.WithCancel(context.Background())
	w.tick()
	go func() {
		t := time.NewTicker(idle / 4)
		defer t.Stop()
		for {
			select {
			case <-w.stopc:
				return
			case <-t.C:
				if time.Since(time.Unix(0, w.last.Load())) > idle {
					w.hung.Store(true)
					w.cancel()
					return
				}
			}
		}
	}()
	return w
}

func (w *watchdog) tick() { w.last.Store(time.Now().UnixNano()) }

func (w *watchdog) stop() {
	w.once.Do(func() { close(w.stopc) })
	w.cancel()
}
