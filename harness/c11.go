package main

import (
	"bufio"
	"context"
	"encoding/base64"
	"errors"
	"fmt"
	"net"
	"net/http"
	"net/http/httptest"
	"strings"
	"time"

	"nhooyr.io/websocket"
)

func init() {
	runners["C11"] = runC11
	runners["C12"] = runC12
	runners["C13"] = runC13
}

type c11Case struct {
	Method     string      `json:"method"`
	Major      int         `json:"major"`
	Minor      int         `json:"minor"`
	Connection [][]string  `json:"-"`
	Hdr        http.Header `json:"header"`
	Protos     []string    `json:"server_protocols"`
	Pre        string      `json:"pipelined_hex,omitempty"`
}

func tokenOK(vals []string, token string) bool {
	for _, v := range vals {
		for _, t := range strings.Split(v, ",") {
			if strings.EqualFold(strings.TrimSpace(t), token) {
				return true
			}
		}
	}
	return false
}

// specUpgrade: the property's conditions, written from its text.
func specUpgrade(c *c11Case) bool {
	if c.Method != "GET" || !(c.Major > 1 || (c.Major == 1 && c.Minor >= 1)) {
		return false
	}
	if !tokenOK(c.Hdr["Connection"], "upgrade") || !tokenOK(c.Hdr["Upgrade"], "websocket") {
		return false
	}
	if c.Hdr.Get("Sec-WebSocket-Version") != "13" {
		return false
	}
	keys := c.Hdr["Sec-Websocket-Key"]
	if len(keys) != 1 {
		return false
	}
	b, err := base64.StdEncoding.DecodeString(strings.TrimSpace(keys[0]))
	return err == nil && len(b) == 16
}

// specSubprotocol: first server-preferred protocol that the client offered, else "".
func specSubprotocol(offered []string, supported []string) string {
	var toks []string
	for _, v := range offered {
		for _, t := range strings.Split(v, ",") {
			toks = append(toks, strings.TrimSpace(t))
		}
	}
	for _, sp := range supported {
		for _, t := range toks {
			if strings.EqualFold(sp, t) {
				return t
			}
		}
	}
	return ""
}

func (c *c11Case) request() *http.Request {
	r := httptest.NewRequest("GET", "http://example.com/ws", nil)
	r.Method = c.Method
	r.ProtoMajor, r.ProtoMinor = c.Major, c.Minor
	r.Proto = fmt.Sprintf("HTTP/%d.%d", c.Major, c.Minor)
	r.Header = c.Hdr.Clone()
	return r
}

func runC11Case(rep *Report, c *c11Case, lines, expect, what *[]string) {
	want := specUpgrade(c)
	// function level
	rec := httptest.NewRecorder()
	code, err := websocket.VerifVerifyClientRequest(rec, c.request())
	desc := fmt.Sprintf("%s HTTP/%d.%d %v", c.Method, c.Major, c.Minor, c.Hdr)
	if (err == nil) != want {
		rep.violate(Violation{Kind: "property", Shape: "verifyClientRequest-decision", What: fmt.Sprintf("%s: verifyClientRequest err=%v, the property says upgrade=%v", desc, err, want), Replay: c})
	}
	if err != nil && code < 400 {
		rep.violate(Violation{Kind: "property", Shape: "reject-without-error-status", What: fmt.Sprintf("%s: rejected with status %d", desc, code), Replay: c})
	}
	*lines = append(*lines, fmt.Sprintf("client-req %s %d %d %s", hs(c.Method), c.Major, c.Minor, encHdr(c.Hdr)))
	*expect = append(*expect, fmt.Sprintf("ok %d", code))
	*what = append(*what, "verifyClientRequest "+desc)
	// through Accept with a recording, hijackable ResponseWriter
	w := newHijackRW(unhx(orDash(c.Pre)))
	conn, aerr := websocket.Accept(w, c.request(), &websocket.AcceptOptions{Subprotocols: c.Protos, InsecureSkipVerify: true})
	if conn != nil {
		defer conn.CloseNow()
	}
	defer w.peerSide.Close()
	if (aerr == nil) != want {
		rep.violate(Violation{Kind: "property", Shape: "accept-decision", What: fmt.Sprintf("%s: Accept err=%v, want upgrade=%v", desc, aerr, want), Replay: c})
		return
	}
	if !want {
		if w.hijacked {
			rep.violate(Violation{Kind: "property", Shape: "hijack-on-reject", What: desc + ": the connection was taken over although the request was rejected", Replay: c})
		}
		if w.Code < 400 {
			rep.violate(Violation{Kind: "property", Shape: "reject-without-error-status", What: fmt.Sprintf("%s: response status %d", desc, w.Code), Replay: c})
		}
		return
	}
	key := strings.TrimSpace(c.Hdr["Sec-Websocket-Key"][0])
	if w.Code != 101 || !w.hijacked {
		rep.violate(Violation{Kind: "property", Shape: "upgrade-response", What: fmt.Sprintf("%s: status %d hijacked=%v", desc, w.Code, w.hijacked), Replay: c})
		return
	}
	if !strings.EqualFold(w.Header().Get("Upgrade"), "websocket") || !strings.EqualFold(w.Header().Get("Connection"), "upgrade") {
		rep.violate(Violation{Kind: "property", Shape: "upgrade-headers", What: desc + ": Upgrade/Connection response headers missing", Replay: c})
	}
	if got := w.Header().Get("Sec-WebSocket-Accept"); got != wantAccept(key) {
		rep.violate(Violation{Kind: "property", Shape: "accept-key-wrong", What: fmt.Sprintf("%s: Sec-WebSocket-Accept %q, want base64(SHA-1(%q+GUID)) = %q", desc, got, key, wantAccept(key)), Replay: c})
	}
	wsp := specSubprotocol(c.Hdr["Sec-Websocket-Protocol"], c.Protos)
	if got := w.Header().Get("Sec-WebSocket-Protocol"); got != wsp || conn.Subprotocol() != wsp {
		rep.violate(Violation{Kind: "property", Shape: "subprotocol-selection", What: fmt.Sprintf("%s offered %q supported %q: selected %q / %q, want %q", desc, c.Hdr["Sec-Websocket-Protocol"], c.Protos, got, conn.Subprotocol(), wsp), Replay: c})
	}
	*lines = append(*lines, fmt.Sprintf("subproto %s %s", encHdr(c.Hdr), hsList(c.Protos)), "accept-key "+hs(key))
	*expect = append(*expect, "ok "+hs(websocket.VerifSelectSubprotocol(c.request(), c.Protos)), "ok "+hs(websocket.VerifSecWebSocketAccept(key)))
	*what = append(*what, "selectSubprotocol "+desc, "secWebSocketAccept "+key)
	// pipelined client frames that were already buffered must reach the connection
	if c.Pre != "" {
		ctx, cancel := context.WithTimeout(context.Background(), 3*time.Second)
		defer cancel()
		_, b, err := conn.Read(ctx)
		if err != nil || string(b) != "pipelined" {
			rep.violate(Violation{Kind: "property", Shape: "pipelined-frames-lost", What: fmt.Sprintf("%s: frame sent with the request was not delivered: %q %v", desc, b, err), Replay: c})
		}
	}
}

func orDash(s string) string {
	if s == "" {
		return "-"
	}
	return s
}

// failHijackRW: a ResponseWriter whose Hijack fails (the server already replied, HTTP/2, …).
type failHijackRW struct{ *httptest.ResponseRecorder }

func (failHijackRW) Hijack() (net.Conn, *bufio.ReadWriter, error) {
	return nil, nil, errors.New("hijack not possible")
}

// c11Unhijackable: a perfectly valid upgrade request on a connection that cannot be taken over must end
// with an HTTP error status and an error, never with a connection.
func c11Unhijackable(rep *Report) {
	valid := func() *http.Request {
		r, _ := http.NewRequest("GET", "http://example.com/ws", nil)
		r.Header.Set("Connection", "Upgrade")
		r.Header.Set("Upgrade", "websocket")
		r.Header.Set("Sec-WebSocket-Version", "13")
		r.Header.Set("Sec-WebSocket-Key", testKey)
		return r
	}
	for _, k := range []string{"no-hijacker", "hijack-fails"} {
		rec := httptest.NewRecorder()
		var w http.ResponseWriter = rec
		if k == "hijack-fails" {
			w = failHijackRW{rec}
		}
		conn, err := websocket.Accept(w, valid(), nil)
		rep.eval("unhijackable/" + k)
		if conn != nil {
			conn.CloseNow()
		}
		// (when Hijack itself fails the 101 has already been written - the status line must precede hijacking -
		// so only "an error and no connection" is demanded there; the property speaks about invalid requests)
		if err == nil || conn != nil || (k == "no-hijacker" && rec.Code < 400) {
			rep.violate(Violation{Kind: "property", Shape: "upgrade-without-takeover:" + k, What: fmt.Sprintf("valid request, ResponseWriter %s: Accept err=%v conn=%v status=%d (an error, no connection and - if nothing was written yet - an HTTP error status are required)", k, err, conn != nil, rec.Code), Replay: map[string]string{"writer": k}})
		}
	}
}

func runC11(ctx *runCtx) {
	rep := ctx.rep
	rep.Rule = "cross product of a request grammar: method x HTTP version x Connection and Upgrade value lists (case, several tokens, several header lines, near misses) x version values x key variants (valid, non-canonical base64 spellings of 16 bytes, padded with spaces, missing, duplicated, 15/17 bytes, non-base64) x offered x supported subprotocol lists; " +
		"each through verifyClientRequest and through Accept with a recording hijackable ResponseWriter (status, headers, Sec-WebSocket-Accept vs crypto/sha1, subprotocol, hijack iff upgrade), pipelined frames, a valid request on a ResponseWriter without Hijacker / with a failing Hijack (error status, no connection), and a real net/http server on loopback; Lean model compared on every case (incl. SHA-1/base64). distinct = case tuple"
	rng := newRng(ctx.seed, "c11")
	c11Unhijackable(rep)
	methods := []string{"GET", "GET", "POST", "get", "HEAD"}
	versions := [][2]int{{1, 1}, {1, 1}, {1, 0}, {2, 0}, {0, 9}}
	conns := [][]string{{"Upgrade"}, {"upgrade"}, {"keep-alive, Upgrade"}, {"keep-alive", "Upgrade"}, {" UPGRADE "}, {"keep-alive"}, {"Upgradex"}, {""}, nil, {"keep-alive,upgrade ,x"}, {"up grade"}}
	upgs := [][]string{{"websocket"}, {"WebSocket"}, {"h2c, websocket"}, {"h2c", "websocket"}, {"websockets"}, {"web socket"}, {""}, nil, {" websocket "}}
	vers := [][]string{{"13"}, {"13"}, {"12"}, {"13 "}, {""}, nil, {"13", "12"}, {"12", "13"}, {"13, 12"}}
	k16 := base64.StdEncoding.EncodeToString(randBytes(rng, 16))
	// non-canonical spellings: the last symbol before "==" carries four unused bits that encoding/base64 ignores
	// when decoding, so these still decode to 16 bytes; the accept value is computed from the key as sent
	const b64abc = "ABCDEFGHIJKLMNOPQRSTUVWXYZabcdefghijklmnopqrstuvwxyz0123456789+/"
	nonCanon := func(k string, bits int) string {
		i := strings.IndexByte(b64abc, k[21])
		return k[:21] + string(b64abc[i|bits]) + k[22:]
	}
	keys := [][]string{{k16}, {testKey}, {" " + k16 + " "}, {nonCanon(k16, 1)}, {nonCanon(k16, 10)}, {nonCanon(testKey, 15)}, nil, {k16, k16}, {base64.StdEncoding.EncodeToString(randBytes(rng, 15))}, {base64.StdEncoding.EncodeToString(randBytes(rng, 17))},
		{"not base64!!not base64!!"}, {""}, {k16[:22]}, {strings.TrimRight(k16, "=")},
		{base64.StdEncoding.EncodeToString(randBytes(rng, 18))}, {base64.StdEncoding.EncodeToString(randBytes(rng, 19))}, {base64.StdEncoding.EncodeToString(randBytes(rng, 24))},
		{base64.StdEncoding.EncodeToString(randBytes(rng, 32))}, {base64.StdEncoding.EncodeToString(randBytes(rng, 64))}, {base64.StdEncoding.EncodeToString(randBytes(rng, 1))}, {"===="}, {"A==="},
		// several key header lines of which all but one are blank: still more than one key header
		{"", k16}, {k16, ""}, {" ", k16}, {k16, " ", ""}, {"", ""}}
	offered := [][]string{nil, {"chat"}, {"chat, superchat"}, {"Chat"}, {"superchat", "chat"}, {"x"}, {""}}
	supported := [][]string{nil, {"chat"}, {"superchat", "chat"}, {"CHAT"}, {"y", "x"}}
	var cases []*c11Case
	mk := func(m string, v [2]int, co, up, ve, ke, of, su []string) *c11Case {
		h := http.Header{}
		for _, x := range co {
			h.Add("Connection", x)
		}
		for _, x := range up {
			h.Add("Upgrade", x)
		}
		for _, x := range ve {
			h.Add("Sec-WebSocket-Version", x)
		}
		for _, x := range ke {
			h.Add("Sec-WebSocket-Key", x)
		}
		for _, x := range of {
			h.Add("Sec-WebSocket-Protocol", x)
		}
		return &c11Case{Method: m, Major: v[0], Minor: v[1], Hdr: h, Protos: su}
	}
	// one-factor-at-a-time around the valid request, plus pairs, plus random product sample
	for _, m := range methods {
		for _, v := range versions {
			cases = append(cases, mk(m, v, conns[0], upgs[0], vers[0], keys[0], nil, nil))
		}
	}
	for _, co := range conns {
		for _, up := range upgs {
			cases = append(cases, mk("GET", versions[0], co, up, vers[0], keys[0], nil, nil))
		}
	}
	for _, ve := range vers {
		for _, ke := range keys {
			cases = append(cases, mk("GET", versions[0], conns[0], upgs[0], ve, ke, nil, nil))
		}
	}
	for _, of := range offered {
		for _, su := range supported {
			cases = append(cases, mk("GET", versions[0], conns[2], upgs[2], vers[0], keys[0], of, su))
		}
	}
	n := 1500
	if ctx.thorough() {
		n = 60000
	}
	for i := 0; i < n; i++ {
		cases = append(cases, mk(methods[rng.Intn(len(methods))], versions[rng.Intn(len(versions))], conns[rng.Intn(len(conns))], upgs[rng.Intn(len(upgs))],
			vers[rng.Intn(len(vers))], keys[rng.Intn(len(keys))], offered[rng.Intn(len(offered))], supported[rng.Intn(len(supported))]))
	}
	// pipelined frame with the request
	pre := RawFrame{Fin: true, Op: 1, Masked: true, Key: [4]byte{1, 2, 3, 4}, Payload: []byte("pipelined")}.Encode()
	pc := mk("GET", versions[0], conns[0], upgs[0], vers[0], keys[0], nil, nil)
	pc.Pre = hx(pre)
	cases = append(cases, pc)
	var lines, expect, what []string
	for _, c := range cases {
		func() {
			defer func() {
				if r := recover(); r != nil {
					rep.violate(Violation{Kind: "property", Shape: "panic", What: fmt.Sprintf("%s %v: panic: %v", c.Method, c.Hdr, r), Replay: c})
				}
			}()
			runC11Case(rep, c, &lines, &expect, &what)
		}()
		rep.eval(fmt.Sprintf("%s/%d.%d/%v/%v", c.Method, c.Major, c.Minor, c.Hdr, c.Protos))
		if specUpgrade(c) {
			rep.count("spec:upgrade")
		} else {
			rep.count("spec:reject")
		}
	}
	askAndCompare(ctx, lines, expect, what, "handshake-model-vs-impl")
	// a real net/http server on loopback with client frames in the same packet as the request
	if sh, w := c11RealServer(pre); sh != "" {
		if sh == "loopback-unavailable" {
			rep.note("real net/http server case skipped: %s", w)
		} else {
			rep.violate(Violation{Kind: "property", Shape: sh, What: w, Replay: "real-server"})
		}
	} else {
		rep.count("real-net/http-server")
	}
	rep.sample(cases[0])
	rep.sample(cases[len(cases)/2])
}

func askAndCompare(ctx *runCtx, lines, expect, what []string, shape string) {
	if ctx.drv == nil || len(lines) == 0 {
		return
	}
	ans, err := ctx.drv.Ask(lines)
	if err != nil {
		ctx.rep.violate(Violation{Kind: "correspondence", Shape: "driver-failed", What: err.Error()})
		return
	}
	for i := range lines {
		if ans[i] != expect[i] {
			ctx.rep.Disagree++
			ctx.rep.violate(Violation{Kind: "correspondence", Shape: shape, What: fmt.Sprintf("%s: model %q, implementation %q", trunc(what[i], 300), trunc(ans[i], 80), trunc(expect[i], 80)), Replay: lines[i]})
		}
	}
	ctx.rep.count("model-compared")
}

func c11RealServer(pre []byte) (string, string) {
	got := make(chan string, 1)
	srv := httptest.NewUnstartedServer(http.HandlerFunc(func(w http.ResponseWriter, r *http.Request) {
		c, err := websocket.Accept(w, r, nil)
		if err != nil {
			got <- "accept: " + err.Error()
			return
		}
		defer c.CloseNow()
		ctx, cancel := context.WithTimeout(context.Background(), 3*time.Second)
		defer cancel()
		_, b, err := c.Read(ctx)
		if err != nil {
			got <- "read: " + err.Error()
			return
		}
		got <- string(b)
	}))
	func() {
		defer func() { recover() }()
		srv.Start()
	}()
	if srv.URL == "" {
		return "loopback-unavailable", "cannot listen on loopback"
	}
	defer srv.Close()
	conn, err := net.DialTimeout("tcp", strings.TrimPrefix(srv.URL, "http://"), 2*time.Second)
	if err != nil {
		return "loopback-unavailable", err.Error()
	}
	defer conn.Close()
	req := "GET /ws HTTP/1.1\r\nHost: example.com\r\nConnection: keep-alive, Upgrade\r\nUpgrade: websocket\r\nSec-WebSocket-Version: 13\r\nSec-WebSocket-Key: " + testKey + "\r\n\r\n"
	conn.Write(append([]byte(req), pre...))
	conn.SetReadDeadline(time.Now().Add(3 * time.Second))
	resp, err := http.ReadResponse(bufio.NewReader(conn), nil)
	if err != nil {
		return "real-server-response", err.Error()
	}
	if resp.StatusCode != 101 || resp.Header.Get("Sec-WebSocket-Accept") != wantAccept(testKey) {
		return "real-server-response", fmt.Sprintf("status %d accept %q", resp.StatusCode, resp.Header.Get("Sec-WebSocket-Accept"))
	}
	select {
	case s := <-got:
		if s != "pipelined" {
			return "pipelined-frames-lost", "real net/http server: " + s
		}
	case <-time.After(4 * time.Second):
		return "pipelined-frames-lost", "real net/http server: handler did not read the pipelined frame"
	}
	return "", ""
}
