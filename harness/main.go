package main

import (
	"flag"
	"fmt"
	"os"
	"strconv"
)

type propRunner func(ctx *runCtx)

type runCtx struct {
	rep    *Report
	drv    *Driver
	tier   string
	seed   int64
	replay string
}

func (c *runCtx) thorough() bool { return c.tier == "thorough" }

var runners = map[string]propRunner{}

func main() {
	if len(os.Args) < 2 {
		fmt.Fprintln(os.Stderr, "usage: harness <PROPERTY> -tier quick|thorough -seed N -driver PATH -out FILE [-replay FILE]")
		os.Exit(2)
	}
	prop := os.Args[1]
	fs := flag.NewFlagSet("harness", flag.ExitOnError)
	tier := fs.String("tier", "quick", "")
	seedS := fs.String("seed", "1", "")
	driver := fs.String("driver", "/verif/lean/.lake/build/bin/wsmodel", "")
	out := fs.String("out", "", "")
	replay := fs.String("replay", "", "")
	fs.Parse(os.Args[2:])
	seed, _ := strconv.ParseInt(*seedS, 10, 64)
	run, ok := runners[prop]
	if !ok {
		fmt.Fprintln(os.Stderr, "harness: no runner for", prop)
		os.Exit(2)
	}
	rep := newReport(prop, *tier, seed)
	ctx := &runCtx{rep: rep, tier: *tier, seed: seed, replay: *replay}
	if *driver != "none" {
		d, err := startDriver(*driver)
		if err != nil {
			rep.note("model driver unavailable: %v", err)
			rep.count("driver-unavailable")
		} else {
			ctx.drv = d
			defer d.Close()
		}
	}
	run(ctx)
	if ctx.drv != nil {
		rep.ModelLines = ctx.drv.n
	}
	if *out != "" {
		if err := rep.write(*out); err != nil {
			fmt.Fprintln(os.Stderr, "harness: write report:", err)
			os.Exit(2)
		}
	}
	fmt.Printf("harness %s: evaluations=%d violations=%d\n", prop, rep.Evaluations, len(rep.Violations))
}
