package main

import (
	"bytes"
	"fmt"
	"os"
	"runtime/debug"
	"sync"
	"syscall"
)

// Guard pages: the buffer sits flush against an inaccessible page, so that an access outside the buffer faults even
// when it would leave the bytes it touches unchanged (a wider load / read-modify-write over the end or before the
// start): "never touch memory outside the buffer" is about accesses, not only about values.

var (
	guardOnce sync.Once
	guardMap  []byte // [PROT_NONE page][read-write page][PROT_NONE page]
	guardErr  error
)

func guardPages() ([]byte, int, error) {
	ps := os.Getpagesize()
	guardOnce.Do(func() {
		m, err := syscall.Mmap(-1, 0, 3*ps, syscall.PROT_READ|syscall.PROT_WRITE, syscall.MAP_ANON|syscall.MAP_PRIVATE)
		if err != nil {
			guardErr = err
			return
		}
		if err := syscall.Mprotect(m[:ps], syscall.PROT_NONE); err != nil {
			guardErr = err
			return
		}
		if err := syscall.Mprotect(m[2*ps:], syscall.PROT_NONE); err != nil {
			guardErr = err
			return
		}
		guardMap = m
	})
	return guardMap, ps, guardErr
}

// runMaskPageCase: c.Page = "after" (the buffer ends where the inaccessible page begins) or "before" (it begins where
// the inaccessible page ends). Returns like runMaskCase; skipped = the mapping could not be set up.
func runMaskPageCase(c maskCase) (got []byte, gotKey uint32, in []byte, fail string, skipped bool) {
	m, ps, err := guardPages()
	if err != nil || c.Len > ps {
		return nil, 0, nil, "", true
	}
	page := m[ps : 2*ps]
	rng := newRng(c.Seed, "c17page")
	rng.Read(page)
	lo := ps - c.Len
	if c.Page == "before" {
		lo = 0
	} else if c.Align > 0 && c.Align < 8 && c.Len+c.Align <= ps {
		// "after" with a gap of Align bytes between the buffer's end and the inaccessible page: start addresses that are not
		// multiples of 8 for every length, and still nothing but the gap between a runaway loop and a fault that is caught
		lo = ps - c.Len - c.Align
	}
	buf := page[lo : lo+c.Len : lo+c.Len]
	in = append([]byte(nil), buf...)
	before := append([]byte(nil), page...)
	f := implMask(c.Impl)
	key := c.Key
	func() {
		defer debug.SetPanicOnFault(debug.SetPanicOnFault(true))
		defer func() {
			if r := recover(); r != nil {
				fail = fmt.Sprintf("panic: %v (the buffer lies flush %s an inaccessible page: memory outside the buffer was accessed)", r, map[string]string{"after": "before", "before": "after"}[c.Page])
			}
		}()
		key = f(buf, key)
	}()
	if fail != "" {
		return nil, 0, in, fail, false
	}
	got = append([]byte(nil), buf...)
	if !bytes.Equal(page[:lo], before[:lo]) || !bytes.Equal(page[lo+c.Len:], before[lo+c.Len:]) {
		fail = "memory outside the buffer was modified"
	}
	return got, key, in, fail, false
}
