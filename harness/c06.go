package main

import (
	"bytes"
	"context"
	"errors"
	"fmt"
	"io"
	"math/rand"
	"net"
	"time"

	"nhooyr.io/websocket"
)

func init() { runners["C06"] = runC06 }

// RFC 6455 §7.4 / IANA: codes that may appear in a Close frame (written independently of the library).
func rfcSendable(code int) bool {
	if code >= 3000 && code <= 4999 {
		return true
	}
	return code >= 1000 && code <= 1014 && code != 1004 && code != 1005 && code != 1006
}

type closeCase struct {
	Kind        string `json:"kind"` // local | peer | order
	Client      bool   `json:"client"`
	Code        int    `json:"code"`
	Reason      string `json:"reason_hex"`
	Order       string `json:"order,omitempty"` // e.g. "close,closenow,close"
	PendingRead bool   `json:"pending_read,omitempty"`
	// Mid: state of the closer's read side when it calls Close (kind local): "" | unread-queued (a whole
	// message sent by the peer is still unread) | partial-final | partial-first | partial-second (a Reader
	// was taken and only part of a single-frame message / of the first / of the final fragment was read) | full-read
	Mid string `json:"mid_message,omitempty"`
	// OpenWriter: permessage-deflate is negotiated and the endpoint has a streamed message open whose first
	// (compressed, RSV1) frame is already on the wire when the Close frame / the echo is written
	OpenWriter bool `json:"open_compressed_writer,omitempty"`
}

func newConnPair(client bool) (*websocket.Conn, *rawPeer, *pipeEnd) {
	a, b := newPipe()
	c := websocket.VerifNewConn(a, client, websocket.VerifCopts{}, 0)
	return c, newRawPeer(b, !client), b
}

// runCloseCase returns "" or (shape, what).
func runCloseCase(cc closeCase) (string, string) {
	reason := unhx(cc.Reason)
	c, peer, pend := newConnPair(cc.Client)
	if cc.OpenWriter {
		pend.Close()
		c.CloseNow()
		a, b := newPipe()
		c = websocket.VerifNewConn(a, cc.Client, websocket.VerifCopts{Enabled: true}, 16)
		peer, pend = newRawPeer(b, !cc.Client), b
		wctx, wcancel := context.WithTimeout(context.Background(), 3*time.Second)
		defer wcancel()
		// a first chunk (> 64 KiB of periodic text, found by search as in C01's ping-inside cases) whose first input block
		// leaves the compressor in exactly one piece: exactly one frame of the message — the first, RSV1 set, FIN
		// clear — is written (it may still sit in the write buffer) and the message stays open
		first := unhx(genPingInsideCase(rand.New(rand.NewSource(int64(cc.Code))), 1).Ops[0].Chunks[0])
		w, err := c.Writer(wctx, websocket.MessageBinary)
		if err == nil {
			_, err = w.Write(first)
		}
		if err != nil {
			return "write-before-close-failed", fmt.Sprintf("%+v: %v", cc, err)
		}
	}
	defer pend.Close()
	defer c.CloseNow()
	want := []byte{byte(cc.Code >> 8), byte(cc.Code)}
	want = append(want, reason...)
	sendable := rfcSendable(cc.Code) && len(reason) <= 123
	switch cc.Kind {
	case "local":
		var readErr error
		readDone := make(chan struct{})
		if cc.PendingRead {
			go func() {
				defer close(readDone)
				_, _, readErr = c.Read(context.Background())
			}()
			time.Sleep(2 * time.Millisecond)
		} else {
			close(readDone)
		}
		if cc.Mid != "" {
			msg := bytes.Repeat([]byte("m"), 300)
			switch cc.Mid {
			case "partial-first", "partial-second":
				peer.writeFrame(RawFrame{Fin: false, Op: 2, Payload: msg[:150]})
				peer.writeFrame(RawFrame{Fin: true, Op: 0, Payload: msg[150:]})
			default:
				peer.writeFrame(RawFrame{Fin: true, Op: 2, Payload: msg})
			}
			rctx, rcancel := context.WithTimeout(context.Background(), 3*time.Second)
			switch cc.Mid {
			case "partial-final", "partial-first", "partial-second":
				k := 100
				if cc.Mid == "partial-second" {
					k = 200
				}
				_, r, err := c.Reader(rctx)
				if err == nil {
					_, err = io.ReadFull(r, make([]byte, k))
				}
				if err != nil {
					rcancel()
					return "read-before-close-failed", fmt.Sprintf("%+v: %v", cc, err)
				}
			case "full-read":
				if _, b, err := c.Read(rctx); err != nil || len(b) != len(msg) {
					rcancel()
					return "read-before-close-failed", fmt.Sprintf("%+v: %d bytes, %v", cc, len(b), err)
				}
			}
			rcancel()
		}
		// peer: echo the first Close frame it sees, then go away
		var got *RawFrame
		peerDone := make(chan struct{})
		go func() {
			defer close(peerDone)
			for {
				f, err := peer.readFrame(8 * time.Second)
				if err != nil {
					return
				}
				if f.Op == 8 {
					got = f
					peer.writeFrame(RawFrame{Fin: true, Op: 8, Payload: f.Payload})
					// keep reading until the endpoint closes the transport
					for {
						if _, err := peer.readFrame(8 * time.Second); err != nil {
							return
						}
					}
				}
			}
		}()
		t0 := time.Now()
		err := c.Close(websocket.StatusCode(cc.Code), string(reason))
		dur := time.Since(t0)
		// whatever its arguments and its outcome, the first Close ends the connection: a later CloseNow is refused and I/O fails
		// (checked before the harness takes the transport away)
		laterErr := c.CloseNow()
		wctx2, wcancel2 := context.WithTimeout(context.Background(), 2*time.Second)
		laterWrite := c.Write(wctx2, websocket.MessageText, []byte("after close"))
		wcancel2()
		pend.Close()
		<-peerDone
		<-readDone
		if dur > 4*time.Second {
			return "close-slow", fmt.Sprintf("Close(%d) took %v with a peer that echoes at once", cc.Code, dur)
		}
		if cc.OpenWriter {
			peer.mu.Lock()
			seen := len(peer.frames) == 2 && peer.frames[0].Rsv1 && !peer.frames[0].Fin
			peer.mu.Unlock()
			if !seen {
				return "write-before-close-failed", fmt.Sprintf("%+v: the first frame of the open compressed message did not precede the Close frame (%d frames, first %s)", cc, len(peer.frames), opsOf(peer.frames))
			}
		}
		switch {
		case cc.Code == 1005:
			if got == nil || len(got.Payload) != 0 {
				return "close-1005-payload", fmt.Sprintf("Close(1005) must send an empty Close frame, got %+v", got)
			}
			if err != nil {
				return "close-1005-error", "Close(1005) with echoing peer returned " + err.Error()
			}
		case sendable:
			if got == nil {
				return "close-frame-missing", fmt.Sprintf("Close(%d, %d-byte reason) sent no Close frame (err=%v)", cc.Code, len(reason), err)
			}
			if !bytes.Equal(got.Payload, want) {
				return "close-frame-payload", fmt.Sprintf("Close(%d) sent payload %s, want %s", cc.Code, trunc(hx(got.Payload), 60), trunc(hx(want), 60))
			}
			if !got.Fin || got.Masked != cc.Client || got.Rsv1 || got.Rsv2 || got.Rsv3 {
				return "close-frame-malformed", fmt.Sprintf("%+v", got)
			}
			if err != nil {
				return "close-returns-error", fmt.Sprintf("Close(%d) returned %v although the peer echoed the code", cc.Code, err)
			}
		default:
			if got != nil {
				return "unsendable-close-sent", fmt.Sprintf("Close(%d, %d-byte reason) put a Close frame on the wire: %s", cc.Code, len(reason), trunc(hx(got.Payload), 60))
			}
			if err == nil {
				return "unsendable-close-no-error", fmt.Sprintf("Close(%d, %d-byte reason) returned nil", cc.Code, len(reason))
			}
		}
		if cc.PendingRead && readErr == nil {
			return "pending-read-not-failed", "a read pending during Close returned nil"
		}
		if !errors.Is(laterErr, net.ErrClosed) {
			return "close-left-connection-open", fmt.Sprintf("Close(%d, %d-byte reason) returned %v; a CloseNow right after it returned %v (must be refused with net.ErrClosed)", cc.Code, len(reason), err, laterErr)
		}
		if laterWrite == nil {
			return "close-left-connection-open", fmt.Sprintf("Close(%d, %d-byte reason) returned %v; a Write right after it succeeded", cc.Code, len(reason), err)
		}
	case "peer":
		payload := want
		if cc.Code == 1005 {
			payload = nil
		}
		ctx, cancel := context.WithTimeout(context.Background(), 8*time.Second)
		defer cancel()
		var err error
		if cc.Mid == "split" && len(payload) >= 2 {
			// the Close frame reaches the endpoint in two transport reads, the cut inside its payload: the read is
			// already waiting when the first part arrives
			rd := make(chan error, 1)
			go func() { _, _, e := c.Read(ctx); rd <- e }()
			time.Sleep(15 * time.Millisecond)
			f := RawFrame{Fin: true, Op: 8, Payload: payload, Masked: !cc.Client, Key: [4]byte{4, 3, 2, 1}}
			e := f.Encode()
			cut := len(e) - len(payload) + 1 + len(payload)/2
			if cut >= len(e) {
				cut = len(e) - 1
			}
			pend.Write(e[:cut])
			time.Sleep(25 * time.Millisecond)
			pend.Write(e[cut:])
			err = <-rd
		} else {
			peer.writeFrame(RawFrame{Fin: true, Op: 8, Payload: payload})
			_, _, err = c.Read(ctx)
		}
		var ce websocket.CloseError
		if !errors.As(err, &ce) || int(ce.Code) != cc.Code || ce.Reason != string(reason) {
			return "peer-close-not-reported", fmt.Sprintf("peer sent Close(%d, %q): Read returned %v", cc.Code, trunc(string(reason), 20), err)
		}
		if int(websocket.CloseStatus(err)) != cc.Code {
			return "closestatus", "CloseStatus does not return the code"
		}
		f, ferr := peer.readFrame(5 * time.Second)
		for cc.OpenWriter && ferr == nil && f.Op != 8 {
			f, ferr = peer.readFrame(5 * time.Second) // the frames of the open message come first
		}
		if cc.OpenWriter {
			peer.mu.Lock()
			seen := len(peer.frames) == 2 && peer.frames[0].Rsv1 && !peer.frames[0].Fin
			peer.mu.Unlock()
			if !seen {
				return "write-before-close-failed", fmt.Sprintf("%+v: the first frame of the open compressed message did not precede the echo", cc)
			}
		}
		if ferr != nil || f.Op != 8 || !bytes.Equal(f.Payload, payload) {
			return "peer-close-not-echoed", fmt.Sprintf("echo frame %+v err=%v, want payload %s", f, ferr, trunc(hx(payload), 40))
		}
		if !f.Fin || f.Masked != cc.Client || f.Rsv1 || f.Rsv2 || f.Rsv3 {
			return "close-frame-malformed", fmt.Sprintf("the echo of the peer's Close frame is malformed: %+v", f)
		}
		// closed for good
		if sh, w := closedForGood(c); sh != "" {
			return sh, w
		}
	case "peer-hangup":
		// the peer sends a valid Close frame and goes away at once: the echo cannot be delivered,
		// the received Close must still be reported with its code and reason
		payload := want
		if cc.Code == 1005 {
			payload = nil
		}
		peer.writeFrame(RawFrame{Fin: true, Op: 8, Payload: payload})
		pend.w.CloseWith(nil)              // nothing more from the peer
		pend.r.CloseWith(io.ErrClosedPipe) // and writes to it fail
		ctx, cancel := context.WithTimeout(context.Background(), 8*time.Second)
		defer cancel()
		_, _, err := c.Read(ctx)
		var ce websocket.CloseError
		if !errors.As(err, &ce) || int(ce.Code) != cc.Code || ce.Reason != string(reason) {
			return "peer-close-not-reported", fmt.Sprintf("peer sent Close(%d, %q) and hung up: Read returned %v", cc.Code, trunc(string(reason), 20), err)
		}
	case "order":
		// peer echoes closes
		go func() {
			for {
				f, err := peer.readFrame(8 * time.Second)
				if err != nil {
					return
				}
				if f.Op == 8 {
					peer.writeFrame(RawFrame{Fin: true, Op: 8, Payload: f.Payload})
				}
			}
		}()
		first := true
		for _, op := range splitComma(cc.Order) {
			var err error
			if op == "close" {
				err = c.Close(websocket.StatusNormalClosure, "")
			} else {
				err = c.CloseNow()
			}
			if !first && !errors.Is(err, net.ErrClosed) {
				return "later-close-not-errclosed", fmt.Sprintf("order %s: a later %s returned %v", cc.Order, op, err)
			}
			if first && err != nil {
				return "first-close-error", fmt.Sprintf("order %s: first %s returned %v", cc.Order, op, err)
			}
			first = false
		}
		if sh, w := closedForGood(c); sh != "" {
			return sh, w
		}
	}
	return "", ""
}

func splitComma(s string) []string {
	var out []string
	cur := ""
	for _, r := range s {
		if r == ',' {
			out = append(out, cur)
			cur = ""
		} else {
			cur += string(r)
		}
	}
	return append(out, cur)
}

// closedForGood: every further Read, Write, Writer and Ping fails; Close/CloseNow match net.ErrClosed.
func closedForGood(c *websocket.Conn) (string, string) {
	ctx, cancel := context.WithTimeout(context.Background(), 3*time.Second)
	defer cancel()
	if _, _, err := c.Read(ctx); err == nil {
		return "read-after-close", "Read succeeded on a closed connection"
	}
	if _, _, err := c.Reader(ctx); err == nil {
		return "read-after-close", "Reader succeeded on a closed connection"
	}
	if err := c.Write(ctx, websocket.MessageText, []byte("x")); err == nil {
		return "write-after-close", "Write succeeded on a closed connection"
	}
	if w, err := c.Writer(ctx, websocket.MessageText); err == nil {
		_ = w
		return "writer-after-close", "Writer succeeded on a closed connection"
	}
	if err := c.Ping(ctx); err == nil {
		return "ping-after-close", "Ping succeeded on a closed connection"
	}
	return "", ""
}

func runC06(ctx *runCtx) {
	rep := ctx.rep
	rep.Rule = "function level: every integer code in [-16, 70000] through validWireCloseCode (Go) vs the RFC set (Go oracle) vs the Lean model and the regenerated Lean function; " +
		"CloseError.bytes/bytesErr for codes x reason lengths 0..130; parseClosePayload on all 65536 two-byte prefixes (+reasons, + the 0- and 1-byte payloads); " +
		"end to end on real Conns against a raw peer: local Close(code, reason) with echo, peer-initiated Close, pending read during Close, every order of Close/CloseNow calls; both roles. " +
		"distinct = the case tuple; non-trivial = all"
	if cirTraceReplay(ctx) {
		return
	}
	if ctx.replay != "" {
		var cc closeCase
		if err := loadReplay(ctx.replay, &cc); err == nil {
			if sh, w := runCloseCase(cc); sh != "" {
				rep.violate(Violation{Kind: "property", Shape: sh, What: w, Replay: cc})
			}
			rep.eval("replay")
		}
		return
	}
	rng := newRng(ctx.seed, "c06")
	// ---- function level ----
	var lines []string
	var expect []string
	var what []string
	for code := -16; code <= 70000; code++ {
		got := websocket.VerifValidWireCloseCode(code)
		rep.eval(fmt.Sprintf("code/%d", code))
		if got != rfcSendable(code) {
			rep.violate(Violation{Kind: "property", Shape: "validWireCloseCode", What: fmt.Sprintf("validWireCloseCode(%d) = %v, RFC 6455/IANA says %v", code, got, rfcSendable(code)), Replay: map[string]int{"code": code}})
		}
		lines = append(lines, fmt.Sprintf("valid-code %d", code))
		b := "0"
		if got {
			b = "1"
		}
		expect = append(expect, "ok "+b+" "+b)
		what = append(what, fmt.Sprintf("validWireCloseCode(%d)", code))
	}
	rep.count("fn:validWireCloseCode")
	codes := []int{0, 1, 999, 1000, 1001, 1002, 1003, 1004, 1005, 1006, 1007, 1011, 1014, 1015, 1016, 2999, 3000, 3001, 4999, 5000, 65535, 65536, 70000, -1}
	for i := 0; i < 40; i++ {
		codes = append(codes, rng.Intn(6000))
	}
	for _, code := range codes {
		for rl := 0; rl <= 130; rl++ {
			reason := randBytes(rng, rl)
			p, err := websocket.VerifCloseBytesErr(code, string(reason))
			rep.eval(fmt.Sprintf("bytes/%d/%d", code, rl))
			ok := rfcSendable(code) && rl <= 123
			if (err == nil) != ok {
				rep.violate(Violation{Kind: "property", Shape: "closeBytes-accepts", What: fmt.Sprintf("bytesErr(%d, %d-byte reason) err=%v", code, rl, err), Replay: map[string]int{"code": code, "reason_len": rl}})
			}
			if ok && (len(p) != 2+rl || int(p[0])<<8|int(p[1]) != code || !bytes.Equal(p[2:], reason)) {
				rep.violate(Violation{Kind: "property", Shape: "closeBytes-payload", What: fmt.Sprintf("bytesErr(%d) = %s", code, hx(p)), Replay: map[string]int{"code": code, "reason_len": rl}})
			}
			p2, err2 := websocket.VerifCloseBytes(code, string(reason))
			a := "none"
			if err == nil {
				a = "some:" + hx(p)
			}
			wc := a
			if code == 1005 {
				wc = "some:-"
			}
			e2 := "0"
			if err2 == nil {
				e2 = "1"
			}
			lines = append(lines, fmt.Sprintf("close-bytes %d %s", code, hx(reason)))
			expect = append(expect, fmt.Sprintf("ok %s %s %s %s", a, wc, hx(p2), e2))
			what = append(what, fmt.Sprintf("CloseError{%d, %d bytes}.bytes", code, rl))
		}
	}
	rep.count("fn:bytes")
	parseOne := func(p []byte) {
		code, reason, err := websocket.VerifParseClosePayload(p)
		rep.eval("parse/" + hx(p[:min(len(p), 2)]) + fmt.Sprint(len(p)))
		var wantOK bool
		var wc int
		switch {
		case len(p) == 0:
			wantOK, wc = true, 1005
		case len(p) == 1:
			wantOK = false
		default:
			wc = int(p[0])<<8 | int(p[1])
			wantOK = rfcSendable(wc)
		}
		if (err == nil) != wantOK || (wantOK && (code != wc || (len(p) >= 2 && reason != string(p[2:])))) {
			rep.violate(Violation{Kind: "property", Shape: "parseClosePayload", What: fmt.Sprintf("parseClosePayload(%s) = (%d, %q, %v)", trunc(hx(p), 40), code, trunc(reason, 20), err), Replay: map[string]string{"payload": hx(p)}})
		}
		lines = append(lines, "close-parse "+hx(p))
		if err == nil {
			expect = append(expect, fmt.Sprintf("ok %d %s", code, hx([]byte(reason))))
		} else {
			expect = append(expect, "bad")
		}
		what = append(what, "parseClosePayload("+trunc(hx(p), 20)+")")
	}
	parseOne(nil)
	parseOne([]byte{3})
	for c := 0; c < 65536; c++ {
		p := []byte{byte(c >> 8), byte(c)}
		if c%7 == 0 {
			p = append(p, randBytes(rng, rng.Intn(124))...)
		}
		parseOne(p)
	}
	rep.count("fn:parse")
	if ctx.drv != nil {
		ans, err := ctx.drv.Ask(lines)
		if err != nil {
			rep.violate(Violation{Kind: "correspondence", Shape: "driver-failed", What: err.Error()})
		} else {
			for i := range lines {
				if ans[i] != expect[i] {
					rep.Disagree++
					rep.violate(Violation{Kind: "correspondence", Shape: "close-model-vs-impl", What: fmt.Sprintf("%s: model %q, implementation %q", what[i], trunc(ans[i], 80), trunc(expect[i], 80)), Replay: lines[i]})
				}
			}
			rep.count("model-compared")
		}
	}
	// ---- end to end ----
	var cases []closeCase
	e2eCodes := []int{1000, 1001, 1002, 1003, 1007, 1008, 1009, 1010, 1011, 1012, 1013, 1014, 3000, 3999, 4000, 4999, 1005, 0, 999, 1004, 1006, 1015, 1016, 2999, 5000, 65535}
	if ctx.thorough() {
		for i := 0; i < 300; i++ {
			e2eCodes = append(e2eCodes, rng.Intn(5200))
		}
	}
	for _, code := range e2eCodes {
		for _, rl := range []int{0, 1, 123, 124, 130} {
			if !ctx.thorough() && rl == 1 {
				continue
			}
			for _, client := range []bool{true, false} {
				cases = append(cases, closeCase{Kind: "local", Client: client, Code: code, Reason: hx(randBytes(rng, rl))})
				if (rfcSendable(code) && rl <= 123) || (code == 1005 && rl == 0) {
					cases = append(cases, closeCase{Kind: "peer", Client: client, Code: code, Reason: hx(randBytes(rng, rl))})
					cases = append(cases, closeCase{Kind: "peer-hangup", Client: client, Code: code, Reason: hx(randBytes(rng, rl))})
				}
			}
		}
	}
	for _, client := range []bool{true, false} {
		cases = append(cases, closeCase{Kind: "local", Client: client, Code: 1000, Reason: hx([]byte("bye")), PendingRead: true})
		cases = append(cases, closeCase{Kind: "local", Client: client, Code: 4001, Reason: "-", PendingRead: true})
		cases = append(cases, closeCase{Kind: "peer", Client: client, Code: 1000, Reason: hx([]byte("split in two")), Mid: "split"},
			closeCase{Kind: "peer", Client: client, Code: 3999, Reason: "-", Mid: "split"},
			closeCase{Kind: "peer", Client: client, Code: 1001, Reason: hx(bytes.Repeat([]byte("r"), 123)), Mid: "split"})
		// a Close frame / the echo of the peer's Close frame written while a compressed streamed message is open
		cases = append(cases, closeCase{Kind: "local", Client: client, Code: 1000, Reason: hx([]byte("mid-message")), OpenWriter: true},
			closeCase{Kind: "local", Client: client, Code: 4000, Reason: "-", OpenWriter: true},
			closeCase{Kind: "peer", Client: client, Code: 1001, Reason: hx([]byte("going away")), OpenWriter: true},
			closeCase{Kind: "peer", Client: client, Code: 1005, Reason: "-", OpenWriter: true})
		for _, mid := range []string{"unread-queued", "partial-final", "partial-first", "partial-second", "full-read"} {
			cases = append(cases, closeCase{Kind: "local", Client: client, Code: 1000, Reason: hx([]byte("done")), Mid: mid})
			cases = append(cases, closeCase{Kind: "local", Client: client, Code: 3000, Reason: "-", Mid: mid})
		}
		for _, o := range []string{"close,close", "close,closenow", "closenow,close", "closenow,closenow", "close,close,closenow", "closenow,close,close", "close,closenow,close"} {
			cases = append(cases, closeCase{Kind: "order", Client: client, Order: o})
		}
	}
	type res struct {
		i     int
		sh, w string
	}
	out := make(chan res, len(cases))
	sem := make(chan struct{}, 16)
	for i := range cases {
		sem <- struct{}{}
		go func(i int) {
			defer func() { <-sem }()
			sh, w := guarded(30*time.Second, func() (string, string) { return runCloseCase(cases[i]) })
			out <- res{i, sh, w}
		}(i)
	}
	for range cases {
		r := <-out
		cc := cases[r.i]
		rep.eval(fmt.Sprintf("e2e/%s/%v/%d/%d/%s/%v/%s", cc.Kind, cc.Client, cc.Code, len(cc.Reason), cc.Order, cc.PendingRead, cc.Mid))
		rep.count("e2e:" + cc.Kind)
		if r.sh != "" {
			rep.violate(Violation{Kind: "property", Shape: r.sh, What: r.w, Replay: cc})
		}
	}
	cirTraceValidation(ctx, cirTraceN(ctx))
	rep.sample(cases[0])
	rep.sample(cases[len(cases)/2])
	rep.sample(cases[len(cases)-1])
}

func min(a, b int) int {
	if a < b {
		return a
	}
	return b
}
