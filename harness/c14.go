package main

import (
	"context"
	"fmt"
	"math/rand"
	"net/http"
	"strconv"
	"strings"
	"sync/atomic"
	"time"

	"nhooyr.io/websocket"
)

func init() { runners["C14"] = runC14 }

var offerParams = []string{
	"client_no_context_takeover", "server_no_context_takeover", "client_max_window_bits",
	"client_max_window_bits=8", "client_max_window_bits=12", "client_max_window_bits=15",
	"client_max_window_bits=7", "client_max_window_bits=16", "client_max_window_bits=abc", "client_max_window_bits=",
	"server_max_window_bits=15", "server_max_window_bits=14", "server_max_window_bits=8", "server_max_window_bits",
	"server_max_window_bits=16", "foo", "foo=bar", "client_no_context_takeover=1", "server_no_context_takeover=x",
}

// offerAcceptable: RFC 7692 §7.1 + what this library can honour (it cannot limit its window below 15 bits).
func offerAcceptable(params []string) bool {
	seen := map[string]bool{}
	for _, p := range params {
		name, val, hasVal := strings.Cut(p, "=")
		if seen[name] {
			return false // duplicated parameter: MUST decline
		}
		seen[name] = true
		switch name {
		case "client_no_context_takeover", "server_no_context_takeover":
			if hasVal {
				return false
			}
		case "client_max_window_bits":
			if hasVal {
				n, err := strconv.Atoi(val)
				if err != nil || n < 8 || n > 15 || strconv.Itoa(n) != val {
					return false
				}
			}
		case "server_max_window_bits":
			if !hasVal || val != "15" {
				return false
			}
		default:
			return false
		}
	}
	return true
}

type offer struct {
	Name   string
	Params []string
}

func (o offer) String() string {
	s := o.Name
	for _, p := range o.Params {
		s += "; " + p
	}
	return s
}

func genOffer(rng *rand.Rand) offer {
	o := offer{Name: "permessage-deflate"}
	switch rng.Intn(10) {
	case 0:
		o.Name = "x-webkit-deflate-frame"
	case 1:
		o.Name = "permessage-bzip"
	}
	n := []int{0, 0, 1, 1, 2, 3}[rng.Intn(6)]
	for i := 0; i < n; i++ {
		if rng.Intn(3) == 0 {
			o.Params = append(o.Params, offerParams[rng.Intn(3)])
		} else {
			o.Params = append(o.Params, offerParams[rng.Intn(len(offerParams))])
		}
	}
	return o
}

func modeCopts(mode int) (cnct, snct bool) { return mode == 2, mode == 2 }

type c14Case struct {
	Kind   string   `json:"kind"` // server-fn | client-fn | accept-e2e | dial-e2e | lib-lib
	Mode   int      `json:"mode"`
	Mode2  int      `json:"mode2,omitempty"`
	Header []string `json:"header_lines"` // Sec-WebSocket-Extensions lines
}

func extHeader(lines []string) http.Header {
	h := http.Header{}
	for _, l := range lines {
		h.Add("Sec-WebSocket-Extensions", l)
	}
	return h
}

// serverExpect: what a sound server does with these offer lines in this mode.
func serverExpect(lines []string, mode int) (accept bool, cnct, snct bool) {
	if mode == 0 {
		return false, false, false
	}
	for _, l := range lines {
		for _, e := range strings.Split(strings.TrimSpace(l), ",") {
			e = strings.TrimSpace(e)
			if e == "" {
				continue
			}
			parts := strings.Split(e, ";")
			for i := range parts {
				parts[i] = strings.TrimSpace(parts[i])
			}
			if parts[0] != "permessage-deflate" {
				continue
			}
			if !offerAcceptable(parts[1:]) {
				continue
			}
			cnct, snct = modeCopts(mode)
			for _, p := range parts[1:] {
				if p == "client_no_context_takeover" {
					cnct = true
				}
				if p == "server_no_context_takeover" {
					snct = true
				}
			}
			return true, cnct, snct
		}
	}
	return false, false, false
}

func c14ServerFn(rep *Report, cc c14Case, lines *[]string, expect *[]string, what *[]string) {
	h := extHeader(cc.Header)
	got, ok := websocket.VerifSelectDeflate(h, websocket.CompressionMode(cc.Mode))
	wa, wc, ws := serverExpect(cc.Header, cc.Mode)
	desc := fmt.Sprintf("offers %q mode %d", cc.Header, cc.Mode)
	switch {
	case ok && !wa:
		rep.violate(Violation{Kind: "property", Shape: "server-accepts-offer-it-must-decline", What: desc + ": accepted although every offer is malformed, unknown, duplicated or not honourable", Replay: cc})
	case !ok && wa:
		rep.violate(Violation{Kind: "property", Shape: "server-declines-acceptable-offer", What: desc, Replay: cc})
	case ok && (got.ClientNoContextTakeover != wc || got.ServerNoContextTakeover != ws):
		rep.violate(Violation{Kind: "property", Shape: "server-wrong-parameters", What: fmt.Sprintf("%s: got cnct=%v snct=%v want %v %v", desc, got.ClientNoContextTakeover, got.ServerNoContextTakeover, wc, ws), Replay: cc})
	}
	exp := "none"
	if ok {
		str := websocket.VerifCoptsString(got)
		n, okp := parseRespExt(str)
		if !okp || n.CNCT != got.ClientNoContextTakeover || n.SNCT != got.ServerNoContextTakeover {
			rep.violate(Violation{Kind: "property", Shape: "response-renders-other-parameters", What: desc + ": response " + str, Replay: cc})
		}
		exp = fmt.Sprintf("ok %s %s", b01s(got.ClientNoContextTakeover)+b01s(got.ServerNoContextTakeover), hs(str))
	}
	*lines = append(*lines, fmt.Sprintf("sel-deflate %s %d", encHdr(h), cc.Mode))
	*expect = append(*expect, exp)
	*what = append(*what, "selectDeflate "+desc)
}

func b01s(b bool) string {
	if b {
		return "1"
	}
	return "0"
}

var respParams = []string{"client_no_context_takeover", "server_no_context_takeover", "server_max_window_bits=15", "server_max_window_bits=10",
	"client_max_window_bits=15", "client_max_window_bits", "foo", "server_no_context_takeover=1"}

func genResponse(rng *rand.Rand) []string {
	if rng.Intn(8) == 0 {
		return nil
	}
	o := offer{Name: "permessage-deflate"}
	if rng.Intn(10) == 0 {
		o.Name = "permessage-bzip"
	}
	n := []int{0, 0, 1, 1, 2, 2, 3}[rng.Intn(7)]
	for i := 0; i < n; i++ {
		o.Params = append(o.Params, respParams[rng.Intn(len(respParams))])
	}
	lines := []string{o.String()}
	if rng.Intn(12) == 0 {
		lines = append(lines, "permessage-deflate")
	}
	return lines
}

// clientExpect: must a sound client accept this response, and what does the response mean?
func clientExpect(lines []string, mode int) (accept bool, n negotiated) {
	var exts []string
	for _, l := range lines {
		for _, e := range strings.Split(l, ",") {
			if strings.TrimSpace(e) != "" {
				exts = append(exts, strings.TrimSpace(e))
			}
		}
	}
	if len(exts) == 0 {
		return true, negotiated{}
	}
	if len(exts) > 1 || mode == 0 {
		return false, negotiated{}
	}
	parts := strings.Split(exts[0], ";")
	if strings.TrimSpace(parts[0]) != "permessage-deflate" {
		return false, negotiated{}
	}
	n = negotiated{Enabled: true}
	seen := map[string]bool{}
	for _, p := range parts[1:] {
		p = strings.TrimSpace(p)
		name, val, hasVal := strings.Cut(p, "=")
		// (RFC 7692 also asks a client to fail on repeated parameters; the property only asks it to reject
		// what it did not offer or cannot honour, and a repeated flag can be honoured)
		seen[name] = true
		switch name {
		case "client_no_context_takeover":
			if hasVal {
				return false, n
			}
			n.CNCT = true
		case "server_no_context_takeover":
			if hasVal {
				return false, n
			}
			n.SNCT = true
		case "server_max_window_bits":
			v, err := strconv.Atoi(val)
			if !hasVal || err != nil || v < 8 || v > 15 {
				return false, n
			}
		default:
			return false, n // includes client_max_window_bits, which this client never offers
		}
	}
	return true, n
}

func c14ClientFn(rep *Report, cc c14Case, lines *[]string, expect *[]string, what *[]string) {
	h := extHeader(cc.Header)
	var offered websocket.VerifCopts
	if cc.Mode != 0 {
		offered = websocket.VerifModeOpts(websocket.CompressionMode(cc.Mode))
	}
	got, err := websocket.VerifVerifyServerExtensions(offered, h)
	wa, wn := clientExpect(cc.Header, cc.Mode)
	desc := fmt.Sprintf("response %q client mode %d", cc.Header, cc.Mode)
	if err == nil && !wa {
		rep.violate(Violation{Kind: "property", Shape: "client-accepts-bad-response", What: desc + ": accepted a response with an extension or parameter it did not offer or cannot honour", Replay: cc})
	}
	if err == nil && wa && got.Enabled != wn.Enabled {
		rep.violate(Violation{Kind: "property", Shape: "client-compression-mismatch", What: desc, Replay: cc})
	}
	if err == nil && wa && wn.Enabled && got.ServerNoContextTakeover && !wn.SNCT {
		rep.violate(Violation{Kind: "property", Shape: "client-assumes-server_no_context_takeover", What: desc + ": the client adopts server_no_context_takeover although the response does not carry it (the server may keep its context)", Replay: cc})
	}
	if err == nil && wa && wn.Enabled && !got.ClientNoContextTakeover && wn.CNCT {
		rep.violate(Violation{Kind: "property", Shape: "client-ignores-client_no_context_takeover", What: desc, Replay: cc})
	}
	c := "none"
	if cc.Mode != 0 {
		c = b01s(offered.ClientNoContextTakeover) + b01s(offered.ServerNoContextTakeover)
	}
	exp := "err"
	if err == nil {
		exp = "ok none"
		if got.Enabled {
			exp = "ok " + b01s(got.ClientNoContextTakeover) + b01s(got.ServerNoContextTakeover)
		}
	}
	*lines = append(*lines, fmt.Sprintf("srv-ext %s %s", c, encHdr(h)))
	*expect = append(*expect, exp)
	*what = append(*what, "verifyServerExtensions "+desc)
}

const testKey = "dGhlIHNhbXBsZSBub25jZQ=="

func upgradeRequest(extLines []string, protos string) *http.Request {
	r, _ := http.NewRequest("GET", "http://example.com/ws", nil)
	r.Header.Set("Connection", "Upgrade")
	r.Header.Set("Upgrade", "websocket")
	r.Header.Set("Sec-WebSocket-Version", "13")
	r.Header.Set("Sec-WebSocket-Key", testKey)
	for _, l := range extLines {
		r.Header.Add("Sec-WebSocket-Extensions", l)
	}
	if protos != "" {
		r.Header.Set("Sec-WebSocket-Protocol", protos)
	}
	return r
}

// c14AcceptE2E: the library server negotiates with a raw client, then both exchange compressed messages.
func c14AcceptE2E(cc c14Case) (string, string) {
	w := newHijackRW(nil)
	r := upgradeRequest(cc.Header, "")
	c, err := websocket.Accept(w, r, &websocket.AcceptOptions{CompressionMode: websocket.CompressionMode(cc.Mode), CompressionThreshold: 1})
	if err != nil {
		return "accept-failed", err.Error()
	}
	defer c.CloseNow()
	defer w.peerSide.Close()
	n, ok := parseRespExt(w.Header().Get("Sec-WebSocket-Extensions"))
	if !ok {
		return "response-has-foreign-parameter", "response " + w.Header().Get("Sec-WebSocket-Extensions")
	}
	st, _ := websocket.VerifConnState(c)
	if st.Enabled != n.Enabled || (n.Enabled && (st.ClientNoContextTakeover != n.CNCT || st.ServerNoContextTakeover != n.SNCT)) {
		return "server-state-differs-from-response", fmt.Sprintf("conn state %+v, response means %+v", st, n)
	}
	peer := newRawPeer(w.peerSide, true)
	return exchangeCompressed(c, peer, false, n)
}

// handshakeIsolationScenario: what one connection's handshake negotiated belongs to that connection. A server connection A is
// accepted in context-takeover mode from a plain offer; a second client then offers both no_context_takeover parameters to the
// same server; A's options must be what A's response said, a third plain offer must be answered like the first, and A must
// still decode a peer that uses its negotiated right to refer back to earlier messages.
func handshakeIsolationScenario(rounds int) (string, string) {
	for mode := 1; mode <= 2; mode++ {
		accept := func(offer string) (*websocket.Conn, *hijackRW, negotiated, string) {
			w := newHijackRW(nil)
			c, err := websocket.Accept(w, upgradeRequest([]string{offer}, ""), &websocket.AcceptOptions{CompressionMode: websocket.CompressionMode(mode), CompressionThreshold: 1})
			if err != nil {
				return nil, nil, negotiated{}, err.Error()
			}
			n, ok := parseRespExt(w.Header().Get("Sec-WebSocket-Extensions"))
			if !ok {
				c.CloseNow()
				return nil, nil, negotiated{}, "response " + w.Header().Get("Sec-WebSocket-Extensions")
			}
			return c, w, n, ""
		}
		a, wa, na, e := accept("permessage-deflate")
		if e != "" {
			return "accept-failed", e
		}
		defer a.CloseNow()
		defer wa.peerSide.Close()
		b, wb, _, e := accept("permessage-deflate; client_no_context_takeover; server_no_context_takeover")
		if e != "" {
			return "accept-failed", e
		}
		defer b.CloseNow()
		defer wb.peerSide.Close()
		st, _ := websocket.VerifConnState(a)
		if st.Enabled != na.Enabled || st.ClientNoContextTakeover != na.CNCT || st.ServerNoContextTakeover != na.SNCT {
			return "handshake-of-another-connection-changed-options", fmt.Sprintf("server mode %d: connection A negotiated %+v; after another client's handshake its options are %+v", mode, na, st)
		}
		c, wc, nc, e := accept("permessage-deflate")
		if e != "" {
			return "accept-failed", e
		}
		defer c.CloseNow()
		defer wc.peerSide.Close()
		if nc != na {
			return "later-connection-inherits-negotiation", fmt.Sprintf("server mode %d: the same plain offer was answered %+v before and %+v after another client's handshake", mode, na, nc)
		}
		if sh, w := exchangeCompressed(a, newRawPeer(wa.peerSide, true), false, na); sh != "" {
			return "after-foreign-handshake:" + sh, w
		}
	}
	return "", ""
}

// c14DialE2E: the library client negotiates with a raw server answering `cc.Header`, then exchange.
func c14DialE2E(cc c14Case) (string, string) {
	a, b := newPipe()
	body := &dialBody{pipeEnd: a}
	rt := rtFunc(func(req *http.Request) (*http.Response, error) {
		h := http.Header{}
		h.Set("Connection", "Upgrade")
		h.Set("Upgrade", "websocket")
		h.Set("Sec-WebSocket-Accept", wantAccept(req.Header.Get("Sec-WebSocket-Key")))
		for _, l := range cc.Header {
			h.Add("Sec-WebSocket-Extensions", l)
		}
		return &http.Response{StatusCode: 101, Header: h, Body: body, Request: req}, nil
	})
	ctx, cancel := context.WithTimeout(context.Background(), 5*time.Second)
	defer cancel()
	c, _, err := websocket.Dial(ctx, "ws://example.com/ws", &websocket.DialOptions{HTTPClient: &http.Client{Transport: rt}, CompressionMode: websocket.CompressionMode(cc.Mode), CompressionThreshold: 1})
	wa, wn := clientExpect(cc.Header, cc.Mode)
	if err != nil {
		a.Close()
		b.Close()
		if wa {
			return "client-rejects-valid-response", fmt.Sprintf("response %q mode %d: %v", cc.Header, cc.Mode, err)
		}
		return "", ""
	}
	atomic.StoreInt32(&body.established, 1)
	defer c.CloseNow()
	defer b.Close()
	if !wa {
		return "client-accepts-bad-response", fmt.Sprintf("Dial accepted response %q in mode %d", cc.Header, cc.Mode)
	}
	peer := newRawPeer(b, false)
	return exchangeCompressed(c, peer, true, wn)
}

// c14LibLib: Dial against Accept for a pair of modes; both ends must hold the same parameters.
func c14LibLib(clientMode, serverMode int) (string, string) {
	return libLibExchange(clientMode, serverMode, false)
}

// libLibExchange: with perMsgCtx every read runs under its own context, cancelled as soon as the read has returned
// (the idiom of the package's examples), and some messages go through a chunked Writer.
func libLibExchange(clientMode, serverMode int, perMsgCtx bool) (string, string) {
	var srv *websocket.Conn
	rt := rtFunc(func(req *http.Request) (*http.Response, error) {
		w := newHijackRW(nil)
		req.Proto, req.ProtoMajor, req.ProtoMinor = "HTTP/1.1", 1, 1
		c, err := websocket.Accept(w, req, &websocket.AcceptOptions{CompressionMode: websocket.CompressionMode(serverMode), CompressionThreshold: 1})
		if err != nil {
			return &http.Response{StatusCode: w.Code, Header: w.Header(), Body: w.peerSide, Request: req}, nil
		}
		srv = c
		return &http.Response{StatusCode: 101, Header: w.Header(), Body: w.peerSide, Request: req}, nil
	})
	ctx, cancel := context.WithTimeout(context.Background(), 10*time.Second)
	defer cancel()
	cl, _, err := websocket.Dial(ctx, "ws://example.com/", &websocket.DialOptions{HTTPClient: &http.Client{Transport: rt}, CompressionMode: websocket.CompressionMode(clientMode), CompressionThreshold: 1})
	if err != nil {
		return "lib-lib-handshake-failed", err.Error()
	}
	defer cl.CloseNow()
	defer srv.CloseNow()
	cs, _ := websocket.VerifConnState(cl)
	ss, _ := websocket.VerifConnState(srv)
	if cs != ss {
		return "lib-lib-disagree", fmt.Sprintf("client mode %d holds %+v, server mode %d holds %+v", clientMode, cs, serverMode, ss)
	}
	if cs.Enabled != (clientMode != 0 && serverMode != 0) {
		return "lib-lib-compression-without-both", fmt.Sprintf("modes %d/%d: enabled=%v", clientMode, serverMode, cs.Enabled)
	}
	// multi-message exchange both ways with history
	srv.SetReadLimit(-1)
	cl.SetReadLimit(-1)
	// what Conn.Read returned belongs to the receiver: every result is kept and compared again after all later reads
	type keptMsg struct{ got, want []byte }
	var kept []keptMsg
	defer func() { kept = nil }()
	for i := 0; i < 4; i++ {
		p := historyMsg(i, 800+100*i)
		for _, dir := range []struct{ from, to *websocket.Conn }{{cl, srv}, {srv, cl}} {
			errc := make(chan error, 1)
			dir := dir
			go func() {
				if perMsgCtx && i%2 == 1 {
					w, err := dir.from.Writer(ctx, websocket.MessageBinary)
					if err == nil {
						if _, err = w.Write(p[:len(p)/2]); err == nil {
							if _, err = w.Write(p[len(p)/2:]); err == nil {
								err = w.Close()
							}
						}
					}
					errc <- err
					return
				}
				errc <- dir.from.Write(ctx, websocket.MessageBinary, p)
			}()
			rctx, rcancel := ctx, context.CancelFunc(func() {})
			if perMsgCtx {
				rctx, rcancel = context.WithTimeout(ctx, 5*time.Second)
			}
			_, got, err := dir.to.Read(rctx)
			rcancel()
			if err != nil || string(got) != string(p) {
				return "lib-lib-exchange", fmt.Sprintf("modes %d/%d message %d (per-message read contexts: %v): err=%v", clientMode, serverMode, i, perMsgCtx, err)
			}
			kept = append(kept, keptMsg{got, append([]byte(nil), p...)})
			for k, km := range kept {
				if string(km.got) != string(km.want) {
					return "read-result-overwritten-by-later-read", fmt.Sprintf("modes %d/%d: the payload Conn.Read returned for message %d was intact then and differs after %d later reads (first bytes now %q, were %q)", clientMode, serverMode, k, len(kept)-1-k, trunc(string(km.got), 24), trunc(string(km.want), 24))
				}
			}
			if werr := <-errc; werr != nil {
				return "lib-lib-exchange", fmt.Sprintf("modes %d/%d message %d (per-message read contexts: %v): write failed: %v", clientMode, serverMode, i, perMsgCtx, werr)
			}
			if perMsgCtx {
				time.Sleep(2 * time.Millisecond) // the connection is idle, the finished read's context is cancelled
			}
		}
	}
	return "", ""
}

func runC14(ctx *runCtx) {
	rep := ctx.rep
	rep.Rule = "server side: lists of up to 3 offers (one or several header lines) built from the RFC 7692 parameter grammar (both no_context_takeover flags, window-bits parameters with and without values incl. out-of-range/malformed, unknown, duplicated, valued flags, other extensions) x 3 server modes through selectDeflate, compared with an RFC oracle and the Lean model; " +
		"client side: responses from a response grammar x 3 client modes through verifyServerExtensions; end to end: library Accept vs raw client, library Dial vs raw server, each followed by a 4+4 message compressed exchange in which the reference peer uses exactly the rights the response gives it (history-dependent payloads, BestCompression); library vs library for all 3x3 modes. distinct = case tuple"
	if ctx.replay != "" {
		var cc c14Case
		if err := loadReplay(ctx.replay, &cc); err == nil && cc.Kind != "" {
			var sh, w string
			switch cc.Kind {
			case "accept-e2e":
				sh, w = c14AcceptE2E(cc)
			case "dial-e2e":
				sh, w = c14DialE2E(cc)
			case "lib-lib":
				sh, w = c14LibLib(cc.Mode, cc.Mode2)
			default:
				var l, e, wh []string
				if cc.Kind == "server-fn" {
					c14ServerFn(rep, cc, &l, &e, &wh)
				} else {
					c14ClientFn(rep, cc, &l, &e, &wh)
				}
			}
			if sh != "" {
				rep.violate(Violation{Kind: "property", Shape: sh, What: w, Replay: cc})
			}
			rep.eval("replay")
		}
		return
	}
	{
		sh, w := guarded(40*time.Second, func() (string, string) { return handshakeIsolationScenario(1) })
		rep.eval("scenario/handshake-isolation")
		rep.count("scenario:handshake-isolation")
		if sh != "" {
			rep.violate(Violation{Kind: "property", Shape: sh, What: w, Replay: map[string]interface{}{"scenario": "handshake-isolation"}})
		}
	}
	rng := newRng(ctx.seed, "c14")
	var lines, expect, what []string
	nOffers, nResp, nE2E := 3000, 1500, 150
	if ctx.thorough() {
		nOffers, nResp, nE2E = 60000, 20000, 1500
	}
	var e2e []c14Case
	// all single-parameter and pair offers exhaustively, then random lists
	var offerLists [][]string
	offerLists = append(offerLists, nil, []string{"permessage-deflate"}, []string{""}, []string{"permessage-deflate; client_no_context_takeover; server_no_context_takeover"})
	for _, p := range offerParams {
		offerLists = append(offerLists, []string{"permessage-deflate; " + p})
		for _, q := range offerParams {
			offerLists = append(offerLists, []string{"permessage-deflate; " + p + "; " + q})
		}
	}
	for i := 0; i < nOffers; i++ {
		n := 1 + rng.Intn(3)
		var offs []string
		for j := 0; j < n; j++ {
			offs = append(offs, genOffer(rng).String())
		}
		if rng.Intn(2) == 0 {
			offerLists = append(offerLists, []string{strings.Join(offs, ", ")})
		} else {
			offerLists = append(offerLists, offs)
		}
	}
	for i, ol := range offerLists {
		for mode := 0; mode <= 2; mode++ {
			cc := c14Case{Kind: "server-fn", Mode: mode, Header: ol}
			c14ServerFn(rep, cc, &lines, &expect, &what)
			rep.eval(fmt.Sprintf("server-fn/%d/%q", mode, ol))
			rep.count("server-fn")
			if mode != 0 && i%(len(offerLists)/nE2E+1) == 0 {
				e2e = append(e2e, c14Case{Kind: "accept-e2e", Mode: mode, Header: ol})
			}
		}
	}
	var respLists [][]string
	respLists = append(respLists, nil, []string{"permessage-deflate"}, []string{"permessage-deflate; client_no_context_takeover"}, []string{"permessage-deflate; server_no_context_takeover"},
		[]string{"permessage-deflate; client_no_context_takeover; server_no_context_takeover"})
	for _, p := range respParams {
		respLists = append(respLists, []string{"permessage-deflate; " + p})
		for _, q := range respParams {
			respLists = append(respLists, []string{"permessage-deflate; " + p + "; " + q})
		}
	}
	for i := 0; i < nResp; i++ {
		respLists = append(respLists, genResponse(rng))
	}
	for i, rl := range respLists {
		for mode := 0; mode <= 2; mode++ {
			cc := c14Case{Kind: "client-fn", Mode: mode, Header: rl}
			c14ClientFn(rep, cc, &lines, &expect, &what)
			rep.eval(fmt.Sprintf("client-fn/%d/%q", mode, rl))
			rep.count("client-fn")
			if i < 80 || i%(len(respLists)/nE2E+1) == 0 {
				e2e = append(e2e, c14Case{Kind: "dial-e2e", Mode: mode, Header: rl})
			}
		}
	}
	for cm := 0; cm <= 2; cm++ {
		for sm := 0; sm <= 2; sm++ {
			e2e = append(e2e, c14Case{Kind: "lib-lib", Mode: cm, Mode2: sm})
		}
	}
	if ctx.drv != nil {
		ans, err := ctx.drv.Ask(lines)
		if err != nil {
			rep.violate(Violation{Kind: "correspondence", Shape: "driver-failed", What: err.Error()})
		} else {
			for i := range lines {
				if ans[i] != expect[i] {
					rep.Disagree++
					rep.violate(Violation{Kind: "correspondence", Shape: "negotiation-model-vs-impl", What: fmt.Sprintf("%s: model %q, implementation %q", what[i], trunc(ans[i], 80), trunc(expect[i], 80)), Replay: lines[i]})
				}
			}
			rep.count("model-compared")
		}
	}
	type res struct {
		i     int
		sh, w string
	}
	out := make(chan res, len(e2e))
	sem := make(chan struct{}, 16)
	for i := range e2e {
		sem <- struct{}{}
		go func(i int) {
			defer func() { <-sem }()
			sh, w := "", ""
			func() {
				defer func() {
					if r := recover(); r != nil {
						sh, w = "panic", fmt.Sprint(r)
					}
				}()
				switch e2e[i].Kind {
				case "accept-e2e":
					sh, w = c14AcceptE2E(e2e[i])
				case "dial-e2e":
					sh, w = c14DialE2E(e2e[i])
				default:
					sh, w = c14LibLib(e2e[i].Mode, e2e[i].Mode2)
				}
			}()
			out <- res{i, sh, w}
		}(i)
	}
	for range e2e {
		r := <-out
		cc := e2e[r.i]
		rep.eval(fmt.Sprintf("%s/%d/%d/%q", cc.Kind, cc.Mode, cc.Mode2, cc.Header))
		rep.count(cc.Kind)
		if r.sh != "" {
			rep.violate(Violation{Kind: "property", Shape: r.sh, What: fmt.Sprintf("%s mode=%d header=%q: %s", cc.Kind, cc.Mode, cc.Header, r.w), Replay: cc})
		}
	}
	rep.sample(e2e[0])
	rep.sample(e2e[len(e2e)/2])
	rep.sample(c14Case{Kind: "server-fn", Mode: 1, Header: offerLists[len(offerLists)-1]})
}
