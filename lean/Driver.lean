import WS.Driver.Cmds
/-
  `wsmodel`: line-protocol driver for the executable models.  One request per line on stdin,
  one answer per line on stdout (see DESIGN.md appendix D).  Core-only so that it links.
-/
open WS

partial def loop (h : IO.FS.Stream) (out : IO.FS.Stream) : IO Unit := do
  let line ← h.getLine
  if line.isEmpty then
    out.flush
    return ()
  let l := (line.dropEndWhile (fun c => c == '\n' || c == '\r')).toString
  out.putStrLn (WS.Driver.handle l)
  out.flush
  loop h out

def main : IO Unit := do
  let stdin ← IO.getStdin
  let stdout ← IO.getStdout
  loop stdin stdout
