import WS.Props.G2.HandshakeDefs
import WS.Props.G2.CloseDefs
import WS.Props.G2.FrameDefs
import WS.Props.G2.ReadDefs
import WS.Props.G2.WriteDefs
import WS.Props.G2.NetDefs
import WS.Props.G2.CloseSeqDefs
/-
  Counterexample search for the obligations of WS/Props/G2/*: run by bin/check when one of those modules does not
  build, to name the valuation at which the regenerated decision skeleton and the decision table differ (the replay of
  the broken obligation).  Not part of any proof.
-/
open WS WS.Model WS.Model.Guard WS.Gen.Guards2 WS.Props.G2

def bools : List Bool := [false, true]

def report (name : String) (cands : List (String × Res × Res)) : IO Unit :=
  match cands.find? (fun c => c.2.1 != c.2.2) with
  | some (d, got, want) => IO.println s!"CEX {name}: at {d} the code's skeleton gives {repr got} but the table says {repr want}"
  | none => IO.println s!"NOCEX {name}"

/-- all valuations of `n` booleans. -/
def bvs : Nat → List (List Bool)
  | 0 => [[]]
  | n + 1 => (bvs n).flatMap fun v => [false :: v, true :: v]

def sh (names : List String) (v : List Bool) : String := " ".intercalate ((names.zip v).map fun (n, b) => s!"{n}={b}")

def lenReps : List Int := [-1, 0, 1, 124, 125, 126, 127, 65534, 65535, 65536, 65537, 4611686018427387904]

def main : IO Unit := do
  report "verifyClientRequest_matches" ((bvs 7).flatMap fun v => [0, 1, 2].filterMap fun nk =>
    match v with
    | [a, b, c, d, e, f, g] => some (sh ["protoAtLeast1.1", "connectionUpgrade", "upgradeWebsocket", "methodGET", "version13", "keyDecodeError", "key16Bytes"] v ++ s!" keys={nk}",
        run (envVCR a b c d e nk f g) g_c_verifyClientRequest, vcrExpected a b c d e nk f g)
    | _ => none)
  report "accept_sequence" ((bvs 9).filterMap fun v =>
    match v with
    | [a, b, c, d, e, f, g, h, i] => some (sh ["requestRefused", "InsecureSkipVerify", "originRefused", "badPattern", "hijacker", "subprotocol", "deflate", "gin", "hijackError"] v,
        run (envAccept a b c d e f g h i) g_c_accept, acceptExpected a b c d e f g i)
    | _ => none)
  report "authenticateOrigin_matches" ((bvs 7).filterMap fun v =>
    match v with
    | [a, b, c, d, e, f, g] => some (sh ["originPresent", "parseError", "sameHost", "morePatterns", "patternError", "matched", "hostEmpty"] v,
        run (envOrigin a b c d e f g) g_c_authenticateOrigin, originExpected a b c d e f)
    | _ => none)
  report "selectDeflate_matches" ((bvs 3).flatMap fun v => [0, 1, 2].filterMap fun m =>
    match v with
    | [a, b, c] => some (sh ["moreExtensions", "permessageDeflate", "offerAccepted"] v ++ s!" mode={m}",
        run (envSelectDeflate m a b c) g_c_selectDeflate, selectDeflateExpected m a b c)
    | _ => none)
  report "acceptDeflate_step_matches" ((bvs 2).flatMap fun v => PK.all.filterMap fun k =>
    match v with
    | [a, b] => some (sh ["moreParams", "nameSeenBefore"] v ++ s!" param={String.ofList k.str}",
        run (envAcceptDeflate a b k) g_c_acceptDeflate, acceptDeflateExpected a b k)
    | _ => none)
  report "verifyServerResponse_matches" ((bvs 5).flatMap fun v => [101, 200, 400].filterMap fun st =>
    match v with
    | [a, b, c, d, e] => some (sh ["connectionUpgrade", "upgradeWebsocket", "acceptMismatch", "subprotocolRefused", "extensionsRefused"] v ++ s!" status={st}",
        run (envVSR st a b c d e) g_c_verifyServerResponse, vsrExpected st a b c d e)
    | _ => none)
  report "verifySubprotocol_matches" ((bvs 3).filterMap fun v =>
    match v with
    | [a, b, c] => some (sh ["responseHasSubprotocol", "moreRequested", "equalFold"] v, run (envVSub a b c) g_c_verifySubprotocol, vsubExpected a b c)
    | _ => none)
  report "verifyServerExtensions_matches" ((bvs 5).flatMap fun v => RK.all.filterMap fun k =>
    match v with
    | [a, b, c, d, e] => some (sh ["anyExtension", "firstNotPermessageDeflate", "moreThanOne", "offered", "moreParams"] v ++ s!" param={repr k}",
        run (envVSE a b c d e k) g_c_verifyServerExtensions, vseExpected a b c d e k)
    | _ => none)
  report "parseClosePayload_matches" (bools.flatMap fun v => [0, 1, 2].map fun l =>
    (s!"payloadLength={l} validCode={v}", run (envParseClose l v) g_c_parseClosePayload, parseCloseExpected l v))
  report "bytesErr_matches" (bools.flatMap fun a => bools.map fun b =>
    (s!"reasonTooLong={a} validCode={b}", run (envBytesErr a b) g_c_CloseError_bytesErr, bytesErrExpected a b))
  report "bytes_matches" (bools.map fun a => (s!"marshalError={a}", run (envBytes a) g_c_CloseError_bytes, bytesExpected a))
  report "handleControl_matches" ((bvs 6).flatMap fun v => [(-1 : Int), 0, 1, 125, 126, 65536].flatMap fun l => [8, 9, 10].filterMap fun op =>
    match v with
    | [a, b, c, d, e, f] => some (sh ["fin", "payloadReadError", "masked", "pongWriteError", "pingKnown", "closePayloadMalformed"] v ++ s!" payloadLength={l} opcode={op}",
        run (envHandleControl l a b c op d e f) g_c_Conn_handleControl, handleControlExpected l a b c op d f)
    | _ => none)
  report "writeFrameHeader_matches" ((bvs 5).flatMap fun v => lenReps.filterMap fun l =>
    match v with
    | [a, b, c, d, e] => some (sh ["fin", "rsv1", "rsv2", "rsv3", "masked"] v ++ s!" payloadLength={l}",
        run (envWriteHdr a b c d e l false false false false) g_c_writeFrameHeader, writeHdrExpected a b c d e l false false false false)
    | _ => none)
  report "writeFrameHeader_failures" ((bvs 5).flatMap fun v => lenReps.filterMap fun l =>
    match v with
    | [m, a, b, c, d] => some (sh ["masked", "firstByteFails", "secondByteFails", "extendedLengthFails", "keyFails"] v ++ s!" payloadLength={l}",
        run (envWriteHdr true false false false m l a b c d) g_c_writeFrameHeader, writeHdrExpected true false false false m l a b c d)
    | _ => none)
  report "readFrameHeader_matches" ((bvs 6).flatMap fun v => [(0 : Int), 1, 125, 126, 127].filterMap fun l =>
    match v with
    | [a, b, c, d, e, f] => some (sh ["firstByteFails", "secondByteFails", "extendedLengthFails", "topBitSet", "masked", "keyFails"] v ++ s!" lengthField={l}",
        run (envReadHdr a b l c d e f) g_c_readFrameHeader, readHdrExpected a b l c d e f)
    | _ => none)
  report "limitReader_Read_matches" (bools.flatMap fun big => EK.all.flatMap fun k => [(-1 : Int), 0, 1, 7].flatMap fun n => [(-1 : Int), 0, 3].map fun n' =>
    (s!"allowanceBefore={n} allowanceAfter={n'} bufferLarger={big} sourceError={repr k}", run (envLimitRead n n' big k) g_c_limitReader_Read, limitReadExpected n n' big k))
  report "msgReader_Read_matches" ((bvs 6).flatMap fun v => EK.all.filterMap fun k =>
    match v with
    | [a, b, c, d, e, f] => some (sh ["lockError", "flate", "contextTakeover", "drainError", "fin", "frameUsedUp"] v ++ s!" frameReaderError={repr k}",
        run (envMsgReaderRead a k b c d e f) g_c_msgReader_Read, msgReaderReadExpected a k b c d e f)
    | _ => none)
  report "msgReader_reset_matches" (bools.map fun a => (s!"rsv1={a}", run (envMsgReaderReset a) g_c_msgReader_reset, msgReaderResetExpected a))
  report "msgWriter_reset_matches" (bools.map fun a => (s!"lockError={a}", run (mkEnv [("mu.lock:err!=nil", a)]) g_c_msgWriter_reset, msgWriterResetExpected a))
  report "Conn_write_matches" ((bvs 5).filterMap fun v =>
    match v with
    | [a, b, c, d, e] => some (sh ["writerError", "flateNegotiated", "frameError", "writeError", "closeError"] v,
        run (envConnWrite a b c d e) g_c_Conn_write, connWriteExpected a b c d e)
    | _ => none)
  report "Conn_ping_matches" (bools.map fun a => (s!"writeError={a}", run (mkEnv [("writeControl:err!=nil", a)]) g_c_Conn_ping, pingExpected a))
  report "netConn_read_matches" ((bvs 5).flatMap fun v => [(-1 : Int), 1000, 1001, 1002, 1006].flatMap fun st => [EK.nil, .eof, .other].filterMap fun k =>
    match v with
    | [a, b, c, d, e] => some (sh ["readDeadlineExpired", "eofSeen", "messageOpen", "readerError", "wrongType"] v ++ s!" closeStatus={st} readError={repr k}",
        run (envNetRead a b c d st e k) g_c_netConn_read, netReadExpected a b c d st e k)
    | _ => none)
  report "netConn_Read_matches" (bools.flatMap fun e => [(0 : Int), 1, 4096].map fun n =>
    (s!"readError={e} n={n}", run (envNetReadLoop e n) g_c_netConn_Read, netReadLoopExpected e n))
  report "netConn_Write_matches" (bools.flatMap fun a => bools.map fun b =>
    (s!"writeDeadlineExpired={a} writeError={b}", run (envNetWrite a b) g_c_netConn_Write, netWriteExpected a b))
  report "wsjson_read_matches" ((bvs 3).filterMap fun v =>
    match v with
    | [a, b, c] => some (sh ["readerError", "copyError", "unmarshalError"] v, run (envJsonRead a b c) g_wsjson_c_read, jsonReadExpected a b c)
    | _ => none)
  report "msgReader_setFrame_matches" [("(no atoms)", run (mkEnv []) g_c_msgReader_setFrame, setFrameExpected)]
  report "headerTokens_matches" (bools.flatMap fun a => bools.map fun b =>
    (s!"moreHeaderLines={a} moreElements={b}", run (envTokens a b) g_c_headerTokens, tokensExpected a b))
  report "msgWriter_Close_matches" ((bvs 6).filterMap fun v =>
    match v with
    | [a, b, c, d, e, f] => some (sh ["lockError", "writerClosed", "flate", "flushError", "frameError", "contextTakeover"] v,
        run (envMwClose a b c d e f) g_c_msgWriter_Close, mwCloseExpected a b c d e f)
    | _ => none)
  report "Conn_Close_matches" ((bvs 5).filterMap fun v =>
    match v with
    | [a, b, c, d, e] => some (sh ["firstCloser", "joinError", "handshakeError", "closeError", "joinError2"] v,
        run (envClose a b c d e) g_c_Conn_Close, closeExpected a b c d e)
    | _ => none)
  report "Conn_CloseNow_matches" ((bvs 4).filterMap fun v =>
    match v with
    | [a, b, d, e] => some (sh ["firstCloser", "joinError", "closeError", "joinError2"] v,
        run (envClose a b false d e) g_c_Conn_CloseNow, closeNowExpected a b d e)
    | _ => none)
  report "closeHandshake_matches" ((bvs 3).filterMap fun v =>
    match v with
    | [a, b, c] => some (sh ["writeCloseError", "waitError", "otherStatus"] v, run (envHandshake a b c) g_c_Conn_closeHandshake, handshakeExpected a b c)
    | _ => none)
  report "writeClose_matches" ((bvs 3).flatMap fun v => [(1000 : Int), 1005, 1006, 4000].filterMap fun code =>
    match v with
    | [a, b, c] => some (sh ["marshalError", "writeError", "connectionClosed"] v ++ s!" code={code}",
        run (envWriteClose code a b c) g_c_Conn_writeClose, writeCloseExpected code a b c)
    | _ => none)
