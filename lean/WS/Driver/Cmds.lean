import WS.Basic
import WS.Spec.Mask
import WS.Model.MaskProg
import WS.Gen.MaskProg
/-
  Command table of the driver.  Every command is a pure function String → String.
-/
namespace WS.Driver
open WS

def parseNat? (s : String) : Option Nat := s.toNat?

def u32hex (k : UInt32) : String :=
  toHex [ (k >>> 24).toUInt8, (k >>> 16).toUInt8, (k >>> 8).toUInt8, k.toUInt8 ]

def cmdMask (args : List String) : String :=
  match args with
  | [k, b] =>
    match parseNat? k, ofHex b with
    | some k, some b =>
      let r := Spec.mask (UInt32.ofNat k) b
      s!"ok {toHex r.1} {r.2.toNat}"
    | _, _ => "bad-args"
  | _ => "bad-args"

def cmdMaskProg (args : List String) : String :=
  match args with
  | [k, b] =>
    match parseNat? k, ofHex b with
    | some k, some b =>
      match Model.runMask Gen.maskGo b (UInt32.ofNat k) with
      | some r => s!"ok {toHex r.1} {r.2.toNat}"
      | none => "panic"
    | _, _ => "bad-args"
  | _ => "bad-args"

def handle (line : String) : String :=
  match line.splitOn " " with
  | [] => "bad-op"
  | cmd :: args =>
    match cmd with
    | "mask" => cmdMask args
    | "maskprog" => cmdMaskProg args
    | "ping" => "pong"
    | _ => "bad-op"

end WS.Driver
