import WS.Basic
import WS.Spec.Mask
import WS.Model.MaskProg
import WS.Gen.MaskProg
import WS.Model.Reader
import WS.Spec.Inflate
import WS.Gen.IntFns
import WS.Model.Writer
import WS.Model.Handshake
import WS.Model.NetConn
import WS.Model.WsJson
import WS.Model.Pool
import WS.Model.Ping
import WS.Model.DialReq
import WS.Model.Mu
import WS.Model.Timeout
import WS.CIR.ConnTrace
/-
  Command table of the driver.  Every command is a pure function String → String.
-/
namespace WS.Driver
open WS

def parseNat? (s : String) : Option Nat := s.toNat?

def u32hex (k : UInt32) : String :=
  toHex [ (k >>> 24).toUInt8, (k >>> 16).toUInt8, (k >>> 8).toUInt8, k.toUInt8 ]

def cmdMask (args : List String) : String :=
  match args with
  | [k, b] =>
    match parseNat? k, ofHex b with
    | some k, some b =>
      let r := Spec.mask (UInt32.ofNat k) b
      s!"ok {toHex r.1} {r.2.toNat}"
    | _, _ => "bad-args"
  | _ => "bad-args"

def cmdMaskProg (args : List String) : String :=
  match args with
  | [k, b] =>
    match parseNat? k, ofHex b with
    | some k, some b =>
      match Model.runMask Gen.maskGo b (UInt32.ofNat k) with
      | some r => s!"ok {toHex r.1} {r.2.toNat}"
      | none => "panic"
    | _, _ => "bad-args"
  | _ => "bad-args"

def parseInt? (s : String) : Option Int :=
  if s.startsWith "-" then (s.drop 1).toString.toNat?.map (fun n => -(n : Int)) else s.toNat?.map (fun n => (n : Int))

/-- the reference inflater plugged into the reader model. -/
def inflateImpl : Model.Inflate := fun dict z =>
  let r := Spec.inflate dict z
  { plain := r.2, ok := r.1 != .corrupt }

def stopStr : Model.Stop → String
  | .io => "io"
  | .proto => "proto"
  | .protoNoClose => "protonc"
  | .limit => "limit"
  | .inflate => "inflate"
  | .peerClose code reason => s!"close:{code}:{toHex reason}"

def evStr : Model.Ev → String
  | .msg typ d => s!"msg {typ} {toHex d}"
  | .partialMsg typ d why amb => s!"partial {typ} {toHex d} {stopStr why} {if amb then 1 else 0}"
  | .fail why => s!"fail {stopStr why}"
  | .reply op p => s!"reply {op} {toHex p}"

/-- `reader client flate takeover limit change stream` -/
def cmdReader (args : List String) : String :=
  match args with
  | [cl, fl, tk, lim, ch, st] =>
    match parseInt? lim, ofHex st with
    | some lim, some s =>
      let (limits, dflt) : List Int × Int :=
        match ch.splitOn ":" with
        | [a, b] =>
          match a.toNat?, parseInt? b with
          | some a, some b => (List.replicate a lim, b)
          | _, _ => ([], lim)
        | _ => ([], lim)
      let cfg : Model.RCfg := { client := cl == "1", flate := fl == "1", takeover := tk == "1", limit := dflt }
      let evs := Model.readStream inflateImpl cfg limits s
      "ok " ++ String.intercalate "|" (evs.map evStr)
    | _, _ => "bad-args"
  | _ => "bad-args"

/-- `inflate dict z` → status and plaintext of the reference inflater -/
def cmdInflate (args : List String) : String :=
  match args with
  | [d, z] =>
    match ofHex d, ofHex z with
    | some d, some z =>
      let r := Spec.inflate d z
      let st := match r.1 with | .final => "final" | .needMore => "needmore" | .corrupt => "corrupt"
      s!"ok {st} {toHex r.2}"
    | _, _ => "bad-args"
  | _ => "bad-args"

def b01 (b : Bool) : String := if b then "1" else "0"

/-- `valid-code n` → model and regenerated function -/
def cmdValidCode (args : List String) : String :=
  match args with
  | [n] =>
    match parseInt? n with
    | some n =>
      let g := match Gen.validWireCloseCode.eval n with | some b => b01 b | none => "none"
      s!"ok {b01 (Model.validWireCloseCode n)} {g}"
    | none => "bad-args"
  | _ => "bad-args"

/-- `close-bytes code reason` → bytesErr result and writeClose payload -/
def cmdCloseBytes (args : List String) : String :=
  match args with
  | [c, r] =>
    match parseInt? c, ofHex r with
    | some c, some r =>
      let a := match Model.closeBytesErr c r with | some p => "some:" ++ toHex p | none => "none"
      let b := match Model.writeClosePayload c r with | some p => "some:" ++ toHex p | none => "none"
      let cb := Model.closeBytes c r
      s!"ok {a} {b} {toHex cb.1} {b01 cb.2}"
    | _, _ => "bad-args"
  | _ => "bad-args"

def cmdCloseParse (args : List String) : String :=
  match args with
  | [p] =>
    match ofHex p with
    | some p =>
      match Model.parseClosePayload p with
      | .ok c r => s!"ok {c} {toHex r}"
      | .bad => "bad"
    | none => "bad-args"
  | _ => "bad-args"

def hdrStr (h : Model.Header) : String :=
  s!"{b01 h.fin} {b01 h.rsv1} {b01 h.rsv2} {b01 h.rsv3} {h.opcode} {h.len} {b01 h.masked} {toHex h.key}"

/-- `hdr-enc fin r1 r2 r3 op len masked key` → bytes -/
def cmdHdrEnc (args : List String) : String :=
  match args with
  | [f, r1, r2, r3, op, len, m, k] =>
    match op.toNat?, len.toNat?, ofHex k with
    | some op, some len, some k =>
      "ok " ++ toHex (Model.encodeHeader { fin := f == "1", rsv1 := r1 == "1", rsv2 := r2 == "1", rsv3 := r3 == "1",
                                           opcode := op, len := len, masked := m == "1", key := k })
    | _, _, _ => "bad-args"
  | _ => "bad-args"

/-- `hdr-dec bytes` → header fields and the number of bytes left -/
def cmdHdrDec (args : List String) : String :=
  match args with
  | [b] =>
    match ofHex b with
    | some b =>
      match Model.decodeHeader b with
      | .ok h rest => s!"ok {hdrStr h} {rest.length}"
      | .needMore => "needmore"
      | .negative => "negative"
    | none => "bad-args"
  | _ => "bad-args"

def hexList (s : String) : Option (List Bytes) :=
  if s == "" then some [] else (s.splitOn ",").mapM ofHex

def chunk4 : Bytes → List Bytes
  | a :: b :: c :: d :: rest => [a, b, c, d] :: chunk4 rest
  | _ => []

def parseWOp (s : String) : Option Model.WOp :=
  match s.splitOn ":" with
  | ["m", typ, vw, chunks, obs] => do
    let t ← typ.toNat?
    let cs ← hexList chunks
    let os ← hexList obs
    some (.msg t (vw == "1") cs os)
  | ["p", p] => (ofHex p).map .ping
  | ["o", p] => (ofHex p).map .pong
  | ["c", code, r] => do
    let c ← parseInt? code
    let r ← ofHex r
    some (.close c r)
  | _ => none

/-- `writer client flate takeover threshold keys ops` → the bytes the model puts on the wire -/
def cmdWriter (args : List String) : String :=
  match args with
  | [cl, fl, tk, th, keys, ops] =>
    match th.toNat?, ofHex keys, (if ops == "-" then some [] else (ops.splitOn ";").mapM parseWOp) with
    | some th, some keys, some ops =>
      let cfg : Model.WCfg := { client := cl == "1", flate := fl == "1", takeover := tk == "1", threshold := th }
      "ok " ++ toHex (Model.writerBytes cfg ops (chunk4 keys))
    | _, _, _ => "bad-args"
  | _ => "bad-args"

/-! ### handshake commands: strings travel as hex of their UTF-8 bytes -/

def strOfHex (h : String) : Option Model.Str := do
  let b ← ofHex h
  let st ← String.fromUTF8? (ByteArray.mk b.toArray)
  some st.toList

def hexOfStr (x : Model.Str) : String := toHex (String.ofList x).toUTF8.toList

def strList (h : String) : Option (List Model.Str) :=
  if h == "" || h == "." then some [] else (h.splitOn ",").mapM strOfHex

/-- header: `k:v,v;k:v` (each k, v hex), "." = empty -/
def parseHdr (h : String) : Option Model.Hdr :=
  if h == "." then some []
  else (h.splitOn ";").mapM (fun kv =>
    match kv.splitOn ":" with
    | [k, vs] => do
      let k ← strOfHex k
      let vs ← strList vs
      some (k, vs)
    | _ => none)

def coptsStr : Option Model.Copts → String
  | none => "none"
  | some c => s!"{b01 c.cnct}{b01 c.snct}"

def parseCopts (x : String) : Option (Option Model.Copts) :=
  match x with
  | "none" => some none
  | "00" => some (some ⟨false, false⟩)
  | "01" => some (some ⟨false, true⟩)
  | "10" => some (some ⟨true, false⟩)
  | "11" => some (some ⟨true, true⟩)
  | _ => none

def cmdTokens (args : List String) : String :=
  match args with
  | [h, k] =>
    match parseHdr h, strOfHex k with
    | some h, some k => "ok " ++ String.intercalate "," ((Model.headerTokens h k).map hexOfStr)
    | _, _ => "bad-args"
  | _ => "bad-args"

def cmdClientReq (args : List String) : String :=
  match args with
  | [m, maj, mi, h] =>
    match strOfHex m, maj.toNat?, mi.toNat?, parseHdr h with
    | some m, some maj, some mi, some h =>
      s!"ok {Model.verifyClientRequest { method := m, protoMajor := maj, protoMinor := mi, host := [], hdr := h }}"
    | _, _, _, _ => "bad-args"
  | _ => "bad-args"

def cmdSubproto (args : List String) : String :=
  match args with
  | [h, sp] =>
    match parseHdr h, strList sp with
    | some h, some sp => "ok " ++ hexOfStr (Model.selectSubprotocol { method := [], protoMajor := 1, protoMinor := 1, host := [], hdr := h } sp)
    | _, _ => "bad-args"
  | _ => "bad-args"

def cmdAcceptKey (args : List String) : String :=
  match args with
  | [k] => match strOfHex k with
    | some k => "ok " ++ hexOfStr (Model.secWebSocketAccept k)
    | none => "bad-args"
  | _ => "bad-args"

def cmdOrigin (args : List String) : String :=
  match args with
  | [host, origin, parsed, pats] =>
    match strOfHex host, strOfHex origin, (if parsed == "none" then some none else (strOfHex parsed).map some), strList pats with
    | some host, some origin, some parsed, some pats =>
      match Model.authenticateOrigin host origin parsed pats with
      | .ok => "ok" | .forbidden => "forbidden" | .badPattern => "badpattern"
    | _, _, _, _ => "bad-args"
  | _ => "bad-args"

def cmdGlob (args : List String) : String :=
  match args with
  | [p, n] =>
    match strOfHex p, strOfHex n with
    | some p, some n => match Model.glob p n with | .yes => "yes" | .no => "no" | .badPattern => "bad"
    | _, _ => "bad-args"
  | _ => "bad-args"

def cmdSelDeflate (args : List String) : String :=
  match args with
  | [h, mode] =>
    match parseHdr h, mode.toNat? with
    | some h, some mode =>
      match Model.selectDeflate (Model.websocketExtensions h) mode with
      | none => "none"
      | some c => s!"ok {coptsStr (some c)} {hexOfStr (Model.coptsString c)}"
    | _, _ => "bad-args"
  | _ => "bad-args"

def cmdSrvExt (args : List String) : String :=
  match args with
  | [c, h] =>
    match parseCopts c, parseHdr h with
    | some c, some h => match Model.verifyServerExtensions c h with | .err => "err" | .ok r => "ok " ++ coptsStr r
    | _, _ => "bad-args"
  | _ => "bad-args"

def cmdSrvResp (args : List String) : String :=
  match args with
  | [req, c, key, status, h] =>
    match strList req, parseCopts c, strOfHex key, status.toNat?, parseHdr h with
    | some req, some c, some key, some status, some h =>
      match Model.verifyServerResponse req c key status h with | none => "err" | some r => "ok " ++ coptsStr r
    | _, _, _, _, _ => "bad-args"
  | _ => "bad-args"

/-- `netconn msgType msgs end ks`: msgs = `typ:hex,typ:hex` or "."; end = `close:<code>` | `err`; ks = sizes -/
def cmdNetConn (args : List String) : String :=
  match args with
  | [mt, msgs, fin, ks] =>
    let parseMsg (x : String) : Option Model.NetConn.Msg :=
      match x.splitOn ":" with
      | [t, d] => do
        let t ← t.toNat?
        let d ← ofHex d
        some ⟨t, d⟩
      | _ => none
    let ms := if msgs == "." then some [] else (msgs.splitOn ",").mapM parseMsg
    let fin' : Option Model.NetConn.End :=
      if fin == "err" then some .otherErr
      else match fin.splitOn ":" with
        | ["close", c] => (parseInt? c).map .closeErr
        | _ => none
    let ks' := (ks.splitOn ",").mapM (·.toNat?)
    match mt.toNat?, ms, fin', ks' with
    | some mt, some ms, some fin', some ks' =>
      let r := Model.NetConn.reads ks' (Model.NetConn.init mt ms fin')
      let one : Model.NetConn.ReadRes → String
        | .data b => "d:" ++ toHex b
        | .eof => "eof"
        | .err => "err"
      s!"ok {String.intercalate "," (r.1.map one)} {b01 r.2.close1003}"
    | _, _, _, _ => "bad-args"
  | _ => "bad-args"

/-- `deadline evs`: evs = comma-separated `<k><side>` with k ∈ z (zero) f (future) p (past, idle) c (call)
b (blocked call + past deadline during it) and side ∈ r w; prints the call results and whether the connection is closed -/
def cmdDeadline (args : List String) : String :=
  match args with
  | [evs] =>
    let parse (x : String) : Option Model.NetConn.PEv :=
      match x.toList with
      | [k, sd] =>
        let side : Option Model.NetConn.Side := if sd == 'r' then some .r else if sd == 'w' then some .w else none
        side.bind fun sd =>
          if k == 'z' then some (.setZero sd) else if k == 'f' then some (.setFuture sd)
          else if k == 'p' then some (.setPast sd) else if k == 'c' then some (.call sd)
          else if k == 'b' then some (.blockedPast sd) else none
      | _ => none
    match (if evs == "." then some [] else (evs.splitOn ",").mapM parse) with
    | some es =>
      let r := Model.NetConn.prun es Model.NetConn.DL2.init
      let one : Model.NetConn.CallRes → String
        | .ok => "ok"
        | .deadline => "dl"
        | .fail => "fail"
      s!"ok {String.intercalate "," (r.2.map one)} {b01 r.1.closed}"
    | none => "bad-args"
  | _ => "bad-args"

/-- `pingreg evs`: evs = comma-separated `s` (a Ping call starts) | `p:<hex>` (a Pong with this payload
arrives; every call whose channel then holds a token returns) | `x:<id>` (the call that drew id gives up).
Prints per event `ping:<hex>` | `ok:<id>+<id>…` | `err:<id>` | `-`. -/
def cmdPingReg (args : List String) : String :=
  match args with
  | [evs] =>
    let rec go (es : List String) (s : Model.Ping.St) (acc : List String) : Option (List String) :=
      match es with
      | [] => some acc.reverse
      | e :: rest =>
        match e.splitOn ":" with
        | ["s"] =>
          match Model.Ping.step s .start with
          | (s1, .sentPing p) => go rest s1 (("ping:" ++ toHex p.toUTF8.toList) :: acc)
          | (s1, _) => go rest s1 ("-" :: acc)
        | ["p", h] =>
          match ofHex h with
          | some b =>
            match String.fromUTF8? (ByteArray.mk b.toArray) with
            | some p =>
              let s1 := (Model.Ping.step s (.pong p)).1
              -- every call whose channel now holds a token takes it and returns (the `finish` steps)
              let ids := (s1.active.filter (·.got)).map (·.id)
              let (s2, outs) := Model.Ping.run (ids.map .finish) s1
              let done := outs.filterMap fun o => match o with
                | .returnedOk id => some id
                | _ => none
              let o := if done.isEmpty then "-" else "ok:" ++ String.intercalate "+" (done.map toString)
              go rest s2 (o :: acc)
            | none => go rest s ("-" :: acc)   -- not UTF-8: equals no decimal payload
          | none => none
        | ["x", i] =>
          match i.toNat? with
          | some id =>
            match Model.Ping.step s (.cancel id) with
            | (s1, .returnedErr _) => go rest s1 (s!"err:{id}" :: acc)
            | (s1, _) => go rest s1 ("-" :: acc)
          | none => none
        | _ => none
    match go (if evs == "." then [] else evs.splitOn ",") Model.Ping.init [] with
    | some os => "ok " ++ String.intercalate "," os
    | none => "bad-args"
  | _ => "bad-args"

/-- `timeout evs`: evs = comma-separated `r<k>` / `w<k>` (context k handed over on the read / write channel; k = `b`
for Background), `x<k>` (context k is cancelled), `C` (the connection is closed by someone else). Prints the closed
flag after every event. -/
def cmdTimeout (args : List String) : String :=
  match args with
  | [evs] =>
    let ctxOf (t : String) : Option (Option Nat) := if t == "b" then some none else t.toNat?.map some
    let evOf (e : String) : Option Model.Timeout.Ev :=
      match e.toList with
      | 'r' :: t => (ctxOf (String.ofList t)).map .armRead
      | 'w' :: t => (ctxOf (String.ofList t)).map .armWrite
      | 'x' :: t => (String.ofList t).toNat?.map .cancel
      | ['C'] => some .connClosed
      | _ => none
    match (evs.splitOn ",").mapM evOf with
    | some es => String.intercalate "," ((Model.Timeout.trace es Model.Timeout.init).map fun b => if b then "1" else "0")
    | none => "bad-op"
  | _ => "bad-op"

/-- `mu ops`: ops = comma-separated `L<k><r>` (lock under a context of kind k = v live | p already cancelled |
s expiring soon, which returned r = o nil | c net.ErrClosed | x the context's error), `T` tryLock, `F` forceLock,
`U` unlock, `C` the connection is closed. Prints per op what the channel holds afterwards (`L:0`/`L:1`, `T:<bool>:<full>`, …);
`L:impossible` when no pick of the model's `select` yields the reported result. -/
def cmdMu (args : List String) : String :=
  match args with
  | [ops] =>
    let b (x : Bool) : String := if x then "1" else "0"
    let rec go (os : List String) (s : Model.Mu.St) (acc : List String) : List String :=
      match os with
      | [] => acc.reverse
      | o :: rest =>
        match o.toList with
        | ['L', k, r] =>
          let d := k != 'v'
          let want : Option Model.Mu.Res := match r with
            | 'o' => some .ok
            | 'c' => some .errClosed
            | 'x' => some .errCtx
            | _ => none
          match (Model.Mu.picks s d).find? (fun p => some (Model.Mu.lock s d p).2 == want) with
          | some p => let s1 := (Model.Mu.lock s d p).1; go rest s1 (("L:" ++ b s1.full) :: acc)
          | none => go rest s ("L:impossible" :: acc)
        | ['T'] =>
          let (s1, r) := Model.Mu.tryLock s
          go rest s1 (("T:" ++ toString r ++ ":" ++ b s1.full) :: acc)
        | ['F'] =>
          match Model.Mu.forceLock s with
          | (s1, .ok) => go rest s1 (("F:" ++ b s1.full) :: acc)
          | (s1, _) => go rest s1 ("F:blocked" :: acc)
        | ['U'] => let s1 := Model.Mu.unlock s; go rest s1 (("U:" ++ b s1.full) :: acc)
        | ['C'] => let s1 := { s with closed := true }; go rest s1 (("C:" ++ b s1.full) :: acc)
        | _ => go rest s ("bad-op" :: acc)
    String.intercalate "," (go (ops.splitOn ",") ⟨false, false⟩ [])
  | _ => "bad-op"

/-- `dial-req callerHdr subprotos copts keyhex`: the values the request carries under the headers Dial is
responsible for and under the caller's own keys, printed as `key=hexvalue,hexvalue` joined by `;` in key order -/
def cmdDialReq (args : List String) : String :=
  match args with
  | [h, sps, cop, key] =>
    match parseHdr h, strList sps, parseCopts cop, strOfHex key with
    | some h, some sps, some cop, some key =>
      let r := Model.dialRequest h [] sps cop key
      let keys := ["Connection", "Cookie", "Sec-Websocket-Extensions", "Sec-Websocket-Key", "Sec-Websocket-Protocol",
                   "Sec-Websocket-Version", "Upgrade", "X-Extra"]
      let one (k : String) : String :=
        k ++ "=" ++ String.intercalate "," ((r.hdr.values k.toList).map hexOfStr)
      "ok " ++ String.intercalate ";" (keys.map one)
    | _, _, _, _ => "bad-args"
  | _ => "bad-args"

/-- `json-rt hex`: parse the JSON text with the Lean codec and print it again -/
def cmdJsonRt (args : List String) : String :=
  match args with
  | [h] =>
    match strOfHex h with
    | some txt =>
      match Model.WsJson.decJ txt with
      | some v => "ok " ++ hexOfStr (Model.WsJson.encJ v)
      | none => "invalid"
    | none => "bad-args"
  | _ => "bad-args"

/-- `pool-monitor g:c:o,p:c:o,u:c:o,...` → whether the Lean ownership monitor accepts the event log -/
def cmdPoolMonitor (args : List String) : String :=
  match args with
  | [evs] =>
    let parse (x : String) : Option Model.Pool.PEv :=
      match x.splitOn ":" with
      | [k, c, o] =>
        match c.toNat?, o.toNat? with
        | some c, some o =>
          if k == "g" then some (.get c o) else if k == "p" then some (.put c o) else if k == "u" then some (.use c o) else none
        | _, _ => none
      | _ => none
    match (if evs == "." then some [] else (evs.splitOn ",").mapM parse) with
    | some l => if Model.Pool.monitor l (fun _ => none) then "ok accept" else "ok reject"
    | none => "bad-args"
  | _ => "bad-args"

/-- `cirtrace <entry[,entry…]> <running|ok|err> <ev> <ev> …` : is the event sequence of one thread a path of the
connection skeleton from one of the entries, ending as reported? -/
def cmdCirTrace (args : List String) : String :=
  match args with
  | ents :: fin :: evs =>
    match (ents.splitOn ",").mapM CIR.ConnTrace.entryOf, CIR.ConnTrace.parseFin fin,
          (evs.filter (· != "")).mapM CIR.ConnTrace.parseEv with
    | some es, some f, some l => CIR.ConnTrace.check es f l
    | _, _, _ => "bad-args"
  | _ => "bad-args"

def handle (line : String) : String :=
  match line.splitOn " " with
  | [] => "bad-op"
  | cmd :: args =>
    match cmd with
    | "mask" => cmdMask args
    | "maskprog" => cmdMaskProg args
    | "reader" => cmdReader args
    | "inflate" => cmdInflate args
    | "valid-code" => cmdValidCode args
    | "close-bytes" => cmdCloseBytes args
    | "close-parse" => cmdCloseParse args
    | "hdr-enc" => cmdHdrEnc args
    | "hdr-dec" => cmdHdrDec args
    | "writer" => cmdWriter args
    | "tokens" => cmdTokens args
    | "client-req" => cmdClientReq args
    | "subproto" => cmdSubproto args
    | "accept-key" => cmdAcceptKey args
    | "origin" => cmdOrigin args
    | "glob" => cmdGlob args
    | "sel-deflate" => cmdSelDeflate args
    | "srv-ext" => cmdSrvExt args
    | "srv-resp" => cmdSrvResp args
    | "netconn" => cmdNetConn args
    | "deadline" => cmdDeadline args
    | "pingreg" => cmdPingReg args
    | "mu" => cmdMu args
    | "timeout" => cmdTimeout args
    | "dial-req" => cmdDialReq args
    | "json-rt" => cmdJsonRt args
    | "pool-monitor" => cmdPoolMonitor args
    | "cirtrace" => cmdCirTrace args
    | "ping" => "pong"
    | _ => "bad-op"

end WS.Driver
