import WS.Basic
import WS.Spec.Mask
import WS.Model.MaskProg
import WS.Gen.MaskProg
import WS.Model.Reader
import WS.Spec.Inflate
/-
  Command table of the driver.  Every command is a pure function String → String.
-/
namespace WS.Driver
open WS

def parseNat? (s : String) : Option Nat := s.toNat?

def u32hex (k : UInt32) : String :=
  toHex [ (k >>> 24).toUInt8, (k >>> 16).toUInt8, (k >>> 8).toUInt8, k.toUInt8 ]

def cmdMask (args : List String) : String :=
  match args with
  | [k, b] =>
    match parseNat? k, ofHex b with
    | some k, some b =>
      let r := Spec.mask (UInt32.ofNat k) b
      s!"ok {toHex r.1} {r.2.toNat}"
    | _, _ => "bad-args"
  | _ => "bad-args"

def cmdMaskProg (args : List String) : String :=
  match args with
  | [k, b] =>
    match parseNat? k, ofHex b with
    | some k, some b =>
      match Model.runMask Gen.maskGo b (UInt32.ofNat k) with
      | some r => s!"ok {toHex r.1} {r.2.toNat}"
      | none => "panic"
    | _, _ => "bad-args"
  | _ => "bad-args"

def parseInt? (s : String) : Option Int :=
  if s.startsWith "-" then (s.drop 1).toString.toNat?.map (fun n => -(n : Int)) else s.toNat?.map (fun n => (n : Int))

/-- the reference inflater plugged into the reader model. -/
def inflateImpl : Model.Inflate := fun dict z =>
  let r := Spec.inflate dict z
  { plain := r.2, ok := r.1 != .corrupt }

def stopStr : Model.Stop → String
  | .io => "io"
  | .proto => "proto"
  | .protoNoClose => "protonc"
  | .limit => "limit"
  | .inflate => "inflate"
  | .peerClose code reason => s!"close:{code}:{toHex reason}"

def evStr : Model.Ev → String
  | .msg typ d => s!"msg {typ} {toHex d}"
  | .partialMsg typ d why amb => s!"partial {typ} {toHex d} {stopStr why} {if amb then 1 else 0}"
  | .fail why => s!"fail {stopStr why}"
  | .reply op p => s!"reply {op} {toHex p}"

/-- `reader client flate takeover limit change stream` -/
def cmdReader (args : List String) : String :=
  match args with
  | [cl, fl, tk, lim, ch, st] =>
    match parseInt? lim, ofHex st with
    | some lim, some s =>
      let (limits, dflt) : List Int × Int :=
        match ch.splitOn ":" with
        | [a, b] =>
          match a.toNat?, parseInt? b with
          | some a, some b => (List.replicate a lim, b)
          | _, _ => ([], lim)
        | _ => ([], lim)
      let cfg : Model.RCfg := { client := cl == "1", flate := fl == "1", takeover := tk == "1", limit := dflt }
      let evs := Model.readStream inflateImpl cfg limits s
      "ok " ++ String.intercalate "|" (evs.map evStr)
    | _, _ => "bad-args"
  | _ => "bad-args"

/-- `inflate dict z` → status and plaintext of the reference inflater -/
def cmdInflate (args : List String) : String :=
  match args with
  | [d, z] =>
    match ofHex d, ofHex z with
    | some d, some z =>
      let r := Spec.inflate d z
      let st := match r.1 with | .final => "final" | .needMore => "needmore" | .corrupt => "corrupt"
      s!"ok {st} {toHex r.2}"
    | _, _ => "bad-args"
  | _ => "bad-args"

def handle (line : String) : String :=
  match line.splitOn " " with
  | [] => "bad-op"
  | cmd :: args =>
    match cmd with
    | "mask" => cmdMask args
    | "maskprog" => cmdMaskProg args
    | "reader" => cmdReader args
    | "inflate" => cmdInflate args
    | "ping" => "pong"
    | _ => "bad-op"

end WS.Driver
