import WS.Props.GuardsDefs
/-
  Counterexample search for the obligations of WS/Props/Guards.lean: run by bin/check when that module does
  not build, to name the valuation at which the regenerated decision skeleton and the model / decision table
  differ (the replay of the broken obligation).  Not part of any proof.
-/
open WS WS.Model WS.Model.Guard WS.Gen.Guards WS.Props.Guards

def bools : List Bool := [false, true]
def ops : List Nat := List.range 16

def report (name : String) (cands : List (String × Res × Res)) : IO Unit :=
  match cands.find? (fun c => c.2.1 != c.2.2) with
  | some (d, got, want) => IO.println s!"CEX {name}: at {d} the code's skeleton gives {repr got} but the model says {repr want}"
  | none => IO.println s!"NOCEX {name}"

def main : IO Unit := do
  report "readRSV1Illegal_matches" (bools.flatMap fun fl => ops.map fun op =>
    (s!"flate={fl} opcode={op}", run (envRSV1 fl op) c_Conn_readRSV1Illegal,
      ⟨[], .ret (b2s (rsv1Illegal (rcfg false fl) (hdr true true false false false op)))⟩))
  report "readLoop_matches" (bools.flatMap fun r1 => bools.flatMap fun r2 => bools.flatMap fun r3 => bools.flatMap fun m =>
    bools.flatMap fun cl => bools.flatMap fun fl => bools.flatMap fun e => bools.flatMap fun cs => ops.map fun op =>
    (s!"rsv1={r1} rsv2={r2} rsv3={r3} masked={m} client={cl} flate={fl} ioErr={e} opcode={op}",
      run (envReadLoop r1 r2 r3 m cl fl e cs op) c_Conn_readLoop, readLoopExpected r1 r2 r3 m cl fl e op))
  report "reader_takeover_matches" (bools.flatMap fun cl => bools.flatMap fun a => bools.map fun b =>
    (s!"client={cl} client_no_context_takeover={a} server_no_context_takeover={b}",
      run (envTakeover cl a b) c_msgReader_flateContextTakeover, ⟨[], .ret (b2s (readerTakeover cl ⟨a, b⟩))⟩))
  report "writer_takeover_matches" (bools.flatMap fun cl => bools.flatMap fun a => bools.map fun b =>
    (s!"client={cl} client_no_context_takeover={a} server_no_context_takeover={b}",
      run (envTakeover cl a b) c_msgWriter_flateContextTakeover, ⟨[], .ret (b2s (writerTakeover cl ⟨a, b⟩))⟩))
  report "writeFrame_guard" (bools.flatMap fun cs => bools.flatMap fun cl => bools.flatMap fun fl => bools.flatMap fun fin =>
    bools.flatMap fun le => bools.flatMap fun sr => ops.map fun op =>
    (s!"closeSent={cs} client={cl} flate={fl} fin={fin} lockErr={le} staleRsv1={sr} opcode={op}",
      run (envWriteFrame cs cl fl fin le sr false op false) c_Conn_writeFrame, writeFrameGuardExpected cs le op))
  report "writeFrame_emission" (bools.flatMap fun cl => bools.flatMap fun fl => bools.flatMap fun fin => bools.flatMap fun sr => bools.flatMap fun sf => ops.map fun op =>
    (s!"client={cl} flate={fl} fin={fin} previousFrameRsv1={sr} previousFrameFin={sf} opcode={op}",
      run (envWriteFrame false cl fl fin false sr sf op true) c_Conn_writeFrame, writeFrameEmissionExpected cl fl fin op))
  report "reader_sequencing" (bools.flatMap fun mf => bools.flatMap fun e => ops.map fun op =>
    (s!"previousMessageFinished={mf} ioErr={e} opcode={op}", run (envReader mf e op) c_Conn_reader, readerExpected mf e op))
  report "msgReader_read_sequencing" (bools.flatMap fun fin => bools.flatMap fun fl => bools.flatMap fun cl => bools.flatMap fun big => ops.map fun op =>
    (s!"fin={fin} flate={fl} client={cl} opcode={op}", run (envMsgRead true fin fl cl false big op) c_msgReader_read, msgReadExpected fin fl op))
  report "msgWriter_write_decision" (bools.flatMap fun le => bools.flatMap fun cl => bools.flatMap fun fn => bools.flatMap fun fo => bools.flatMap fun big => ops.map fun op =>
    (s!"lockErr={le} writerClosed={cl} flateNegotiated={fn} flateOn={fo} chunkReachesThreshold={big} opcode={op}",
      run (envMsgWrite le cl fn fo big op) c_msgWriter_Write, msgWriteExpected le cl fn fo big op))
  report "msgWriter_close_decision" (bools.flatMap fun le => bools.flatMap fun cl => bools.flatMap fun fo => bools.map fun tk =>
    (s!"lockErr={le} writerClosed={cl} flateOn={fo} contextTakeover={tk}",
      run (envMsgClose le cl fo tk) c_msgWriter_Close, msgCloseExpected le cl fo tk))
