import WS.Proofs.IntPredFar
import WS.Model.Close
import WS.Model.Reader
import WS.Gen.IntFns
import WS.Gen.Facts
import WS.Props.CIRCert.Pass
import WS.Proofs.Close
/-
  C06 — Close handshake carries code and reason both ways (sequential / payload part).
  `Gen.validWireCloseCode` is regenerated from close.go on every run.
-/
namespace WS.Props.C06
open WS WS.Model

/-- the status codes that may appear in a Close frame, written from RFC 6455 §7.4 and the IANA
registry: 1000–1014 except 1004, 1005, 1006; and 3000–4999. -/
def Sendable (code : Int) : Prop :=
  (1000 ≤ code ∧ code ≤ 1014 ∧ code ≠ 1004 ∧ code ≠ 1005 ∧ code ≠ 1006) ∨ (3000 ≤ code ∧ code ≤ 4999)

/-- over **all** integers the model's validWireCloseCode is exactly the RFC set. -/
theorem validWire_iff (code : Int) : validWireCloseCode code = true ↔ Sendable code := by
  unfold Sendable
  exact WS.Proofs.Close.validWire_arith code

/-- per-run obligation, part 1: every constant of the function regenerated from close.go lies in [0, 5000]. -/
theorem gen_validWire_window : WS.Gen.validWireCloseCode.within 0 5000 = true := by decide

/-- per-run obligation, part 2: on the window [-1, 5001] the regenerated function and the model agree
(kernel evaluation of all 5003 integers, by binary splitting). -/
theorem gen_validWire_on_window :
    allIn (fun n => decide (WS.Gen.validWireCloseCode.eval ((n : Int) - 1) = some (validWireCloseCode ((n : Int) - 1)))) 16 0 5003 = true := by
  decide +kernel

/-- per-run obligation: the function regenerated from close.go equals the model on **every** integer — whatever
shape it has: inside the window by evaluation, outside it because an integer predicate is constant beyond its
constants (`IntPred.eval_above / eval_below`) and so is the model (`validWire_arith`). -/
theorem gen_validWire (code : Int) :
    WS.Gen.validWireCloseCode.eval code = some (validWireCloseCode code) := by
  have hm := WS.Proofs.Close.validWire_arith
  have model_false : ∀ c : Int, (c < 0 ∨ 5000 < c) → validWireCloseCode c = false := by
    intro c hc
    cases hv : validWireCloseCode c with
    | false => rfl
    | true => have := (hm c).1 hv; omega
  have win : ∀ c : Int, -1 ≤ c → c ≤ 5001 → WS.Gen.validWireCloseCode.eval c = some (validWireCloseCode c) := by
    intro c h1 h2
    have h := allIn_spec _ 16 0 5003 gen_validWire_on_window (c + 1).toNat (by omega) (by omega)
    have hi : (((c + 1).toNat : Nat) : Int) = c + 1 := Int.toNat_of_nonneg (by omega)
    rw [hi, Int.add_sub_cancel] at h
    exact of_decide_eq_true h
  by_cases hin : -1 ≤ code ∧ code ≤ 5001
  · exact win code hin.1 hin.2
  · by_cases hhi : 5001 < code
    · rw [IntPred.eval_above _ gen_validWire_window code 5001 (by omega) (by omega), win 5001 (by omega) (by omega),
        model_false 5001 (by omega), model_false code (by omega)]
    · rw [IntPred.eval_below _ gen_validWire_window code (-1) (by omega) (by omega), win (-1) (by omega) (by omega),
        model_false (-1) (by omega), model_false code (by omega)]

/-- per-run obligation: the constants the models use are the ones in the source. -/
theorem facts :
    WS.Gen.Facts.c_maxControlPayload = 125 ∧ WS.Gen.Facts.c_maxCloseReason = 123 ∧
    WS.Gen.Facts.c_StatusNoStatusRcvd = 1005 ∧ WS.Gen.Facts.c_StatusInternalError = 1011 ∧
    WS.Gen.Facts.c_StatusProtocolError = 1002 ∧ WS.Gen.Facts.c_StatusMessageTooBig = 1009 ∧
    WS.Gen.Facts.c_StatusNormalClosure = 1000 ∧ WS.Gen.Facts.c_StatusGoingAway = 1001 ∧
    WS.Gen.Facts.c_StatusUnsupportedData = 1003 ∧ WS.Gen.Facts.c_StatusInvalidFramePayloadData = 1007 ∧
    WS.Gen.Facts.c_StatusPolicyViolation = 1008 ∧
    WS.Gen.Facts.c_opClose = 8 ∧ WS.Gen.Facts.c_opPing = 9 ∧ WS.Gen.Facts.c_opPong = 10 ∧
    WS.Gen.Facts.c_opContinuation = 0 ∧ WS.Gen.Facts.c_opText = 1 ∧ WS.Gen.Facts.c_opBinary = 2 := by
  decide

/-- a sendable code with a reason of at most 123 bytes is marshalled and parses back to itself. -/
theorem closeBytes_parse (code : Int) (reason : Bytes) (hc : Sendable code) (hr : reason.length ≤ 123) :
    ∃ p, closeBytesErr code reason = some p ∧ p.length = 2 + reason.length ∧ p.length ≤ 125 ∧
      parseClosePayload p = .ok code reason := by
  have hv : validWireCloseCode code = true := (validWire_iff code).2 hc
  refine ⟨closePayload code reason, ?_, ?_, ?_, ?_⟩
  · unfold closeBytesErr maxCloseReason
    have : ¬ reason.length > 123 := by omega
    simp [this, hv]
  · exact WS.Proofs.Close.closePayload_length code reason
  · rw [WS.Proofs.Close.closePayload_length]; omega
  · exact WS.Proofs.Close.parse_closePayload code reason hv

/-- anything else is never marshalled (Close returns an error instead of sending it) … -/
theorem closeBytes_rejects (code : Int) (reason : Bytes) (h : ¬ Sendable code ∨ reason.length > 123) :
    closeBytesErr code reason = none := by
  unfold closeBytesErr maxCloseReason
  by_cases hr : reason.length > 123
  · simp [hr]
  · have hn : ¬ Sendable code := by
      cases h with
      | inl h => exact h
      | inr h => exact absurd h hr
    have hv : validWireCloseCode code = false := by
      cases hv : validWireCloseCode code with
      | false => rfl
      | true => exact absurd ((validWire_iff code).1 hv) hn
    simp [hr, hv]

/-- … except the no-status code 1005, which sends a Close frame with an empty payload. -/
theorem writeClose_1005 (reason : Bytes) : writeClosePayload 1005 reason = some [] := by
  simp [writeClosePayload]

theorem writeClose_sendable (code : Int) (reason : Bytes) (hc : Sendable code) (hr : reason.length ≤ 123) :
    writeClosePayload code reason = some (closePayload code reason) := by
  have h5 : code ≠ 1005 := by unfold Sendable at hc; omega
  obtain ⟨p, hp, -, -, -⟩ := closeBytes_parse code reason hc hr
  have hv : validWireCloseCode code = true := (validWire_iff code).2 hc
  unfold writeClosePayload
  rw [if_neg h5]
  unfold closeBytesErr maxCloseReason
  have : ¬ reason.length > 123 := by omega
  simp [this, hv]

theorem writeClose_rejects (code : Int) (reason : Bytes) (h5 : code ≠ 1005)
    (h : ¬ Sendable code ∨ reason.length > 123) : writeClosePayload code reason = none := by
  unfold writeClosePayload
  rw [if_neg h5]
  exact closeBytes_rejects code reason h

/-- a received Close payload is accepted exactly when it is empty or starts with a sendable code. -/
theorem parse_ok_iff (p : Bytes) (code : Int) (reason : Bytes) :
    parseClosePayload p = .ok code reason ↔
      (p = [] ∧ code = 1005 ∧ reason = []) ∨
      (∃ b0 b1 : UInt8, p = b0 :: b1 :: reason ∧ code = ((b0.toNat * 256 + b1.toNat : Nat) : Int) ∧ Sendable code) := by
  match p with
  | [] =>
    constructor
    · intro h
      have h' : CloseParse.ok 1005 [] = CloseParse.ok code reason := h
      injection h' with h1 h2
      exact Or.inl ⟨rfl, h1.symm, h2.symm⟩
    · intro h
      rcases h with ⟨-, hc, hr⟩ | ⟨b0, b1, hp, -, -⟩
      · subst hc; subst hr; rfl
      · cases hp
  | [b] =>
    constructor
    · intro h
      have h' : CloseParse.bad = CloseParse.ok code reason := h
      cases h'
    · intro h
      rcases h with ⟨hp, -, -⟩ | ⟨b0, b1, hp, -, -⟩
      · cases hp
      · cases hp
  | b0 :: b1 :: r =>
    constructor
    · intro h
      simp only [parseClosePayload] at h
      split at h
      · rename_i hv
        injection h with h1 h2
        subst h1; subst h2
        exact Or.inr ⟨b0, b1, rfl, rfl, (validWire_iff _).1 hv⟩
      · cases h
    · intro h
      rcases h with ⟨hp, -, -⟩ | ⟨c0, c1, hp, hc, hs⟩
      · cases hp
      · injection hp with e0 hp
        injection hp with e1 e2
        subst e0; subst e1; subst e2; subst hc
        have hv := (validWire_iff _).2 hs
        simp only [parseClosePayload, hv, if_true]

/- (first version of this statement, `parse … = .ok code reason` for every reason, was false for
code 1005: `Close(1005, reason)` sends an empty payload and the reason is dropped — see
`close_roundtrip_counterexample`; the statement below is the corrected, general one.) -/
/-- the unrestricted round trip is FALSE: `writeClosePayload 1005 r = some []` for every `r`
(Close(1005, reason) sends an empty payload and drops the reason), and `parseClosePayload []`
is `.ok 1005 []`, so for `code = 1005`, `reason = [1]`, `p = []` the first conjunct fails. -/
theorem close_roundtrip_counterexample :
    ¬ (∀ (code : Int) (reason p : Bytes), writeClosePayload code reason = some p →
        parseClosePayload p = .ok code reason ∧
        stopReplies (.peerClose code reason) = [.reply opClose p]) := by
  intro h
  exact absurd (h 1005 [1] [] (by decide)).1 (by decide)

/-- general form: the peer parses the code sent and the reason sent, except that the no-status
code 1005 carries no reason on the wire. -/
theorem close_roundtrip_general (code : Int) (reason p : Bytes) (h : writeClosePayload code reason = some p) :
    parseClosePayload p = .ok code (if code = 1005 then [] else reason) ∧
    stopReplies (.peerClose code reason) = [.reply opClose p] := by
  unfold writeClosePayload at h
  by_cases h5 : code = 1005
  · rw [if_pos h5] at h
    injection h with h
    subst h; subst h5
    exact ⟨rfl, rfl⟩
  · rw [if_neg h5] at h
    unfold closeBytesErr at h
    split at h
    · cases h
    · split at h
      · cases h
      · rename_i hv
        injection h with h
        subst h
        have hv' : validWireCloseCode code = true := by
          cases hb : validWireCloseCode code with
          | true => rfl
          | false => rw [hb] at hv; exact absurd rfl hv
        refine ⟨?_, ?_⟩
        · rw [if_neg h5]; exact WS.Proofs.Close.parse_closePayload code reason hv'
        · simp only [stopReplies, if_neg h5]

/-- minimally corrected `close_roundtrip`: same conclusion, with the extra hypothesis that the
no-status code 1005 is not given a reason. -/
theorem close_roundtrip_corrected (code : Int) (reason p : Bytes) (h : writeClosePayload code reason = some p)
    (h5 : code = 1005 → reason = []) :
    parseClosePayload p = .ok code reason ∧
    stopReplies (.peerClose code reason) = [.reply opClose p] := by
  have hg := close_roundtrip_general code reason p h
  by_cases hc : code = 1005
  · have hr := h5 hc
    rw [if_pos hc] at hg
    rw [hr]; rw [hr] at hg
    exact hg
  · rw [if_neg hc] at hg
    exact hg

/-- receive side (model of handleControl's close branch): a Close frame with an acceptable header
is echoed and reported as the peer's close with the parsed code and reason. -/
theorem close_frame_reported (inf : Inflate) (cfg : RCfg) (limits : List Int) (st : RState)
    (f : Frame) (rest : List Frame) (tl : Tail) (code : Int) (reason : Bytes)
    (hc : headerCheck cfg f.h = none) (ho : f.h.opcode = opClose)
    (hp : parseClosePayload f.data = .ok code reason) :
    runReader inf cfg limits st (f :: rest) tl = stopIn inf cfg limits st (.peerClose code reason) := by
  have h9 : (f.h.opcode == opPing) = false := by rw [ho]; decide
  have h10 : (f.h.opcode == opPong) = false := by rw [ho]; decide
  have h8 : (f.h.opcode == opClose) = true := by rw [ho]; decide
  rw [runReader]
  simp only [hc, h9, h10, h8, hp, if_true, Bool.false_eq_true, if_false]

/-! ### closed for good (concurrent skeleton, every interleaving) -/

open WS.CIR WS.Gen WS.Props.CIRCert in
/-- the successful returns of Reader / Read / Write / Writer / Ping are in scope of the closed-check
analysis, and those of Close / CloseNow of the closing-check analysis. -/
theorem scopes :
    ConnCIR.apiDone.all (fun n => !ConnCIR.passExemptClosed.contains n && ConnCIR.prog.at n == .done true) = true ∧
    ConnCIR.closeDone.all (fun n => !ConnCIR.passExemptClosing.contains n && ConnCIR.prog.at n == .done true) = true := by
  decide +kernel

open WS.CIR WS.Gen WS.Props.CIRCert in
/-- **once the connection is closed every further Read, Write, Writer and Ping fails**: a call that
starts when `closed` is already set never reaches a successful return, in any interleaving with any
other goroutines (its first blocking step re-checks `closed` after acquiring its lock). -/
theorem closed_is_final (g : G) (hr : Reach ConnCIR.prog g) (t n : Nat) (hn : g.pcs[t]? = some n)
    (hb : ∃ fl, g.born[t]? = some fl ∧ fl fCLOSED = true) (hex : ConnCIR.passExemptClosed.contains n = false) :
    ConnCIR.prog.at n ≠ .done true :=
  Join.born_after_never_succeeds fCLOSED _ _ _ pass_closed_ok g hr t n hn hb hex

open WS.CIR WS.Gen WS.Props.CIRCert in
/-- **once a Close or CloseNow has begun, every later Close/CloseNow returns an error** (the code
returns net.ErrClosed on that path): a call that starts when `closing` is already set loses the cas. -/
theorem later_close_fails (g : G) (hr : Reach ConnCIR.prog g) (t n : Nat) (hn : g.pcs[t]? = some n)
    (hb : ∃ fl, g.born[t]? = some fl ∧ fl Specs.fClosing = true) (hex : ConnCIR.passExemptClosing.contains n = false) :
    ConnCIR.prog.at n ≠ .done true :=
  Join.born_after_never_succeeds Specs.fClosing _ _ _ pass_closing_ok g hr t n hn hb hex

end WS.Props.C06
