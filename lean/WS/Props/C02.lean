import WS.Spec.WriteSpec
import WS.Props.FrameCodec
import WS.Proofs.Writer
/-
  C02 — Everything an endpoint emits is a conformant RFC 6455 / RFC 7692 frame stream.
-/
namespace WS.Props.C02
open WS WS.Model WS.Spec WS.Props.FrameCodec

/-- **every program of API calls emits a conformant frame sequence**: masked iff client, RSV2/RSV3
never, RSV1 only on the first frame of a message and only if negotiated, control frames final and at
most 125 bytes, text/binary then continuation with nothing but whole messages in between, Close
payloads sendable — for every configuration, threshold, key stream and compressor output. -/
theorem emit_conformant (cfg : WCfg) (ops : List WOp) (keys : List Bytes)
    (hwf : ∀ op ∈ ops, opWF op)
    (hk : KeysOK keys (runWriter cfg ops keys).length) (hc : ∀ op ∈ ops, ctlOK op)
    (hlen : ∀ f ∈ runWriter cfg ops keys, f.h.len < 2 ^ 63) :
    conformant cfg.client cfg.flate false (runWriter cfg ops keys) = true := by
  exact WS.Proofs.Writer.emit_conformant cfg ops keys hwf hk hc hlen

/-- every emitted frame is well formed for the codec, so the peer's parser recovers exactly the frames. -/
theorem emit_parses (cfg : WCfg) (ops : List WOp) (keys : List Bytes)
    (hwf : ∀ op ∈ ops, opWF op)
    (hk : KeysOK keys (runWriter cfg ops keys).length)
    (hlen : ∀ f ∈ runWriter cfg ops keys, f.h.len < 2 ^ 63) :
    parseFrames (writerBytes cfg ops keys) = (runWriter cfg ops keys, .clean) := by
  exact WS.Proofs.Writer.emit_parses cfg ops keys hwf hk hlen

/-- each frame consumes the next key of the entropy stream (a fresh key per frame unless the entropy
source repeats). -/
theorem key_per_frame (cfg : WCfg) (hc : cfg.client = true) (ops : List WOp) (keys : List Bytes)
    (hk : KeysOK keys (runWriter cfg ops keys).length) :
    (runWriter cfg ops keys).map (fun f => f.h.key) = keys.take (runWriter cfg ops keys).length := by
  exact WS.Proofs.Writer.key_per_frame cfg hc ops keys hk

/-- server frames are never masked and carry no key. -/
theorem server_unmasked (cfg : WCfg) (hc : cfg.client = false) (ops : List WOp) (keys : List Bytes) :
    ∀ f ∈ runWriter cfg ops keys, f.h.masked = false ∧ f.h.key = [] ∧ f.data = f.payload := by
  exact WS.Proofs.Writer.server_unmasked cfg hc ops keys

/-- the payload on the wire unmasks to the bytes the caller passed (masking happens in the write
buffer, exactly once). -/
theorem mkFrame_data (cfg : WCfg) (fin rsv1 : Bool) (op : Nat) (p key : Bytes) :
    (mkFrame cfg fin rsv1 op p key).data = p := by
  exact WS.Proofs.Writer.mkFrame_data cfg fin rsv1 op p key

/-- Close frames carry a sendable code and at most 123 reason bytes, or nothing; unsendable closes emit nothing. -/
theorem close_frame_ok (cfg : WCfg) (code : Int) (reason : Bytes) (keys : List Bytes) :
    (∀ f ∈ (opFrames cfg (.close code reason) keys).1, closePayloadOK f.data = true ∧ f.h.opcode = opClose) ∧
    (writeClosePayload code reason = none → (opFrames cfg (.close code reason) keys).1 = []) := by
  exact WS.Proofs.Writer.close_frame_ok cfg code reason keys

/-- the flate decision: a message is compressed iff the extension is on and its first chunk reaches the
effective threshold (128 with context takeover, 512 without, unless configured). -/
theorem compress_iff (cfg : WCfg) (c : Bytes) (cs : List Bytes) :
    compresses cfg (c :: cs) = true ↔
      cfg.flate = true ∧ c.length ≥ (if cfg.threshold = 0 then (if cfg.takeover then 128 else 512) else cfg.threshold) := by
  exact WS.Proofs.Writer.compress_iff cfg c cs

end WS.Props.C02
