import WS.Props.C03
import WS.Proofs.ReaderInv
/-
  C04 — No silent truncation.
-/
namespace WS.Props.C04
open WS WS.Model WS.Spec WS.Props.FrameCodec WS.Proofs.ReaderInv

variable (inf : Inflate) (cfg : RCfg) (limits : List Int)

/-- For **every** stream (valid or not, compressed or not, any limits): each clean end of a message
is backed by a completely received data frame with FIN set. -/
theorem msgs_le_fins (st : RState) (fs : List Frame) (tl : Tail) :
    ((runReader inf cfg limits st fs tl).filter isMsg).length ≤
      (fs.filter (fun f => f.h.fin && isData f.h.opcode)).length := by
  have hq : ∀ l : List Ev, (∀ ev ∈ l, Quiet ev) → (l.filter isMsg).length = 0 := by
    intro l hl; rw [filter_isMsg_quiet l hl]; rfl
  have hdata : ∀ st h d evs o, dataStep inf cfg limits st h d = (evs, o) → (evs.filter isMsg).length = 0 := by
    intro st h d evs o hd
    have := dataStep_quiet inf cfg limits st h d
    rw [hd] at this
    exact hq _ this
  have hmono : ∀ (f : Frame) (rest : List Frame),
      (rest.filter (fun f => f.h.fin && isData f.h.opcode)).length ≤
        ((f :: rest).filter (fun f => f.h.fin && isData f.h.opcode)).length := by
    intro f rest
    rw [List.filter_cons]
    split
    · simp only [List.length_cons]; omega
    · exact Nat.le_refl _
  refine runReader_induct inf cfg limits
    (fun _ fs out => (out.filter isMsg).length ≤ (fs.filter (fun f => f.h.fin && isData f.h.opcode)).length)
    ?_ ?_ ?_ ?_ ?_ ?_ ?_ ?_ ?_ fs st tl
  · intro st fs why _ _
    rw [hq _ (stopIn_quiet inf cfg limits st why)]
    exact Nat.zero_le _
  · intro st h d evs hd
    rw [hdata _ _ _ _ _ hd]
    exact Nat.zero_le _
  · intro st h d evs st' hd
    rw [List.filter_append, List.length_append, hdata _ _ _ _ _ hd, hq _ (stopIn_quiet inf cfg limits st' .io)]
    exact Nat.zero_le _
  · intro st f rest r _ ih
    have : (List.filter isMsg (Ev.reply opPong f.data :: r)) = List.filter isMsg r := by
      rw [List.filter_cons]; rfl
    rw [this]
    exact Nat.le_trans ih (hmono f rest)
  · intro st f rest r _ _ ih
    exact Nat.le_trans ih (hmono f rest)
  · intro st f rest evs _ _ hd
    rw [hdata _ _ _ _ _ hd]
    exact Nat.zero_le _
  · intro st f rest evs st' evs2 _ _ hd _ hf
    rw [List.filter_append, List.length_append, hdata _ _ _ _ _ hd,
      hq _ (finishMsg_none_quiet inf cfg limits st' evs2 hf)]
    exact Nat.zero_le _
  · intro st f rest evs st' evs2 st'' r _ hdat hd hfin hf ih
    have h2 : (evs2.filter isMsg).length ≤ 1 := by
      rcases finishMsg_some inf cfg limits st' evs2 st'' hf with rfl | ⟨typ, out, rfl⟩
      · exact Nat.zero_le _
      · exact Nat.le_refl _
    have h3 : ((f :: rest).filter (fun f => f.h.fin && isData f.h.opcode)).length =
        (rest.filter (fun f => f.h.fin && isData f.h.opcode)).length + 1 := by
      rw [List.filter_cons]
      simp only [hfin, hdat, Bool.and_self, if_true, List.length_cons]
    rw [List.filter_append, List.filter_append, List.length_append, List.length_append,
      hdata _ _ _ _ _ hd, h3]
    omega
  · intro st f rest evs st' r _ _ hd hfin ih
    rw [List.filter_append, List.length_append, hdata _ _ _ _ _ hd]
    have := hmono f rest
    omega

/-- whatever is left after the last complete frame never completes a message, and reading it fails. -/
theorem tail_never_completes (st : RState) (tl : Tail) :
    (∀ ev ∈ runReader inf cfg limits st [] tl, isMsg ev = false) ∧
    (∃ ev ∈ runReader inf cfg limits st [] tl, isFailure ev = true) := by
  have key := runReader_induct inf cfg limits
    (fun _ fs out => fs = [] → (∀ ev ∈ out, isMsg ev = false) ∧ (∃ ev ∈ out, isFailure ev = true))
    (by
      intro st fs why _ _ _
      exact ⟨fun ev hev => quiet_not_msg ev (stopIn_quiet inf cfg limits st why ev hev),
        stopIn_failure inf cfg limits st why⟩)
    (by
      intro st h d evs hd _
      refine ⟨fun ev hev => quiet_not_msg ev ?_, dataStep_none_failure inf cfg limits st h d evs hd⟩
      have := dataStep_quiet inf cfg limits st h d
      rw [hd] at this
      exact this ev hev)
    (by
      intro st h d evs st' hd _
      rw [dataStep_some_nil inf cfg limits st h d evs st' hd, List.nil_append]
      exact ⟨fun ev hev => quiet_not_msg ev (stopIn_quiet inf cfg limits st' .io ev hev),
        stopIn_failure inf cfg limits st' .io⟩)
    (by intro _ _ _ _ _ _ h; cases h)
    (by intro _ _ _ _ _ _ _ h; cases h)
    (by intro _ _ _ _ _ _ _ h; cases h)
    (by intro _ _ _ _ _ _ _ _ _ _ _ h; cases h)
    (by intro _ _ _ _ _ _ _ _ _ _ _ _ _ _ h; cases h)
    (by intro _ _ _ _ _ _ _ _ _ _ _ h; cases h)
    [] st tl
  exact key rfl

/-- unmasking commutes with taking a prefix: the bytes available before a cut unmask to a prefix
of the frame's data. -/
theorem data_prefix (f : Frame) (k : Nat) :
    (if f.h.masked then xorKey f.h.key (f.payload.take k) else f.payload.take k) = f.data.take k := by
  unfold Frame.data
  split
  · unfold xorKey
    exact xorKeyFrom_take _ _ _ _
  · rfl

/-- helper for `cut_valid_stream`: reading the cut frame `f` in the reference state. -/
theorem cut_tail_run (L : Int) (hL : cfg.limit = L) (dict : Bytes) (idx : Nat) (q : Pending)
    (f : Frame) (post : List Frame) (m : Nat) (hv : ValidSeq cfg L q (f :: post)) :
    ∃ final, runReader inf cfg [] (stateOf L dict idx q) [] (cutTail f m) = [final] ∧
      (final = .fail .io ∨
        ∃ typ avail, final = .partialMsg typ avail .io false ∧
          ∃ full, avail <+: full ∧
            (match (generalizing := false) q with
             | none => full = f.data
             | some (_, acc) => full = acc ++ f.data)) := by
  have hstop : ∃ final, stopIn inf cfg [] (stateOf L dict idx q) .io = [final] ∧
      (final = .fail .io ∨
        ∃ typ avail, final = .partialMsg typ avail .io false ∧
          ∃ full, avail <+: full ∧
            (match (generalizing := false) q with
             | none => full = f.data
             | some (_, acc) => full = acc ++ f.data)) := by
    refine ⟨_, stopIn_stateOf_io inf cfg [] L dict idx q, ?_⟩
    cases q with
    | none => exact Or.inl rfl
    | some ta =>
      obtain ⟨typ, acc⟩ := ta
      exact Or.inr ⟨typ, acc, rfl, acc ++ f.data, List.prefix_append _ _, rfl⟩
  obtain ⟨hok, hr1, hncl, hdat, _⟩ := hv
  have hc : headerCheck cfg f.h = none := (WS.Props.C03.headerCheck_iff cfg f.h).mpr hok
  unfold cutTail
  split
  · rw [runReader]; exact hstop
  · rw [runReader, hc]
    dsimp only
    split
    · exact hstop
    · next hctl =>
      rw [data_prefix]
      have hle : f.h.opcode ≤ 2 := by
        obtain ⟨_, _, _, _, hop, _⟩ := hok
        rcases hop with h | h | h | h | h | h <;> rw [h] at hctl ⊢ <;> first | omega | (exact absurd rfl hctl)
      have hlen : (f.data.take (m - (encodeHeader f.h).length)).length ≤ f.data.length := by
        simp only [List.length_take]; omega
      have hdat := hdat hle
      cases q with
      | none =>
        obtain ⟨hop, hfit⟩ := hdat
        have hnc : (f.h.opcode == opCont) = false := by
          rcases hop with h | h <;> rw [h] <;> decide
        obtain ⟨n', e⟩ := dataStep_idle_fit inf cfg [] (stateOf L dict idx none) f.h
          (f.data.take (m - (encodeHeader f.h).length)) rfl hnc hr1 (by
            rw [limitFor_nil, hL]
            unfold allowance
            split
            · left; omega
            · right; omega)
        rw [e]
        refine ⟨_, rfl, Or.inr ⟨_, _, rfl, f.data, List.take_prefix _ _, rfl⟩⟩
      | some ta =>
        obtain ⟨typ, acc⟩ := ta
        obtain ⟨hop, hfit⟩ := hdat
        obtain ⟨n', e⟩ := dataStep_plain_fit inf cfg [] (stateOf L dict idx (some (typ, acc))) f.h
          (f.data.take (m - (encodeHeader f.h).length)) typ acc _ rfl hop (by
            split
            · left; omega
            · right; omega)
        rw [e]
        refine ⟨_, rfl, Or.inr ⟨_, _, rfl, acc ++ f.data, ?_, rfl⟩⟩
        exact (List.prefix_append_right_inj acc).mpr (List.take_prefix _ _)

/-- **cut inside a valid uncompressed stream**: the stream `pre ++ [f] ++ post` is cut after `m`
bytes of frame `f`.  Every message completed by `pre` is delivered intact (the reference events of
`pre`), then reading fails, and the bytes handed out for the message in progress are a prefix of
that message's payload. -/
theorem cut_valid_stream (L : Int) (hL : cfg.limit = L) (pre post : List Frame) (f : Frame) (m : Nat)
    (hwf : ∀ g ∈ pre ++ f :: post, Frame.WF g) (hv : ValidSeq cfg L none (pre ++ f :: post))
    (hm0 : 0 < m) (hm : m < (encodeFrame f).length) :
    ∃ final, readStream inf cfg [] (encodeAll pre ++ (encodeFrame f).take m) = (specRun none pre).1 ++ [final] ∧
      (final = .fail .io ∨
        ∃ typ avail, final = .partialMsg typ avail .io false ∧
          ∃ full, avail <+: full ∧
            (match (specRun none pre).2 with
             | none => full = f.data
             | some (_, acc) => full = acc ++ f.data)) := by
  have hwfpre : ∀ g ∈ pre, Frame.WF g := fun g hg => hwf g (List.mem_append_left _ hg)
  have hwff : Frame.WF f := hwf f (by simp)
  obtain ⟨hvpre, hvf⟩ := validSeq_append cfg L none pre (f :: post) hv
  have hrun := WS.Props.C03.valid_run inf cfg L hL none [] 0 pre (cutTail f m) hvpre
  obtain ⟨final, hfinal, hprop⟩ := cut_tail_run inf cfg L hL []
    (0 + (pre.filter (fun f => f.h.opcode == opText || f.h.opcode == opBinary)).length)
    (specRun none pre).2 f post m hvf
  refine ⟨final, ?_, hprop⟩
  unfold readStream
  rw [parse_cut pre f m hwfpre hwff hm0 hm]
  dsimp only
  rw [← hfinal]
  exact hrun

/-- cut exactly at a frame boundary. -/
theorem cut_at_boundary (L : Int) (hL : cfg.limit = L) (pre post : List Frame)
    (hwf : ∀ g ∈ pre ++ post, Frame.WF g) (hv : ValidSeq cfg L none (pre ++ post)) :
    ∃ final, readStream inf cfg [] (encodeAll pre) = (specRun none pre).1 ++ [final] ∧
      (final = .fail .io ∨ ∃ typ acc, final = .partialMsg typ acc .io false ∧ (specRun none pre).2 = some (typ, acc)) := by
  have hwfpre : ∀ g ∈ pre, Frame.WF g := fun g hg => hwf g (List.mem_append_left _ hg)
  obtain ⟨hvpre, _⟩ := validSeq_append cfg L none pre post hv
  have hrun := WS.Props.C03.valid_run inf cfg L hL none [] 0 pre .clean hvpre
  rw [runReader, stopIn_stateOf_io] at hrun
  unfold readStream
  rw [parse_encodeAll pre hwfpre]
  dsimp only
  refine ⟨_, hrun, ?_⟩
  generalize (specRun none pre).2 = q
  cases q with
  | none => exact Or.inl rfl
  | some ta =>
    obtain ⟨typ, acc⟩ := ta
    exact Or.inr ⟨typ, acc, rfl, rfl⟩

end WS.Props.C04
