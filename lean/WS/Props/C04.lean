import WS.Props.C03
/-
  C04 — No silent truncation.
-/
namespace WS.Props.C04
open WS WS.Model WS.Spec WS.Props.FrameCodec

variable (inf : Inflate) (cfg : RCfg) (limits : List Int)

/-- For **every** stream (valid or not, compressed or not, any limits): each clean end of a message
is backed by a completely received data frame with FIN set. -/
theorem msgs_le_fins (st : RState) (fs : List Frame) (tl : Tail) :
    ((runReader inf cfg limits st fs tl).filter isMsg).length ≤
      (fs.filter (fun f => f.h.fin && isData f.h.opcode)).length := by
  sorry

/-- whatever is left after the last complete frame never completes a message, and reading it fails. -/
theorem tail_never_completes (st : RState) (tl : Tail) :
    (∀ ev ∈ runReader inf cfg limits st [] tl, isMsg ev = false) ∧
    (∃ ev ∈ runReader inf cfg limits st [] tl, isFailure ev = true) := by
  sorry

/-- unmasking commutes with taking a prefix: the bytes available before a cut unmask to a prefix
of the frame's data. -/
theorem data_prefix (f : Frame) (k : Nat) :
    (if f.h.masked then xorKey f.h.key (f.payload.take k) else f.payload.take k) = f.data.take k := by
  sorry

/-- **cut inside a valid uncompressed stream**: the stream `pre ++ [f] ++ post` is cut after `m`
bytes of frame `f`.  Every message completed by `pre` is delivered intact (the reference events of
`pre`), then reading fails, and the bytes handed out for the message in progress are a prefix of
that message's payload. -/
theorem cut_valid_stream (L : Int) (hL : cfg.limit = L) (pre post : List Frame) (f : Frame) (m : Nat)
    (hwf : ∀ g ∈ pre ++ f :: post, Frame.WF g) (hv : ValidSeq cfg L none (pre ++ f :: post))
    (hm0 : 0 < m) (hm : m < (encodeFrame f).length) :
    ∃ final, readStream inf cfg [] (encodeAll pre ++ (encodeFrame f).take m) = (specRun none pre).1 ++ [final] ∧
      (final = .fail .io ∨
        ∃ typ avail, final = .partialMsg typ avail .io false ∧
          ∃ full, avail <+: full ∧
            (match (specRun none pre).2 with
             | none => full = f.data
             | some (_, acc) => full = acc ++ f.data)) := by
  sorry

/-- cut exactly at a frame boundary. -/
theorem cut_at_boundary (L : Int) (hL : cfg.limit = L) (pre post : List Frame)
    (hwf : ∀ g ∈ pre ++ post, Frame.WF g) (hv : ValidSeq cfg L none (pre ++ post)) :
    ∃ final, readStream inf cfg [] (encodeAll pre) = (specRun none pre).1 ++ [final] ∧
      (final = .fail .io ∨ ∃ typ acc, final = .partialMsg typ acc .io false ∧ (specRun none pre).2 = some (typ, acc)) := by
  sorry

end WS.Props.C04
