import WS.Model.Window
/-
  C07 — sliding windows: whatever connections open, read, slide and close in whatever interleaving,
  and whatever sync.Pool decides to return, the dictionary a connection hands to its inflater holds
  only bytes that this connection received itself.
-/
namespace WS.Props.C07
open WS.Model.Window

def isFaulty : Op → Bool
  | .closeNoReset => true
  | _ => false

/-- every pooled window is empty; every held window holds only its holder's bytes. -/
def WInv (s : St) : Prop :=
  (∀ w ∈ s.pool, w = []) ∧ (∀ (i : Nat) (w : List Nat), s.held[i]? = some (some w) → ∀ b ∈ w, b = i)

theorem winv_init (cap : Nat) : WInv (init cap) := by
  constructor
  · intro w hw; simp [init] at hw
  · intro i w h; simp [init] at h

theorem slide_own (cap : Nat) (w : List Nat) (i n : Nat) (h : ∀ b ∈ w, b = i) :
    ∀ b ∈ slide cap w i n, b = i := by
  intro b hb
  have hb' := List.mem_of_mem_drop hb
  rcases List.mem_append.mp hb' with h1 | h1
  · exact h b h1
  · exact (List.mem_replicate.mp h1).2

theorem getElem?_set_cases {α} (l : List α) (i k : Nat) (x y : α) (h : (l.set i x)[k]? = some y) :
    (k = i ∧ y = x) ∨ (k ≠ i ∧ l[k]? = some y) := by
  rw [List.getElem?_set] at h
  split at h
  · rename_i hik
    split at h
    · left; exact ⟨hik.symm, by simpa using h.symm⟩
    · simp at h
  · rename_i hik
    right; exact ⟨fun e => hik e.symm, h⟩

theorem winv_step (s : St) (i : Nat) (op : Op) (hop : isFaulty op = false) (h : WInv s) : WInv (step s i op) := by
  obtain ⟨hp, hh⟩ := h
  cases op with
  | open_ =>
    refine ⟨hp, ?_⟩
    intro k w hk
    simp only [step] at hk
    rw [List.getElem?_append] at hk
    split at hk
    · exact hh k w hk
    · rw [List.getElem?_singleton] at hk; split at hk <;> simp at hk
  | start fromPool =>
    simp only [step]
    split
    · split
      · rename_i w rest hpool
        -- a pooled window: empty by the invariant
        have hw : w = [] := hp w (by simp [hpool])
        refine ⟨fun x hx => hp x (by simp [hpool, hx]), ?_⟩
        intro k v hk
        rcases getElem?_set_cases _ _ _ _ _ hk with ⟨_, hv⟩ | ⟨_, hv⟩
        · cases hv; subst hw; intro b hb; simp at hb
        · exact hh k v hv
      · refine ⟨hp, ?_⟩
        intro k v hk
        rcases getElem?_set_cases _ _ _ _ _ hk with ⟨_, hv⟩ | ⟨_, hv⟩
        · cases hv; intro b hb; simp at hb
        · exact hh k v hv
    · exact ⟨hp, hh⟩
  | write n =>
    simp only [step]
    split
    · rename_i w hw
      refine ⟨hp, ?_⟩
      intro k v hk
      rcases getElem?_set_cases _ _ _ _ _ hk with ⟨hki, hv⟩ | ⟨_, hv⟩
      · cases hv; subst hki; exact slide_own s.cap w k n (hh k w hw)
      · exact hh k v hv
    · exact ⟨hp, hh⟩
  | close =>
    simp only [step]
    split
    · refine ⟨fun x hx => ?_, ?_⟩
      · rcases List.mem_cons.mp hx with rfl | hx
        · rfl
        · exact hp x hx
      · intro k v hk
        rcases getElem?_set_cases _ _ _ _ _ hk with ⟨_, hv⟩ | ⟨_, hv⟩
        · cases hv
        · exact hh k v hv
    · exact ⟨hp, hh⟩
  | closeNoReset => simp [isFaulty] at hop

theorem winv_run (ops : List (Nat × Op)) : ∀ s, WInv s → (∀ o ∈ ops, isFaulty o.2 = false) → WInv (run s ops) := by
  induction ops with
  | nil => intro s h _; simpa [run] using h
  | cons o rest ih =>
    intro s h hf
    obtain ⟨i, op⟩ := o
    simp only [run]
    exact ih _ (winv_step s i op (hf (i, op) (by simp)) h) (fun o ho => hf o (by simp [ho]))

/-- **the dictionary is the connection's own**: for every window size, every interleaving of opens,
message starts (with either answer of the pool), reads of any sizes and closes on any number of
connections, every byte of the dictionary a connection hands to its inflater was received by that
connection. -/
theorem dict_own (cap : Nat) (ops : List (Nat × Op)) (hf : ∀ o ∈ ops, isFaulty o.2 = false) (i : Nat) :
    ∀ b ∈ dict (run (init cap) ops) i, b = i := by
  have h := winv_run ops (init cap) (winv_init cap) hf
  intro b hb
  unfold dict at hb
  split at hb
  · rename_i w hw; exact h.2 i w hw b hb
  · simp at hb

/-- a connection's first message starts from an empty dictionary, whatever other connections did before. -/
theorem first_dict_empty (cap : Nat) (ops : List (Nat × Op)) (hf : ∀ o ∈ ops, isFaulty o.2 = false)
    (i : Nat) (fromPool : Bool) (hnew : (run (init cap) ops).held[i]? = some none) :
    dict (step (run (init cap) ops) i (.start fromPool)) i = [] := by
  have h := winv_run ops (init cap) (winv_init cap) hf
  have hlt : i < (run (init cap) ops).held.length := by
    obtain ⟨hl, _⟩ := List.getElem?_eq_some_iff.mp hnew
    exact hl
  simp only [step, hnew]
  split
  · rename_i w rest hpool
    have hw : w = [] := h.1 w (by simp [hpool])
    simp [dict, hw, List.getElem?_set_self hlt]
  · simp [dict, List.getElem?_set_self hlt]

/-- the truncation in `slidingWindow.close` is what the invariant rests on: without it a later
connection inflates against another connection's bytes. -/
theorem unreset_window_leaks :
    dict (run (init 8) [(0, .open_), (0, .start false), (0, .write 5), (0, .closeNoReset),
                         (1, .open_), (1, .start true)]) 1 = [0, 0, 0, 0, 0] := by decide

/-- non-vacuity: the same history with the real `close`. -/
example : dict (run (init 8) [(0, .open_), (0, .start false), (0, .write 5), (0, .close),
    (1, .open_), (1, .start true), (1, .write 3), (0, .open_)]) 1 = [1, 1, 1] := by decide

end WS.Props.C07
