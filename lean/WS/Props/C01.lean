import WS.Props.C02
import WS.Props.C03
import WS.Proofs.Writer
/-
  C01 — Message round-trip fidelity.
-/
namespace WS.Props.C01
open WS WS.Model WS.Spec WS.Props.FrameCodec

/-- **round trip**: for every role, every negotiated option pair (the writer's own takeover flag
`wcfg.takeover`, the reader's `rtakeover`), every threshold, every program of `Write` / chunked
`Writer` / `Ping` calls, every key stream and every compressor output satisfying the codec law,
the peer that drains its reader over the emitted bytes receives exactly the messages written — same
types, same bytes, same order, one message per call — answers each Ping, and then sees the stream end. -/
theorem roundtrip (inf : Inflate) (wcfg : WCfg) (rtakeover : Bool) (ops : List WOp) (keys : List Bytes)
    (hwf : ∀ op ∈ ops, opWF op) (hnc : ∀ op ∈ ops, isClose op = false) (hctl : ∀ op ∈ ops, ctlOK op)
    (hk : KeysOK keys (runWriter wcfg ops keys).length)
    (hlen : ∀ f ∈ runWriter wcfg ops keys, f.h.len < 2 ^ 63)
    (hcodec : CodecOK inf wcfg rtakeover [] ops) :
    readStream inf { client := !wcfg.client, flate := wcfg.flate, takeover := rtakeover, limit := -1 } []
        (writerBytes wcfg ops keys) =
      (ops.map opEvents).flatten ++ [.fail .io] := by
  exact WS.Proofs.Writer.roundtrip inf wcfg rtakeover ops keys hwf hnc hctl hk hlen hcodec

/-- the compression tail: after any sequence of writes, what trimLastFourBytesWriter passed on
followed by the tail it withholds is exactly what was written, and it withholds min 4 total. -/
theorem trim_spec (chunks : List Bytes) :
    (trimLastFour chunks).1 ++ (trimLastFour chunks).2 = chunks.flatten ∧
    (trimLastFour chunks).2.length = min 4 chunks.flatten.length := by
  exact WS.Proofs.Writer.trim_spec chunks

/-- the sliding window after any sequence of writes is the last min(32768, total) bytes written
(this covers histories longer than the window). -/
theorem slide_spec (ws : List Bytes) :
    ws.foldl slide [] = ws.flatten.drop (ws.flatten.length - windowSize) := by
  exact WS.Proofs.Writer.slide_spec ws

end WS.Props.C01
