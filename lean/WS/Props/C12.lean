import WS.Model.Handshake
import WS.Proofs.Handshake
/-
  C12 — Cross-origin requests are refused unless the origin is explicitly authorised (decision logic
  and the pattern matcher; `url.Parse(origin).Host` is an input of the model).
-/
namespace WS.Props.C12
open WS WS.Model

/-- **the decision**: with verification on, a request with an Origin is accepted iff the origin
parses, and its host equals the request host case-insensitively or is matched by the first pattern
that is not a non-match (a malformed pattern reached before any match refuses the request). -/
theorem origin_decision (host origin : Str) (parsed : Option Str) (pats : List Str) :
    authenticateOrigin host origin parsed pats = .ok ↔
      origin = [] ∨
      ∃ h, parsed = some h ∧
        (equalFold host h = true ∨
          ∃ pre p post, pats = pre ++ p :: post ∧
            (∀ q ∈ pre, glob (toLower q) (toLower h) = .no) ∧ glob (toLower p) (toLower h) = .yes) := by
  unfold authenticateOrigin
  split
  · rename_i h; simp [List.isEmpty_iff] at h; simp [h]
  · rename_i ho
    simp [List.isEmpty_iff] at ho
    split
    · simp [ho]
    · rename_i h
      split
      · rename_i he; simp [he]
      · rename_i he
        rw [Proofs.Handshake.go_ok_iff]
        simp [ho, he]

/-- an Origin that does not parse is refused, whatever the patterns. -/
theorem unparsable_refused (host origin : Str) (pats : List Str) (ho : origin ≠ []) :
    authenticateOrigin host origin none pats = .forbidden := by
  unfold authenticateOrigin
  simp [List.isEmpty_iff, ho]

/-- without patterns only the request's own host is accepted: look-alikes (suffix, prefix, sub-domain,
other port) are refused because `equalFold` is an equality on folded strings. -/
theorem no_patterns_same_host_only (host origin h : Str) (ho : origin ≠ []) :
    authenticateOrigin host origin (some h) [] = .ok ↔ host.map foldChar = h.map foldChar := by
  unfold authenticateOrigin
  simp [List.isEmpty_iff, ho, authenticateOrigin.go, equalFold]

/-- no pattern can rescue a host it does not match: if every pattern is a non-match the request is refused. -/
theorem all_patterns_fail_refused (host origin h : Str) (pats : List Str) (ho : origin ≠ [])
    (hne : equalFold host h = false) (hp : ∀ p ∈ pats, glob (toLower p) (toLower h) = .no) :
    authenticateOrigin host origin (some h) pats = .forbidden := by
  unfold authenticateOrigin
  simp [List.isEmpty_iff, ho, hne]
  exact Proofs.Handshake.go_forbidden_of_all_no h pats hp

/-- a pattern without wildcard characters matches exactly itself (so a literal OriginPattern
authorises exactly one host). -/
theorem literal_pattern_exact (p name : Str) (hp : ∀ c ∈ p, plainChar c = true) :
    glob p name = (if name = p then .yes else .no) := by
  exact Proofs.Handshake.glob_plain p name hp

/-- `*` alone matches every name without a `/`. -/
theorem star_matches_no_slash (name : Str) :
    glob ['*'] name = (if name.contains '/' then .no else .yes) := by
  exact Proofs.Handshake.glob_star name

end WS.Props.C12
