import WS.CIR.Trace
import WS.CIR.ConnTrace
/-
  Trace validation of the connection skeleton (the dynamic tie of the CIR program to the running code).

  The harness (`cirtrace.go`) runs the real library with the `sync:*` hooks, cuts the event log into one
  sequence per model thread and asks `WS.CIR.ConnTrace.check`.  These theorems say what an "accept"
  means: the sequence is exactly the observation of a control-flow path of `WS.Gen.ConnCIR.prog` that
  starts at one of the named entries and ends in a `done` node of the reported outcome — the same
  program, nodes and successor relation that the certificates of C05 / C06 / C09 / C10 / C16 / C20 are
  checked against.  (The converse — every path is accepted — is not needed for the tie: a spurious
  reject would show up as a broken correspondence on the unchanged tree, and none does.)
-/
namespace WS.Props.CIRTrace
open WS.CIR WS.CIR.Trace WS.Gen

/-- An accepted finished call that returned nil followed a path of the skeleton to a `done true` node. -/
theorem accepted_ok_is_a_path (entries : List Node) (evs : List Ev)
    (h : accepts ConnTrace.cfg ConnCIR.prog entries evs .ok = true) :
    ∃ e ∈ entries, ∃ k, Run ConnTrace.cfg ConnCIR.prog e evs k ∧ ConnCIR.prog.at k = .done true :=
  accepts_sound_ok _ _ _ _ h

/-- An accepted finished call / goroutine that ended with an error (or returns nothing) followed a path to a
`done false` node. -/
theorem accepted_err_is_a_path (entries : List Node) (evs : List Ev)
    (h : accepts ConnTrace.cfg ConnCIR.prog entries evs .err = true) :
    ∃ e ∈ entries, ∃ k, Run ConnTrace.cfg ConnCIR.prog e evs k ∧ ConnCIR.prog.at k = .done false :=
  accepts_sound_err _ _ _ _ h

/-- An accepted unfinished thread is on a path of the skeleton. -/
theorem accepted_running_is_a_path (entries : List Node) (evs : List Ev)
    (h : accepts ConnTrace.cfg ConnCIR.prog entries evs .running = true) :
    ∃ e ∈ entries, ∃ k, Run ConnTrace.cfg ConnCIR.prog e evs k :=
  accepts_sound_running _ _ _ _ h

/-- Paths of `Run` are paths of the program's control-flow graph (static successors), for every program. -/
theorem run_is_cfpath (c : Cfg) (P : Prog) (a k : Node) (evs : List Ev) (h : Run c P a evs k) : CFPath P a k :=
  run_cfpath h

/-- Every labelled move is along a static successor of the instruction (for every configuration). -/
theorem moves_are_static (c : Cfg) (i : Instr) (oe : Option Ev) (n : Node) (h : (oe, n) ∈ lsuccs c i) : n ∈ i.succs :=
  lsuccs_static c i oe n h

/-- Non-vacuity: the event sequence of an uncompressed `Write` on a fresh connection (message lock, frame
lock, arm, one whole frame, re-arm, unlocks) is accepted, and the same events with the timeout armed
before the frame lock is taken are not. -/
example : accepts ConnTrace.cfg ConnCIR.prog [ConnCIR.entryWrite]
    [.lock 2, .lock 1, .arm 1 true, .wrBegin 2, .wrEnd 2, .arm 1 false, .unlock 1, .unlock 2] .ok = true := by
  decide +kernel

example : accepts ConnTrace.cfg ConnCIR.prog [ConnCIR.entryWrite]
    [.lock 2, .arm 1 true, .lock 1, .wrBegin 2, .wrEnd 2, .arm 1 false, .unlock 1, .unlock 2] .ok = false := by
  decide +kernel

end WS.Props.CIRTrace
