import WS.Model.Handshake
import WS.Proofs.Handshake
/-
  C11 — Accept upgrades only valid WebSocket requests and answers them correctly (decision logic).
-/
namespace WS.Props.C11
open WS WS.Model WS.Spec

/-- RFC 6455 §4.2.1: the conditions under which a request is upgraded. -/
def Upgradable (r : Req) : Prop :=
  (r.protoMajor > 1 ∨ (r.protoMajor = 1 ∧ r.protoMinor ≥ 1)) ∧
  headerContainsToken r.hdr (s "Connection") (s "Upgrade") = true ∧
  headerContainsToken r.hdr (s "Upgrade") (s "websocket") = true ∧
  r.method = s "GET" ∧
  r.hdr.get (s "Sec-Websocket-Version") = s "13" ∧
  ∃ k v, r.hdr.values (s "Sec-Websocket-Key") = [k] ∧ b64Decode (trimSpace k) = some v ∧ v.length = 16

/-- **the request is accepted iff it satisfies every condition**, in whatever order the code tests them. -/
theorem accept_iff (r : Req) : verifyClientRequest r = 0 ↔ Upgradable r := by
  unfold verifyClientRequest Upgradable
  split
  · rename_i h
    simp at h
    simp
    intro hh
    omega
  have hv : (r.protoMajor > 1 ∨ (r.protoMajor = 1 ∧ r.protoMinor ≥ 1)) := by
    rename_i h
    simp at h
    omega
  split
  · simp_all
  split
  · simp_all
  split
  · simp_all
  split
  · simp_all
  split
  · simp_all
  · split
    · split <;> simp_all
    · simp_all
  · rename_i h1 h2 h3 h4 h5 l h6 h7
    simp_all

/-- every rejection carries an HTTP error status. -/
theorem reject_status (r : Req) (h : verifyClientRequest r ≠ 0) : verifyClientRequest r ≥ 400 := by
  revert h
  unfold verifyClientRequest
  repeat' split
  all_goals simp

/-- a header "contains the token" iff some comma-separated element of some header line, trimmed,
equals it case-insensitively — across several header lines and several tokens per line. -/
theorem token_iff (h : Hdr) (key tok : Str) :
    headerContainsToken h key tok = true ↔
      ∃ v ∈ h.values key, ∃ t ∈ splitOnChar ',' (trimSpace v), equalFold (trimSpace t) tok = true := by
  simp [headerContainsToken, headerTokens]

/-- the selected subprotocol is the first server-preferred protocol that the client offered (in the
client's spelling), or none. -/
theorem selectSubprotocol_spec (r : Req) (sps : List Str) :
    selectSubprotocol r sps =
      ((sps.findSome? (fun sp => (headerTokens r.hdr (s "Sec-Websocket-Protocol")).find? (fun cp => equalFold sp cp))).getD []) := by
  unfold selectSubprotocol
  simp only
  induction sps with
  | nil => simp [selectSubprotocol.go]
  | cons sp rest ih =>
    simp only [selectSubprotocol.go, List.findSome?_cons]
    split
    · rename_i cp h; simp [h]
    · rename_i h; simp [h, ih]

/-- base64 (RFC 4648) decodes what it encodes, for every byte string. -/
theorem b64_roundtrip (b : Bytes) : b64Decode (b64Encode b) = some b := by
  exact Proofs.Handshake.b64Decode_b64Encode b

/-- the encoding of n bytes has 4·⌈n/3⌉ characters; a 16-byte key has 24 and a SHA-1 digest 28. -/
theorem b64_length (b : Bytes) : (b64Encode b).length = 4 * ((b.length + 2) / 3) := by
  induction b using b64Encode.induct with
  | case1 => simp [b64Encode]
  | case2 a => simp [b64Encode]
  | case3 a b => simp [b64Encode]
  | case4 a b c rest ih => simp [b64Encode, ih]; omega

theorem sha1_length (m : Bytes) : (sha1 m).length = 20 := by
  simp [sha1, Proofs.Handshake.u32be_length]

theorem accept_value_length (key : Str) : (secWebSocketAccept key).length = 28 := by
  simp [secWebSocketAccept, b64_length, sha1_length]

end WS.Props.C11
