import WS.Spec.ReadSpec
import WS.Props.FrameCodec
import WS.Proofs.Reader
/-
  C03 — Inbound frame streams decode exactly; violations are rejected.
  Statements about `Model.runReader` / `Model.readStream` (the model of read.go tied to the
  implementation by the correspondence check) for every stream, configuration and inflater.
-/
namespace WS.Props.C03
open WS WS.Model WS.Spec WS.Props.FrameCodec

variable (inf : Inflate) (cfg : RCfg) (limits : List Int)

/-- the code's header checks accept exactly the headers RFC 6455 allows. -/
theorem headerCheck_iff (h : Header) : headerCheck cfg h = none ↔ HeaderOK cfg h := by
  exact WS.Proofs.Reader.headerCheck_iff cfg h

/-- the first frame that violates a header rule stops reading … -/
theorem violation_stops (st : RState) (f : Frame) (rest : List Frame) (tl : Tail) (why : Stop)
    (h : headerCheck cfg f.h = some why) :
    runReader inf cfg limits st (f :: rest) tl = stopIn inf cfg limits st why := by
  rw [runReader, h]

/-- … and stopping never delivers a message: neither the violating frame's data nor anything
after it is handed out as a complete message. -/
theorem stopIn_no_msg (st : RState) (why : Stop) :
    ∀ ev ∈ stopIn inf cfg limits st why, isMsg ev = false := by
  intro ev hev
  unfold stopIn at hev
  split at hev
  all_goals
    simp only [List.mem_append, List.mem_singleton] at hev
    rcases hev with hev | hev
    · exact WS.Proofs.Reader.stopReplies_no_msg why ev hev
    · subst hev; rfl

/-- a stop always reports a failure to the caller. -/
theorem stopIn_fails (st : RState) (why : Stop) :
    ∃ ev ∈ stopIn inf cfg limits st why, isFailure ev = true := by
  unfold stopIn
  split
  · exact ⟨_, List.mem_append_right _ (List.mem_singleton.2 rfl), rfl⟩
  · exact ⟨_, List.mem_append_right _ (List.mem_singleton.2 rfl), rfl⟩
  · exact ⟨_, List.mem_append_right _ (List.mem_singleton.2 rfl), rfl⟩

/-- protocol violations and limit overruns are answered with the matching Close frame. -/
theorem stopIn_close_code (st : RState) :
    (.reply opClose (closePayload 1002 []) ∈ stopIn inf cfg limits st .proto) ∧
    (.reply opClose (closePayload 1009 []) ∈ stopIn inf cfg limits st .limit) := by
  unfold stopIn
  constructor <;> split <;> simp [stopReplies]

/-- continuation frame with no message in progress. -/
theorem cont_without_message (st : RState) (f : Frame) (rest : List Frame) (tl : Tail)
    (hm : st.mode = .idle) (hc : headerCheck cfg f.h = none) (ho : f.h.opcode = opCont) :
    runReader inf cfg limits st (f :: rest) tl = stopIn inf cfg limits st .proto := by
  rw [runReader, hc]
  simp only [ho, dataStep, hm]
  simp [opCont, opPing, opPong, opClose]

/-- a new text/binary frame while a message is in progress. -/
theorem new_message_inside (st : RState) (f : Frame) (rest : List Frame) (tl : Tail)
    (hm : st.mode ≠ .idle) (hc : headerCheck cfg f.h = none)
    (ho : f.h.opcode = opText ∨ f.h.opcode = opBinary) :
    runReader inf cfg limits st (f :: rest) tl = stopIn inf cfg limits st .proto := by
  rw [runReader, hc]
  unfold dataStep
  cases hmode : st.mode with
  | idle => exact absurd hmode hm
  | plain typ acc n =>
    rcases ho with ho | ho <;> simp only [ho] <;>
      simp [opCont, opPing, opPong, opClose, opText, opBinary]
  | comp typ z =>
    rcases ho with ho | ho <;> simp only [ho] <;>
      simp [opCont, opPing, opPong, opClose, opText, opBinary]

/-- malformed Close payload. -/
theorem bad_close_payload (st : RState) (f : Frame) (rest : List Frame) (tl : Tail)
    (hc : headerCheck cfg f.h = none) (ho : f.h.opcode = opClose)
    (hp : parseClosePayload f.data = .bad) :
    runReader inf cfg limits st (f :: rest) tl = stopIn inf cfg limits st .proto := by
  rw [runReader, hc]
  simp only [ho, hp]
  simp [opPing, opPong, opClose]

/-- a length with the top bit set is rejected. -/
theorem negative_length (st : RState) :
    runReader inf cfg limits st [] .negative = stopIn inf cfg limits st .protoNoClose := by
  rw [runReader]

/-- **valid streams decode exactly**: for every valid uncompressed frame sequence (any
fragmentation, empty fragments, control frames anywhere) whose messages fit the limit, the
reader produces exactly the reference events and continues from the reference state. -/
theorem valid_run (L : Int) (hL : cfg.limit = L) (p : Pending) (dict : Bytes) (idx : Nat)
    (fs : List Frame) (tl : Tail) (hv : ValidSeq cfg L p fs) :
    runReader inf cfg [] (stateOf L dict idx p) fs tl =
      (specRun p fs).1 ++
        runReader inf cfg [] (stateOf L dict (idx + (fs.filter (fun f => f.h.opcode == opText || f.h.opcode == opBinary)).length) (specRun p fs).2) [] tl := by
  exact WS.Proofs.Reader.valid_run inf cfg L hL p dict idx fs tl hv

/-- byte-level corollary: a well-formed valid stream decodes to the reference events, then the
read fails because the transport ended. -/
theorem valid_stream_decodes (L : Int) (hL : cfg.limit = L) (fs : List Frame)
    (hwf : ∀ f ∈ fs, Frame.WF f) (hv : ValidSeq cfg L none fs) :
    ∃ st, readStream inf cfg [] (encodeAll fs) = (specRun none fs).1 ++ stopIn inf cfg [] st .io := by
  exact WS.Proofs.Reader.valid_stream_decodes inf cfg L hL fs hwf hv

end WS.Props.C03
