import WS.Props.CIRCert.CloseSent
/-
  C16 — Nothing follows a Close frame.
-/
namespace WS.Props.C16
open WS.CIR WS.Gen WS.Props.CIRCert

/-- **in every reachable state of the connection skeleton** — whichever goroutines are still
writing, whoever initiated the close (local Close, echo of the peer's Close, or a Close written
because of a protocol error, the read limit or a CloseRead policy violation: all go through
`writeClose`/`writeFrame`) — no data frame and no second Close frame begins after a Close frame. -/
theorem nothing_after_close (g : G) (hr : Reach ConnCIR.prog g) :
    CloseSent.NothingAfterClose Specs.closeSpec g.wire = true :=
  CloseSent.sound _ _ _ _ closesent_ok g hr

/-- every frame header is written by `writeFrame`, which tests `closeSent` under writeFrameMu first
(for data and close frames): the only `wr` nodes are those of the writeFrame template, all under the lock. -/
theorem single_emission_point :
    (List.range ConnCIR.prog.code.length).all (fun n =>
      match ConnCIR.prog.at n with
      | .wr k _ _ =>
        (Lockset.held ConnCIR.lockCert n).contains Specs.lWriteFrameMu &&
        (Specs.closeSpec.piece k == .other || CloseSent.know ConnCIR.closeKnow n != .unknown)
      | _ => true) = true := by decide +kernel

end WS.Props.C16
