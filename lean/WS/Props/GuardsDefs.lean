import WS.Model.Guard
import WS.Gen.Guards
import WS.Model.Reader
import WS.Model.Handshake
/-
  Definitions (valuations, decision tables) for WS/Props/Guards.lean.
  The decision skeletons regenerated from read.go / write.go (WS/Gen/Guards.lean) against the models and
  against decision tables stated outright, on every valuation of their atoms.  Each theorem is closed by
  kernel evaluation over the whole (finite) domain, so it holds for whatever program the translator
  produced from the current sources: an equivalent re-writing of a condition passes, a change of meaning
  fails — and the failing valuation is found by running the same comparison in the harness.
-/
namespace WS.Props.Guards
open WS WS.Model WS.Model.Guard WS.Gen.Guards

def b2s (b : Bool) : String := if b then "true" else "false"

def hdr (fin rsv1 rsv2 rsv3 masked : Bool) (op : Nat) : Header :=
  { fin := fin, rsv1 := rsv1, rsv2 := rsv2, rsv3 := rsv3, opcode := op, len := 0, masked := masked, key := [] }

def rcfg (client flate : Bool) : RCfg := { client := client, flate := flate, takeover := true, limit := 32768 }

def envRSV1 (flate : Bool) (op : Nat) : Env :=
  { b := fun n => if n = "flate()" then some flate else none,
    i := fun n => if n = "h.opcode" then some (op : Int) else none,
    fn := fun _ => none }

def envReadLoop (rsv1 rsv2 rsv3 masked client flate ioErr closeStatus : Bool) (op : Nat) : Env :=
  { b := fun n =>
      if n = "h.rsv1" then some rsv1 else if n = "h.rsv2" then some rsv2 else if n = "h.rsv3" then some rsv3
      else if n = "h.masked" then some masked else if n = "client" then some client
      else if n = "flate()" then some flate else if n = "err!=nil" then some ioErr
      else if n = "CloseStatus(err)!=-1" then some closeStatus else none,
    i := fun n => if n = "h.opcode" then some (op : Int) else none,
    fn := fun n => if n = "readRSV1Illegal" then some c_Conn_readRSV1Illegal else none }

/-- what readLoop must do with a frame header according to the reader model's `headerCheck`
(length and FIN of control frames are checked later, by handleControl). -/
def readLoopExpected (rsv1 rsv2 rsv3 masked client flate ioErr : Bool) (op : Nat) : Res :=
  if ioErr then ⟨["readFrameHeader"], .ret "err"⟩
  else
    match headerCheck (rcfg client flate) (hdr true rsv1 rsv2 rsv3 masked op) with
    | some .protoNoClose => ⟨["readFrameHeader"], .ret "err"⟩
    | some _ => ⟨["readFrameHeader", "writeError"], .ret "err"⟩
    | none =>
      if isControl op then ⟨["readFrameHeader", "handleControl"], .opaque "next iteration"⟩
      else ⟨["readFrameHeader"], .ret "ok"⟩

def envTakeover (client cnct snct : Bool) : Env :=
  { b := fun n => if n = "client" then some client else if n = "copts.clientNoContextTakeover" then some cnct
      else if n = "copts.serverNoContextTakeover" then some snct else none,
    i := fun _ => none, fn := fun _ => none }

def envWriteFrame (closeSent client flate fin lockErr staleRsv1 staleFin : Bool) (op : Nat) (through : Bool) : Env :=
  { b := fun n => if n = "closeSent" then some closeSent else if n = "client" then some client
      else if n = "flate" then some flate else if n = "fin" then some fin
      else if n = "err!=nil" then some lockErr
      -- the write header is reused from frame to frame: what the previous frame left in it
      else if n = "writeHeader.rsv1" then some staleRsv1 else if n = "writeHeader.fin" then some staleFin
      else if n = "writeHeader.masked" then some client else none,
    i := fun n => if n = "opcode" then some (op : Int) else none,
    fn := fun _ => none,
    pass := fun w => through && w = "select",
    obs := fun w => if w = "writeFrameHeader" then ["writeHeader.fin", "writeHeader.rsv1", "writeHeader.masked"] else [] }

/-- the decision table of the post-Close guard. -/
def writeFrameGuardExpected (closeSent lockErr : Bool) (op : Nat) : Res :=
  if lockErr then ⟨["writeFrameMu.lock"], .ret "err"⟩
  else if closeSent && op != 9 && op != 10 then ⟨["writeFrameMu.lock"], .ret "err"⟩
  else ⟨["writeFrameMu.lock"], .opaque "select"⟩

/-- the steps of an emission on which nothing fails, with the header bits in force when the header is written:
FIN as asked, RSV1 exactly on the first frame of a compressed message (never on control or continuation frames,
whatever the previous frame left in the reused header), MASK exactly for a client. -/
def writeFrameEmissionExpected (client flate fin : Bool) (op : Nat) : Res :=
  ⟨["writeFrameMu.lock"] ++ (if op = 8 then ["set closeSent"] else []) ++
    ["writeFrameHeader[writeHeader.fin=" ++ b2s fin ++ ",writeHeader.rsv1=" ++ b2s (flate && (op = 1 || op = 2))
      ++ ",writeHeader.masked=" ++ b2s client ++ "]", "writeFramePayload"]
    ++ (if fin then ["bw.Flush"] else []), .ret "ok"⟩

def envReader (msgFin ioErr : Bool) (op : Nat) : Env :=
  { b := fun n => if n = "msgReader.fin" then some msgFin else if n = "err!=nil" then some ioErr else none,
    i := fun n => if n = "h.opcode" then some (op : Int) else none,
    fn := fun _ => none }

def readerExpected (msgFin ioErr : Bool) (op : Nat) : Res :=
  if ioErr then ⟨["readMu.lock"], .ret "err"⟩
  else if !msgFin then ⟨["readMu.lock"], .ret "err"⟩
  else if op = 0 then ⟨["readMu.lock", "readLoop", "writeError"], .ret "err"⟩
  else ⟨["readMu.lock", "readLoop", "msgReader.reset"], .ret "ok"⟩

def envMsgRead (frameDone fin flate client ioErr big : Bool) (op : Nat) : Env :=
  { b := fun n => if n = "fin" then some fin else if n = "flate" then some flate else if n = "client" then some client
      else if n = "err!=nil" then some ioErr else if n = "payloadLength<int64(len(p))" then some big else none,
    i := fun n => if n = "h.opcode" then some (op : Int) else if n = "payloadLength" then some (if frameDone then 0 else 1) else none,
    fn := fun _ => none }

def msgReadExpected (fin flate : Bool) (op : Nat) : Res :=
  if fin then (if flate then ⟨["flateTail.Read"], .ret "ok"⟩ else ⟨[], .ret "err"⟩)
  else if op != 0 then ⟨["readLoop", "writeError"], .ret "err"⟩
  else ⟨["readLoop", "setFrame"], .opaque "next iteration"⟩


/-! ### msgWriter.Write / msgWriter.Close: when compression switches on, what a finished message releases -/

def envMsgWrite (lockErr closed flateNeg flateOn big : Bool) (op : Nat) : Env :=
  { b := fun n => if n = "err!=nil" then some lockErr else if n = "closed" then some closed
      else if n = "flate()" then some flateNeg else if n = "flate" then some flateOn
      else if n = "len(p)<flateThreshold" then some (!big) else none,
    i := fun n => if n = "opcode" then some (op : Int) else none,
    fn := fun _ => none }

/-- compression is switched on for a message exactly when it was negotiated, the chunk is the message's first
frame (the writer's opcode is not yet `continuation`) and the chunk reaches the threshold; a closed writer
writes nothing. -/
def msgWriteExpected (lockErr closed flateNeg flateOn big : Bool) (op : Nat) : Res :=
  if lockErr then ⟨["writeMu.lock"], .ret "err"⟩
  else if closed then ⟨["writeMu.lock"], .ret "err"⟩
  else
    let pre := ["writeMu.lock"] ++ (if flateNeg && op != 0 && big then ["ensureFlate"] else [])
    if flateOn then ⟨pre ++ ["flateWriter.Write"], .ret "ok"⟩ else ⟨pre ++ ["write"], .ret "ok"⟩

def envMsgClose (lockErr closed flateOn takeover : Bool) : Env :=
  { b := fun n => if n = "err!=nil" then some lockErr else if n = "closed" then some closed
      else if n = "flate" then some flateOn else if n = "flateContextTakeover()" then some takeover else none,
    i := fun _ => none, fn := fun _ => none }

/-- Close marks the writer closed before anything is sent, flushes the compressor of a compressed message, sends
the final frame, gives the compressor back exactly when its context is not to be kept, and releases the
message lock only after the final frame was written. -/
def msgCloseExpected (lockErr closed flateOn takeover : Bool) : Res :=
  if lockErr then ⟨["writeMu.lock"], .ret "err"⟩
  else if closed then ⟨["writeMu.lock"], .ret "err"⟩
  else ⟨["writeMu.lock", "set closed"] ++ (if flateOn then ["flateWriter.Flush"] else []) ++ ["writeFrame"]
      ++ (if flateOn && !takeover then ["putFlateWriter"] else []) ++ ["mu.unlock"], .ret "ok"⟩

end WS.Props.Guards
