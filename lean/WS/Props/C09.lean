import WS.Props.C10
import WS.Props.C20
/-
  C09 — Close, CloseNow and blocked calls end in bounded time whatever the peer does.
  What a theorem can carry is *guardedness*: every step of Close / CloseNow that can block has an
  escape that does not depend on the peer.  Turning guardedness into seconds needs the runtime
  ("closing the transport unblocks pending I/O", timers fire): that part is measured by the harness.
-/
namespace WS.Props.C09
open WS.CIR WS.Gen WS.Props.CIRCert

/-- CloseNow never touches the transport and never arms a timeout: nothing on its paths waits for
the peer (decidable fact about the skeleton). -/
theorem closenow_no_transport_io :
    (reachFrom ConnCIR.prog ConnCIR.entryCloseNow).all (fun n =>
      match ConnCIR.prog.at n with
      | .io _ _ => false
      | .wr _ _ _ => false
      | .arm _ _ _ _ => false
      | _ => true) = true := by decide +kernel

/-- the only unconditional waits (forceLock) in the whole skeleton are the four locks taken by
`Conn.close` (closeMu, then writeFrameMu / msgWriter.writeMu / readMu after the transport was closed). -/
theorem forcelocks_only_in_close :
    (List.range ConnCIR.prog.code.length).all (fun n =>
      match ConnCIR.prog.at n with
      | .forceLock m _ => m == 4 || m == 0 || m == 1 || m == 3
      | _ => true) = true := by decide +kernel

/-- every transport read or write — in particular those of Close's close handshake and of the
payload discard loop — is performed with the caller's (5 s) context in the timeout slot: the timeout
goroutine bounds it. (This is `C10.blocked_call_ctx_armed`; it holds on Close's paths too.) -/
theorem close_io_guarded (g : G) (hr : Reach ConnCIR.prog g) (t n : Nat) (hn : g.pcs[t]? = some n) :
    (∀ ok err, ConnCIR.prog.at n = .io ok err → g.slot 0 = some t) ∧
    (∀ k ok err, ConnCIR.prog.at n = .wr k ok err → g.slot 1 = some t) :=
  WS.Props.C10.blocked_call_ctx_armed g hr t n hn

/-- every other blocking step has an escape edge by construction of the instruction set: `lock`
gives up when its context ends or the connection closes, `await` when its timer fires. -/
theorem lock_and_await_can_give_up (t m ok err : Nat) (g : G) :
    TStep t (.lock m ok err) g (g.move t err) ∧ ∀ ch to, TStep t (.await ch ok to) g (g.move t to) :=
  ⟨TStep.lockErr m ok err g, fun ch to => TStep.awaitTimeout ch ok to g⟩

/-- the CloseRead goroutine never waits for itself (the defect behind the 20 s delay of the
CloseRead context). -/
theorem closeread_no_self_join :
    (reachFrom ConnCIR.prog ConnCIR.closeReadGoroutine).all (fun n =>
      match ConnCIR.prog.at n with
      | .await ch _ _ => ch != Specs.chCloseReadDone
      | _ => true) = true :=
  WS.Props.C20.closeread_goroutine_never_awaits_itself

end WS.Props.C09
