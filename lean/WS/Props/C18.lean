import WS.Model.NetConn
import WS.Proofs.NetConn
/-
  C18 — NetConn is a faithful byte stream with correct EOF, type check and deadlines (model of netconn.go).
-/
namespace WS.Props.C18
open WS WS.Model.NetConn

/-- all messages have the adapter's type. -/
def AllTyped (t : Nat) (ms : List Msg) : Prop := ∀ m ∈ ms, m.typ = t

/-- **byte-stream fidelity**: for every sequence of messages of the right type (any sizes, empty ones
included) and every sequence of read-buffer sizes ≥ 1, the bytes returned are a prefix of the
concatenation of the payloads, in order, nothing lost, nothing duplicated … -/
theorem reads_prefix (t : Nat) (ms : List Msg) (fin : End) (ks : List Nat)
    (ht : AllTyped t ms) (hk : ∀ k ∈ ks, 1 ≤ k) :
    bytesOf (reads ks (init t ms fin)).1 <+: (ms.map (·.data)).flatten := by
  have h := WS.Proofs.NetConn.reads_inv ks (init t ms fin) ht
  have hp : pending (init t ms fin) = (ms.map (·.data)).flatten := by simp [pending, init]
  rw [hp] at h
  exact ⟨_, h.symm⟩

/-- progress of the read loop for any sufficient fuel (each message costs at most two iterations:
starting it and, if it is empty, skipping it; a first version of `readN` with fuel `rest.length + 2`
was too small and was corrected to `2 * rest.length + 3`). -/
theorem read_progress_corrected (s : State) (k : Nat) (hk : 1 ≤ k) (hf : s.failed = false) (he : s.eofed = false)
    (ht : AllTyped s.msgType s.rest) (hp : pending s ≠ [])
    (fuel : Nat) (hfuel : 2 * s.rest.length + 2 ≤ fuel) :
    ∃ b, (read k fuel s).1 = .data b ∧ b ≠ [] ∧ b.length ≤ k ∧ pending s = b ++ pending (read k fuel s).2 := by
  have hn : WS.Proofs.NetConn.need s ≤ fuel := by
    have : s.cur.isSome.toNat ≤ 1 := Bool.toNat_le _
    simp only [WS.Proofs.NetConn.need]; omega
  obtain ⟨b, hb, hne, hlen⟩ := WS.Proofs.NetConn.read_data k hk fuel s hf he ht hp hn
  refine ⟨b, hb, hne, hlen, ?_⟩
  have h3 := (WS.Proofs.NetConn.read_inv k fuel s ht).2.2
  rw [hb] at h3
  simpa [bytesOf] using h3

/-- … and every read returns at least one byte as long as bytes remain, so enough reads return
everything (no read returns `0, nil`; empty messages are skipped). -/
theorem read_progress (s : State) (k : Nat) (hk : 1 ≤ k) (hf : s.failed = false) (he : s.eofed = false)
    (ht : AllTyped s.msgType s.rest) (hp : pending s ≠ []) :
    ∃ b, (readN s k).1 = .data b ∧ b ≠ [] ∧ b.length ≤ k ∧ pending s = b ++ pending (readN s k).2 := by
  unfold readN
  exact read_progress_corrected s k hk hf he ht hp _ (by omega)

/-- reading exactly everything: with buffers of size ≥ the total, `n` reads of size `k` … stated as:
the concatenation of what the reads return equals the whole stream once the stream is exhausted. -/
theorem reads_all (t : Nat) (ms : List Msg) (fin : End) (ks : List Nat)
    (ht : AllTyped t ms) (hk : ∀ k ∈ ks, 1 ≤ k)
    (hdone : pending (reads ks (init t ms fin)).2 = []) :
    bytesOf (reads ks (init t ms fin)).1 = (ms.map (·.data)).flatten := by
  have h := WS.Proofs.NetConn.reads_inv ks (init t ms fin) ht
  have hp : pending (init t ms fin) = (ms.map (·.data)).flatten := by simp [pending, init]
  rw [hp, hdone, List.append_nil] at h
  exact h.symm

/-- a peer's normal (1000) or going-away (1001) close reads as io.EOF, and keeps doing so. -/
theorem close_reads_eof (t : Nat) (code : Int) (hc : code = 1000 ∨ code = 1001) (k1 k2 : Nat) :
    let s0 := init t [] (.closeErr code)
    (readN s0 k1).1 = .eof ∧ (readN (readN s0 k1).2 k2).1 = .eof := by
  simp [readN, Model.NetConn.read, init, hc]

/-- any other close code, or any other failure, surfaces as an error. -/
theorem other_close_is_error (t : Nat) (code : Int) (hc : code ≠ 1000 ∧ code ≠ 1001) (k : Nat) :
    (readN (init t [] (.closeErr code)) k).1 = .err ∧ (readN (init t [] .otherErr) k).1 = .err := by
  simp [readN, Model.NetConn.read, init, hc.1, hc.2]

/-- a message of the wrong type fails the read and a Close frame with status 1003 is sent. -/
theorem wrong_type_fails (t : Nat) (m : Msg) (ms : List Msg) (fin : End) (k : Nat) (hm : m.typ ≠ t) :
    (readN (init t (m :: ms) fin) k).1 = .err ∧ (readN (init t (m :: ms) fin) k).2.close1003 = true := by
  simp [readN, Model.NetConn.read, init, hm]

/-- **idle deadline**: a timer that fires while no call is active only sets the expired flag: calls
fail with a deadline error until the deadline is set again, and the connection was not touched. -/
theorem idle_deadline (s : DL) (hi : s.active = false) :
    callAllowed (dstep s .fire) = false ∧ (dstep s .fire).closed = s.closed ∧
    callAllowed (dstep (dstep s .fire) .set) = true := by
  simp [dstep, callAllowed, hi]

/-- **active deadline**: a timer that fires during a call cancels that call's context, which closes
the connection (C10); the expired flag is not set. -/
theorem active_deadline (s : DL) (ha : s.active = true) :
    (dstep s .fire).closed = true ∧ (dstep s .fire).expired = s.expired := by
  simp [dstep, ha]

end WS.Props.C18
