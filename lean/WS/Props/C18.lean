import WS.Model.NetConn
import WS.Proofs.NetConn
/-
  C18 — NetConn is a faithful byte stream with correct EOF, type check and deadlines (model of netconn.go).
-/
namespace WS.Props.C18
open WS WS.Model.NetConn

/-- all messages have the adapter's type. -/
def AllTyped (t : Nat) (ms : List Msg) : Prop := ∀ m ∈ ms, m.typ = t

/-- **byte-stream fidelity**: for every sequence of messages of the right type (any sizes, empty ones
included) and every sequence of read-buffer sizes ≥ 1, the bytes returned are a prefix of the
concatenation of the payloads, in order, nothing lost, nothing duplicated … -/
theorem reads_prefix (t : Nat) (ms : List Msg) (fin : End) (ks : List Nat)
    (ht : AllTyped t ms) (hk : ∀ k ∈ ks, 1 ≤ k) :
    bytesOf (reads ks (init t ms fin)).1 <+: (ms.map (·.data)).flatten := by
  have h := WS.Proofs.NetConn.reads_inv ks (init t ms fin) ht
  have hp : pending (init t ms fin) = (ms.map (·.data)).flatten := by simp [pending, init]
  rw [hp] at h
  exact ⟨_, h.symm⟩

/-- progress of the read loop for any sufficient fuel (each message costs at most two iterations:
starting it and, if it is empty, skipping it; a first version of `readN` with fuel `rest.length + 2`
was too small and was corrected to `2 * rest.length + 3`). -/
theorem read_progress_corrected (s : State) (k : Nat) (hk : 1 ≤ k) (hf : s.failed = false) (he : s.eofed = false)
    (ht : AllTyped s.msgType s.rest) (hp : pending s ≠ [])
    (fuel : Nat) (hfuel : 2 * s.rest.length + 2 ≤ fuel) :
    ∃ b, (read k fuel s).1 = .data b ∧ b ≠ [] ∧ b.length ≤ k ∧ pending s = b ++ pending (read k fuel s).2 := by
  have hn : WS.Proofs.NetConn.need s ≤ fuel := by
    have : s.cur.isSome.toNat ≤ 1 := Bool.toNat_le _
    simp only [WS.Proofs.NetConn.need]; omega
  obtain ⟨b, hb, hne, hlen⟩ := WS.Proofs.NetConn.read_data k hk fuel s hf he ht hp hn
  refine ⟨b, hb, hne, hlen, ?_⟩
  have h3 := (WS.Proofs.NetConn.read_inv k fuel s ht).2.2
  rw [hb] at h3
  simpa [bytesOf] using h3

/-- … and every read returns at least one byte as long as bytes remain, so enough reads return
everything (no read returns `0, nil`; empty messages are skipped). -/
theorem read_progress (s : State) (k : Nat) (hk : 1 ≤ k) (hf : s.failed = false) (he : s.eofed = false)
    (ht : AllTyped s.msgType s.rest) (hp : pending s ≠ []) :
    ∃ b, (readN s k).1 = .data b ∧ b ≠ [] ∧ b.length ≤ k ∧ pending s = b ++ pending (readN s k).2 := by
  unfold readN
  exact read_progress_corrected s k hk hf he ht hp _ (by omega)

/-- reading exactly everything: with buffers of size ≥ the total, `n` reads of size `k` … stated as:
the concatenation of what the reads return equals the whole stream once the stream is exhausted. -/
theorem reads_all (t : Nat) (ms : List Msg) (fin : End) (ks : List Nat)
    (ht : AllTyped t ms) (hk : ∀ k ∈ ks, 1 ≤ k)
    (hdone : pending (reads ks (init t ms fin)).2 = []) :
    bytesOf (reads ks (init t ms fin)).1 = (ms.map (·.data)).flatten := by
  have h := WS.Proofs.NetConn.reads_inv ks (init t ms fin) ht
  have hp : pending (init t ms fin) = (ms.map (·.data)).flatten := by simp [pending, init]
  rw [hp, hdone, List.append_nil] at h
  exact h.symm

/-- a peer's normal (1000) or going-away (1001) close reads as io.EOF, and keeps doing so. -/
theorem close_reads_eof (t : Nat) (code : Int) (hc : code = 1000 ∨ code = 1001) (k1 k2 : Nat) :
    let s0 := init t [] (.closeErr code)
    (readN s0 k1).1 = .eof ∧ (readN (readN s0 k1).2 k2).1 = .eof := by
  simp [readN, Model.NetConn.read, init, hc]

/-- any other close code, or any other failure, surfaces as an error. -/
theorem other_close_is_error (t : Nat) (code : Int) (hc : code ≠ 1000 ∧ code ≠ 1001) (k : Nat) :
    (readN (init t [] (.closeErr code)) k).1 = .err ∧ (readN (init t [] .otherErr) k).1 = .err := by
  simp [readN, Model.NetConn.read, init, hc.1, hc.2]

/-- a message of the wrong type fails the read and a Close frame with status 1003 is sent. -/
theorem wrong_type_fails (t : Nat) (m : Msg) (ms : List Msg) (fin : End) (k : Nat) (hm : m.typ ≠ t) :
    (readN (init t (m :: ms) fin) k).1 = .err ∧ (readN (init t (m :: ms) fin) k).2.close1003 = true := by
  simp [readN, Model.NetConn.read, init, hm]

/-- **idle deadline**: a timer that fires while no call is active only sets the expired flag: calls
fail with a deadline error until the deadline is set again, and the connection was not touched. -/
theorem idle_deadline (s : DL) (hi : s.active = false) :
    callAllowed (dstep s .fire) = false ∧ (dstep s .fire).closed = s.closed ∧
    callAllowed (dstep (dstep s .fire) .set) = true := by
  simp [dstep, dfire, callAllowed, hi]

/-- **active deadline**: a timer that fires during a call cancels that call's context, which closes
the connection (C10); the expired flag is not set. -/
theorem active_deadline (s : DL) (ha : s.active = true) :
    (dstep s .fire).closed = true ∧ (dstep s .fire).expired = s.expired := by
  simp [dstep, dfire, ha]

/-- a deadline that is already in the past when it is set **during** an active call is a deadline that
fires during that call: the call's context is cancelled (the connection is closed) … -/
theorem past_deadline_during_call (s : DL) (ha : s.active = true) :
    (dstep s .setPast).closed = true := by
  simp [dstep, dfire, ha]

/-- … while set with no call active it only makes subsequent calls fail until the next reset. -/
theorem past_deadline_idle (s : DL) (hi : s.active = false) :
    callAllowed (dstep s .setPast) = false ∧ (dstep s .setPast).closed = s.closed ∧
    callAllowed (dstep (dstep s .setPast) .set) = true := by
  simp [dstep, dfire, callAllowed, hi]

/-! #### programs: deadlines in the past / future / zero before, between and during calls, both sides -/

def isBlocked : PEv → Bool
  | .blockedPast _ => true
  | _ => false

/-- no call is active between the steps of a program (calls are steps). -/
def Idle (s : DL2) : Prop := s.r.active = false ∧ s.w.active = false

theorem pstep_idle (s : DL2) (e : PEv) (h : Idle s) : Idle (pstep s e).1 := by
  obtain ⟨hr, hw⟩ := h
  cases e with
  | setZero sd | setFuture sd | setPast sd =>
    cases sd <;> simp [pstep, DL2.put, DL2.get, dstep, dfire, Idle, hr, hw]
  | call sd => simp [pstep, Idle, hr, hw]
  | blockedPast sd =>
    cases sd <;> simp only [pstep, DL2.get] <;> split <;>
      simp [DL2.put, dstep, dfire, Idle, hr, hw]

/-- **the connection stays usable**: whatever deadlines (past, future, zero) are set while no call is
active, in any order and on either side, and whatever calls are made between them, the connection is
never closed by the adapter. -/
theorem idle_deadlines_never_close (es : List PEv) (s : DL2) (hi : Idle s) (hc : s.closed = false)
    (hb : ∀ e ∈ es, isBlocked e = false) : (prun es s).1.closed = false := by
  induction es generalizing s with
  | nil => simpa [prun] using hc
  | cons e es ih =>
    simp only [prun]
    have hi' := pstep_idle s e hi
    have hc' : (pstep s e).1.closed = false := by
      obtain ⟨hr, hw⟩ := hi
      simp only [DL2.closed, Bool.or_eq_false_iff] at hc
      have hbe := hb e (by simp)
      cases e with
      | setZero sd | setFuture sd | setPast sd =>
        cases sd <;> simp [pstep, DL2.put, DL2.get, dstep, dfire, DL2.closed, hr, hw, hc.1, hc.2]
      | call sd => simp [pstep, DL2.closed, hc.1, hc.2]
      | blockedPast sd => simp [isBlocked] at hbe
    exact ih _ hi' hc' (fun e he => hb e (by simp [he]))

/-- **a past deadline during a blocked call fails it and closes the connection**, for every state a
program can reach in which that call was allowed to start. -/
theorem blocked_past_closes (s : DL2) (sd : Side) (hi : Idle s) (hok : callRes (s.get sd) = .ok) :
    (pstep s (.blockedPast sd)).2 = some .fail ∧ (pstep s (.blockedPast sd)).1.closed = true := by
  obtain ⟨hr, hw⟩ := hi
  cases sd
  · have hok' : callRes s.r = .ok := hok
    simp [pstep, DL2.get, hok', DL2.put, DL2.closed, dstep, dfire]
  · have hok' : callRes s.w = .ok := hok
    simp [pstep, DL2.get, hok', DL2.put, DL2.closed, dstep, dfire]

theorem dstep_closed_mono (d : DL) (e : DEv) (h : d.closed = true) : (dstep d e).closed = true := by
  cases e <;> simp only [dstep, dfire] <;> (try split) <;> simp [h]

/-- once closed, no call of either side succeeds, whatever is done to the deadlines afterwards. -/
theorem closed_calls_never_ok (es : List PEv) (s : DL2) (hr : s.r.closed = true) (hw : s.w.closed = true) :
    ∀ res ∈ (prun es s).2, res ≠ .ok := by
  induction es generalizing s with
  | nil => simp [prun]
  | cons e es ih =>
    simp only [prun]
    intro res hres
    rw [List.mem_append] at hres
    have hkeep : (pstep s e).1.r.closed = true ∧ (pstep s e).1.w.closed = true := by
      cases e with
      | setZero sd | setFuture sd | setPast sd =>
        cases sd <;> simp [pstep, DL2.put, DL2.get, dstep_closed_mono, hr, hw]
      | call sd => simp [pstep, hr, hw]
      | blockedPast sd =>
        cases sd <;> simp only [pstep, DL2.get] <;> split <;>
          simp [DL2.put, dstep_closed_mono _ _ (dstep_closed_mono _ _ (dstep_closed_mono _ _ hr)),
            dstep_closed_mono _ _ (dstep_closed_mono _ _ (dstep_closed_mono _ _ hw)), dstep_closed_mono, hr, hw]
    rcases hres with h | h
    · cases e with
      | setZero sd | setFuture sd | setPast sd => simp [pstep] at h
      | call sd =>
        cases sd <;> simp [pstep, DL2.get, callRes, hr, hw] at h <;> (subst h; split <;> simp)
      | blockedPast sd =>
        cases sd <;> simp only [pstep, DL2.get] at h <;> split at h <;> simp at h <;> subst h <;>
          simp_all [callRes]
    · exact ih _ hkeep.1 hkeep.2 res h

/-- **until the deadline is reset**: after a past deadline set while idle, calls of that side fail with
a deadline error; after the next zero / future deadline of that side they succeed again (the
connection was not touched). -/
theorem reset_restores (s : DL2) (sd : Side) (hi : Idle s) (hc : s.closed = false) :
    let s1 := (pstep s (.setPast sd)).1
    callRes (s1.get sd) = .deadline ∧
    callRes ((pstep s1 (.setZero sd)).1.get sd) = .ok ∧
    callRes ((pstep s1 (.setFuture sd)).1.get sd) = .ok := by
  obtain ⟨hr, hw⟩ := hi
  simp only [DL2.closed, Bool.or_eq_false_iff] at hc
  cases sd <;> simp [pstep, DL2.put, DL2.get, dstep, dfire, callRes, hr, hw, hc.1, hc.2]

/-- the premises are satisfiable and the program semantics is not trivial. -/
example : (prun [.setPast .r, .call .r, .call .w, .setZero .r, .call .r, .blockedPast .w, .call .r] DL2.init).2
    = [.deadline, .ok, .ok, .fail, .fail] := by decide

end WS.Props.C18
