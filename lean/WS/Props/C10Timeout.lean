import WS.Model.Timeout
/-
  C10 / C09 — the timeout goroutine (`WS.Model.Timeout`, tied to conn.go's `timeoutLoop` by driving the
  real goroutine with programs of hand-overs and cancellations). The CIR theorems of C10 say *which*
  context is in which slot; these say what the goroutine does with the slots, for every program.
-/
namespace WS.Props.C10Timeout
open WS.Model.Timeout

/-- settled: an open connection has no done context in a slot. -/
def Settled (s : St) : Prop := s.closed = false → fires s = false

theorem settle_settled (s : St) : Settled (settle s) := by
  unfold Settled settle
  by_cases h : fires s = true
  · simp [h]
  · intro _
    simp only [h]
    simpa using h

theorem step_settled (s : St) (e : Ev) (h : Settled s) : Settled (step s e) := by
  unfold step
  by_cases hc : s.closed = true
  · simp only [hc, if_true]
    cases e <;> simp [Settled, hc]
  · simp only [hc]
    cases e with
    | armRead c => exact settle_settled _
    | armWrite c => exact settle_settled _
    | cancel id => exact settle_settled _
    | connClosed => simp [Settled]

theorem run_settled (es : List Ev) (s : St) (h : Settled s) : Settled (run es s) := by
  induction es generalizing s with
  | nil => simpa [run]
  | cons e es ih => simpa [run, List.foldl] using ih (step s e) (step_settled s e h)

theorem init_settled : Settled init := by simp [Settled, init, fires, isDone]

/-- **the two directions are independent**: a hand-over on one channel leaves the other direction's
armed context as it was (the deadline of a blocked write survives any number of reads being armed and
disarmed, and vice versa). -/
theorem settle_writeCtx (s : St) : (settle s).writeCtx = s.writeCtx := by
  unfold settle; split <;> rfl

theorem settle_readCtx (s : St) : (settle s).readCtx = s.readCtx := by
  unfold settle; split <;> rfl

theorem arm_read_keeps_write (s : St) (c : Option Nat) : (step s (.armRead c)).writeCtx = s.writeCtx := by
  by_cases hc : s.closed = true
  · simp [step, hc]
  · simp [step, hc, settle_writeCtx]

theorem arm_write_keeps_read (s : St) (c : Option Nat) : (step s (.armWrite c)).readCtx = s.readCtx := by
  by_cases hc : s.closed = true
  · simp [step, hc]
  · simp [step, hc, settle_readCtx]

/-- **while blocked**: when the context in the read or the write slot ends, the connection is closed. -/
theorem armed_cancel_closes (s : St) (id : Nat) (h : s.readCtx = some id ∨ s.writeCtx = some id) :
    (step s (.cancel id)).closed = true := by
  unfold step
  by_cases hc : s.closed = true
  · simp [hc]
  · simp only [hc]
    rcases h with h | h <;> simp [settle, fires, isDone, h]

/-- **after success**: the cancellation of a context that is in neither slot does nothing to an open
connection — whatever else has happened before (every reachable state is settled). -/
theorem unarmed_cancel_harmless (s : St) (id : Nat) (hs : Settled s) (hc : s.closed = false)
    (hr : s.readCtx ≠ some id) (hw : s.writeCtx ≠ some id) :
    (step s (.cancel id)).closed = false := by
  have hf := hs hc
  unfold step
  simp only [hc]
  simp only [fires, Bool.or_eq_false_iff] at hf
  have h1 : isDone (id :: s.done) s.readCtx = false := by
    cases hrc : s.readCtx with
    | none => simp [isDone]
    | some k =>
      have hk : k ≠ id := fun h => hr (by rw [hrc, h])
      have := hf.1; simp [isDone, hrc] at this
      simp [isDone, hk, this]
  have h2 : isDone (id :: s.done) s.writeCtx = false := by
    cases hwc : s.writeCtx with
    | none => simp [isDone]
    | some k =>
      have hk : k ≠ id := fun h => hw (by rw [hwc, h])
      have := hf.2; simp [isDone, hwc] at this
      simp [isDone, hk, this]
  simp [settle, fires, h1, h2]

/-- the loop closes an open connection only when an armed context is done (or somebody else closes). -/
theorem closes_only_if_fires (s : St) (e : Ev) (hc : s.closed = false) (h : (step s e).closed = true) :
    e = .connClosed ∨ (∃ c, e = .armRead c ∧ fires { s with readCtx := c } = true) ∨
      (∃ c, e = .armWrite c ∧ fires { s with writeCtx := c } = true) ∨
      (∃ id, e = .cancel id ∧ fires { s with done := id :: s.done } = true) := by
  unfold step at h
  simp only [hc] at h
  cases e with
  | connClosed => exact Or.inl rfl
  | armRead c =>
    refine Or.inr (Or.inl ⟨c, rfl, ?_⟩)
    by_cases hf : fires { s with readCtx := c } = true
    · exact hf
    · simp only [fires] at hf
      simp [settle, fires, hf] at h
  | armWrite c =>
    refine Or.inr (Or.inr (Or.inl ⟨c, rfl, ?_⟩))
    by_cases hf : fires { s with writeCtx := c } = true
    · exact hf
    · simp only [fires] at hf
      simp [settle, fires, hf] at h
  | cancel id =>
    refine Or.inr (Or.inr (Or.inr ⟨id, rfl, ?_⟩))
    by_cases hf : fires { s with done := id :: s.done } = true
    · exact hf
    · simp only [fires] at hf
      simp [settle, fires, hf] at h

/-- end to end over programs: a call arms its context, finishes, hands Background back; whatever
happens afterwards in the *other* direction, cancelling the finished call's context closes nothing. -/
theorem finished_read_ctx_harmless (es : List Ev) (id : Nat)
    (hes : ∀ e ∈ es, e ≠ .armRead (some id) ∧ e ≠ .armWrite (some id) ∧ e ≠ .connClosed ∧ ∀ k, e ≠ .cancel k) :
    let s := run ([.armRead (some id), .armRead none] ++ es) init
    s.closed = false ∧ (step s (.cancel id)).closed = false := by
  intro s
  -- invariant along `es`: open, settled, id in neither slot, nothing done
  have key : ∀ (es : List Ev) (t : St), t.closed = false → t.done = [] → t.readCtx ≠ some id → t.writeCtx ≠ some id →
      (∀ e ∈ es, e ≠ .armRead (some id) ∧ e ≠ .armWrite (some id) ∧ e ≠ .connClosed ∧ ∀ k, e ≠ .cancel k) →
      (run es t).closed = false ∧ (run es t).done = [] ∧ (run es t).readCtx ≠ some id ∧ (run es t).writeCtx ≠ some id := by
    intro es
    induction es with
    | nil => intro t h1 h2 h3 h4 _; exact ⟨h1, h2, h3, h4⟩
    | cons e es ih =>
      intro t h1 h2 h3 h4 hall
      have he := hall e (by simp)
      have hrest : ∀ e' ∈ es, _ := fun e' h' => hall e' (by simp [h'])
      have nofire : ∀ u : St, u.done = [] → fires u = false := by
        intro u hu; cases hr : u.readCtx <;> cases hw : u.writeCtx <;> simp [fires, isDone, hr, hw, hu]
      cases e with
      | armRead c =>
        have hcne : c ≠ some id := fun h => he.1 (by rw [h])
        have : step t (.armRead c) = { t with readCtx := c } := by
          have := nofire { t with readCtx := c } h2
          simp only [fires] at this
          simp [step, h1, settle, fires, this]
        simpa [run, List.foldl, this] using ih { t with readCtx := c } h1 h2 hcne h4 hrest
      | armWrite c =>
        have hcne : c ≠ some id := fun h => he.2.1 (by rw [h])
        have : step t (.armWrite c) = { t with writeCtx := c } := by
          have := nofire { t with writeCtx := c } h2
          simp only [fires] at this
          simp [step, h1, settle, fires, this]
        simpa [run, List.foldl, this] using ih { t with writeCtx := c } h1 h2 h3 hcne hrest
      | cancel k => exact absurd rfl (he.2.2.2 k)
      | connClosed => exact absurd rfl he.2.2.1
  have h0 : run ([.armRead (some id), .armRead none] ++ es) init = run es ⟨none, none, [], false⟩ := by
    simp [run, List.foldl, step, init, settle, fires, isDone]
  have hk := key es ⟨none, none, [], false⟩ rfl rfl (by simp) (by simp) hes
  have hs : s = run es ⟨none, none, [], false⟩ := h0
  rw [hs]
  refine ⟨hk.1, ?_⟩
  apply unarmed_cancel_harmless _ id _ hk.1 hk.2.2.1 hk.2.2.2
  intro _
  cases hr : (run es ⟨none, none, [], false⟩).readCtx <;> cases hw : (run es ⟨none, none, [], false⟩).writeCtx <;>
    simp [fires, isDone, hr, hw, hk.2.1]

/-- non-vacuity, and the counter-model: with ONE slot for both directions a read that is armed and
disarmed while a write is blocked makes the loop forget the write's deadline (the two-slot loop closes
the connection when the write's context ends, the one-slot loop does not). -/
example :
    let prog := [Ev.armWrite (some 1), .armRead (some 2), .armRead none, .cancel 1]
    (run prog init).closed = true ∧ (prog.foldl step1 ⟨none, [], false⟩).closed = false := by decide

end WS.Props.C10Timeout
