import WS.Props.CIRCert.Arming
/-
  C10 — A context bounds only its own call; after success its cancellation is harmless.
  The timeout goroutine closes the connection when the context in one of its two slots ends; these
  theorems say which context is in the slots.
-/
namespace WS.Props.C10
open WS.CIR WS.Gen WS.Props.CIRCert

/-- **after success**: a Reader/Read/Write/Writer/Ping call that has returned successfully has its
context in neither timeout slot, in every reachable state — so cancelling that context afterwards
enables no transition of the timeout goroutine: it has no effect on the connection or on later calls. -/
theorem finished_call_ctx_not_armed (g : G) (hr : Reach ConnCIR.prog g) (t n : Nat)
    (hn : g.pcs[t]? = some n) (hd : ConnCIR.prog.at n = .done true)
    (hex : ConnCIR.armExempt.contains n = false) : ∀ s, g.slot s ≠ some t :=
  Arming.finished_not_armed _ _ _ _ arming_ok g hr t n hn hd hex

/-- **while blocked**: a call that is inside a transport read (write) has its own context in the
read (write) slot, so when that context ends the timeout goroutine closes the connection and the
call returns. -/
theorem blocked_call_ctx_armed (g : G) (hr : Reach ConnCIR.prog g) (t n : Nat) (hn : g.pcs[t]? = some n) :
    (∀ ok err, ConnCIR.prog.at n = .io ok err → g.slot 0 = some t) ∧
    (∀ k ok err, ConnCIR.prog.at n = .wr k ok err → g.slot 1 = some t) :=
  Arming.blocked_has_own_ctx (Specs.armSpec ConnCIR.armExempt) _ _ _ arming_ok g hr t n hn

/-- the only exempt successful returns are those of Close and CloseNow (which take no context). -/
theorem exempt_are_close_returns : ConnCIR.armExempt = ConnCIR.closeDone := by decide

end WS.Props.C10
