import WS.Model.Handshake
import WS.Props.C13Req
/-
  C13 — Dial accepts only a valid server response (decision logic).
-/
namespace WS.Props.C13
open WS WS.Model

/-- **Dial returns a connection iff** the status is 101, Connection and Upgrade name upgrade and
websocket, the accept value matches the key that was sent, the subprotocol was asked for (or is
absent), and the extensions are acceptable; the negotiated options are those of `verifyServerExtensions`. -/
theorem dial_accepts_iff (requested : List Str) (copts : Option Copts) (key : Str) (status : Nat) (h : Hdr)
    (r : Option Copts) :
    verifyServerResponse requested copts key status h = some r ↔
      status = 101 ∧
      headerContainsToken h (s "Connection") (s "Upgrade") = true ∧
      headerContainsToken h (s "Upgrade") (s "WebSocket") = true ∧
      h.get (s "Sec-Websocket-Accept") = secWebSocketAccept key ∧
      verifySubprotocol requested h = true ∧
      verifyServerExtensions copts h = .ok r := by
  unfold verifyServerResponse
  split
  · simp_all
  split
  · simp_all
  split
  · simp_all
  split
  · simp_all
  split
  · simp_all
  split <;> simp_all

/-- the subprotocol in the response must be one the client asked for (case-insensitively), or absent. -/
theorem subprotocol_ok_iff (requested : List Str) (h : Hdr) :
    verifySubprotocol requested h = true ↔
      h.get (s "Sec-Websocket-Protocol") = [] ∨ ∃ sp ∈ requested, equalFold sp (h.get (s "Sec-Websocket-Protocol")) = true := by
  simp [verifySubprotocol, List.isEmpty_iff]

/-- an accept value computed for another key is rejected (unless SHA-1/base64 collide on the two keys). -/
theorem wrong_accept_rejected (requested : List Str) (copts : Option Copts) (key other : Str) (h : Hdr)
    (ha : h.get (s "Sec-Websocket-Accept") = secWebSocketAccept other)
    (hne : secWebSocketAccept other ≠ secWebSocketAccept key) :
    verifyServerResponse requested copts key 101 h = none := by
  unfold verifyServerResponse
  simp [ha, hne]

/-- any status other than 101 is rejected whatever the headers say. -/
theorem non101_rejected (requested : List Str) (copts : Option Copts) (key : Str) (status : Nat) (h : Hdr)
    (hs : status ≠ 101) : verifyServerResponse requested copts key status h = none := by
  unfold verifyServerResponse
  simp [hs]

end WS.Props.C13
