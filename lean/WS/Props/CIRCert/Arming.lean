import WS.Gen.ConnCIR
import WS.CIR.Specs
namespace WS.Props.CIRCert
open WS.CIR WS.Gen
set_option maxRecDepth 1000000 in
theorem arming_ok : Arming.check (Specs.armSpec ConnCIR.armExempt) ConnCIR.prog ConnCIR.lockCert ⟨ConnCIR.armMay, ConnCIR.armMust⟩ = true := by decide +kernel
end WS.Props.CIRCert
