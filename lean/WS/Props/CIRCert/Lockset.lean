import WS.Gen.ConnCIR
import WS.CIR.Specs
namespace WS.Props.CIRCert
open WS.CIR WS.Gen
set_option maxRecDepth 1000000 in
/-- per-run obligation: the lock certificate of the connection skeleton checks. -/
theorem lockset_ok : Lockset.check ConnCIR.prog ConnCIR.lockCert = true := by decide +kernel
end WS.Props.CIRCert
