import WS.Gen.ConnCIR
import WS.CIR.Specs
namespace WS.Props.CIRCert
open WS.CIR WS.Gen
set_option maxRecDepth 1000000 in
theorem closesent_ok : CloseSent.check Specs.closeSpec ConnCIR.prog ConnCIR.lockCert ConnCIR.closeKnow = true := by decide +kernel
end WS.Props.CIRCert
