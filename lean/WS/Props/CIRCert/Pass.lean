import WS.Gen.ConnCIR
import WS.CIR.Specs
namespace WS.Props.CIRCert
open WS.CIR WS.Gen
set_option maxRecDepth 1000000 in
theorem pass_closed_ok : Join.checkPass fCLOSED ConnCIR.passExemptClosed ConnCIR.prog ConnCIR.passedClosed = true := by decide +kernel
set_option maxRecDepth 1000000 in
theorem pass_closing_ok : Join.checkPass Specs.fClosing ConnCIR.passExemptClosing ConnCIR.prog ConnCIR.passedClosing = true := by decide +kernel
end WS.Props.CIRCert
