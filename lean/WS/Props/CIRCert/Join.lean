import WS.Gen.ConnCIR
import WS.CIR.Specs
namespace WS.Props.CIRCert
open WS.CIR WS.Gen
set_option maxRecDepth 1000000 in
theorem join_ok : Join.checkJoin ConnCIR.prog ConnCIR.joined = true := by decide +kernel
set_option maxRecDepth 1000000 in
theorem signal_last_ok : Join.signalLast ConnCIR.prog Specs.chTimeoutLoopDone = true ∧ Join.signalLast ConnCIR.prog Specs.chCloseReadDone = true := by decide +kernel
end WS.Props.CIRCert
