import WS.Gen.ConnCIR
import WS.CIR.Specs
namespace WS.Props.CIRCert
open WS.CIR WS.Gen
set_option maxRecDepth 1000000 in
theorem frames_ok : Bracket.check Specs.frameSpec ConnCIR.prog ConnCIR.lockCert ConnCIR.frameOpen = true := by decide +kernel
end WS.Props.CIRCert
