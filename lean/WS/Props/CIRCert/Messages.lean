import WS.Gen.ConnCIR
import WS.CIR.Specs
namespace WS.Props.CIRCert
open WS.CIR WS.Gen
set_option maxRecDepth 1000000 in
theorem messages_ok : Bracket.check Specs.msgSpec ConnCIR.prog ConnCIR.lockCert ConnCIR.msgOpen = true := by decide +kernel
end WS.Props.CIRCert
