import WS.Props.CIRCert.Join
import WS.CIR.Util
/-
  C20 — No goroutine outlives a closed connection.
-/
namespace WS.Props.C20
open WS.CIR WS.Gen WS.Props.CIRCert

/-- wherever the skeleton says a goroutine has seen a done-channel closed, it is closed. -/
theorem joined_true (g : G) (hr : Reach ConnCIR.prog g) (t n : Nat) (hn : g.pcs[t]? = some n) :
    ∀ ch ∈ Join.joinedAt ConnCIR.joined n, g.sig ch = true :=
  Join.joined_sound _ _ join_ok g hr t n hn

/-- every successful return of Close and CloseNow has seen `timeoutLoopDone` closed (decidable fact
about the certificate) … -/
theorem close_returns_joined :
    ConnCIR.closeDone.all (fun n => (Join.joinedAt ConnCIR.joined n).contains Specs.chTimeoutLoopDone) = true := by
  decide +kernel

/-- … **so when Close or CloseNow has returned successfully the timeout goroutine has exited**:
`timeoutLoopDone` is closed, and it is only closed as the goroutine's last action. -/
theorem closed_then_timeoutloop_exited (g : G) (hr : Reach ConnCIR.prog g) (t n : Nat)
    (hn : g.pcs[t]? = some n) (hc : n ∈ ConnCIR.closeDone) :
    g.sig Specs.chTimeoutLoopDone = true ∧
    ∃ (t' n' : Nat), g.pcs[t']? = some n' ∧ ∃ ok, ConnCIR.prog.at n' = .done ok := by
  have hj := joined_true g hr t n hn Specs.chTimeoutLoopDone (by
    have h := close_returns_joined
    rw [List.all_eq_true] at h
    have := h n hc
    simpa using this)
  exact ⟨hj, Join.signalled_exited _ _ signal_last_ok.1 g hr hj⟩

/-- the CloseRead reader is joined whenever it had been started: on the path of waitGoroutines
where `closeRead` tests true the successful continuation has seen `closeReadDone` closed. -/
theorem closeread_joined_when_started :
    (List.range ConnCIR.prog.code.length).all (fun n =>
      match ConnCIR.prog.at n with
      | .await ch ok _ => ch != Specs.chCloseReadDone || (Join.joinedAt ConnCIR.joined ok).contains Specs.chCloseReadDone
      | _ => true) = true := by decide +kernel

/-- **no self-join**: the CloseRead goroutine never waits for `closeReadDone` (which only it closes):
no such await is reachable from its entry. -/
theorem closeread_goroutine_never_awaits_itself :
    (reachFrom ConnCIR.prog ConnCIR.closeReadGoroutine).all (fun n =>
      match ConnCIR.prog.at n with
      | .await ch _ _ => ch != Specs.chCloseReadDone
      | _ => true) = true := by decide +kernel

end WS.Props.C20
