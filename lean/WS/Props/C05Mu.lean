import WS.Model.Mu
/-
  C05 (and C07, C10) rest on the connection's channel mutexes: the CIR semantics treats `lock` /
  `unlock` as atomic primitives of a mutex. These theorems are about the implementation of that
  primitive (`WS.Model.Mu`, tied to `conn.go`'s `mu` by running both on the same operation programs):
  for **every** pick the runtime may make in `lock`'s `select`s, for every state, for every
  interleaving of any number of goroutines that respect the discipline "only the holder unlocks"
  (which is what the CIR lockset certificate proves of the callers).
-/
namespace WS.Props.C05Mu
open WS.Model.Mu

/-- **a lock attempt that fails changes nothing**: whatever case the runtime picks, when `lock` returns
an error (or does not return) the channel is exactly as it was — in particular a lock held by another
goroutine stays held, and a free lock stays free. -/
theorem failed_lock_changes_nothing (s : St) (d : Bool) (p : Pick) (h : (lock s d p).2 ≠ .ok) :
    (lock s d p).1 = s := by
  unfold lock at *
  cases p <;> cases hs : s.full <;> cases hc : s.closed <;> cases d <;>
    simp_all [ready, unlock] <;> (cases s; simp_all)

/-- `lock` returns nil exactly when the send case fired on a free lock of an open connection, and then
the lock is held. -/
theorem lock_ok_iff (s : St) (d : Bool) (p : Pick) :
    (lock s d p).2 = .ok ↔ (p = .sendCase ∧ s.full = false ∧ s.closed = false) := by
  unfold lock
  cases p <;> cases hs : s.full <;> cases hc : s.closed <;> cases d <;> simp_all [ready, unlock]

theorem lock_ok_holds (s : St) (d : Bool) (p : Pick) (h : (lock s d p).2 = .ok) :
    (lock s d p).1 = { s with full := true } := by
  have := (lock_ok_iff s d p).1 h
  unfold lock
  simp_all [ready]

/-- on a closed connection no lock attempt succeeds, whatever is picked. -/
theorem closed_never_ok (s : St) (d : Bool) (p : Pick) (hc : s.closed = true) : (lock s d p).2 ≠ .ok := by
  intro h
  have := (lock_ok_iff s d p).1 h
  simp_all

/-- `lock` can only keep its caller waiting while the lock is held, the connection open and the
caller's context live: as soon as the context is done or the connection closed, some case is ready. -/
theorem blocks_only_while (s : St) (d : Bool) :
    picks s d = [] ↔ (s.full = true ∧ s.closed = false ∧ d = false) := by
  unfold picks
  cases hs : s.full <;> cases hc : s.closed <;> cases d <;> simp_all [ready, List.filter]

/-- a pick outside `picks` leaves the call blocked with nothing changed. -/
theorem not_ready_blocked (s : St) (d : Bool) (p : Pick) (h : ready s d p = false) : lock s d p = (s, .blocked) := by
  unfold lock; simp [h]

/-- `tryLock` succeeds exactly on a free lock; failing it changes nothing. -/
theorem tryLock_spec (s : St) :
    ((tryLock s).2 = true ↔ s.full = false) ∧ ((tryLock s).2 = false → (tryLock s).1 = s) := by
  unfold tryLock; cases hs : s.full <;> simp

/-! ### any number of goroutines -/

/-- the channel holds a token exactly when some goroutine owns the lock. -/
def OInv (o : Owned) : Prop := o.s.full = true ↔ o.owner.isSome = true

theorem oinv_init : OInv initO := by simp [OInv, initO]

theorem oinv_step (o : Owned) (op : Op) (h : OInv o) (hd : disciplined o op = true) : OInv (stepO o op) := by
  unfold OInv at *
  cases op with
  | lock t d p =>
    simp only [stepO]
    by_cases hk : (lock o.s d p).2 = .ok
    · have hs := lock_ok_holds o.s d p hk
      simp [hk, hs]
    · have hs := failed_lock_changes_nothing o.s d p hk
      simp [hk, hs, h]
  | tryLock t =>
    simp only [stepO, tryLock]
    by_cases hs : o.s.full = true
    · simp [hs]; simpa [hs] using h
    · simp [hs]
  | forceLock t =>
    simp only [stepO, forceLock]
    by_cases hs : o.s.full = true
    · simp [hs]; simpa [hs] using h
    · simp [hs]
  | unlock t => simp [stepO, unlock]
  | closeConn => simpa [stepO] using h

/-- every state reachable by a disciplined program satisfies the invariant. -/
theorem oinv_run (ops : List Op) (o : Owned) (h : OInv o) (hd : allDisciplined ops o = true) : OInv (runO ops o) := by
  induction ops generalizing o with
  | nil => simpa [runO]
  | cons op ops ih =>
    simp only [allDisciplined, Bool.and_eq_true] at hd
    exact ih _ (oinv_step o op h hd.1) hd.2

/-- **mutual exclusion**: in any state reachable by any interleaving that respects the discipline, a
`lock` (any pick), `tryLock` or `forceLock` succeeds only when nobody owns the lock. -/
theorem acquire_only_when_free (ops : List Op) (hd : allDisciplined ops initO = true) :
    let o := runO ops initO
    (∀ d p, (lock o.s d p).2 = .ok → o.owner = none) ∧
    ((tryLock o.s).2 = true → o.owner = none) ∧
    ((forceLock o.s).2 = .ok → o.owner = none) := by
  intro o
  have hi : OInv o := oinv_run ops initO oinv_init hd
  unfold OInv at hi
  refine ⟨?_, ?_, ?_⟩
  · intro d p hk
    have := (lock_ok_iff o.s d p).1 hk
    cases ho : o.owner <;> simp_all
  · intro hk
    have := (tryLock_spec o.s).1.1 hk
    cases ho : o.owner <;> simp_all
  · intro hk
    unfold forceLock at hk
    cases hs : o.s.full <;> cases ho : o.owner <;> simp_all

/-- does the program contain an `unlock` by goroutine `t`? -/
def unlocksBy (t : Nat) : List Op → Bool
  | [] => false
  | .unlock t' :: ops => t' == t || unlocksBy t ops
  | _ :: ops => unlocksBy t ops

/-- **the holder keeps the lock until it releases it itself**: if goroutine `t` owns the lock and the
(disciplined) program that follows contains no `unlock` by `t`, then `t` still owns it afterwards —
whatever other goroutines attempt in between (lock attempts that time out, hit a closed connection,
tryLock, forceLock attempts that block), and the channel still holds its token. -/
theorem holder_keeps_lock (t : Nat) (ops : List Op) (o : Owned) (hi : OInv o) (ho : o.owner = some t)
    (hd : allDisciplined ops o = true) (hn : unlocksBy t ops = false) :
    (runO ops o).owner = some t ∧ (runO ops o).s.full = true := by
  induction ops generalizing o with
  | nil =>
    unfold OInv at hi
    simp_all [runO]
  | cons op ops ih =>
    simp only [allDisciplined, Bool.and_eq_true] at hd
    have hi' := oinv_step o op hi hd.1
    have hfull : o.s.full = true := by unfold OInv at hi; simp_all
    have ho' : (stepO o op).owner = some t := by
      cases op with
      | lock t' d p =>
        have hne : (lock o.s d p).2 ≠ .ok := by
          intro hk; have := (lock_ok_iff o.s d p).1 hk; simp_all
        simp [stepO, hne, ho]
      | tryLock t' => simp [stepO, tryLock, hfull, ho]
      | forceLock t' => simp [stepO, forceLock, hfull, ho]
      | unlock t' =>
        have h1 : o.owner = some t' := by simpa [disciplined] using hd.1
        have : t' = t := by simp_all
        simp [unlocksBy, this] at hn
      | closeConn => simpa [stepO] using ho
    have hn' : unlocksBy t ops = false := by
      cases op <;> simp_all [unlocksBy]
    simpa [runO] using ih (stepO o op) hi' ho' hd.2 hn'

/-- non-vacuity: a disciplined program in which goroutine 1 takes the lock, goroutine 2's attempts fail
in every way (context expiry, tryLock, closed connection), and 1 still owns the lock. -/
example :
    let ops := [Op.lock 1 false .sendCase, .lock 2 true .ctxCase, .tryLock 2, .lock 2 false .sendCase,
                .closeConn, .lock 2 false .closedCase]
    allDisciplined ops initO = true ∧ (runO ops initO).owner = some 1 ∧ (runO ops initO).s.full = true := by
  decide

/-- what the theorem excludes, as a concrete counter-model: a `lock` whose context case also "releases"
(the shape of a plausible mistake: re-checking the context after the select and unlocking) lets a
second goroutine in while the first still believes it holds the lock. -/
def lockBroken (s : St) (ctxDone : Bool) (p : Pick) : St × Res :=
  match p with
  | .ctxCase => if ctxDone then (unlock s, .errCtx) else (s, .blocked)
  | _ => lock s ctxDone p

example : (lockBroken ⟨true, false⟩ true .ctxCase).1 ≠ ⟨true, false⟩ := by decide

end WS.Props.C05Mu
