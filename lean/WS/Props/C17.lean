import WS.Proofs.Mask
import WS.Gen.MaskProg
/-
  C17 — Masking is an exact, chunk-composable XOR for every length, alignment and key.

  `Spec.mask` is the definition in the property ("XOR byte i with key byte i mod 4, return
  the key rotated").  `Gen.maskGo` is regenerated from /repo/mask.go on every run.
  Only property statements live here; helper lemmas are in WS/Proofs/Mask.lean.
-/
namespace WS.Props.C17
open WS WS.Model WS.Spec WS.Proofs.Mask

/-- byte `i` of the output is byte `i` of the input XOR key byte `i mod 4` — the spec really is
the pointwise definition. -/
theorem mask_pointwise (key : UInt32) (b : Bytes) (i : Nat) :
    (mask key b).1[i]? = (b[i]?).map (fun x => x ^^^ keyByte key (i % 4)) := by
  unfold mask
  rw [maskFrom_getElem?, Nat.zero_add, keyByte_mod]

theorem mask_length (key : UInt32) (b : Bytes) : (mask key b).1.length = b.length :=
  maskFrom_length key 0 b

/-- Every well-formed mask program (any unrolling, any thresholds) computes the specification
for **every** buffer and key, and never indexes outside the buffer (`some`). -/
theorem wf_correct (p : MaskProg) (hwf : wellFormed p = true) (b : Bytes) (key : UInt32) :
    runMask p b key = some (mask key b) :=
  WS.Proofs.Mask.wf_correct p hwf b key

/-- Per-run obligation: the program regenerated from the current `mask.go` is well formed,
hence `maskGo` equals the specification for every length and key. -/
theorem maskGo_correct (b : Bytes) (key : UInt32) :
    runMask WS.Gen.maskGo b key = some (mask key b) :=
  wf_correct _ (by decide) b key

/-- Chunk composability: masking `a ++ b` whole equals masking `a`, then `b` with the returned key. -/
theorem mask_append (key : UInt32) (a b : Bytes) :
    mask key (a ++ b) = ((mask key a).1 ++ (mask (mask key a).2 b).1, (mask (mask key a).2 b).2) := by
  unfold mask
  simp only [List.length_append]
  congr 1
  · rw [maskFrom_append, maskFrom_rotrBytes]
    congr 1
    apply maskFrom_congr_mod
    omega
  · rw [rotrBytes_add, ← rotrBytes_mod key (a.length % 4 + b.length % 4)]
    congr 1
    omega

/-- masking in any number of consecutive pieces of any sizes. -/
def maskPieces (key : UInt32) : List Bytes → Bytes × UInt32
  | [] => ([], key)
  | p :: ps =>
    let r := mask key p
    let r' := maskPieces r.2 ps
    (r.1 ++ r'.1, r'.2)

theorem mask_pieces (key : UInt32) (ps : List Bytes) : maskPieces key ps = mask key ps.flatten := by
  induction ps generalizing key with
  | nil => rfl
  | cons p ps ih =>
    simp only [maskPieces, List.flatten_cons, ih, mask_append]

/-- masking twice with the same key restores the buffer (unmasking = masking). -/
theorem mask_involutive (key : UInt32) (b : Bytes) : (mask key (mask key b).1).1 = b :=
  maskFrom_involutive key 0 b

/-- after a multiple of four bytes the key is unchanged. -/
theorem mask_key_period (key : UInt32) (b : Bytes) (h : b.length % 4 = 0) : (mask key b).2 = key := by
  unfold mask; rw [h]; rfl

-- non-vacuity / sanity (tests, labelled as tests): the RFC-style 5-byte vector of Test_mask
example : (mask 0x04030201 [0x10, 0x20, 0x30, 0x40, 0x50]).1 = [0x11, 0x22, 0x33, 0x44, 0x51] := by decide
example : (mask 0x04030201 [0x10, 0x20, 0x30, 0x40, 0x50]).2 = 0x01040302 := by decide

end WS.Props.C17
