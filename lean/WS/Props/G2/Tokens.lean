import WS.Props.G2.HandshakeDefs
/-
  headerTokens (accept.go) as written now against its decision table (C11, C13, C14).
-/
namespace WS.Props.G2
open WS WS.Model WS.Model.Guard WS.Gen.Guards2

theorem headerTokens_matches : ∀ moreLines moreElems : Bool,
    run (envTokens moreLines moreElems) g_c_headerTokens = tokensExpected moreLines moreElems := by
  decide +kernel

end WS.Props.G2
