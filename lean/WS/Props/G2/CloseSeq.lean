import WS.Props.G2.CloseSeqDefs
/-
  Conn.Close, Conn.CloseNow, Conn.closeHandshake and Conn.writeClose (close.go) as written now against decision tables
  (C06, C09, C16, C20).
-/
namespace WS.Props.G2
open WS WS.Model.Guard WS.Gen.Guards2

theorem Conn_Close_matches : ∀ first wg1 hs cl wg2 : Bool,
    run (envClose first wg1 hs cl wg2) g_c_Conn_Close = closeExpected first wg1 hs cl wg2 := by
  decide +kernel

theorem Conn_CloseNow_matches : ∀ first wg1 cl wg2 : Bool,
    run (envClose first wg1 false cl wg2) g_c_Conn_CloseNow = closeNowExpected first wg1 cl wg2 := by
  decide +kernel

theorem closeHandshake_matches : ∀ w waitErr other : Bool,
    run (envHandshake w waitErr other) g_c_Conn_closeHandshake = handshakeExpected w waitErr other := by
  decide +kernel

theorem writeClose_matches : ∀ code ∈ [(1000 : Int), 1005, 1006, 4000], ∀ mErr wErr closedErr : Bool,
    run (envWriteClose code mErr wErr closedErr) g_c_Conn_writeClose = writeCloseExpected code mErr wErr closedErr := by
  decide +kernel

end WS.Props.G2
