import WS.Props.G2.Util
import WS.Model.Close
/-
  Valuations and decision tables for parseClosePayload, CloseError.bytesErr / bytes (close.go) and handleControl (read.go).
-/
namespace WS.Props.G2
open WS WS.Model WS.Model.Guard WS.Gen.Guards2

/-! ### parseClosePayload (C06, C03) -/

def aValidParsed := "validWireCloseCode(CloseError{Code:StatusCode(binary.BigEndian.Uint16(p)),Reason:string(p[2:]),}.Code)"

/-- `len` stands for a payload of 0, 1 or at least 2 bytes. -/
def envParseClose (len : Nat) (valid : Bool) : Env :=
  mkEnv [("len(p)!=0", len != 0), ("len(p)<2", decide (len < 2)), (aValidParsed, valid)]

/-- an empty payload is a Close without status; one byte cannot hold a status; otherwise the code must be one that may
appear on the wire. -/
def parseCloseExpected (len : Nat) (valid : Bool) : Res :=
  if len = 0 then okRes [] else if len < 2 then errRes [] else if valid then okRes [] else errRes []

/-! ### CloseError.bytesErr / bytes (C06, C02) -/

def envBytesErr (long valid : Bool) : Env :=
  mkEnv [("maxCloseReason<len(Reason)", long), ("validWireCloseCode(Code)", valid)]

/-- a reason that does not fit a control frame and a code that may not be sent are refused; otherwise the payload is
the code in network byte order followed by the reason. -/
def bytesErrExpected (long valid : Bool) : Res :=
  if long then errRes [] else if !valid then errRes []
  else okRes ["binary.BigEndian.PutUint16(make([]byte,2+len(Reason)),uint16(Code))", "copy(buf[2:],Reason)"]

def envBytes (e : Bool) : Env := mkEnv [("bytesErr:err!=nil", e)]

/-- when the payload cannot be built the error is reported and the payload of an internal-error Close is used instead. -/
def bytesExpected (e : Bool) : Res :=
  if e then errRes ["bytesErr", "ce=CloseError{Code:StatusInternalError,}", "bytesErr"] else okRes ["bytesErr"]

/-! ### handleControl (C15, C06, C03) -/

def envHandleControl (len : Int) (fin ioErr masked : Bool) (op : Nat) (pongErr known parseErr : Bool) : Env :=
  mkEnv [("h.fin", fin), ("readFramePayload:err!=nil", ioErr), ("h.masked", masked), ("writeControl:err!=nil", pongErr),
    ("activePings[string(c.readControlBuf[:h.payloadLength])]#1", known), ("parseClosePayload:err!=nil", parseErr)]
    [("h.payloadLength", len), ("h.opcode", (op : Int))] ["select"]

/-- a control frame longer than 125 bytes or fragmented is a protocol error answered with a Close frame; the payload is
read (and unmasked) first; a Ping is answered by a Pong with the same payload; a Pong is looked up in the registry of
outstanding pings under its lock and nothing is sent; a Close frame with a malformed payload is a protocol error,
otherwise it is echoed, the peer's close is recorded, and the read fails with the close error. -/
def handleControlExpected (len : Int) (fin ioErr masked : Bool) (op : Nat) (pongErr parseErr : Bool) : Res :=
  if len < 0 || len > 125 then errRes ["writeError"]
  else if !fin then errRes ["writeError"]
  else if ioErr then errRes ["readFramePayload"]
  else
    let pre := ["readFramePayload"] ++ (if masked then ["mask"] else [])
    if op = 9 then (if pongErr then errRes (pre ++ ["writeControl"]) else okRes (pre ++ ["writeControl"]))
    else if op = 10 then okRes (pre ++ ["activePingsMu.Lock", "activePingsMu.Unlock"])
    else if parseErr then errRes (pre ++ ["parseClosePayload", "writeError"])
    else errRes (pre ++ ["parseClosePayload", "writeClose", "peerClosed=true", "peerCloseErr=err"])

end WS.Props.G2
