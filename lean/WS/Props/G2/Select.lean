import WS.Props.G2.HandshakeDefs
/-
  selectDeflate (accept.go) as written now against its decision table (C14).
-/
namespace WS.Props.G2
open WS WS.Model WS.Model.Guard WS.Gen.Guards2

theorem selectDeflate_matches : ∀ mode : Fin 3, ∀ more pmd ok : Bool,
    run (envSelectDeflate mode.val more pmd ok) g_c_selectDeflate = selectDeflateExpected mode.val more pmd ok := by
  decide +kernel

end WS.Props.G2
