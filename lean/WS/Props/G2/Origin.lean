import WS.Props.G2.HandshakeDefs
/-
  authenticateOrigin (accept.go) as written now against its decision table (C12).
-/
namespace WS.Props.G2
open WS WS.Model WS.Model.Guard WS.Gen.Guards2

/-- `authenticateOrigin` (C12). -/
theorem authenticateOrigin_matches : ∀ has parseErr same more mErr matched hostEmpty : Bool,
    run (envOrigin has parseErr same more mErr matched hostEmpty) g_c_authenticateOrigin
      = originExpected has parseErr same more mErr matched := by
  decide +kernel

end WS.Props.G2
