import WS.Props.G2.Util
/-
  Valuations and decision tables for netConn.read / Read / Write (netconn.go) and wsjson.read.
-/
namespace WS.Props.G2
open WS WS.Model.Guard WS.Gen.Guards2

/-! ### netConn.read (C18) -/

def envNetRead (expired eofed hasReader rErr : Bool) (status : Int) (mismatch : Bool) (k : EK) : Env :=
  mkEnv ([("atomic.LoadInt64(&readExpired)!=1", !expired), ("readEOFed", eofed), ("reader!=nil", hasReader),
    ("Reader:err!=nil", rErr), ("Reader:err!=io.EOF", true), ("Reader(readCtx)#0!=msgType", mismatch)] ++ errAtoms "reader.Read" k)
    [("CloseStatus(err)", status)]

/-- an expired read deadline fails the call; after the peer's normal close every read is `io.EOF`; a new message is fetched
when none is open: a close with status 1000 / 1001 reads as `io.EOF` from then on, any other failure is an error, a message
of the wrong type closes the connection (1003) and fails; the open message is read, and its end is not an end of the stream:
the reader is dropped and the call reports no error. -/
def netReadExpected (expired eofed hasReader rErr : Bool) (status : Int) (mismatch : Bool) (k : EK) : Res :=
  if expired then errRes []
  else if eofed then retRes [] "err:io.EOF"
  else
    let fetch : Option Res :=
      if hasReader then none
      else if rErr then some (if status = 1000 || status = 1001 then retRes ["Reader", "readEOFed=true"] "err:io.EOF" else errRes ["Reader"])
      else if mismatch then some (errRes ["Reader", "Close"])
      else none
    match fetch with
    | some r => r
    | none =>
      let pre := (if hasReader then [] else ["Reader", "reader=Reader(readCtx)#1"]) ++ ["reader.Read"]
      match k with
      | .eof => okRes (pre ++ ["reader=nil"])
      | .nil => okRes pre
      | _ => errRes pre

def envNetReadLoop (e : Bool) (n : Int) : Env := mkEnv [("read:err!=nil", e)] [("read(p)#0", n)]

def netReadLoopExpected (e : Bool) (n : Int) : Res :=
  let pre := ["readMu.forceLock", "defer readMu.unlock", "read"]
  if e then errRes pre else if n = 0 then nextRes pre else okRes pre

def envNetWrite (expired wErr : Bool) : Env := mkEnv [("atomic.LoadInt64(&writeExpired)!=1", !expired), ("Write:err!=nil", wErr)]

/-- the write lock of the adapter is held for the whole call and released on every return. -/
def netWriteExpected (expired wErr : Bool) : Res :=
  let pre := ["writeMu.forceLock", "defer writeMu.unlock"]
  if expired then errRes pre else if wErr then errRes (pre ++ ["Write"]) else okRes (pre ++ ["Write"])

/-! ### wsjson.read (C19, C07) -/

def envJsonRead (rErr cErr uErr : Bool) : Env :=
  mkEnv [("Reader:err!=nil", rErr), ("bpool.Get().ReadFrom:err!=nil", cErr), ("json.Unmarshal:err!=nil", uErr)]

/-- one message is read completely into a pooled buffer that is given back exactly once, when the call returns — after
the value was decoded —; a document that does not decode closes the connection (1007) and fails. -/
def jsonReadExpected (rErr cErr uErr : Bool) : Res :=
  if rErr then errRes ["Reader"]
  else
    let pre := ["Reader", "bpool.Get()", "defer bpool.Put(_)", "bpool.Get().ReadFrom(_)"]
    if cErr then errRes pre
    else if uErr then errRes (pre ++ ["json.Unmarshal(_,_)", "Close"])
    else okRes (pre ++ ["json.Unmarshal(_,_)"])

end WS.Props.G2
