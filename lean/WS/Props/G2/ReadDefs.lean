import WS.Props.G2.Util
/-
  Valuations and decision tables for limitReader.Read, msgReader.Read and msgReader.reset (read.go).
-/
namespace WS.Props.G2
open WS WS.Model.Guard WS.Gen.Guards2

/-! ### limitReader.Read (C08) -/

/-- `n`: the allowance left before the call (negative: no limit); `n'`: after the bytes of this call were deducted;
`big`: the caller's buffer is larger than the allowance; `k`: what the source returned with the bytes. -/
def envLimitRead (n n' : Int) (big : Bool) (k : EK) : Env :=
  mkEnv ([("n<int64(len(p))", big), ("r.Read:err!=nil", k != .nil)] ++ errAtoms "r.Read@2" k) [("n", n), ("n'", n')]

/-- without a limit the source is read directly; with the allowance used up the message is over the limit: Close 1009 and an
error, nothing read; otherwise at most the allowance is read, it is reduced by what was read, and if that uses it up
just as the source reports its end the message is over the limit as well (the allowance is one more than the limit). -/
def limitReadExpected (n n' : Int) (big : Bool) (k : EK) : Res :=
  if n < 0 then retRes ["r.Read"] (if k != .nil then "err" else "ok")
  else if n = 0 then errRes ["writeError"]
  else
    let pre := (if big then ["p=p[:lr.n]"] else []) ++ ["r.Read", "n:=r.Read(p)#0", "n-=int64(r.Read(p)#0)"]
      ++ (if n' < 0 then ["n'=0"] else [])
    if n' = 0 && (k == .eof || k == .ueof) then errRes (pre ++ ["writeError"])
    else retRes pre (retOfEK k)

/-! ### msgReader.Read (C04): a clean end only for the message's own end -/

def envMsgReaderRead (lockErr : Bool) (k1 : EK) (flate takeover copyErr fin pl0 : Bool) : Env :=
  mkEnv ([("readMu.lock:err!=nil", lockErr), ("readMu.lock:err!=io.EOF", true), ("readMu.lock:err!=io.ErrUnexpectedEOF", true),
    ("flate", flate), ("flateContextTakeover()", takeover), ("io.Copy:err!=nil", copyErr), ("io.Copy:err!=io.EOF", true),
    ("io.Copy:err!=io.ErrUnexpectedEOF", true), ("fin", fin)] ++ errAtoms "limitReader.Read" k1)
    [("payloadLength", if pl0 then 0 else 7)]

/-- the read lock is taken under the message's context and released on return; the bytes read go into the dictionary
when the context is kept; a compressed message whose deflate stream ended early is drained to its final frame; then the
message ends cleanly (`io.EOF`, inflater given back) exactly when the frame reader reported the message's own end, or the
inflater hit the end of its input after the final frame of a compressed message was used up — every other error,
in particular a transport error, stays an error. -/
def msgReaderReadExpected (lockErr : Bool) (k1 : EK) (flate takeover copyErr fin pl0 : Bool) : Res :=
  if lockErr then errRes ["readMu.lock"]
  else
    let pre := ["readMu.lock", "defer readUnlock", "limitReader.Read"] ++ (if flate && takeover then ["dict.write"] else [])
      ++ (if k1 == .eof && flate then ["io.Copy(_,_)"] else [])
    let k : EK := if k1 == .eof && flate then (if copyErr then .other else .eof) else k1
    if k == .eof || (k == .ueof && fin && pl0 && flate) then retRes (pre ++ ["putFlateReader"]) "err:io.EOF"
    else if k != .nil then errRes pre
    else okRes pre

/-! ### msgReader.reset (C01, C08) -/

def envMsgReaderReset (rsv1 : Bool) : Env := mkEnv [("flate'", rsv1)]

/-- a new message: its context, whether it is compressed (RSV1 of its first frame), the limit re-armed on the frame
reader, the inflater for a compressed message, then the first frame's length, FIN and key. -/
def msgReaderResetExpected (rsv1 : Bool) : Res :=
  ⟨["ctx=ctx", "flate=h.rsv1", "limitReader.reset"] ++ (if rsv1 then ["resetFlate"] else []) ++ ["setFrame"], .fell⟩

/-! ### msgReader.setFrame: a frame's header only sets the frame's own three fields -/

/-- in particular it does not touch the message's read allowance, compression flag or context. -/
def setFrameExpected : Res := ⟨["fin=h.fin", "payloadLength=h.payloadLength", "maskKey=h.maskKey"], .fell⟩

end WS.Props.G2
