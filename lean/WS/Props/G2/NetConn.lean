import WS.Props.G2.NetDefs
/-
  netConn.read / Read / Write (netconn.go) as written now against decision tables (C18).
-/
namespace WS.Props.G2
open WS WS.Model.Guard WS.Gen.Guards2

theorem netConn_read_matches : ∀ expired eofed hasReader rErr : Bool, ∀ status ∈ [(-1 : Int), 1000, 1001, 1002, 1006],
    ∀ mismatch : Bool, ∀ k ∈ [EK.nil, .eof, .other],
    run (envNetRead expired eofed hasReader rErr status mismatch k) g_c_netConn_read
      = netReadExpected expired eofed hasReader rErr status mismatch k := by
  decide +kernel

theorem netConn_Read_matches : ∀ e : Bool, ∀ n ∈ [(0 : Int), 1, 4096],
    run (envNetReadLoop e n) g_c_netConn_Read = netReadLoopExpected e n := by
  decide +kernel

theorem netConn_Write_matches : ∀ expired wErr : Bool,
    run (envNetWrite expired wErr) g_c_netConn_Write = netWriteExpected expired wErr := by
  decide +kernel

end WS.Props.G2
