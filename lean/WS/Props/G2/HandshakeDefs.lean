import WS.Props.G2.Util
import WS.Model.Handshake
/-
  Valuations and decision tables for the handshake functions of accept.go and dial.go as regenerated into
  WS/Gen/Guards2.lean: verifyClientRequest, accept, authenticateOrigin, selectDeflate, acceptDeflate (one parameter),
  verifyServerResponse, verifySubprotocol, verifyServerExtensions (one parameter).
-/
namespace WS.Props.G2
open WS WS.Model WS.Model.Guard WS.Gen.Guards2

/-! ### verifyClientRequest (C11) -/

def aProto := "r.ProtoAtLeast(1,1)"
def aConnTok := "headerContainsTokenIgnoreCase(r.Header,\"Connection\",\"Upgrade\")"
def aUpgTok := "headerContainsTokenIgnoreCase(r.Header,\"Upgrade\",\"websocket\")"
def aNotGet := "r.Method!=\"GET\""
def aNot13 := "r.Header.Get(\"Sec-WebSocket-Version\")!=\"13\""
def aKeys := "len(r.Header.Values(\"Sec-WebSocket-Key\"))!=0"
def aManyKeys := "1<len(r.Header.Values(\"Sec-WebSocket-Key\"))"
def aKeyErr := "base64.StdEncoding.DecodeString:err!=nil"
def aKeyLen := "len(base64.StdEncoding.DecodeString(strings.TrimSpace(r.Header.Values(\"Sec-WebSocket-Key\")[0]))#0)!=16"

def envVCR (proto conn upg get ver13 : Bool) (nKeys : Nat) (decErr len16 : Bool) : Env :=
  mkEnv [(aProto, proto), (aConnTok, conn), (aUpgTok, upg), (aNotGet, !get), (aNot13, !ver13),
    (aKeys, nKeys != 0), (aManyKeys, decide (1 < nKeys)), (aKeyErr, decErr), (aKeyLen, !len16)]
    [("len(r.Header.Values(\"Sec-WebSocket-Key\"))", (nKeys : Int))]

def setConnUpg : List String := ["w.Header().Set(Connection,Upgrade)", "w.Header().Set(Upgrade,websocket)"]

/-- the checks of RFC 6455 §4.2.1 in the code's order, each with the status it answers and the headers it sets;
`0` = acceptable. -/
def vcrExpected (proto conn upg get ver13 : Bool) (nKeys : Nat) (decErr len16 : Bool) : Res :=
  if !proto then retRes [] "426"
  else if !conn then retRes setConnUpg "426"
  else if !upg then retRes setConnUpg "426"
  else if !get then retRes [] "405"
  else if !ver13 then retRes ["w.Header().Set(Sec-WebSocket-Version,13)"] "400"
  else if nKeys != 1 then retRes [] "400"
  else if decErr || !len16 then retRes [] "400"
  else retRes [] "0"

/-- a concrete request of the handshake model realising a valuation. -/
def repReq (proto conn upg get ver13 : Bool) (nKeys : Nat) (decErr len16 : Bool) : Req :=
  let key := if decErr then s "!!!!" else if len16 then s "AAAAAAAAAAAAAAAAAAAAAA==" else s "AAAA"
  { method := if get then s "GET" else s "POST", protoMajor := 1, protoMinor := if proto then 1 else 0, host := s "h",
    hdr := [(s "Connection", [if conn then s "keep-alive, Upgrade" else s "close"]),
            (s "Upgrade", [if upg then s "WebSocket" else s "h2c"]),
            (s "Sec-Websocket-Version", [if ver13 then s "13" else s "8"]),
            (s "Sec-Websocket-Key", List.replicate nKeys key)] }

/-! ### accept (C11, C12): nothing of the upgrade is written before every check has passed -/

def envAccept (vErr skip oErr badPat hj sub defl gin hjErr : Bool) : Env :=
  mkEnv [("verifyClientRequest:err!=nil", vErr), ("opts.InsecureSkipVerify", skip), ("authenticateOrigin:err!=nil", oErr),
    ("errors.Is(err,filepath.ErrBadPattern)", badPat), ("w.(http.Hijacker)#1", hj),
    ("selectSubprotocol(r,opts.Subprotocols)!=\"\"", sub), ("selectDeflate#1", defl),
    ("w.(interface{WriteHeaderNow()})#1", gin), ("w.(http.Hijacker)#0.Hijack:err!=nil", hjErr)]

def acceptExpected (vErr skip oErr badPat hj sub defl hjErr : Bool) : Res :=
  if vErr then errRes ["verifyClientRequest", "http.Error(_,_,_)"]
  else
    let pre := ["verifyClientRequest"] ++ (if skip then [] else ["authenticateOrigin"])
    if !skip && oErr then errRes (pre ++ (if badPat then ["log.Printf(websocket: %v,_)"] else []) ++ ["http.Error(_,_,403)"])
    else if !hj then errRes (pre ++ ["http.Error(_,_,501)"])
    else
      let up := pre ++ ["w.Header().Set(Upgrade,websocket)", "w.Header().Set(Connection,Upgrade)",
        "w.Header().Set(Sec-WebSocket-Accept,_)", "selectSubprotocol"]
        ++ (if sub then ["w.Header().Set(Sec-WebSocket-Protocol,_)"] else []) ++ ["selectDeflate"]
        ++ (if defl then ["w.Header().Set(Sec-WebSocket-Extensions,_)"] else []) ++ ["w.WriteHeader(101)"]
      if hjErr then errRes (up ++ ["http.Error(_,_,500)"]) else okRes (up ++ ["newConn"])

/-! ### authenticateOrigin (C12) -/

def envOrigin (has parseErr same more mErr matched hostEmpty : Bool) : Env :=
  mkEnv [("r.Header.Get(\"Origin\")!=\"\"", has), ("url.Parse:err!=nil", parseErr),
    ("strings.EqualFold(r.Host,url.Parse(r.Header.Get(\"Origin\"))#0.Host)", same), ("more(originHosts)", more),
    ("match:err!=nil", mErr), ("match#0", matched), ("url.Parse(r.Header.Get(\"Origin\"))#0.Host!=\"\"", !hostEmpty)]

/-- no Origin: allowed; unparsable: refused; same host (case-insensitively): allowed; otherwise each pattern in turn —
a malformed pattern refuses, a match allows —, and when the patterns are used up the origin is refused. -/
def originExpected (has parseErr same more mErr matched : Bool) : Res :=
  if !has then okRes []
  else if parseErr then errRes ["url.Parse(_)"]
  else if same then okRes ["url.Parse(_)"]
  else if more then (if mErr then errRes ["url.Parse(_)", "match"] else if matched then okRes ["url.Parse(_)", "match"]
    else nextRes ["url.Parse(_)", "match"])
  else errRes ["url.Parse(_)"]

/-! ### selectDeflate / acceptDeflate (C14), one loop iteration each -/

def envSelectDeflate (mode : Nat) (more pmd ok : Bool) : Env :=
  mkEnv [("more(extensions)", more), ("elem(extensions).name!=\"permessage-deflate\"", !pmd), ("acceptDeflate#1", ok)] [("mode", (mode : Int))]

def selectDeflateExpected (mode : Nat) (more pmd ok : Bool) : Res :=
  if mode = 0 then retRes [] "false"
  else if !more then retRes [] "false"
  else if pmd then (if ok then retRes ["acceptDeflate"] "true" else nextRes ["acceptDeflate"])
  else nextRes []

/-- the kinds of parameter an offer can carry, as far as acceptDeflate distinguishes them. -/
inductive PK | cnct | snct | cmwb | smwb15 | cmwbVal (v : Nat) | cmwbBad | other
  deriving DecidableEq, Repr

def PK.all : List PK := [.cnct, .snct, .cmwb, .smwb15, .cmwbVal 8, .cmwbVal 9, .cmwbVal 10, .cmwbVal 11, .cmwbVal 12,
  .cmwbVal 13, .cmwbVal 14, .cmwbVal 15, .cmwbBad, .other]

/-- a concrete parameter string of each kind. -/
def PK.str : PK → Str
  | .cnct => s "client_no_context_takeover" | .snct => s "server_no_context_takeover"
  | .cmwb => s "client_max_window_bits" | .smwb15 => s "server_max_window_bits=15"
  | .cmwbVal v => s ("client_max_window_bits=" ++ toString v) | .cmwbBad => s "client_max_window_bits=7"
  | .other => s "x_unknown"

def cmwbPrefix := "strings.TrimPrefix(elem(ext.params),\"client_max_window_bits=\")"

def envAcceptDeflate (more seen : Bool) (k : PK) : Env :=
  mkEnv ([("more(ext.params)", more), ("lookup(make(map[string]bool,len(ext.params)))", seen),
    ("elem(ext.params)!=\"client_no_context_takeover\"", k != .cnct), ("elem(ext.params)!=\"server_no_context_takeover\"", k != .snct),
    ("elem(ext.params)!=\"client_max_window_bits\"", k != .cmwb), ("elem(ext.params)!=\"server_max_window_bits=15\"", k != .smwb15),
    ("strings.HasPrefix(elem(ext.params),\"client_max_window_bits=\")", match k with | .cmwbVal _ => true | .cmwbBad => true | _ => false)]
    ++ [8, 9, 10, 11, 12, 13, 14, 15].map (fun v => (cmwbPrefix ++ "!=\"" ++ toString v ++ "\"", k != .cmwbVal v)))
    [("strings.IndexByte(elem(ext.params),'=')", match k with | .smwb15 => 22 | .cmwbVal _ => 22 | .cmwbBad => 22 | _ => -1)]

/-- what the handshake model's acceptDeflate does with a one-parameter offer of this kind, as a step of the loop. -/
def acceptDeflateExpected (more seen : Bool) (k : PK) : Res :=
  if !more then retRes [] "true"
  else if seen then retRes [] "false"
  else
    match Model.acceptDeflate { name := s "permessage-deflate", params := [k.str] } 1 with
    | none => retRes ["seen[name]=true"] "false"
    | some c =>
      nextRes (["seen[name]=true"] ++ (if c.cnct then ["copts.clientNoContextTakeover=true"] else [])
        ++ (if c.snct then ["copts.serverNoContextTakeover=true"] else []))

/-! ### verifyServerResponse / verifySubprotocol / verifyServerExtensions (C13, C14) -/

def envVSR (status : Nat) (conn upg acceptBad subErr extErr : Bool) : Env :=
  mkEnv [("headerContainsTokenIgnoreCase(resp.Header,\"Connection\",\"Upgrade\")", conn),
    ("headerContainsTokenIgnoreCase(resp.Header,\"Upgrade\",\"WebSocket\")", upg),
    ("resp.Header.Get(\"Sec-WebSocket-Accept\")!=secWebSocketAccept(secWebSocketKey)", acceptBad),
    ("verifySubprotocol:err!=nil", subErr), ("verifyServerExtensions:err!=nil", extErr)] [("resp.StatusCode", (status : Int))]

def vsrExpected (status : Nat) (conn upg acceptBad subErr extErr : Bool) : Res :=
  if status != 101 then errRes []
  else if !conn then errRes []
  else if !upg then errRes []
  else if acceptBad then errRes []
  else if subErr then errRes ["verifySubprotocol"]
  else if extErr then errRes ["verifySubprotocol", "verifyServerExtensions"]
  else okRes ["verifySubprotocol", "verifyServerExtensions"]

def envVSub (has more eq : Bool) : Env :=
  mkEnv [("resp.Header.Get(\"Sec-WebSocket-Protocol\")!=\"\"", has), ("more(subprotos)", more),
    ("strings.EqualFold(elem(subprotos),resp.Header.Get(\"Sec-WebSocket-Protocol\"))", eq)]

/-- no subprotocol in the response: fine; otherwise it must be one of those requested. -/
def vsubExpected (has more eq : Bool) : Res :=
  if !has then okRes [] else if more then (if eq then okRes [] else nextRes []) else errRes []

inductive RK | cnct | snct | smwb | other
  deriving DecidableEq, Repr
def RK.all : List RK := [.cnct, .snct, .smwb, .other]

def envVSE (any notPMD many offered more : Bool) (k : RK) : Env :=
  mkEnv [("len(websocketExtensions(h))!=0", any), ("websocketExtensions(h)[0].name!=\"permessage-deflate\"", notPMD),
    ("1<len(websocketExtensions(h))", many), ("copts!=nil", offered), ("more(websocketExtensions(h)[0].params)", more),
    ("elem(websocketExtensions(h)[0].params)!=\"client_no_context_takeover\"", k != .cnct), ("elem(websocketExtensions(h)[0].params)!=\"server_no_context_takeover\"", k != .snct),
    ("strings.HasPrefix(elem(websocketExtensions(h)[0].params),\"server_max_window_bits=\")", k == .smwb)]

/-- no extension in the response: no compression; anything other than exactly one permessage-deflate that was offered:
refused; each parameter: the two takeover flags are recorded, `server_max_window_bits=…` is tolerated, anything else is
refused; after the last parameter the server's flag is taken from the response alone. -/
def vseExpected (any notPMD many offered more : Bool) (k : RK) : Res :=
  if !any then okRes ["websocketExtensions"]
  else if notPMD || many || !offered then errRes ["websocketExtensions"]
  else
    let pre := ["websocketExtensions", "serverNoContextTakeover:=false"]
    if !more then okRes (pre ++ ["copts.serverNoContextTakeover=serverNoContextTakeover"])
    else match k with
      | .cnct => nextRes (pre ++ ["copts.clientNoContextTakeover=true"])
      | .snct => nextRes (pre ++ ["serverNoContextTakeover=true"])
      | .smwb => nextRes pre
      | .other => errRes pre

/-! ### headerTokens (C11, C13, C14): every line of a header, every comma-separated element of a line -/

def envTokens (moreLines moreElems : Bool) : Env :=
  mkEnv [("more(h[key])", moreLines), ("more(strings.Split(elem(h[key]),\",\"))", moreElems), ("tokens!=nil", false)]

def tokensExpected (moreLines moreElems : Bool) : Res :=
  if !moreLines then okRes [] else if moreElems then nextRes ["append(_,_)"] else nextRes []

end WS.Props.G2
