import WS.Props.G2.Control
import WS.Proofs.GuardFar
/-
  handleControl for *every* payload length: lifted from the representatives of `handleControl_matches` by
  `WS.Model.Guard.run_far` (a run depends on an integer atom only through the program's comparisons).
-/
namespace WS.Props.G2
open WS WS.Model WS.Model.Guard WS.Gen.Guards2

theorem envHandleControl_setI (len : Int) (fin ioErr masked : Bool) (op : Nat) (pongErr known parseErr : Bool) :
    envHandleControl len fin ioErr masked op pongErr known parseErr
      = (envHandleControl 0 fin ioErr masked op pongErr known parseErr).setI "h.payloadLength" len := by
  unfold envHandleControl mkEnv Env.setI
  simp only [Env.mk.injEq, true_and, and_true]
  funext m
  by_cases hm : m = "h.payloadLength"
  · simp [List.lookup, hm]
  · have h1 : (m == "h.payloadLength") = false := by simpa using hm
    simp [List.lookup, hm, h1]

/-- the constants the regenerated `handleControl` compares integers with (lengths and opcodes). -/
theorem handleControl_consts : ∀ k ∈ constsL g_c_Conn_handleControl, k = 0 ∨ k = 125 ∨ k = 9 ∨ k = 10 := by
  intro k hk
  simp [g_c_Conn_handleControl, constsL, constsS, constsE, constsC] at hk
  omega

def ctlLenReps : List Int := [-1, 0, 1, 9, 10, 11, 125, 126]

theorem ctlLenRep_exists (len : Int) : ∃ r ∈ ctlLenReps, (len < 0 ↔ r < 0) ∧ (len = 0 ↔ r = 0) ∧ (len < 9 ↔ r < 9) ∧ (len = 9 ↔ r = 9)
    ∧ (len < 10 ↔ r < 10) ∧ (len = 10 ↔ r = 10) ∧ (len < 125 ↔ r < 125) ∧ (len = 125 ↔ r = 125) := by
  by_cases h0 : len < 0
  · exact ⟨-1, by decide, by omega⟩
  by_cases h1 : len = 0
  · exact ⟨0, by decide, by omega⟩
  by_cases h2 : len < 9
  · exact ⟨1, by decide, by omega⟩
  by_cases h3 : len = 9
  · exact ⟨9, by decide, by omega⟩
  by_cases h4 : len = 10
  · exact ⟨10, by decide, by omega⟩
  by_cases h5 : len < 125
  · exact ⟨11, by decide, by omega⟩
  by_cases h6 : len = 125
  · exact ⟨125, by decide, by omega⟩
  · exact ⟨126, by decide, by omega⟩

/-- the representatives' check (as `handleControl_matches`, over `ctlLenReps`). -/
theorem handleControl_reps : ∀ len ∈ ctlLenReps, ∀ fin ioErr masked : Bool, ∀ op ∈ [8, 9, 10], ∀ pongErr known parseErr : Bool,
    run (envHandleControl len fin ioErr masked op pongErr known parseErr) g_c_Conn_handleControl
      = handleControlExpected len fin ioErr masked op pongErr parseErr := by
  decide +kernel

/-- **handleControl, every length**: a control frame longer than 125 bytes (or of negative length) is a protocol error answered with
a Close frame, whatever else holds; up to 125 bytes the payload is read and the frame dispatched. -/
theorem handleControl_every_length (len : Int) (fin ioErr masked : Bool) (op : Nat) (hop : op ∈ [8, 9, 10]) (pongErr known parseErr : Bool) :
    run (envHandleControl len fin ioErr masked op pongErr known parseErr) g_c_Conn_handleControl
      = handleControlExpected len fin ioErr masked op pongErr parseErr := by
  obtain ⟨r, hr, hcmp⟩ := ctlLenRep_exists len
  have hag : Agree (constsL g_c_Conn_handleControl) len r := by
    intro k hk
    rcases handleControl_consts k hk with rfl | rfl | rfl | rfl <;> omega
  have hexp : handleControlExpected len fin ioErr masked op pongErr parseErr = handleControlExpected r fin ioErr masked op pongErr parseErr := by
    have a1 : (len < 0) = (r < 0) := by apply propext; omega
    have a2 : (len > 125) = (r > 125) := by apply propext; omega
    unfold handleControlExpected
    simp only [a1, a2]
  rw [envHandleControl_setI, run_far _ (fun _ => rfl) _ len r _ hag, ← envHandleControl_setI,
    handleControl_reps r hr fin ioErr masked op hop pongErr known parseErr, hexp]

end WS.Props.G2
