import WS.Props.G2.Util
/-
  Valuations and decision tables for Conn.Close, Conn.CloseNow, Conn.closeHandshake and Conn.writeClose (close.go).
-/
namespace WS.Props.G2
open WS WS.Model.Guard WS.Gen.Guards2

def envClose (first wg1 hs cl wg2 : Bool) : Env :=
  mkEnv [("casClosing()", first), ("waitGoroutines:err!=nil", wg1), ("closeHandshake:err!=nil", hs), ("close:err!=nil", cl),
    ("waitGoroutines@2:err!=nil", wg2)]

/-- the first thing Close does is to claim the closing role; a caller that does not get it only waits for the library's
goroutines and reports `net.ErrClosed`; the one that gets it performs the close handshake, closes the connection and waits
for the goroutines, whatever the handshake's outcome, and reports the first failure. -/
def closeExpected (first wg1 hs cl wg2 : Bool) : Res :=
  if !first then (if wg1 then errRes ["waitGoroutines"] else retRes ["waitGoroutines"] "err:net.ErrClosed")
  else retRes ["closeHandshake", "close", "waitGoroutines"] (if hs || cl || wg2 then "err" else "ok")

/-- CloseNow closes the connection in either role — also when a close handshake is in progress elsewhere — and waits for the
goroutines. -/
def closeNowExpected (first wg1 cl wg2 : Bool) : Res :=
  if !first then (if wg1 then errRes ["close", "waitGoroutines"] else retRes ["close", "waitGoroutines"] "err:net.ErrClosed")
  else retRes ["close", "waitGoroutines"] (if cl || wg2 then "err" else "ok")

def envHandshake (w waitErr other : Bool) : Env :=
  mkEnv [("writeClose:err!=nil", w), ("waitCloseHandshake:err!=nil", waitErr), ("CloseStatus(err)!=code", other)]

/-- the Close frame is written first; only then the peer's Close frame is awaited; the wait's outcome is a success exactly
when the peer answered with the same status. -/
def handshakeExpected (w waitErr other : Bool) : Res :=
  if w then errRes ["writeClose"]
  else retRes ["writeClose", "waitCloseHandshake"] (if other && waitErr then "err" else "ok")

def wcBytes := "CloseError{Code:code,Reason:reason,}.bytes()"
def wcWrite := "writeControl(context.WithTimeout(context.Background(),time.Second*5)#0,opClose,CloseError{Code:code,Reason:reason,}.bytes()#0)"

def envWriteClose (code : Int) (mErr wErr closedErr : Bool) : Env :=
  mkEnv [("CloseError{Code:code,Reason:reason,}.bytes:err!=nil", mErr), ("writeControl:err!=nil", wErr),
    ("errors.Is(err,net.ErrClosed)", closedErr)] [("CloseError{Code:code,Reason:reason,}.Code", code)]

/-- status 1005 stands for "no status": an empty payload; any other status is marshalled, and what cannot be marshalled is
not sent; the frame goes out as a Close control frame under a 5 s bound that does not depend on any caller's context; a write
that fails because the connection was closed meanwhile is not an error. -/
def writeCloseExpected (code : Int) (mErr wErr closedErr : Bool) : Res :=
  let pre := if code = 1005 then [] else [wcBytes]
  if code != 1005 && mErr then errRes pre
  else retRes (pre ++ [wcWrite]) (if wErr && !closedErr then "err" else "ok")

end WS.Props.G2
