import WS.Props.G2.CloseDefs
/-
  parseClosePayload and CloseError.bytesErr / bytes (close.go) as written now against decision tables (C02, C03, C06).
-/
namespace WS.Props.G2
open WS WS.Model WS.Model.Guard WS.Gen.Guards2

theorem parseClosePayload_matches : ∀ len : Fin 3, ∀ valid : Bool,
    run (envParseClose len.val valid) g_c_parseClosePayload = parseCloseExpected len.val valid := by
  decide +kernel

theorem bytesErr_matches : ∀ long valid : Bool,
    run (envBytesErr long valid) g_c_CloseError_bytesErr = bytesErrExpected long valid := by
  decide +kernel

theorem bytes_matches : ∀ e : Bool, run (envBytes e) g_c_CloseError_bytes = bytesExpected e := by
  decide +kernel

end WS.Props.G2
