import WS.Props.G2.FrameDefs
/-
  readFrameHeader (frame.go) as written now against its decision table (C03, C04).
-/
namespace WS.Props.G2
open WS WS.Model WS.Model.Guard WS.Gen.Guards2

theorem readFrameHeader_matches : ∀ e1 e2 : Bool, ∀ l7 ∈ [(0 : Int), 1, 125, 126, 127], ∀ eExt neg masked eKey : Bool,
    run (envReadHdr e1 e2 l7 eExt neg masked eKey) g_c_readFrameHeader = readHdrExpected e1 e2 l7 eExt neg masked eKey := by
  decide +kernel

end WS.Props.G2
