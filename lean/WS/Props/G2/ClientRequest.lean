import WS.Props.G2.HandshakeDefs
/-
  verifyClientRequest and accept (accept.go) as written now against decision tables and the handshake model (C11, C12).
-/
namespace WS.Props.G2
open WS WS.Model WS.Model.Guard WS.Gen.Guards2

/-- `verifyClientRequest`: the checks, their order, the status each answers and the headers it sets (C11). -/
theorem verifyClientRequest_matches : ∀ proto conn upg get ver13 : Bool, ∀ nKeys : Fin 3, ∀ decErr len16 : Bool,
    run (envVCR proto conn upg get ver13 nKeys.val decErr len16) g_c_verifyClientRequest
      = vcrExpected proto conn upg get ver13 nKeys.val decErr len16 := by
  decide +kernel

/-- … and that status is the one the handshake model (the subject of C11's theorems) computes for a concrete request
realising the valuation. -/
theorem verifyClientRequest_model : ∀ proto conn upg get ver13 : Bool, ∀ nKeys : Fin 3, ∀ decErr len16 : Bool,
    (vcrExpected proto conn upg get ver13 nKeys.val decErr len16).out
      = .ret (toString (Model.verifyClientRequest (repReq proto conn upg get ver13 nKeys.val decErr len16))) := by
  decide +kernel

/-- `accept`: request check, then (unless disabled) the origin check answering 403, then the hijack capability, and only
then the upgrade headers and the 101 (C11, C12). -/
theorem accept_sequence : ∀ vErr skip oErr badPat hj sub defl gin hjErr : Bool,
    run (envAccept vErr skip oErr badPat hj sub defl gin hjErr) g_c_accept
      = acceptExpected vErr skip oErr badPat hj sub defl hjErr := by
  decide +kernel

end WS.Props.G2
