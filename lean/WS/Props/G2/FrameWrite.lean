import WS.Props.G2.FrameDefs
/-
  writeFrameHeader (frame.go) as written now against its decision table on every boundary of the length encoding (C02).
-/
namespace WS.Props.G2
open WS WS.Model WS.Model.Guard WS.Gen.Guards2

/-- representatives: every constant the length decisions compare with, and its neighbours. -/
def lenReps : List Int := [-1, 0, 1, 124, 125, 126, 127, 65534, 65535, 65536, 65537, 4611686018427387904]

theorem writeFrameHeader_matches : ∀ fin r1 r2 r3 masked : Bool, ∀ len ∈ lenReps,
    run (envWriteHdr fin r1 r2 r3 masked len false false false false) g_c_writeFrameHeader
      = writeHdrExpected fin r1 r2 r3 masked len false false false false := by
  decide +kernel

/-- … and a failed write stops the emission at that point. -/
theorem writeFrameHeader_failures : ∀ masked : Bool, ∀ len ∈ lenReps, ∀ e1 e2 e3 e4 : Bool,
    run (envWriteHdr true false false false masked len e1 e2 e3 e4) g_c_writeFrameHeader
      = writeHdrExpected true false false false masked len e1 e2 e3 e4 := by
  decide +kernel

/-- the table's choice of length form is the frame model's, for every length: the header the model encodes is two bytes,
the table's extended length and the key. -/
theorem table_form_is_model_form (h : Header) :
    (encodeHeader h).length = 2 + tableExtBytes h.len + (if h.masked then (h.key.take 4).length else 0) := by
  unfold encodeHeader tableExtBytes
  by_cases h1 : h.len > 65535
  · cases hm : h.masked <;> simp [h1, be64] <;> omega
  · by_cases h2 : h.len > 125
    · cases hm : h.masked <;> simp [h1, h2, be16] <;> omega
    · cases hm : h.masked <;> simp [h1, h2] <;> omega

end WS.Props.G2
