import WS.Props.G2.WriteDefs
/-
  msgWriter.reset and Conn.write (write.go) as written now against decision tables (C01, C05, C10).
-/
namespace WS.Props.G2
open WS WS.Model.Guard WS.Gen.Guards2

theorem msgWriter_reset_matches : ∀ lockErr : Bool,
    run (mkEnv [("mu.lock:err!=nil", lockErr)]) g_c_msgWriter_reset = msgWriterResetExpected lockErr := by
  decide +kernel

theorem Conn_write_matches : ∀ wErr flate fErr mwErr clErr : Bool,
    run (envConnWrite wErr flate fErr mwErr clErr) g_c_Conn_write = connWriteExpected wErr flate fErr mwErr clErr := by
  decide +kernel

theorem msgWriter_Close_matches : ∀ lockErr closed flate flushErr frameErr takeover : Bool,
    run (envMwClose lockErr closed flate flushErr frameErr takeover) g_c_msgWriter_Close
      = mwCloseExpected lockErr closed flate flushErr frameErr takeover := by
  decide +kernel

end WS.Props.G2
