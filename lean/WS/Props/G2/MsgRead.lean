import WS.Props.G2.ReadDefs
/-
  msgReader.Read (read.go) as written now against its decision table (C04).
-/
namespace WS.Props.G2
open WS WS.Model.Guard WS.Gen.Guards2

theorem msgReader_Read_matches : ∀ lockErr : Bool, ∀ k1 ∈ EK.all, ∀ flate takeover copyErr fin pl0 : Bool,
    run (envMsgReaderRead lockErr k1 flate takeover copyErr fin pl0) g_c_msgReader_Read
      = msgReaderReadExpected lockErr k1 flate takeover copyErr fin pl0 := by
  decide +kernel

/-- in particular: whatever else holds, an error of the frame reader that is neither the message's own end nor the
inflater's end of input never reads as a clean end. -/
theorem transport_error_never_clean : ∀ flate takeover copyErr fin pl0 : Bool,
    (msgReaderReadExpected false .other flate takeover copyErr fin pl0).out = .ret "err" := by
  decide

end WS.Props.G2
