import WS.Props.G2.HandshakeDefs
/-
  selectDeflate, acceptDeflate (accept.go) and verifyServerExtensions (dial.go) as written now against decision tables and the handshake model (C13, C14).
-/
namespace WS.Props.G2
open WS WS.Model WS.Model.Guard WS.Gen.Guards2

/-- `acceptDeflate`, one parameter of an offer: exactly what the handshake model does with a parameter of that kind (C14). -/
theorem acceptDeflate_step_matches : ∀ more seen : Bool, ∀ k ∈ PK.all,
    run (envAcceptDeflate more seen k) g_c_acceptDeflate = acceptDeflateExpected more seen k := by
  decide +kernel

/-- `verifyServerExtensions` (C13, C14). -/
theorem verifyServerExtensions_matches : ∀ any notPMD many offered more : Bool, ∀ k ∈ RK.all,
    run (envVSE any notPMD many offered more k) g_c_verifyServerExtensions = vseExpected any notPMD many offered more k := by
  decide +kernel

end WS.Props.G2
