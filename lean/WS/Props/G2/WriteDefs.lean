import WS.Props.G2.Util
/-
  Valuations and decision tables for msgWriter.reset, Conn.write (write.go) and Conn.ping (conn.go).
-/
namespace WS.Props.G2
open WS WS.Model.Guard WS.Gen.Guards2

/-- a new message takes the message lock first — under the caller's context — and only then touches the writer's state. -/
def msgWriterResetExpected (lockErr : Bool) : Res :=
  if lockErr then errRes ["mu.lock"]
  else okRes ["mu.lock", "ctx=ctx", "opcode=opcode(typ)", "flate=false", "closed=false", "trimWriter.reset"]

def envConnWrite (wErr flate fErr mwErr clErr : Bool) : Env :=
  mkEnv [("writer:err!=nil", wErr), ("flate()", flate), ("writeFrame:err!=nil", fErr), ("writer(ctx,typ)#0.Write:err!=nil", mwErr),
    ("writer(ctx,typ)#0.Close:err!=nil", clErr)]

/-- `Conn.write`: the message lock is taken by `writer`; without compression the message is one frame and the lock is
released when the call returns — registered only on that path, after the lock is held —; with compression the message
goes through the message writer, whose Close releases the lock. -/
def connWriteExpected (wErr flate fErr mwErr clErr : Bool) : Res :=
  if wErr then errRes ["writer"]
  else if !flate then retRes ["writer", "defer msgWriter.mu.unlock", "writeFrame"] (if fErr then "err" else "ok")
  else if mwErr then errRes ["writer", "writer(ctx,typ)#0.Write(_)"]
  else retRes ["writer", "writer(ctx,typ)#0.Write(_)", "writer(ctx,typ)#0.Close()"] (if clErr then "err" else "ok")

/-- `Conn.ping`: the ping is registered (under the registry lock) before its frame is written, so that a pong arriving at
once finds it; then the call waits (for its pong, its context or the connection's end). -/
def pingExpected (wErr : Bool) : Res :=
  let pre := ["activePingsMu.Lock", "activePings[p]=make(chanstruct{},1)", "activePingsMu.Unlock", "writeControl"]
  if wErr then errRes pre else ⟨pre, .opaque "select"⟩

end WS.Props.G2
