import WS.Props.G2.Util
/-
  Valuations and decision tables for msgWriter.reset, Conn.write (write.go) and Conn.ping (conn.go).
-/
namespace WS.Props.G2
open WS WS.Model.Guard WS.Gen.Guards2

/-- a new message takes the message lock first — under the caller's context — and only then touches the writer's state. -/
def msgWriterResetExpected (lockErr : Bool) : Res :=
  if lockErr then errRes ["mu.lock"]
  else okRes ["mu.lock", "ctx=ctx", "opcode=opcode(typ)", "flate=false", "closed=false", "trimWriter.reset"]

def envConnWrite (wErr flate fErr mwErr clErr : Bool) : Env :=
  mkEnv [("writer:err!=nil", wErr), ("flate()", flate), ("writeFrame:err!=nil", fErr), ("writer(ctx,typ)#0.Write:err!=nil", mwErr),
    ("writer(ctx,typ)#0.Close:err!=nil", clErr)]

/-- `Conn.write`: the message lock is taken by `writer`; without compression the message is one frame and the lock is
released when the call returns — registered only on that path, after the lock is held —; with compression the message
goes through the message writer, whose Close releases the lock. -/
def connWriteExpected (wErr flate fErr mwErr clErr : Bool) : Res :=
  if wErr then errRes ["writer"]
  else if !flate then retRes ["writer", "defer msgWriter.mu.unlock", "writeFrame"] (if fErr then "err" else "ok")
  else if mwErr then errRes ["writer", "writer(ctx,typ)#0.Write(_)"]
  else retRes ["writer", "writer(ctx,typ)#0.Write(_)", "writer(ctx,typ)#0.Close()"] (if clErr then "err" else "ok")

/-- `Conn.ping`: the ping is registered (under the registry lock) before its frame is written, so that a pong arriving at
once finds it; then the call waits (for its pong, its context or the connection's end). -/
def pingExpected (wErr : Bool) : Res :=
  let pre := ["activePingsMu.Lock", "activePings[p]=make(chanstruct{},1)", "activePingsMu.Unlock", "writeControl"]
  if wErr then errRes pre else ⟨pre, .opaque "select"⟩

/-! ### msgWriter.Close (C01, C02, C05, C07) -/

def envMwClose (lockErr closed flate flushErr frameErr takeover : Bool) : Env :=
  mkEnv [("writeMu.lock:err!=nil", lockErr), ("closed", closed), ("flate", flate), ("flateWriter.Flush:err!=nil", flushErr),
    ("writeFrame:err!=nil", frameErr), ("flateContextTakeover()", takeover)]

/-- the writer's own lock is held for the call; a closed writer does nothing; the writer is marked closed before anything is
sent; a compressed message is flushed; the final frame is written with FIN, with the message's compression flag and with the
opcode the message is at (its type if nothing was written yet, continuation otherwise) and no payload; the compressor is
given back exactly when its context is not kept; the message lock is released only after the final frame was written. -/
def mwCloseExpected (lockErr closed flate flushErr frameErr takeover : Bool) : Res :=
  if lockErr then errRes ["writeMu.lock"]
  else
    let pre := ["writeMu.lock", "defer writeMu.unlock"]
    if closed then errRes pre
    else
      let p2 := pre ++ ["closed=true"] ++ (if flate then ["flateWriter.Flush"] else [])
      if flate && flushErr then errRes p2
      else if frameErr then errRes (p2 ++ ["writeFrame(ctx,true,flate,opcode,nil)"])
      else okRes (p2 ++ ["writeFrame(ctx,true,flate,opcode,nil)"] ++ (if flate && !takeover then ["putFlateWriter"] else []) ++ ["mu.unlock"])

end WS.Props.G2
