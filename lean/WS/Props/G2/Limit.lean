import WS.Props.G2.ReadDefs
/-
  limitReader.Read and msgReader.reset (read.go) as written now against decision tables (C01, C08).
-/
namespace WS.Props.G2
open WS WS.Model.Guard WS.Gen.Guards2

theorem limitReader_Read_matches : ∀ n ∈ [(-1 : Int), 0, 1, 7], ∀ n' ∈ [(-1 : Int), 0, 3], ∀ big : Bool, ∀ k ∈ EK.all,
    run (envLimitRead n n' big k) g_c_limitReader_Read = limitReadExpected n n' big k := by
  decide +kernel

end WS.Props.G2
