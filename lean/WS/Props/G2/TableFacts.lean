import WS.Props.G2.HandshakeDefs
import WS.Props.G2.CloseSeqDefs
import WS.Props.G2.ReadDefs
import WS.Props.G2.WriteDefs
import WS.Props.G2.NetDefs
/-
  What the decision tables of this directory say, in the words of the properties.  These theorems are about the tables alone
  (they do not mention the regenerated code): they are the reading of a table that its obligation
  `run env <regenerated skeleton> = <table>` then transfers to the code as written now.
-/
namespace WS.Props.G2
open WS WS.Model.Guard

/-- position of an action in a run (`none` = not performed). -/
def posOf (a : String) (r : Res) : Option Nat := r.acts.findIdx? (· == a)

def before (a b : String) (r : Res) : Bool :=
  match posOf a r, posOf b r with
  | some i, some j => decide (i < j)
  | _, _ => false

/-- C11 / C12: `accept` writes the 101 only when the request was acceptable, the origin authorised (or verification switched
off) and the writer can be hijacked; and every refusal is answered before any upgrade header is set. -/
theorem accept_101_only_after_all_checks : ∀ vErr skip oErr badPat hj sub defl hjErr : Bool,
    (acceptExpected vErr skip oErr badPat hj sub defl hjErr).acts.contains "w.WriteHeader(101)" = true →
      vErr = false ∧ (skip = true ∨ oErr = false) ∧ hj = true := by
  decide

theorem accept_refusal_sets_no_upgrade_header : ∀ vErr skip oErr badPat hj sub defl hjErr : Bool,
    (vErr = true ∨ (skip = false ∧ oErr = true) ∨ hj = false) →
      (acceptExpected vErr skip oErr badPat hj sub defl hjErr).acts.contains "w.Header().Set(Upgrade,websocket)" = false
        ∧ (acceptExpected vErr skip oErr badPat hj sub defl hjErr).out = .ret "err" := by
  decide

/-- C12: an origin that is refused is answered with 403. -/
theorem accept_origin_refused_is_403 : ∀ badPat hj sub defl hjErr : Bool,
    (acceptExpected false false true badPat hj sub defl hjErr).acts.contains "http.Error(_,_,403)" = true := by
  decide

/-- C11: a connection object is produced only on the path that returns success. -/
theorem accept_conn_only_on_success : ∀ vErr skip oErr badPat hj sub defl hjErr : Bool,
    (acceptExpected vErr skip oErr badPat hj sub defl hjErr).acts.contains "newConn" = true ↔
      (acceptExpected vErr skip oErr badPat hj sub defl hjErr).out = .ret "ok" := by
  decide

/-- C06 / C20: the caller that gets the closing role always closes the connection and joins the goroutines, whatever the
handshake's outcome; a later caller never performs a handshake and reports `net.ErrClosed` (or the join's failure). -/
theorem close_first_closer_always_closes_and_joins : ∀ wg1 hs cl wg2 : Bool,
    before "closeHandshake" "close" (closeExpected true wg1 hs cl wg2) = true
      ∧ before "close" "waitGoroutines" (closeExpected true wg1 hs cl wg2) = true := by
  decide

theorem close_later_caller_refused : ∀ wg1 hs cl wg2 : Bool,
    (closeExpected false wg1 hs cl wg2).acts = ["waitGoroutines"]
      ∧ ((closeExpected false wg1 hs cl wg2).out = .ret "err:net.ErrClosed" ∨ (closeExpected false wg1 hs cl wg2).out = .ret "err") := by
  decide

/-- C09: CloseNow closes the connection in either role. -/
theorem closeNow_always_closes : ∀ first wg1 cl wg2 : Bool,
    (closeNowExpected first wg1 cl wg2).acts.contains "close" = true := by
  decide

/-- C16: the Close frame is written before the peer's Close frame is awaited, and never after a failed write. -/
theorem handshake_writes_before_waiting : ∀ w waitErr other : Bool,
    (w = false → before "writeClose" "waitCloseHandshake" (handshakeExpected w waitErr other) = true)
      ∧ (w = true → (handshakeExpected w waitErr other).acts = ["writeClose"]) := by
  decide

/-- C08: with the allowance used up nothing more is read and the message fails with a Close frame (1009); and a message whose
last permitted byte arrives together with the source's end fails as well. -/
theorem limit_enforced : ∀ big : Bool, ∀ k ∈ EK.all, ∀ n' ∈ [(-1 : Int), 0, 3],
    limitReadExpected 0 n' big k = errRes ["writeError"]
      ∧ (limitReadExpected 7 0 big .eof).out = .ret "err" ∧ (limitReadExpected 7 0 big .ueof).out = .ret "err" := by
  decide

/-- C04: the frame reader's own end of message is the only way to a clean end without compression. -/
theorem clean_end_needs_message_end : ∀ k1 ∈ EK.all, ∀ takeover copyErr fin pl0 : Bool,
    (msgReaderReadExpected false k1 false takeover copyErr fin pl0).out = .ret "err:io.EOF" → k1 = .eof := by
  decide

/-- C05 / C01: the message lock is released only after the final frame was written, and never when that write failed. -/
theorem message_lock_released_after_final_frame : ∀ lockErr closed flate flushErr frameErr takeover : Bool,
    (mwCloseExpected lockErr closed flate flushErr frameErr takeover).acts.contains "mu.unlock" = true →
      before "writeFrame(ctx,true,flate,opcode,nil)" "mu.unlock" (mwCloseExpected lockErr closed flate flushErr frameErr takeover) = true
        ∧ frameErr = false := by
  decide

/-- C10: a new message touches the writer's state only after it holds the message lock. -/
theorem writer_state_after_lock : before "mu.lock" "ctx=ctx" (msgWriterResetExpected false) = true
    ∧ (msgWriterResetExpected true).acts = ["mu.lock"] := by
  decide

/-- C15: a Ping is registered before its frame is written. -/
theorem ping_registered_before_written : ∀ wErr : Bool,
    before "activePings[p]=make(chanstruct{},1)" "writeControl" (pingExpected wErr) = true := by
  decide

/-- C19 / C07: the pooled buffer is given back exactly once — by the deferred Put — on every path that took it. -/
theorem json_buffer_put_once : ∀ rErr cErr uErr : Bool,
    ((jsonReadExpected rErr cErr uErr).acts.filter (fun a => a == "defer bpool.Put(_)" || a == "bpool.Put(_)")).length
      = (if rErr then 0 else 1) := by
  decide

/-- C18: the end of one message is not the end of the stream; only the peer's normal close is `io.EOF`. -/
theorem netconn_eof_only_after_normal_close : ∀ hasReader rErr mismatch : Bool, ∀ status ∈ [(-1 : Int), 1000, 1001, 1002, 1006], ∀ k ∈ [EK.nil, .eof, .other],
    (netReadExpected false false hasReader rErr status mismatch k).out = .ret "err:io.EOF" →
      hasReader = false ∧ rErr = true ∧ (status = 1000 ∨ status = 1001) := by
  decide

end WS.Props.G2
