import WS.Props.G2.CloseDefs
/-
  handleControl (read.go) as written now against its decision table (C03, C06, C15).
-/
namespace WS.Props.G2
open WS WS.Model WS.Model.Guard WS.Gen.Guards2

theorem handleControl_matches : ∀ len ∈ [(-1 : Int), 0, 1, 125, 126, 65536], ∀ fin ioErr masked : Bool, ∀ op ∈ [8, 9, 10],
    ∀ pongErr known parseErr : Bool,
    run (envHandleControl len fin ioErr masked op pongErr known parseErr) g_c_Conn_handleControl
      = handleControlExpected len fin ioErr masked op pongErr parseErr := by
  decide +kernel

end WS.Props.G2
