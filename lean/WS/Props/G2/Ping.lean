import WS.Props.G2.WriteDefs
/-
  Conn.ping (conn.go) as written now against its decision table (C15).
-/
namespace WS.Props.G2
open WS WS.Model.Guard WS.Gen.Guards2

theorem Conn_ping_matches : ∀ wErr : Bool,
    run (mkEnv [("writeControl:err!=nil", wErr)]) g_c_Conn_ping = pingExpected wErr := by
  decide +kernel

end WS.Props.G2
