import WS.Props.G2.Util
import WS.Model.Frame
/-
  Valuations and decision tables for readFrameHeader / writeFrameHeader (frame.go): which length form is read / written
  for which payload length, in which order the pieces of a header go out, where a failure stops.
-/
namespace WS.Props.G2
open WS WS.Model WS.Model.Guard WS.Gen.Guards2

/-! ### writeFrameHeader (C02) -/

def envWriteHdr (fin r1 r2 r3 masked : Bool) (len : Int) (e1 e2 e3 e4 : Bool) : Env :=
  mkEnv [("h.fin", fin), ("h.rsv1", r1), ("h.rsv2", r2), ("h.rsv3", r3), ("h.masked", masked),
    ("w.WriteByte:err!=nil", e1), ("w.WriteByte@2:err!=nil", e2), ("w.Write:err!=nil", e3), ("w.Write@2:err!=nil", e3),
    ("w.Write@3:err!=nil", e4)] [("h.payloadLength", len)]

/-- (how the two leading bytes are put together from FIN, RSV1–3, opcode and MASK is compared byte for byte by the
differential side; here:) first byte; second byte: MASK and the 7-bit length field — the length itself up to 125,
126 for lengths that need 16 bits, 127 beyond 65535 (the minimal encoding) —; then the extended length in network byte
order in exactly that many bytes; then the masking key iff MASK is set. A failed write stops the emission. -/
def writeHdrExpected (fin r1 r2 r3 masked : Bool) (len : Int) (e1 e2 e3 e4 : Bool) : Res :=
  let b0 := ["w.WriteByte(_)"]
  if e1 then errRes b0
  else
    let b1 := b0 ++ ["lengthByte:=0"] ++ (if masked then ["lengthByte|=128"] else [])
      ++ (if len > 65535 then ["lengthByte|=127"] else if len > 125 then ["lengthByte|=126"]
          else if len ≥ 0 then ["lengthByte|=byte(h.payloadLength)"] else []) ++ ["w.WriteByte(_)"]
    if e2 then errRes b1
    else
      let ext := if len > 65535 then ["binary.BigEndian.PutUint64(buf,uint64(h.payloadLength))", "w.Write(buf)"]
        else if len > 125 then ["binary.BigEndian.PutUint16(buf,uint16(h.payloadLength))", "w.Write(buf[:2])"] else []
      if len > 125 && e3 then errRes (b1 ++ ext)
      else if !masked then okRes (b1 ++ ext)
      else if e4 then errRes (b1 ++ ext ++ ["binary.LittleEndian.PutUint32(buf,h.maskKey)", "w.Write(buf[:4])"])
      else okRes (b1 ++ ext ++ ["binary.LittleEndian.PutUint32(buf,h.maskKey)", "w.Write(buf[:4])"])

/-- the number of extended-length bytes the table writes for a length. -/
def tableExtBytes (len : Nat) : Nat := if len > 65535 then 8 else if len > 125 then 2 else 0

/-! ### readFrameHeader (C03, C04) -/

def envReadHdr (e1 e2 : Bool) (l7 : Int) (eExt neg masked eKey : Bool) : Env :=
  mkEnv [("r.ReadByte:err!=nil", e1), ("r.ReadByte@2:err!=nil", e2), ("io.ReadFull:err!=nil", eExt), ("io.ReadFull@2:err!=nil", eExt),
    ("io.ReadFull@3:err!=nil", eKey), ("h.masked", masked)] [("b&^128", l7), ("r.ReadByte()#0&^128", l7), ("h.payloadLength", if neg then -1 else 5)]

/-- two bytes (a failed read ends the call): FIN, RSV1–3, opcode, MASK and the 7-bit length field; 126 / 127 announce a
16-bit / 64-bit length read in full in network byte order; a 64-bit length with the top bit set is refused; the key is
read iff MASK is set. -/
def readHdrExpected (e1 e2 : Bool) (l7 : Int) (eExt neg masked eKey : Bool) : Res :=
  if e1 then errRes ["r.ReadByte()"]
  else
    let b0 := ["r.ReadByte()", "r.ReadByte()"]
    if e2 then errRes b0
    else
      let b1 := b0 ++
        (if l7 < 126 then ["h.payloadLength=int64(b&^128)"]
         else if l7 = 126 then ["io.ReadFull(r,readBuf[:2])", "h.payloadLength=int64(binary.BigEndian.Uint16(readBuf))"]
         else ["io.ReadFull(r,readBuf)", "h.payloadLength=int64(binary.BigEndian.Uint64(readBuf))"])
      if l7 ≥ 126 && eExt then errRes b1
      else if neg then errRes b1
      else if !masked then okRes b1
      else if eKey then errRes (b1 ++ ["io.ReadFull(r,readBuf[:4])"])
      else okRes (b1 ++ ["io.ReadFull(r,readBuf[:4])"])

end WS.Props.G2
