import WS.Props.G2.HandshakeDefs
/-
  verifyServerResponse and verifySubprotocol (dial.go) as written now against decision tables (C13).
-/
namespace WS.Props.G2
open WS WS.Model WS.Model.Guard WS.Gen.Guards2

/-- `verifyServerResponse` (C13). -/
theorem verifyServerResponse_matches : ∀ status ∈ [101, 200, 400], ∀ conn upg acceptBad subErr extErr : Bool,
    run (envVSR status conn upg acceptBad subErr extErr) g_c_verifyServerResponse
      = vsrExpected status conn upg acceptBad subErr extErr := by
  decide +kernel

theorem verifySubprotocol_matches : ∀ has more eq : Bool,
    run (envVSub has more eq) g_c_verifySubprotocol = vsubExpected has more eq := by
  decide +kernel

end WS.Props.G2
