import WS.Props.G2.NetDefs
/-
  wsjson.read as written now against its decision table (C07, C19).
-/
namespace WS.Props.G2
open WS WS.Model.Guard WS.Gen.Guards2

theorem wsjson_read_matches : ∀ rErr cErr uErr : Bool,
    run (envJsonRead rErr cErr uErr) g_wsjson_c_read = jsonReadExpected rErr cErr uErr := by
  decide +kernel

end WS.Props.G2
