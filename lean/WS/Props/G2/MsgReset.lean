import WS.Props.G2.ReadDefs
/-
  msgReader.reset and msgReader.setFrame (read.go) as written now against decision tables (C01, C03, C08).
-/
namespace WS.Props.G2
open WS WS.Model.Guard WS.Gen.Guards2

theorem msgReader_reset_matches : ∀ rsv1 : Bool,
    run (envMsgReaderReset rsv1) g_c_msgReader_reset = msgReaderResetExpected rsv1 := by
  decide +kernel

theorem msgReader_setFrame_matches : run (mkEnv []) g_c_msgReader_setFrame = setFrameExpected := by
  decide +kernel

end WS.Props.G2
