import WS.Props.G2.FrameWrite
import WS.Proofs.GuardFar
/-
  writeFrameHeader for *every* payload length: the table was compared with the regenerated skeleton on the representatives
  `lenReps` (every constant of the length comparisons and its neighbours, `writeFrameHeader_matches`); a run depends on the
  length only through those comparisons (`WS.Model.Guard.run_far`, proved for every program of the DSL), and so does the
  table — hence they agree on every integer.
-/
namespace WS.Props.G2
open WS WS.Model WS.Model.Guard WS.Gen.Guards2

theorem envWriteHdr_setI (fin r1 r2 r3 masked : Bool) (len : Int) (e1 e2 e3 e4 : Bool) :
    envWriteHdr fin r1 r2 r3 masked len e1 e2 e3 e4
      = (envWriteHdr fin r1 r2 r3 masked 0 e1 e2 e3 e4).setI "h.payloadLength" len := by
  unfold envWriteHdr mkEnv Env.setI
  simp only [Env.mk.injEq, true_and, and_true]
  funext m
  by_cases hm : m = "h.payloadLength"
  · simp [List.lookup, hm]
  · have : (m == "h.payloadLength") = false := by simpa using hm
    simp [List.lookup, hm, this]

/-- the constants the regenerated `writeFrameHeader` compares the payload length with. -/
theorem writeHdr_consts : ∀ k ∈ constsL g_c_writeFrameHeader, k = 65535 ∨ k = 125 ∨ k = 0 := by
  intro k hk
  simp [g_c_writeFrameHeader, constsL, constsS, constsE] at hk
  omega

/-- every length has a representative in `lenReps` that compares alike with 0, 125 and 65535. -/
theorem lenRep_exists (len : Int) : ∃ r ∈ lenReps, (len < 0 ↔ r < 0) ∧ (len = 0 ↔ r = 0) ∧ (len < 125 ↔ r < 125) ∧ (len = 125 ↔ r = 125)
    ∧ (len < 65535 ↔ r < 65535) ∧ (len = 65535 ↔ r = 65535) := by
  by_cases h0 : len < 0
  · exact ⟨-1, by decide, by omega⟩
  by_cases h1 : len = 0
  · exact ⟨0, by decide, by omega⟩
  by_cases h2 : len < 125
  · exact ⟨1, by decide, by omega⟩
  by_cases h3 : len = 125
  · exact ⟨125, by decide, by omega⟩
  by_cases h4 : len < 65535
  · exact ⟨126, by decide, by omega⟩
  by_cases h5 : len = 65535
  · exact ⟨65535, by decide, by omega⟩
  · exact ⟨65536, by decide, by omega⟩

/-- the table depends on the length through the same comparisons. -/
theorem writeHdrExpected_far (fin r1 r2 r3 masked : Bool) (len r : Int) (e1 e2 e3 e4 : Bool)
    (h : (len < 0 ↔ r < 0) ∧ (len = 0 ↔ r = 0) ∧ (len < 125 ↔ r < 125) ∧ (len = 125 ↔ r = 125)
      ∧ (len < 65535 ↔ r < 65535) ∧ (len = 65535 ↔ r = 65535)) :
    writeHdrExpected fin r1 r2 r3 masked len e1 e2 e3 e4 = writeHdrExpected fin r1 r2 r3 masked r e1 e2 e3 e4 := by
  have a1 : (len > 65535) = (r > 65535) := by apply propext; omega
  have a2 : (len > 125) = (r > 125) := by apply propext; omega
  have a3 : (len ≥ 0) = (r ≥ 0) := by apply propext; omega
  unfold writeHdrExpected
  simp only [a1, a2, a3]

/-- **writeFrameHeader, every length** (nothing fails): first byte, second byte with the 7-bit length field — the length itself up to
125, 126 for lengths that need 16 bits, 127 beyond 65535 —, the extended length in exactly that many bytes, the key iff MASK. -/
theorem writeFrameHeader_every_length (fin r1 r2 r3 masked : Bool) (len : Int) :
    run (envWriteHdr fin r1 r2 r3 masked len false false false false) g_c_writeFrameHeader
      = writeHdrExpected fin r1 r2 r3 masked len false false false false := by
  obtain ⟨r, hr, hcmp⟩ := lenRep_exists len
  have hag : Agree (constsL g_c_writeFrameHeader) len r := by
    intro k hk
    rcases writeHdr_consts k hk with rfl | rfl | rfl <;> omega
  rw [envWriteHdr_setI, run_far _ (fun _ => rfl) _ len r _ hag, ← envWriteHdr_setI,
    writeFrameHeader_matches fin r1 r2 r3 masked r hr, writeHdrExpected_far fin r1 r2 r3 masked len r false false false false hcmp]

end WS.Props.G2
