import WS.Model.Handshake
import WS.Proofs.Negotiation
import WS.Props.Handshake
/-
  C14 — permessage-deflate is negotiated soundly and both ends agree on its parameters.
  Statements about the model of selectDeflate / acceptDeflate / compressionOptions.String /
  verifyServerExtensions and the per-direction takeover selectors.
-/
namespace WS.Props.C14
open WS WS.Model WS.Proofs.Negotiation

/- `pCNCT`, `pSNCT`, `pmd`, `paramOK`, `OfferOK` are defined (in this namespace) in
   WS/Proofs/Negotiation.lean, which the helper lemmas need. -/

/-- **server soundness, one offer**: an offer is accepted iff it is honourable, and then the options
are the server mode's own plus exactly the flags the offer asks for — in particular
`server_no_context_takeover` is adopted (and echoed, see `response_strings`) whenever it is offered. -/
theorem acceptDeflate_iff (ext : Ext) (mode : Nat) (c : Copts) :
    acceptDeflate ext mode = some c ↔
      OfferOK ext.params ∧
      c = { cnct := (mode == 2) || ext.params.contains pCNCT, snct := (mode == 2) || ext.params.contains pSNCT } := by
  unfold acceptDeflate
  rw [acceptDeflate_go_iff]
  simp only [GoSpec, OfferOK, modeOpts, List.not_mem_nil, not_false_eq_true, implies_true, true_and,
    and_assoc]

/-- **fallback**: the server takes the first permessage-deflate offer it can honour, skipping other
extensions and declined offers; with compression disabled it takes none. -/
theorem selectDeflate_spec (exts : List Ext) (mode : Nat) :
    selectDeflate exts mode =
      if mode = 0 then none
      else (exts.filter (fun e => e.name == pmd)).findSome? (fun e => acceptDeflate e mode) := by
  unfold selectDeflate
  by_cases h : mode = 0
  · simp [h]
  · rw [if_neg (by simpa using h), if_neg h]
    exact selectDeflate_go_eq mode exts

/-- the response never carries a parameter a client may not receive: it is one of four strings. -/
theorem response_strings (c : Copts) :
    coptsString c = s "permessage-deflate" ∨
    coptsString c = s "permessage-deflate; client_no_context_takeover" ∨
    coptsString c = s "permessage-deflate; server_no_context_takeover" ∨
    coptsString c = s "permessage-deflate; client_no_context_takeover; server_no_context_takeover" := by
  rcases c with ⟨_ | _, _ | _⟩ <;> decide +kernel

def extHdr (v : Str) : Hdr := [(s "Sec-Websocket-Extensions", [v])]

/-- a client that offered `c0` and reads the server's rendering of `c` ends with the server's flags:
`server_no_context_takeover` exactly as the response says, `client_no_context_takeover` if either side wants it. -/
theorem response_understood (c0 c : Copts) :
    verifyServerExtensions (some c0) (extHdr (coptsString c)) =
      .ok (some { cnct := c0.cnct || c.cnct, snct := c.snct }) := by
  rcases c with ⟨_ | _, _ | _⟩ <;> rcases c0 with ⟨_ | _, _ | _⟩ <;> decide +kernel

/-- **client soundness**: whatever response a client accepts consists of exactly one
permessage-deflate extension whose parameters are ones it can honour, and the options it adopts are
what that response means: the server drops its context iff the response says so. -/
theorem client_sound (c0 c : Copts) (h : Hdr) (hv : verifyServerExtensions (some c0) h = .ok (some c)) :
    ∃ ext, websocketExtensions h = [ext] ∧ ext.name = pmd ∧
      (∀ p ∈ ext.params, p = pCNCT ∨ p = pSNCT ∨ hasPrefix (s "server_max_window_bits=") p = true) ∧
      c.snct = ext.params.contains pSNCT ∧ c.cnct = (c0.cnct || ext.params.contains pCNCT) := by
  unfold verifyServerExtensions at hv
  split at hv
  · simp at hv
  · rename_i ext hext
    refine ⟨ext, hext, ?_⟩
    simp only at hv
    split at hv
    · simp at hv
    · rename_i hn
      have hname : ext.name = pmd := by simpa [pmd] using hn
      rw [verify_go_iff] at hv
      obtain ⟨hall, rfl⟩ := hv
      exact ⟨hname, hall, by simp, rfl⟩
  · simp at hv

/-- with compression off (nothing offered) any extension in the response is rejected. -/
theorem client_no_offer (h : Hdr) (r : Option Copts) (hv : verifyServerExtensions none h = .ok r) :
    r = none ∧ websocketExtensions h = [] := by
  unfold verifyServerExtensions at hv
  split at hv
  · rename_i he
    exact ⟨by simpa [eq_comm] using hv, he⟩
  · simp at hv
  · simp at hv

/-- no extension header means no compression, whatever was offered. -/
theorem client_no_extension (c0 : Option Copts) (h : Hdr) (he : websocketExtensions h = []) :
    verifyServerExtensions c0 h = .ok none := by
  unfold verifyServerExtensions
  rw [he]

/-- the handshake between two library endpoints in modes `cm` (client) and `sm` (server). -/
def libHandshake (cm sm : Nat) : Option Copts × VerifyExt :=
  let offer : Hdr := if cm == 0 then [] else extHdr (coptsString (modeOpts cm))
  let srv := selectDeflate (websocketExtensions offer) sm
  let resp : Hdr := match srv with
    | some c => extHdr (coptsString c)
    | none => []
  (srv, verifyServerExtensions (if cm == 0 then none else some (modeOpts cm)) resp)

/-- **library to library, all 3×3 modes**: compression is on iff both enabled it, and both endpoints
hold the same options. -/
theorem lib_to_lib_agree :
    ∀ cm ∈ [0, 1, 2], ∀ sm ∈ [0, 1, 2],
      (libHandshake cm sm).2 = .ok (libHandshake cm sm).1 ∧
      ((libHandshake cm sm).1.isSome = (cm != 0 && sm != 0)) := by
  decide +kernel

/-- **directions are consistent**: what one endpoint does when writing is what its peer assumes when
reading, for every agreed option pair (including asymmetric ones) and both roles. -/
theorem directions_consistent (client : Bool) (c : Copts) :
    writerTakeover client c = readerTakeover (!client) c := by
  cases client <;> simp [writerTakeover, readerTakeover]

end WS.Props.C14
