import WS.Model.Ping
import Std.Data.String.ToNat
/-
  C15, first half — "Ping waits for its own Pong": theorems about the registry model
  (WS/Model/Ping.lean), for every history of other Pings, Pongs, cancellations and returns.
-/
namespace WS.Props.C15
open WS.Model.Ping

/-- decimal payloads identify their call: distinct counters give distinct Ping payloads. -/
theorem payload_injective (a b : Nat) (h : payloadOf a = payloadOf b) : a = b :=
  Nat.repr_inj.mp h

theorem finish_out (s : St) (id : Nat) :
    (step s (.finish id)).2 = if gotOf s id then .returnedOk id else .nothing := by
  simp only [step]; split <;> rfl

/-! ### no success without the call's own Pong -/

/-- one event that is not a Pong with the call's own payload cannot put a token in its channel. -/
theorem step_keeps_unanswered (s : St) (e : Ev) (id : Nat)
    (hg : gotOf s id = false) (he : e ≠ .pong (payloadOf id)) : gotOf (step s e).1 id = false := by
  simp only [gotOf, List.any_eq_false, Bool.and_eq_true, beq_iff_eq, not_and, Bool.not_eq_true] at hg ⊢
  cases e with
  | start =>
    intro x hx
    simp only [step, List.mem_append, List.mem_singleton] at hx
    rcases hx with hx | hx
    · exact hg x hx
    · subst hx; simp
  | pong p =>
    intro x hx hid
    simp only [step, List.mem_map] at hx
    obtain ⟨y, hy, rfl⟩ := hx
    have hyid : y.id = id := by unfold mark at hid; split at hid <;> simpa using hid
    have hp : payloadOf y.id ≠ p := by intro h; apply he; rw [← h, hyid]
    have hm : mark p y = y := by unfold mark; simp [hp]
    rw [hm]; exact hg y hy hyid
  | cancel j =>
    intro x hx
    simp only [step] at hx
    split at hx
    · simp only [List.mem_filter] at hx; exact hg x hx.1
    · exact hg x hx
  | finish j =>
    intro x hx
    simp only [step] at hx
    split at hx
    · simp only [List.mem_filter] at hx; exact hg x hx.1
    · exact hg x hx

theorem run_keeps_unanswered (es : List Ev) (s : St) (id : Nat)
    (hg : gotOf s id = false) (he : ∀ e ∈ es, e ≠ .pong (payloadOf id)) : gotOf (after es s) id = false := by
  induction es generalizing s with
  | nil => simpa [after, run] using hg
  | cons e es ih =>
    have h1 := step_keeps_unanswered s e id hg (he e (by simp))
    have := ih (step s e).1 h1 (fun x hx => he x (by simp [hx]))
    simpa [after, run] using this

/-- **Ping waits for its own Pong**: whatever happened on the connection before the call (`pre`), and
whatever happens while it waits (`mid`: other Pings starting, returning or giving up, Pongs with any
other payload — unsolicited, duplicated, belonging to other calls), the call does not return
successfully unless a Pong carrying exactly its payload arrived after it started. -/
theorem no_success_without_own_pong (pre mid : List Ev) :
    let s0 := after pre init
    let id := s0.counter + 1
    (∀ e ∈ mid, e ≠ .pong (payloadOf id)) →
    (step (after mid (step s0 .start).1) (.finish id)).2 = .nothing := by
  intro s0 id hmid
  have hfresh : gotOf (step s0 .start).1 id = false := by
    -- a Pong that arrived before the call started does not count: the new channel is empty, and no
    -- older entry has this id … except that older ids could be equal only if the counter repeated
    have hle : ∀ s : St, (∀ x ∈ s.active, x.id ≤ s.counter) →
        gotOf (step s .start).1 (s.counter + 1) = false := by
      intro s hs
      simp only [gotOf, step, List.any_eq_false, Bool.and_eq_true, beq_iff_eq, not_and, Bool.not_eq_true,
        List.mem_append, List.mem_singleton]
      intro x hx hid
      rcases hx with hx | hx
      · have := hs x hx; omega
      · subst hx; rfl
    apply hle
    -- ids never exceed the counter
    have hinv : ∀ (es : List Ev) (s : St), (∀ x ∈ s.active, x.id ≤ s.counter) →
        ∀ x ∈ (after es s).active, x.id ≤ (after es s).counter := by
      intro es
      induction es with
      | nil => intro s hs; simpa [after, run] using hs
      | cons e es ih =>
        intro s hs
        have h1 : ∀ x ∈ (step s e).1.active, x.id ≤ (step s e).1.counter := by
          cases e with
          | start =>
            intro x hx
            simp only [step, List.mem_append, List.mem_singleton] at hx ⊢
            rcases hx with hx | hx
            · have := hs x hx; omega
            · subst hx; simp
          | pong p =>
            intro x hx
            simp only [step, List.mem_map] at hx ⊢
            obtain ⟨y, hy, rfl⟩ := hx
            have := hs y hy
            unfold mark; split <;> simpa using this
          | cancel j =>
            intro x hx
            simp only [step] at hx ⊢
            split at hx <;> split <;> simp_all [List.mem_filter]
          | finish j =>
            intro x hx
            simp only [step] at hx ⊢
            split at hx <;> split <;> simp_all [List.mem_filter]
        have := ih (step s e).1 h1
        simpa [after, run] using this
    exact hinv pre init (by simp [init])
  have h := run_keeps_unanswered mid _ id hfresh hmid
  rw [finish_out, h]; rfl

/-! ### the call's own Pong suffices, and touches no other call -/

/-- a Pong marks only the entries whose payload it carries: every other outstanding call is unchanged. -/
theorem pong_marks_only_own (s : St) (id : Nat) :
    ∀ x ∈ s.active, x.id ≠ id → mark (payloadOf id) x = x := by
  intro x _ hne
  unfold mark
  split
  · rename_i h; exact absurd (payload_injective _ _ h) hne
  · rfl

/-- a Pong with a payload no outstanding call uses (unsolicited, stale, foreign) changes nothing. -/
theorem foreign_pong_ignored (s : St) (p : String) (h : ∀ x ∈ s.active, payloadOf x.id ≠ p) :
    (step s (.pong p)).1 = s := by
  have : s.active.map (mark p) = s.active := by
    conv => rhs; rw [← List.map_id s.active]
    apply List.map_congr_left
    intro x hx
    unfold mark; simp [h x hx]
  simp [step, this]

/-- events that neither cancel nor complete the call `id`. -/
def leaves (id : Nat) : Ev → Bool
  | .cancel j | .finish j => j != id
  | _ => true

theorem step_keeps_answered (s : St) (e : Ev) (id : Nat) (hg : gotOf s id = true) (hl : leaves id e = true) :
    gotOf (step s e).1 id = true := by
  simp only [gotOf, List.any_eq_true, Bool.and_eq_true, beq_iff_eq] at hg ⊢
  obtain ⟨x, hx, hid, hgot⟩ := hg
  cases e with
  | start => exact ⟨x, by simp [step, hx], hid, hgot⟩
  | pong p =>
    refine ⟨mark p x, by simp only [step, List.mem_map]; exact ⟨x, hx, rfl⟩, ?_, ?_⟩ <;>
      (unfold mark; split <;> simp [hid, hgot])
  | cancel j =>
    have hj : j ≠ id := by simpa [leaves] using hl
    simp only [step]
    split
    · exact ⟨x, by simp [List.mem_filter, hx, hid, Ne.symm hj], hid, hgot⟩
    · exact ⟨x, hx, hid, hgot⟩
  | finish j =>
    have hj : j ≠ id := by simpa [leaves] using hl
    simp only [step]
    split
    · exact ⟨x, by simp [List.mem_filter, hx, hid, Ne.symm hj], hid, hgot⟩
    · exact ⟨x, hx, hid, hgot⟩

theorem step_keeps_present (s : St) (e : Ev) (id : Nat) (hp : present s id = true) (hl : leaves id e = true) :
    present (step s e).1 id = true := by
  simp only [present, List.any_eq_true, beq_iff_eq] at hp ⊢
  obtain ⟨x, hx, hid⟩ := hp
  cases e with
  | start => exact ⟨x, by simp [step, hx], hid⟩
  | pong p =>
    refine ⟨mark p x, by simp only [step, List.mem_map]; exact ⟨x, hx, rfl⟩, ?_⟩
    unfold mark; split <;> simp [hid]
  | cancel j =>
    have hj : j ≠ id := by simpa [leaves] using hl
    simp only [step]
    split
    · exact ⟨x, by simp [List.mem_filter, hx, hid, Ne.symm hj], hid⟩
    · exact ⟨x, hx, hid⟩
  | finish j =>
    have hj : j ≠ id := by simpa [leaves] using hl
    simp only [step]
    split
    · exact ⟨x, by simp [List.mem_filter, hx, hid, Ne.symm hj], hid⟩
    · exact ⟨x, hx, hid⟩

theorem run_keeps_present (es : List Ev) (s : St) (id : Nat) (hp : present s id = true)
    (hl : ∀ e ∈ es, leaves id e = true) : present (after es s) id = true := by
  induction es generalizing s with
  | nil => simpa [after, run] using hp
  | cons e es ih =>
    have := ih (step s e).1 (step_keeps_present s e id hp (hl e (by simp))) (fun x hx => hl x (by simp [hx]))
    simpa [after, run] using this

theorem run_keeps_answered (es : List Ev) (s : St) (id : Nat) (hg : gotOf s id = true)
    (hl : ∀ e ∈ es, leaves id e = true) : gotOf (after es s) id = true := by
  induction es generalizing s with
  | nil => simpa [after, run] using hg
  | cons e es ih =>
    have := ih (step s e).1 (step_keeps_answered s e id hg (hl e (by simp))) (fun x hx => hl x (by simp [hx]))
    simpa [after, run] using this

/-- a Pong with the call's payload, while the call is registered, fills its channel. -/
theorem own_pong_marks (s : St) (id : Nat) (hp : present s id = true) :
    gotOf (step s (.pong (payloadOf id))).1 id = true := by
  simp only [present, List.any_eq_true, beq_iff_eq] at hp
  obtain ⟨x, hx, hid⟩ := hp
  simp only [gotOf, List.any_eq_true, Bool.and_eq_true, beq_iff_eq, step, List.mem_map]
  exact ⟨mark (payloadOf id) x, ⟨x, hx, rfl⟩, by unfold mark; split <;> simp [hid],
    by unfold mark; simp [hid]⟩

/-- **its own Pong is enough**: once a Pong with the call's payload has arrived after the call started
— in any position among other traffic (`m1`, `m2`), in any order relative to other calls' Pongs — and
the call has not given up, it returns successfully. -/
theorem own_pong_suffices (pre m1 m2 : List Ev) :
    let s0 := after pre init
    let id := s0.counter + 1
    (∀ e ∈ m1 ++ m2, leaves id e = true) →
    (step (after m2 (step (after m1 (step s0 .start).1) (.pong (payloadOf id))).1) (.finish id)).2
      = .returnedOk id := by
  intro s0 id hl
  have hp0 : present (step s0 .start).1 id = true := by
    simp [present, step, id]
  have hp1 := run_keeps_present m1 _ id hp0 (fun e he => hl e (by simp [he]))
  have hg1 := own_pong_marks _ id hp1
  have hg2 := run_keeps_answered m2 _ id hg1 (fun e he => hl e (by simp [he]))
  rw [finish_out, hg2]; rfl

/-- non-vacuity and a concrete history: three Pings; Pongs arrive for the third and the first, a foreign
one in between; the second is withheld and its call gives up. -/
example : (run [.start, .start, .start, .pong "3", .pong "heartbeat", .finish 3, .finish 2, .pong "1",
    .finish 1, .cancel 2] init).2 =
    [.sentPing "1", .sentPing "2", .sentPing "3", .nothing, .nothing, .returnedOk 3, .nothing, .nothing,
     .returnedOk 1, .returnedErr 2] := by decide

end WS.Props.C15
