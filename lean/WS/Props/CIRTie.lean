import WS.Gen.ConnCIR
import WS.Gen.Skeleton
/-
  The tie between the hand-written CIR skeleton (/verif/cir/conn_cir.py → WS/Gen/ConnCIR.lean) and
  the Go source: for every function of the synchronisation skeleton, the set of synchronisation
  primitives /verif/extract finds in the *current* source (WS/Gen/Skeleton.lean, regenerated on every
  run) equals the set the skeleton attributes to that function.  Adding or removing a lock, unlock,
  timeout-slot hand-off, transport operation, flag access, goroutine start, channel close/receive or
  a call between these functions changes the extracted set and breaks this obligation.
-/
namespace WS.Props.CIRTie
open WS.Gen

theorem skeleton_matches_source : ConnCIR.skeleton = Skeleton.code := by decide

/-- the sharper tie: for every function of the skeleton the primitives *in source order, inside their
control structure* (`if{ … }else{ … }`, `for{ … }`, `select{ case: … }`, `defer{ … }`, `return`) are what
they were when the CIR program was written against the source (/verif/cir/skeleton_ordered.json).
Moving a flag update across an unlock, swapping two lock acquisitions, returning before a join or
dropping a branch changes the regenerated side and breaks this obligation; code that does not
synchronise can change freely. -/
theorem ordered_matches_source : ConnCIR.orderedDeclared = Skeleton.ordered := by decide

end WS.Props.CIRTie
