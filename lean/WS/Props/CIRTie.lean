import WS.Gen.ConnCIR
import WS.Gen.Skeleton
/-
  The tie between the hand-written CIR skeleton (/verif/cir/conn_cir.py → WS/Gen/ConnCIR.lean) and
  the Go source: for every function of the synchronisation skeleton, the set of synchronisation
  primitives /verif/extract finds in the *current* source (WS/Gen/Skeleton.lean, regenerated on every
  run) equals the set the skeleton attributes to that function.  Adding or removing a lock, unlock,
  timeout-slot hand-off, transport operation, flag access, goroutine start, channel close/receive or
  a call between these functions changes the extracted set and breaks this obligation.
-/
namespace WS.Props.CIRTie
open WS.Gen

theorem skeleton_matches_source : ConnCIR.skeleton = Skeleton.code := by decide

/-- the CIR builder and the translator read the same committed ordered skeleton. -/
theorem golden_in_sync : ConnCIR.orderedDeclared = Skeleton.declaredTokens := by decide +kernel

/-- the sharper tie: for every function of the skeleton, the **language of primitive sequences along its paths**
from entry to exit — primitives in order, through `if` / `else`, loops, `select`, `switch`, `defer` bodies, inlined
helpers, `return`, `break`, `continue` — is what it was when the CIR program was written against the source
(/verif/cir/skeleton_ordered.json).  Both sides are canonical minimal DFAs computed by the translator (paths.go), so
the comparison does not depend on how the control flow is spelled: an if-chain or a switch, early returns or else
branches, `continue` or a shared tail, merged identical branches, a helper extracted or inlined give the same language.
Moving a flag update across an unlock, swapping two lock acquisitions, arming a timeout before taking a lock,
returning before a join or dropping a branch changes the language and breaks this obligation; code that does not
synchronise can change freely. -/
theorem ordered_matches_source : Skeleton.declared = Skeleton.ordered := by decide +kernel

end WS.Props.CIRTie
