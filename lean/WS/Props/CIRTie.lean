import WS.Gen.ConnCIR
import WS.Gen.Skeleton
/-
  The tie between the hand-written CIR skeleton (/verif/cir/conn_cir.py → WS/Gen/ConnCIR.lean) and
  the Go source: for every function of the synchronisation skeleton, the set of synchronisation
  primitives /verif/extract finds in the *current* source (WS/Gen/Skeleton.lean, regenerated on every
  run) equals the set the skeleton attributes to that function.  Adding or removing a lock, unlock,
  timeout-slot hand-off, transport operation, flag access, goroutine start, channel close/receive or
  a call between these functions changes the extracted set and breaks this obligation.
-/
namespace WS.Props.CIRTie
open WS.Gen

theorem skeleton_matches_source : ConnCIR.skeleton = Skeleton.code := by decide

end WS.Props.CIRTie
