import WS.Props.C03
import WS.Gen.Facts
import WS.Proofs.ReaderInv
/-
  C08 — Read limit.  (Memory bounds are measured by the harness: a theorem cannot see the allocator.)
-/
namespace WS.Props.C08
open WS WS.Model WS.Spec WS.Proofs.ReaderInv

variable (inf : Inflate) (cfg : RCfg)

/-- the limit reader hands out a prefix, never more than the allowance, and reports the limit
exactly when the allowance is used up. -/
theorem takeLimited_spec (n : Int) (d : Bytes) :
    (takeLimited n d).1 <+: d ∧
    (0 ≤ n → ((takeLimited n d).1.length : Int) ≤ n) ∧
    ((takeLimited n d).2.2 = true ↔ (0 ≤ n ∧ n ≤ d.length)) ∧
    ((takeLimited n d).2.2 = false → (takeLimited n d).1 = d ∧ (0 ≤ n → (takeLimited n d).2.1 = n - d.length)) := by
  rcases takeLimited_cases n d with ⟨hn, e⟩ | ⟨hn, hlt, e⟩ | ⟨hn, hge, e⟩ <;> rw [e] <;> dsimp only
  · refine ⟨List.prefix_refl _, fun h => by omega, ?_, fun _ => ⟨rfl, fun h => by omega⟩⟩
    constructor
    · intro h; cases h
    · intro h; omega
  · refine ⟨List.prefix_refl _, fun _ => by omega, ?_, fun _ => ⟨rfl, fun _ => rfl⟩⟩
    constructor
    · intro h; cases h
    · intro h; omega
  · refine ⟨List.take_prefix _ _, fun _ => ?_, ?_, fun h => by cases h⟩
    · simp only [List.length_take]; omega
    · exact ⟨fun _ => ⟨hn, hge⟩, fun _ => rfl⟩

/-- **over-limit messages are never reported complete**: with read limit `L ≥ 0`, for every
inbound stream whatsoever (any fragmentation, compressed or not, any inflater), every message
reported complete has at most `L` bytes and every failing read has handed out at most `L + 1`. -/
theorem limit_respected (L : Nat) (hL : cfg.limit = L) (fs : List Frame) (tl : Tail) :
    ∀ ev ∈ runReader inf cfg [] initR fs tl,
      (∀ typ d, ev = .msg typ d → d.length ≤ L) ∧
      (∀ typ d why amb, ev = .partialMsg typ d why amb → d.length ≤ L + 1) := by
  intro ev hev
  have hI : LimInv L initR := by intro typ acc n hm; cases hm
  exact lim_run inf cfg L hL fs initR tl hI ev hev

/-- hitting the limit is reported with a Close frame carrying status 1009. -/
theorem limit_close_1009 (limits : List Int) (st : RState) :
    .reply opClose (closePayload 1009 []) ∈ stopIn inf cfg limits st .limit :=
  (WS.Props.C03.stopIn_close_code inf cfg limits st).2

/-- messages within the limit are delivered in full: this is `C03.valid_run`, whose validity
hypothesis asks each message to fit `L`. Restated for a single unfragmented message of exactly `L` bytes. -/
theorem exactly_limit_delivered (L : Nat) (hL : cfg.limit = L) (f : Frame) (tl : Tail)
    (hv : ValidSeq cfg L none [f]) (hfin : f.h.fin = true) (hop : f.h.opcode = opText ∨ f.h.opcode = opBinary) :
    runReader inf cfg [] initR [f] tl = .msg f.h.opcode f.data :: runReader inf cfg [] { initR with idx := 1 } [] tl := by
  have hvr := WS.Props.C03.valid_run inf cfg (L : Int) hL none [] 0 [f] tl hv
  have hping : ¬ f.h.opcode = opPing := by
    rcases hop with h | h <;> rw [h] <;> decide
  have hpong : ¬ f.h.opcode = opPong := by
    rcases hop with h | h <;> rw [h] <;> decide
  have hflt : (f.h.opcode == opText || f.h.opcode == opBinary) = true := by
    rcases hop with h | h <;> rw [h] <;> decide
  have hs : specRun none [f] = ([.msg f.h.opcode f.data], none) := by
    simp [specRun, specStep, hping, hpong, hfin]
  rw [hs] at hvr
  simp only [List.filter_cons, hflt, if_true, List.filter_nil, List.length_singleton] at hvr
  exact hvr

/-- unlimited (`SetReadLimit(-1)`): no stream ever triggers the limit stop. -/
theorem unlimited_never_limits (hL : cfg.limit < 0) (fs : List Frame) (tl : Tail) :
    ∀ ev ∈ runReader inf cfg [] initR fs tl,
      (∀ typ d amb, ev ≠ .partialMsg typ d .limit amb) ∧ ev ≠ .fail .limit := by
  intro ev hev
  have hI : UnlInv initR := by intro typ acc n hm; cases hm
  exact unl_run inf cfg hL fs initR tl hI ev hev

/-- per-run obligation (regenerated facts): the default limit is 32768, the limit reader is created
with `defaultReadLimit + 1` (that `SetReadLimit` stores `n + 1` for `n ≥ 0` and `n` otherwise —
`Model.allowance` — is tied by the correspondence check over limits and limit changes). -/
theorem facts :
    WS.Gen.Facts.c_defaultReadLimit = 32768 ∧
    WS.Gen.Facts.l_newMsgReader_limit = "defaultReadLimit + 1" := by
  decide

end WS.Props.C08
