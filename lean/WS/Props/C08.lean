import WS.Props.C03
/-
  C08 — Read limit.  (Memory bounds are measured by the harness: a theorem cannot see the allocator.)
-/
namespace WS.Props.C08
open WS WS.Model WS.Spec

variable (inf : Inflate) (cfg : RCfg)

/-- the limit reader hands out a prefix, never more than the allowance, and reports the limit
exactly when the allowance is used up. -/
theorem takeLimited_spec (n : Int) (d : Bytes) :
    (takeLimited n d).1 <+: d ∧
    (0 ≤ n → ((takeLimited n d).1.length : Int) ≤ n) ∧
    ((takeLimited n d).2.2 = true ↔ (0 ≤ n ∧ n ≤ d.length)) ∧
    ((takeLimited n d).2.2 = false → (takeLimited n d).1 = d ∧ (0 ≤ n → (takeLimited n d).2.1 = n - d.length)) := by
  sorry

/-- **over-limit messages are never reported complete**: with read limit `L ≥ 0`, for every
inbound stream whatsoever (any fragmentation, compressed or not, any inflater), every message
reported complete has at most `L` bytes and every failing read has handed out at most `L + 1`. -/
theorem limit_respected (L : Nat) (hL : cfg.limit = L) (fs : List Frame) (tl : Tail) :
    ∀ ev ∈ runReader inf cfg [] initR fs tl,
      (∀ typ d, ev = .msg typ d → d.length ≤ L) ∧
      (∀ typ d why amb, ev = .partialMsg typ d why amb → d.length ≤ L + 1) := by
  sorry

/-- hitting the limit is reported with a Close frame carrying status 1009. -/
theorem limit_close_1009 (limits : List Int) (st : RState) :
    .reply opClose (closePayload 1009 []) ∈ stopIn inf cfg limits st .limit :=
  (WS.Props.C03.stopIn_close_code inf cfg limits st).2

/-- messages within the limit are delivered in full: this is `C03.valid_run`, whose validity
hypothesis asks each message to fit `L`. Restated for a single unfragmented message of exactly `L` bytes. -/
theorem exactly_limit_delivered (L : Nat) (hL : cfg.limit = L) (f : Frame) (tl : Tail)
    (hv : ValidSeq cfg L none [f]) (hfin : f.h.fin = true) (hop : f.h.opcode = opText ∨ f.h.opcode = opBinary) :
    runReader inf cfg [] initR [f] tl = .msg f.h.opcode f.data :: runReader inf cfg [] { initR with idx := 1 } [] tl := by
  sorry

/-- unlimited (`SetReadLimit(-1)`): no stream ever triggers the limit stop. -/
theorem unlimited_never_limits (hL : cfg.limit < 0) (fs : List Frame) (tl : Tail) :
    ∀ ev ∈ runReader inf cfg [] initR fs tl,
      (∀ typ d amb, ev ≠ .partialMsg typ d .limit amb) ∧ ev ≠ .fail .limit := by
  sorry

end WS.Props.C08
