import WS.Model.Frame
import WS.Proofs.FrameCodec
/-
  Frame codec theorems shared by C01–C04: `decodeHeader`/`parseFrames` (readFrameHeader) invert
  `encodeHeader`/`encodeFrame` (writeFrameHeader) for every header the protocol allows, the
  length encoding is minimal, and a byte stream cut at any offset parses to the complete
  frames before the cut plus a tail describing the frame that contains the cut.
-/
namespace WS.Props.FrameCodec
open WS WS.Model

-- `Header.WF`, `Frame.WF`, `encodeAll`, `cutTail` are defined (in this namespace) in WS/Proofs/FrameCodec.lean

/-- T1: readFrameHeader ∘ writeFrameHeader = id, with any bytes following. -/
theorem decode_encode (h : Header) (hwf : Header.WF h) (rest : Bytes) :
    decodeHeader (encodeHeader h ++ rest) = .ok h rest := by
  exact WS.Proofs.FrameCodec.decode_encode h hwf rest

/-- T2: the length class is the minimal one (RFC 6455 §5.2). -/
theorem encode_length (h : Header) :
    (encodeHeader h).length =
      2 + (if h.len ≤ 125 then 0 else if h.len ≤ 65535 then 2 else 8) + (if h.masked then (h.key.take 4).length else 0) := by
  exact WS.Proofs.FrameCodec.encode_length h

/-- T2': the 7-bit length field is 126 / 127 exactly when the length does not fit the smaller class. -/
theorem encode_len7 (h : Header) (hl : h.len < 2 ^ 63) :
    ∃ b0 b1 r, encodeHeader h = b0 :: b1 :: r ∧
      (b1.toNat % 128 = 127 ↔ 65535 < h.len) ∧ (b1.toNat % 128 = 126 ↔ (125 < h.len ∧ h.len ≤ 65535)) ∧
      (b1.toNat % 128 < 126 → b1.toNat % 128 = h.len) ∧ (b1.toNat ≥ 128 ↔ h.masked = true) := by
  exact WS.Proofs.FrameCodec.encode_len7 h

/-- T3: a concatenation of well-formed frames parses back to exactly those frames. -/
theorem parse_encodeAll (fs : List Frame) (hwf : ∀ f ∈ fs, Frame.WF f) :
    parseFrames (encodeAll fs) = (fs, .clean) := by
  exact WS.Proofs.FrameCodec.parse_encodeAll fs hwf

/-- T4: cutting the stream inside frame `f` (after the complete frames `pre`) yields exactly `pre`
and a tail that is either a short header or the available prefix of `f`'s payload. -/
theorem parse_cut (pre : List Frame) (f : Frame) (m : Nat)
    (hpre : ∀ g ∈ pre, Frame.WF g) (hf : Frame.WF f) (hm0 : 0 < m) (hm : m < (encodeFrame f).length) :
    parseFrames (encodeAll pre ++ (encodeFrame f).take m) = (pre, cutTail f m) := by
  exact WS.Proofs.FrameCodec.parse_cut pre f m hpre hf hm0 hm

end WS.Props.FrameCodec
