import WS.Props.CIRCert.Lockset
import WS.Props.CIRCert.Frames
import WS.Props.CIRCert.Messages
import WS.CIR.Util
import WS.Props.C05Mu
/-
  C05 — Concurrent use keeps frames atomic and messages unmixed.
  Statements about every reachable state of the connection skeleton `Gen.ConnCIR.prog` under the
  CIR semantics: any number of goroutines calling Reader/Read/Write/Writer/Ping/Close/CloseNow/
  CloseRead at any time, any interleaving. (Data-race freedom is a property of the Go memory model:
  it is measured with the race detector by the harness, not proved here.)
-/
namespace WS.Props.C05
open WS.CIR WS.Gen WS.Props.CIRCert

/-- **each frame is written atomically**: in every reachable state the pieces on the wire (header,
payload pieces, end of frame) form whole frames of single goroutines, one after another — possibly
followed by one unfinished frame whose writer is still at work or whose transport broke. -/
theorem frames_atomic (g : G) (hr : Reach ConnCIR.prog g) : Bracket.WellBracketed Specs.frameSpec g.wire :=
  Bracket.wellBracketed _ _ _ _ frames_ok g hr

/-- **frames of two data messages are never interleaved**: the data frames on the wire form whole
messages (first frame, continuations, final frame) of single goroutines, one after another; control
frames may appear anywhere between frames. -/
theorem messages_unmixed (g : G) (hr : Reach ConnCIR.prog g) : Bracket.WellBracketed Specs.msgSpec g.wire :=
  Bracket.wellBracketed _ _ _ _ messages_ok g hr

/-- while the transport works, the unfinished frame (if any) belongs to exactly the goroutine that
is inside `writeFrame` between header and end of frame. -/
theorem open_frame_owner (g : G) (hr : Reach ConnCIR.prog g) :
    ∃ st, Bracket.scan Specs.frameSpec g.wire (some none) = some st ∧
      (g.broken = false → ∀ t, st = some t ↔ ∃ n, g.pcs[t]? = some n ∧ Bracket.isOpen ConnCIR.frameOpen n = true) :=
  Bracket.sound _ _ _ _ frames_ok g hr

/-- the certificate's lock claims are true in every reachable state … -/
theorem locks_held (g : G) (hr : Reach ConnCIR.prog g) : Lockset.LInv ConnCIR.lockCert g :=
  Lockset.sound _ _ lockset_ok g hr

/-- … hence two goroutines are never both inside sections that require the same channel mutex
(readMu, writeFrameMu, msgWriter.mu, msgWriter.writeMu). -/
theorem mutual_exclusion (g : G) (hr : Reach ConnCIR.prog g) (t1 t2 n1 n2 m : Nat)
    (h1 : g.pcs[t1]? = some n1) (h2 : g.pcs[t2]? = some n2)
    (m1 : m ∈ Lockset.held ConnCIR.lockCert n1) (m2 : m ∈ Lockset.held ConnCIR.lockCert n2) : t1 = t2 :=
  Lockset.exclusive _ _ lockset_ok g hr t1 t2 n1 n2 m h1 h2 m1 m2

/-- every transport write happens under writeFrameMu (decidable fact about the skeleton). -/
theorem writes_under_writeFrameMu :
    (List.range ConnCIR.prog.code.length).all (fun n =>
      match ConnCIR.prog.at n with
      | .wr _ _ _ => (Lockset.held ConnCIR.lockCert n).contains Specs.lWriteFrameMu
      | _ => true) = true := by decide +kernel

/-- the wire is an append-only log, so each writer's frames appear in the order it wrote them. -/
theorem wire_append_only (g g' : G) (h : Step ConnCIR.prog g g') : g.wire <+: g'.wire :=
  wire_prefix _ g g' h

end WS.Props.C05
