import WS.Model.WsJson
import WS.Props.C01
import WS.Proofs.WsJson
/-
  C19 — wsjson moves one JSON value per text message and rejects invalid JSON (glue over the
  connection models; `encoding/json` itself is external and enters as a codec with a round-trip law,
  for which the Lean JSON codec below is a proved instance).
-/
namespace WS.Props.C19
open WS WS.Model WS.Spec WS.Model.WsJson WS.Props.FrameCodec

/-- wsjson.Write is exactly one text message whose payload is the encoding of the value. -/
theorem write_is_one_text_message {V : Type} (c : Codec V) (v : V) :
    opEvents (writeOp c v) = [.msg opText (c.enc v)] ∧ opWF (writeOp c v) ∧ isClose (writeOp c v) = false ∧ ctlOK (writeOp c v) := by
  refine ⟨?_, ?_, ?_, ?_⟩
  · simp [writeOp, opEvents]
  · exact ⟨Or.inl rfl, fun _ => ⟨c.enc v, rfl⟩⟩
  · rfl
  · exact True.intro

/-- **values written on one side are read as themselves on the other**: for every list of values,
every role, negotiated compression pair, threshold, key stream and compressor output satisfying the
codec law, the peer's reader over the emitted bytes delivers exactly one text message per value, and
`wsjson.Read` (any codec with `dec (enc v) = some v`) returns the values in order. -/
theorem values_roundtrip {V : Type} (c : Codec V) (hlaw : ∀ v, c.dec (c.enc v) = some v)
    (inf : Inflate) (wcfg : WCfg) (rtakeover : Bool) (vs : List V) (keys : List Bytes)
    (hk : KeysOK keys (runWriter wcfg (vs.map (writeOp c)) keys).length)
    (hlen : ∀ f ∈ runWriter wcfg (vs.map (writeOp c)) keys, f.h.len < 2 ^ 63)
    (hcodec : CodecOK inf wcfg rtakeover [] (vs.map (writeOp c))) :
    readStream inf { client := !wcfg.client, flate := wcfg.flate, takeover := rtakeover, limit := -1 } []
        (writerBytes wcfg (vs.map (writeOp c)) keys) =
      vs.map (fun v => Ev.msg opText (c.enc v)) ++ [.fail .io] := by
  have hmem : ∀ op ∈ vs.map (writeOp c), opWF op ∧ isClose op = false ∧ ctlOK op := by
    intro op hop
    obtain ⟨v, _, rfl⟩ := List.mem_map.1 hop
    exact (write_is_one_text_message c v).2
  have hev : ∀ ws : List V,
      ((ws.map (writeOp c)).map opEvents).flatten = ws.map (fun v => Ev.msg opText (c.enc v)) := by
    intro ws
    induction ws with
    | nil => rfl
    | cons v ws ih =>
      simp only [List.map_cons, List.flatten_cons, ih, (write_is_one_text_message c v).1]
      rfl
  rw [← hev vs]
  exact WS.Props.C01.roundtrip inf wcfg rtakeover (vs.map (writeOp c)) keys
    (fun op hop => (hmem op hop).1) (fun op hop => (hmem op hop).2.1) (fun op hop => (hmem op hop).2.2)
    hk hlen hcodec

/-- reading one value consumes exactly one message and returns the value that was written. -/
theorem readOne_ok {V : Type} (c : Codec V) (hlaw : ∀ v, c.dec (c.enc v) = some v) (v : V) (typ : Nat) (rest : List Ev) :
    ∃ r, readOne c (.msg typ (c.enc v) :: rest) = (r, none, rest) ∧ (match r with | .ok v' => v' = v | _ => False) := by
  refine ⟨.ok v, ?_, rfl⟩
  simp [readOne, hlaw]

/-- a message that is not valid JSON for the target yields an error and a Close frame with status 1007. -/
theorem readOne_invalid {V : Type} (c : Codec V) (typ : Nat) (data : Bytes) (rest : List Ev) (h : c.dec data = none) :
    ∃ r, readOne c (.msg typ data :: rest) = (r, some 1007, rest) ∧ (match r with | .invalid => True | _ => False) := by
  refine ⟨.invalid, ?_, True.intro⟩
  simp [readOne, h]

/-! ### the Lean JSON codec satisfies the round-trip law (so the law is not vacuous)

`strOK`, `JOK`, `JsOK`, `KVsOK` (the codec's domain) are defined in `WS/Proofs/WsJson.lean`, in this
namespace. -/

/-- integers print and parse back. -/
theorem int_roundtrip (n : Int) (rest : List Char) (hr : ∀ c ∈ rest.head?, ¬ ('0' ≤ c ∧ c ≤ '9')) :
    parseJ (encInt n ++ rest).length.succ (encInt n ++ rest) = some (.num n, rest) := by
  exact WS.Proofs.WsJson.int_roundtrip n rest hr

/-- strings escape and parse back. -/
theorem str_roundtrip (s : List Char) (hs : strOK s) (rest : List Char) :
    parseStrBody ((encStr s).tail ++ rest).length.succ ((encStr s).tail ++ rest) [] = some (s, rest) := by
  exact WS.Proofs.WsJson.str_roundtrip s hs rest

/-- **every JSON value of the fragment (unbounded nesting) decodes to itself.** -/
theorem json_roundtrip (v : J) (hv : JOK v) : decJ (encJ v) = some v := by
  exact WS.Proofs.WsJson.json_roundtrip v hv

end WS.Props.C19
