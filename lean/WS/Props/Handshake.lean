import WS.Model.AcceptResp
import WS.Props.C13Req
import WS.Proofs.HandshakeE2E
/-
  End to end: the library's client and the library's server complete the opening handshake with each
  other for every configuration, and hold the same compression options afterwards
  (C11 x C13 x C14 on the models of both sides).
-/
namespace WS.Props.Handshake
open WS WS.Model WS.Proofs.HandshakeE2E

/-
  The statement as first written — with NO restriction on the caller's headers — is FALSE:

    theorem handshake_completes (caller : Hdr) (host : Str) (sps serverProtos : List Str) (cm sm : Nat) (key : Str) (v : Bytes)
        (hcm : cm ≤ 2) (hsm : sm ≤ 2)
        (hk : Spec.b64Decode key = some v) (hv : v.length = 16) (hkt : trimSpace key = key)
        (hsps : ∀ t ∈ sps, plainToken t = true) :
        let req := dialRequest caller host sps (dialOffer cm) key
        verifyClientRequest req = 0 ∧
        verifyServerResponse sps (dialOffer cm) key 101 (acceptResponse req serverProtos sm) = some (acceptCopts req sm)

  Dial only *sets* Sec-Websocket-Protocol when subprotocols are asked for and Sec-Websocket-Extensions when
  compression is on; otherwise whatever the caller put under those keys in DialOptions.HTTPHeader goes out
  unchanged (C13.nothing_unrequested).  The server then negotiates on the caller's values, and the client,
  which asked for nothing, rejects the answer (`original_statement_false_proto`, `original_statement_false_ext`
  below).  The theorem therefore carries two extra hypotheses, each needed only in the case where Dial does
  not overwrite the header: `hcP` and `hcE`.
-/

/-- the RFC 6455 sample key. -/
def sampleKey : Str := s "dGhlIHNhbXBsZSBub25jZQ=="

/-- **counterexample 1** to the unrestricted statement: no subprotocol requested (`sps = []`), the caller's own
header says `Sec-Websocket-Protocol: chat`, the server supports `chat`: the request is upgraded, the server
selects `chat`, the client (which asked for nothing) rejects the response. -/
theorem original_statement_false_proto :
    let req := dialRequest [(s "Sec-Websocket-Protocol", [s "chat"])] (s "h") [] (dialOffer 0) sampleKey
    verifyClientRequest req = 0 ∧
    verifyServerResponse [] (dialOffer 0) sampleKey 101 (acceptResponse req [s "chat"] 0) = none := by
  decide +kernel

/-- **counterexample 2**: compression off at the client (`cm = 0`), the caller's own header says
`Sec-Websocket-Extensions: permessage-deflate`, the server compresses (`sm = 1`): the server accepts the
"offer" and keeps options, the client rejects the response. -/
theorem original_statement_false_ext :
    let req := dialRequest [(s "Sec-Websocket-Extensions", [s "permessage-deflate"])] (s "h") [] (dialOffer 0) sampleKey
    verifyClientRequest req = 0 ∧
    verifyServerResponse [] (dialOffer 0) sampleKey 101 (acceptResponse req [] 1) = none ∧
    acceptCopts req 1 = some { cnct := false, snct := false } := by
  decide +kernel

/-- the unrestricted statement, refuted formally. -/
theorem original_statement_false :
    ¬ (∀ (caller : Hdr) (host : Str) (sps serverProtos : List Str) (cm sm : Nat) (key : Str) (v : Bytes),
        cm ≤ 2 → sm ≤ 2 → Spec.b64Decode key = some v → v.length = 16 → trimSpace key = key →
        (∀ t ∈ sps, plainToken t = true) →
        let req := dialRequest caller host sps (dialOffer cm) key
        verifyClientRequest req = 0 ∧
        verifyServerResponse sps (dialOffer cm) key 101 (acceptResponse req serverProtos sm) = some (acceptCopts req sm)) := by
  intro h
  have h1 := h [(s "Sec-Websocket-Protocol", [s "chat"])] (s "h") [] [s "chat"] 0 0 sampleKey
    [116, 104, 101, 32, 115, 97, 109, 112, 108, 101, 32, 110, 111, 110, 99, 101]
    (by decide) (by decide) (by decide +kernel) (by decide) (by decide +kernel) (by simp)
  have h2 := original_statement_false_proto
  simp only at h1 h2
  rw [h2.2] at h1
  exact absurd h1.2 (by simp)

/-- **library to library, every configuration**: whatever headers the caller adds (provided it does not
smuggle in a subprotocol list while asking for none — `hcP` — or an extension offer while compression is
off — `hcE`), whichever plain subprotocol names the client asks for and the server supports (in any order,
any overlap, any case), whichever of the three compression modes either side uses and whatever 16-byte key
is drawn, the request Dial sends is upgraded by Accept, the response Accept writes is accepted by Dial, and
the two ends then hold the same compression options. -/
theorem handshake_completes (caller : Hdr) (host : Str) (sps serverProtos : List Str) (cm sm : Nat) (key : Str) (v : Bytes)
    (hcm : cm ≤ 2) (hsm : sm ≤ 2)
    (hk : Spec.b64Decode key = some v) (hv : v.length = 16) (hkt : trimSpace key = key)
    (hsps : ∀ t ∈ sps, plainToken t = true)
    (hcP : sps = [] → caller.values (s "Sec-Websocket-Protocol") = [])
    (hcE : cm = 0 → caller.values (s "Sec-Websocket-Extensions") = []) :
    let req := dialRequest caller host sps (dialOffer cm) key
    verifyClientRequest req = 0 ∧
    verifyServerResponse sps (dialOffer cm) key 101 (acceptResponse req serverProtos sm) = some (acceptCopts req sm) := by
  intro req
  refine ⟨WS.Props.C13.dial_request_acceptable caller host sps (dialOffer cm) key v (by rw [hkt]; exact hk) hv, ?_⟩
  obtain ⟨_, _, _, hK⟩ := WS.Props.C13.request_header caller host sps (dialOffer cm) key
  obtain ⟨hP, hE⟩ := req_values_opt caller host sps (dialOffer cm) key
  obtain ⟨hRc, hRu, hRa, hRp, hRe⟩ := resp_values req serverProtos sm
  -- Connection / Upgrade / accept key
  have hc : headerContainsToken (acceptResponse req serverProtos sm) (s "Connection") (s "Upgrade") = true := by
    simp only [headerContainsToken, headerTokens, hRc]; decide
  have hu : headerContainsToken (acceptResponse req serverProtos sm) (s "Upgrade") (s "WebSocket") = true := by
    simp only [headerContainsToken, headerTokens, hRu]; decide
  have hkey : req.hdr.get (s "Sec-Websocket-Key") = key := by
    show (dialRequest caller host sps (dialOffer cm) key).hdr.get (s "Sec-Websocket-Key") = key
    simp [Hdr.get, hK]
  have ha : (acceptResponse req serverProtos sm).get (s "Sec-Websocket-Accept") = secWebSocketAccept key := by
    show (((acceptResponse req serverProtos sm).values (s "Sec-Websocket-Accept")).head?).getD [] = _
    rw [hRa, hkey, hkt]; rfl
  -- subprotocol
  have htok : headerTokens req.hdr (s "Sec-Websocket-Protocol") = sps := by
    cases hs : sps with
    | nil =>
      have : req.hdr.values (s "Sec-Websocket-Protocol") = [] := by
        show (dialRequest caller host sps (dialOffer cm) key).hdr.values _ = []
        rw [hP, hs]; simpa using hcP hs
      simp [headerTokens, this]
    | cons x rest =>
      rw [← hs]
      apply tokens_joinComma _ _ sps (by simp [hs]) hsps
      show (dialRequest caller host sps (dialOffer cm) key).hdr.values _ = _
      rw [hP, hs]; simp
  have hs : verifySubprotocol sps (acceptResponse req serverProtos sm) = true :=
    verifySubprotocol_of _ sps _ hRp (select_mem req sps serverProtos htok)
  -- extensions
  have he : verifyServerExtensions (dialOffer cm) (acceptResponse req serverProtos sm) = .ok (acceptCopts req sm) := by
    have hcm' : cm = 0 ∨ cm = 1 ∨ cm = 2 := by omega
    rcases hcm' with h0 | h12
    · have hval : req.hdr.values (s "Sec-Websocket-Extensions") = [] := by
        show (dialRequest caller host sps (dialOffer cm) key).hdr.values _ = []
        rw [hE]; subst h0; simpa [dialOffer] using hcE rfl
      have hw := websocketExtensions_congr req.hdr [] hval
      rw [verifyServerExtensions_congr _ _ (srvVals [] sm) (by rw [hRe, hw]; rfl)]
      simp only [acceptCopts, hw]
      subst h0
      exact ext_none sm
    · have hoff : dialOffer cm = some (modeOpts cm) := by
        rcases h12 with rfl | rfl <;> rfl
      have hval : req.hdr.values (s "Sec-Websocket-Extensions") = [coptsString (modeOpts cm)] := by
        show (dialRequest caller host sps (dialOffer cm) key).hdr.values _ = _
        rw [hE, hoff]
      have hw := websocketExtensions_congr req.hdr _ hval
      rw [verifyServerExtensions_congr _ _ (srvVals [coptsString (modeOpts cm)] sm) (by rw [hRe, hw]; rfl)]
      simp only [acceptCopts, hw, hoff]
      exact ext_some cm sm h12 hsm
  simp [verifyServerResponse, hc, hu, ha, hs, he]

/-- the same under the simpler (stronger) assumption that the caller's headers name neither key. -/
theorem handshake_completes' (caller : Hdr) (host : Str) (sps serverProtos : List Str) (cm sm : Nat) (key : Str) (v : Bytes)
    (hcm : cm ≤ 2) (hsm : sm ≤ 2)
    (hk : Spec.b64Decode key = some v) (hv : v.length = 16) (hkt : trimSpace key = key)
    (hsps : ∀ t ∈ sps, plainToken t = true)
    (hcP : caller.values (s "Sec-Websocket-Protocol") = [])
    (hcE : caller.values (s "Sec-Websocket-Extensions") = []) :
    let req := dialRequest caller host sps (dialOffer cm) key
    verifyClientRequest req = 0 ∧
    verifyServerResponse sps (dialOffer cm) key 101 (acceptResponse req serverProtos sm) = some (acceptCopts req sm) :=
  handshake_completes caller host sps serverProtos cm sm key v hcm hsm hk hv hkt hsps (fun _ => hcP) (fun _ => hcE)

end WS.Props.Handshake
