import WS.Props.C01
import WS.Spec.Inflate
import WS.Proofs.Stored
/-
  C01, codec hypothesis discharged — the round trip proved end to end for a concrete compressor
  (stored blocks only) and the reference RFC 1951 inflater `WS.Spec.inflate`.
-/
namespace WS.Props.C01Stored
open WS WS.Model WS.Spec WS.Proofs.Stored

/-- the inflater the driver plugs into the reader model (re-stated, so that nothing here depends
on the driver). -/
def inflateImpl : Model.Inflate := fun dict z =>
  let r := Spec.inflate dict z
  { plain := r.2, ok := r.1 != .corrupt }

/-- one non-final stored DEFLATE block (RFC 1951 §3.2.4) for `p`, `p.length ≤ 65535`:
header byte 0x00 (BFINAL=0, BTYPE=00, padding), LEN and NLEN little endian, the bytes. -/
def storedBlock (p : Bytes) : Bytes :=
  [0x00, UInt8.ofNat (p.length % 256), UInt8.ofNat (p.length / 256),
    UInt8.ofNat ((65535 - p.length) % 256), UInt8.ofNat ((65535 - p.length) / 256)] ++ p

/-- `p` cut into pieces of at most 65535 bytes (fuel = an upper bound of the number of pieces). -/
def piecesAux : Nat → Bytes → List Bytes
  | 0, _ => []
  | fuel + 1, p => if p.isEmpty then [] else p.take 65535 :: piecesAux fuel (p.drop 65535)

def pieces (p : Bytes) : List Bytes := piecesAux p.length p

/-- a whole message as a permessage-deflate sender emits it when it only uses stored blocks:
one stored block per piece, then the header byte of the sync flush's empty stored block (its
last four bytes 00 00 ff ff are removed by RFC 7692 §7.2.1). -/
def storedMessage (p : Bytes) : Bytes :=
  ((pieces p).map storedBlock).flatten ++ [0x00]

/-! ### the pieces -/

theorem piecesAux_flatten : ∀ (fuel : Nat) (p : Bytes), p.length ≤ fuel → (piecesAux fuel p).flatten = p
  | 0, p, h => by
    have : p = [] := List.eq_nil_of_length_eq_zero (by omega)
    simp [piecesAux, this]
  | fuel + 1, p, h => by
    unfold piecesAux
    cases p with
    | nil => simp
    | cons x xs =>
      simp only [List.isEmpty_cons, Bool.false_eq_true, if_false, List.flatten_cons]
      rw [piecesAux_flatten fuel _ (by simp at h ⊢; omega), List.take_append_drop]

theorem piecesAux_length : ∀ (fuel : Nat) (p : Bytes), ∀ q ∈ piecesAux fuel p, q.length ≤ 65535
  | 0, p, q, hq => by simp [piecesAux] at hq
  | fuel + 1, p, q, hq => by
    unfold piecesAux at hq
    split at hq
    · simp at hq
    · rcases List.mem_cons.mp hq with h | h
      · subst h; simp [List.length_take]; omega
      · exact piecesAux_length fuel _ q h

theorem pieces_flatten (p : Bytes) : (pieces p).flatten = p := piecesAux_flatten _ p (Nat.le_refl _)
theorem pieces_length (p : Bytes) : ∀ q ∈ pieces p, q.length ≤ 65535 := piecesAux_length _ p

theorem piecesAux_ne_nil : ∀ (fuel : Nat) (p : Bytes), ∀ q ∈ piecesAux fuel p, q ≠ []
  | 0, p, q, hq => by simp [piecesAux] at hq
  | fuel + 1, p, q, hq => by
    unfold piecesAux at hq
    cases p with
    | nil => simp at hq
    | cons x xs =>
      simp only [List.isEmpty_cons, Bool.false_eq_true, if_false] at hq
      rcases List.mem_cons.mp hq with h | h
      · subst h; simp
      · exact piecesAux_ne_nil fuel _ q h

/-- the pieces are a partition of the message into non-empty blocks of at most 65535 bytes. -/
theorem pieces_spec (p : Bytes) :
    (pieces p).flatten = p ∧ ∀ q ∈ pieces p, q ≠ [] ∧ q.length ≤ 65535 :=
  ⟨pieces_flatten p, fun q hq => ⟨piecesAux_ne_nil _ p q hq, pieces_length p q hq⟩⟩

/-- an empty message is just the header byte of the sync flush's empty block. -/
theorem storedMessage_nil : storedMessage [] = [0x00] := by decide

/-! ### the inflater on a sequence of stored blocks -/

theorem storedBlocks_length (ps : List Bytes) : ps.length ≤ ((ps.map storedBlock).flatten).length := by
  induction ps with
  | nil => simp
  | cons q ps ih => simp [storedBlock] at ih ⊢; omega

/-- from a block boundary, the inflater copies every stored block to its output and stops at
the end of the input with `needMore` (the stream is accepted so far, no final block). -/
theorem blocks_stored (ps : List Bytes) (hps : ∀ q ∈ ps, q.length ≤ 65535) :
    ∀ (z pre : Bytes) (o : ByteArray) (fuel : Nat), z = pre ++ (ps.map storedBlock).flatten →
      ps.length + 1 ≤ fuel →
      blocks fuel { r := { data := mkBA z, pos := 8 * pre.length }, out := o } =
        (.needMore, { r := { data := mkBA z, pos := 8 * z.length }, out := o ++ mkBA ps.flatten }) := by
  induction ps with
  | nil =>
    intro z pre o fuel hz hf
    obtain ⟨f, rfl⟩ : ∃ f, fuel = f + 1 := ⟨fuel - 1, by omega⟩
    have : z = pre := by simpa using hz
    subst this
    rw [blocks_eof]
    have : mkBA ([] : Bytes) = ByteArray.empty := rfl
    simp [this]
  | cons q ps ih =>
    intro z pre o fuel hz hf
    obtain ⟨f, rfl⟩ : ∃ f, fuel = f + 1 := ⟨fuel - 1, by simp at hf; omega⟩
    have hq : q.length ≤ 65535 := hps q (by simp)
    have hz' : z = pre ++ (0 :: UInt8.ofNat (q.length % 256) :: UInt8.ofNat (q.length / 256) ::
        UInt8.ofNat ((65535 - q.length) % 256) :: UInt8.ofNat ((65535 - q.length) / 256) :: q) ++
        (ps.map storedBlock).flatten := by
      rw [hz]; simp [storedBlock]
    rw [stored_step z pre q _ _ _ _ _ o f hz' (by simp; omega) (by simp; omega) hq]
    have hpre : pre.length + 5 + q.length = (pre ++ storedBlock q).length := by simp [storedBlock]; omega
    rw [hpre, ih (fun r hr => hps r (by simp [hr])) z (pre ++ storedBlock q) _ f (by rw [hz]; simp)
      (by simp at hf; omega)]
    simp [ByteArray.append_assoc, mkBA_append]

/-- **the stored-block compressor is inverted by the reference inflater**, for every preset
dictionary and every message (any length, hence any number of blocks). -/
theorem inflate_stored (dict p : Bytes) :
    Spec.inflate dict (storedMessage p ++ deflateTail) = (.needMore, p) := by
  have hz : storedMessage p ++ deflateTail = [] ++ ((pieces p ++ [[]]).map storedBlock).flatten := by
    simp [storedMessage, storedBlock, deflateTail]
  have hl := storedBlocks_length (pieces p ++ [[]])
  have hps : ∀ q ∈ pieces p ++ [[]], q.length ≤ 65535 := by
    intro q hq
    rcases List.mem_append.mp hq with h | h
    · exact pieces_length p q h
    · simp at h; subst h; simp
  have h := blocks_stored (pieces p ++ [[]]) hps (storedMessage p ++ deflateTail) [] (mkBA dict)
    ((storedMessage p ++ deflateTail).length + 2) hz (by rw [hz]; simp at hl ⊢; omega)
  have hp : (pieces p ++ [[]]).flatten = p := by simp [pieces_flatten]
  rw [hp] at h
  exact inflate_of_blocks dict _ p .needMore _ h

theorem stored_inflates (dict p : Bytes) :
    inflateImpl dict (storedMessage p ++ deflateTail) = { plain := p, ok := true } := by
  simp [inflateImpl, inflate_stored]


/-! ### the codec hypothesis of the round trip, discharged -/

/-- the observed compressed chunks of a message are the stored-block form of what was written. -/
def storedOp : WOp → Bool
  | .msg _ _ chunks obs => obs.flatten == storedMessage chunks.flatten
  | _ => true

/-- every message of the program was compressed with stored blocks only. -/
def StoredObs (ops : List WOp) : Prop := ∀ op ∈ ops, storedOp op = true

instance (ops : List WOp) : Decidable (StoredObs ops) :=
  inferInstanceAs (Decidable (∀ op ∈ ops, storedOp op = true))

/-- the same, required only of the messages that are compressed under `wcfg` (the observed chunks
of the others are not used by the writer). -/
def storedOpFor (wcfg : WCfg) : WOp → Bool
  | .msg _ _ chunks obs => !compresses wcfg chunks || obs.flatten == storedMessage chunks.flatten
  | _ => true

def StoredObsFor (wcfg : WCfg) (ops : List WOp) : Prop := ∀ op ∈ ops, storedOpFor wcfg op = true

instance (wcfg : WCfg) (ops : List WOp) : Decidable (StoredObsFor wcfg ops) :=
  inferInstanceAs (Decidable (∀ op ∈ ops, storedOpFor wcfg op = true))

theorem StoredObs.for (wcfg : WCfg) {ops : List WOp} (h : StoredObs ops) : StoredObsFor wcfg ops := by
  intro op hop
  have := h op hop
  cases op <;> simp_all [storedOp, storedOpFor]

theorem codecOK_storedFor (wcfg : WCfg) (rtakeover : Bool) (dict : Bytes) (ops : List WOp)
    (h : StoredObsFor wcfg ops) : CodecOK inflateImpl wcfg rtakeover dict ops := by
  induction ops generalizing dict with
  | nil => simp [CodecOK]
  | cons op ops ih =>
    have hops : StoredObsFor wcfg ops := fun o ho => h o (by simp [ho])
    have hop := h op (by simp)
    cases op with
    | msg typ viaWriter chunks obs =>
      unfold CodecOK
      split
      · rename_i hc
        have : obs.flatten = storedMessage chunks.flatten := by simpa [storedOpFor, hc] using hop
        rw [this]
        exact ⟨stored_inflates dict chunks.flatten, ih _ hops⟩
      · exact ih _ hops
    | ping p => unfold CodecOK; exact ih _ hops
    | pong p => unfold CodecOK; exact ih _ hops
    | close c r => unfold CodecOK; exact ih _ hops

/-- **codec law for the stored-block compressor**: whatever the options and the receiver's
dictionary, the real inflater satisfies the hypothesis of the round-trip theorem. -/
theorem codecOK_stored (wcfg : WCfg) (rtakeover : Bool) (dict : Bytes) (ops : List WOp)
    (h : StoredObs ops) : CodecOK inflateImpl wcfg rtakeover dict ops :=
  codecOK_storedFor wcfg rtakeover dict ops (h.for wcfg)

/-- **round trip, end to end**: `C01.roundtrip` with the reference inflater and no codec hypothesis. -/
theorem roundtrip_stored (wcfg : WCfg) (rtakeover : Bool) (ops : List WOp) (keys : List Bytes)
    (hwf : ∀ op ∈ ops, opWF op) (hnc : ∀ op ∈ ops, isClose op = false) (hctl : ∀ op ∈ ops, ctlOK op)
    (hk : KeysOK keys (runWriter wcfg ops keys).length)
    (hlen : ∀ f ∈ runWriter wcfg ops keys, f.h.len < 2 ^ 63)
    (hstored : StoredObs ops) :
    readStream inflateImpl { client := !wcfg.client, flate := wcfg.flate, takeover := rtakeover, limit := -1 } []
        (writerBytes wcfg ops keys) =
      (ops.map opEvents).flatten ++ [.fail .io] :=
  WS.Props.C01.roundtrip inflateImpl wcfg rtakeover ops keys hwf hnc hctl hk hlen
    (codecOK_stored wcfg rtakeover [] ops hstored)

/-- the same with the stored form required of the compressed messages only. -/
theorem roundtrip_storedFor (wcfg : WCfg) (rtakeover : Bool) (ops : List WOp) (keys : List Bytes)
    (hwf : ∀ op ∈ ops, opWF op) (hnc : ∀ op ∈ ops, isClose op = false) (hctl : ∀ op ∈ ops, ctlOK op)
    (hk : KeysOK keys (runWriter wcfg ops keys).length)
    (hlen : ∀ f ∈ runWriter wcfg ops keys, f.h.len < 2 ^ 63)
    (hstored : StoredObsFor wcfg ops) :
    readStream inflateImpl { client := !wcfg.client, flate := wcfg.flate, takeover := rtakeover, limit := -1 } []
        (writerBytes wcfg ops keys) =
      (ops.map opEvents).flatten ++ [.fail .io] :=
  WS.Props.C01.roundtrip inflateImpl wcfg rtakeover ops keys hwf hnc hctl hk hlen
    (codecOK_storedFor wcfg rtakeover [] ops hstored)

/-! ### non-vacuity -/

/-- a server with permessage-deflate and threshold 1 writes one compressed text message. -/
def exCfg : WCfg := { client := false, flate := true, takeover := false, threshold := 1 }
def exOps : List WOp := [.msg opText false [[1, 2, 3]] [storedMessage [1, 2, 3]], .ping [7]]

example : storedMessage [1, 2, 3] = [0x00, 3, 0, 0xfc, 0xff, 1, 2, 3, 0x00] := by decide
example : compresses exCfg [[1, 2, 3]] = true := by decide
example : StoredObs exOps := by decide
example : inflateImpl [] (storedMessage [1, 2, 3] ++ deflateTail) = { plain := [1, 2, 3], ok := true } :=
  stored_inflates [] [1, 2, 3]

/-- the hypotheses of `roundtrip_stored` are satisfiable, and the message is really compressed:
the peer of `exCfg` receives the text message and answers the Ping. -/
example :
    readStream inflateImpl { client := true, flate := true, takeover := false, limit := -1 } []
        (writerBytes exCfg exOps [[0, 0, 0, 0], [0, 0, 0, 0], [0, 0, 0, 0]]) =
      [.msg opText [1, 2, 3], .reply opPong [7], .fail .io] :=
  roundtrip_stored exCfg false exOps [[0, 0, 0, 0], [0, 0, 0, 0], [0, 0, 0, 0]]
    (by simp [exOps, opWF, opText]) (by decide) (by simp [exOps, ctlOK])
    ⟨by decide, by simp⟩ (by decide) (by decide)

#eval inflateImpl [] (storedMessage [1, 2, 3] ++ deflateTail)
#eval inflateImpl [9, 9] (storedMessage (List.replicate 70000 5) ++ deflateTail) |>.plain.length

end WS.Props.C01Stored
