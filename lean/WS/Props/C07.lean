import WS.Model.Pool
import WS.Props.C07Window
/-
  C07 — Connections are isolated: a pooled inflater is never used by a connection that does not own
  it (model of the reference fields that can outlive a Put; the byte-level provenance of payloads
  and the other pools are observed by the harness).
-/
namespace WS.Props.C07
open WS.Model.Pool

/-- in every state reachable by any interleaving of the connections' operations: a field refers to
an object only if that object is owned by that connection — not in the pool, not referenced by
another connection. -/
def Owned (s : PState) : Prop :=
  (∀ (i : Nat) (c : Conn) (o : Nat), s.conns[i]? = some c → (c.fr = some o ∨ c.src = Src.flate o) →
      o < s.next ∧ o ∉ s.free ∧ c.fr = some o ∧
      ∀ (j : Nat) (c' : Conn), s.conns[j]? = some c' → (c'.fr = some o ∨ c'.src = Src.flate o) → j = i) ∧
  (∀ o ∈ s.free, o < s.next) ∧ s.free.Nodup

theorem getElem?_set_iff {l : List Conn} {i k : Nat} {x c : Conn} :
    (l.set i x)[k]? = some c ↔ (k = i ∧ i < l.length ∧ c = x) ∨ (k ≠ i ∧ l[k]? = some c) := by
  rw [List.getElem?_set]
  by_cases hk : i = k
  · subst hk
    by_cases hl : i < l.length
    · simp [hl, eq_comm]
    · simp [hl]
  · have : k ≠ i := fun h => hk h.symm
    simp [hk, this]

theorem getElem?_append_single_iff {l : List Conn} {k : Nat} {x c : Conn} :
    (l ++ [x])[k]? = some c ↔ l[k]? = some c ∨ (k = l.length ∧ c = x) := by
  rw [List.getElem?_append]
  by_cases hk : k < l.length
  · simp [hk]; omega
  · simp only [hk, if_false]
    have : l[k]? = none := by simp; omega
    rw [this]
    by_cases h2 : k = l.length
    · subst h2; simp [eq_comm]
    · obtain ⟨n, hn⟩ : ∃ n, k - l.length = n + 1 := ⟨k - l.length - 1, by omega⟩
      simp [h2, hn]

theorem owned_init : Owned init := by
  refine ⟨?_, ?_, ?_⟩
  · intro i c o h; simp [init] at h
  · intro o h; simp [init] at h
  · simp [init]

/-- every operation preserves ownership (in particular `release` detaches `src`, so a later `read`
cannot reach the released inflater). -/
theorem owned_step (s : PState) (i : Nat) (op : Op) (h : Owned s) : Owned (step s i op).1 := by
  obtain ⟨h1, h2, h3⟩ := h
  cases op with
  | open_ =>
    refine ⟨?_, h2, h3⟩
    simp only [step, getElem?_append_single_iff]
    grind
  | read =>
    have : (step s i .read).1 = s := by
      simp only [step]; split
      · rfl
      · split <;> rfl
    rw [this]; exact ⟨h1, h2, h3⟩
  | startPlain =>
    simp only [step]
    split
    · exact ⟨h1, h2, h3⟩
    · rename_i c hc
      refine ⟨?_, h2, h3⟩
      simp only [setConn, getElem?_set_iff]
      grind
  | release =>
    simp only [step]
    split
    · exact ⟨h1, h2, h3⟩
    · rename_i c hc
      split
      · exact ⟨h1, h2, h3⟩
      · rename_i o ho
        refine ⟨?_, ?_, ?_⟩
        · simp only [setConn, getElem?_set_iff]
          grind
        · grind
        · grind
  | startCompressed fp =>
    simp only [step]
    split
    · exact ⟨h1, h2, h3⟩
    · rename_i c hc
      split
      · exact ⟨h1, h2, h3⟩
      · rename_i ho
        split
        · rename_i o rest hfree
          refine ⟨?_, ?_, ?_⟩
          · simp only [setConn, getElem?_set_iff]
            grind
          · grind
          · grind
        · refine ⟨?_, ?_, ?_⟩
          · simp only [setConn, getElem?_set_iff]
            grind
          · grind
          · grind

theorem owned_run_gen (ops : List (Nat × Op)) : ∀ s, Owned s → Owned (run s ops).1 := by
  induction ops with
  | nil => intro s h; exact h
  | cons p rest ih =>
    intro s h
    obtain ⟨i, op⟩ := p
    simp only [run]
    exact ih _ (owned_step s i op h)

theorem owned_run (ops : List (Nat × Op)) : Owned (run init ops).1 := by
  exact owned_run_gen ops init owned_init

def Agree (s : PState) (owner : Nat → Option Nat) : Prop :=
  ∀ (o i : Nat), owner o = some i ↔ ∃ c : Conn, s.conns[i]? = some c ∧ c.fr = some o

theorem monitor_step (s : PState) (i : Nat) (op : Op) (owner : Nat → Option Nat)
    (h : Owned s) (ha : Agree s owner) :
    ∃ owner', Agree (step s i op).1 owner' ∧
      ∀ rest, monitor ((step s i op).2 ++ rest) owner = monitor rest owner' := by
  obtain ⟨h1, h2, h3⟩ := h
  unfold Agree at *
  cases op with
  | open_ =>
    refine ⟨owner, ?_, fun _ => rfl⟩
    simp only [step, getElem?_append_single_iff]
    grind
  | read =>
    refine ⟨owner, ?_, ?_⟩
    · have : (step s i .read).1 = s := by
        simp only [step]; split
        · rfl
        · split <;> rfl
      rw [this]; exact ha
    · intro rest
      simp only [step]
      split
      · rfl
      · rename_i c hc
        split
        · rename_i o ho
          have : owner o = some i := by grind
          simp [monitor, this]
        · rfl
  | startPlain =>
    refine ⟨owner, ?_, ?_⟩
    · simp only [step]
      split
      · exact ha
      · simp only [setConn, getElem?_set_iff]
        grind
    · intro rest
      simp only [step]
      split <;> rfl
  | release =>
    simp only [step]
    split
    · exact ⟨owner, ha, fun _ => rfl⟩
    · rename_i c hc
      split
      · exact ⟨owner, ha, fun _ => rfl⟩
      · rename_i o ho
        refine ⟨fun x => if x = o then none else owner x, ?_, ?_⟩
        · simp only [setConn, getElem?_set_iff]
          grind
        · intro rest
          have : owner o = some i := by grind
          simp [monitor, this]
  | startCompressed fp =>
    simp only [step]
    split
    · exact ⟨owner, ha, fun _ => rfl⟩
    · rename_i c hc
      split
      · exact ⟨owner, ha, fun _ => rfl⟩
      · rename_i ho
        split
        · rename_i o rest hfree
          refine ⟨fun x => if x = o then some i else owner x, ?_, ?_⟩
          · simp only [setConn, getElem?_set_iff]
            grind
          · intro rest
            have : owner o = none := by
              cases hoo : owner o with
              | none => rfl
              | some j => grind
            simp [monitor, this]
        · refine ⟨fun x => if x = s.next then some i else owner x, ?_, ?_⟩
          · simp only [setConn, getElem?_set_iff]
            grind
          · intro rest
            have : owner s.next = none := by
              cases hoo : owner s.next with
              | none => rfl
              | some j => grind
            simp [monitor, this]

theorem monitor_run (ops : List (Nat × Op)) : ∀ s owner, Owned s → Agree s owner →
    monitor (run s ops).2 owner = true := by
  induction ops with
  | nil => intro s owner _ _; rfl
  | cons p rest ih =>
    intro s owner h ha
    obtain ⟨i, op⟩ := p
    simp only [run]
    obtain ⟨owner', ha', hm⟩ := monitor_step s i op owner h ha
    rw [hm]
    exact ih _ owner' (owned_step s i op h) ha'

/-- **every `use` event is by the owner**: for any number of connections and any interleaving of
their operations (reading again after the end of a message, abandoning a message, releasing at any
point, new connections taking objects from the pool), the event log passes the ownership monitor. -/
theorem all_uses_owned (ops : List (Nat × Op)) : monitor (run init ops).2 (fun _ => none) = true := by
  refine monitor_run ops init _ owned_init ?_
  intro o i
  simp [init]

/-- non-vacuity / regression: with the pre-fix behaviour (release that leaves `src` pointing to the
inflater) the monitor rejects the log of: A reads a compressed message to its end, B starts one
(receiving the same inflater from the pool), A reads again. -/
theorem stale_source_is_caught :
    monitor [.get 0 0, .use 0 0, .put 0 0, .get 1 0, .use 0 0] (fun _ => none) = false := by
  decide

end WS.Props.C07
