import WS.Model.Pool
/-
  C07 — Connections are isolated: a pooled inflater is never used by a connection that does not own
  it (model of the reference fields that can outlive a Put; the byte-level provenance of payloads
  and the other pools are observed by the harness).
-/
namespace WS.Props.C07
open WS.Model.Pool

/-- in every state reachable by any interleaving of the connections' operations: a field refers to
an object only if that object is owned by that connection — not in the pool, not referenced by
another connection. -/
def Owned (s : PState) : Prop :=
  (∀ (i : Nat) (c : Conn) (o : Nat), s.conns[i]? = some c → (c.fr = some o ∨ c.src = Src.flate o) →
      o < s.next ∧ o ∉ s.free ∧ c.fr = some o ∧
      ∀ (j : Nat) (c' : Conn), s.conns[j]? = some c' → (c'.fr = some o ∨ c'.src = Src.flate o) → j = i) ∧
  (∀ o ∈ s.free, o < s.next) ∧ s.free.Nodup

theorem owned_init : Owned init := by
  sorry

/-- every operation preserves ownership (in particular `release` detaches `src`, so a later `read`
cannot reach the released inflater). -/
theorem owned_step (s : PState) (i : Nat) (op : Op) (h : Owned s) : Owned (step s i op).1 := by
  sorry

theorem owned_run (ops : List (Nat × Op)) : Owned (run init ops).1 := by
  sorry

/-- **every `use` event is by the owner**: for any number of connections and any interleaving of
their operations (reading again after the end of a message, abandoning a message, releasing at any
point, new connections taking objects from the pool), the event log passes the ownership monitor. -/
theorem all_uses_owned (ops : List (Nat × Op)) : monitor (run init ops).2 (fun _ => none) = true := by
  sorry

/-- non-vacuity / regression: with the pre-fix behaviour (release that leaves `src` pointing to the
inflater) the monitor rejects the log of: A reads a compressed message to its end, B starts one
(receiving the same inflater from the pool), A reads again. -/
theorem stale_source_is_caught :
    monitor [.get 0 0, .use 0 0, .put 0 0, .get 1 0, .use 0 0] (fun _ => none) = false := by
  decide

end WS.Props.C07
