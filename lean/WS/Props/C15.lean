import WS.Props.C03
/-
  C15 (receive side) — every Ping frame read is answered by a Pong with the identical payload, in
  order; Pongs provoke nothing.  (The Ping API's wait-for-own-pong matching is part of the
  concurrent model.)
-/
namespace WS.Props.C15
open WS WS.Model WS.Spec

variable (inf : Inflate) (cfg : RCfg) (limits : List Int)

theorem ping_answered (st : RState) (f : Frame) (rest : List Frame) (tl : Tail)
    (hc : headerCheck cfg f.h = none) (ho : f.h.opcode = opPing) :
    runReader inf cfg limits st (f :: rest) tl = .reply opPong f.data :: runReader inf cfg limits st rest tl := by
  sorry

theorem pong_ignored (st : RState) (f : Frame) (rest : List Frame) (tl : Tail)
    (hc : headerCheck cfg f.h = none) (ho : f.h.opcode = opPong) :
    runReader inf cfg limits st (f :: rest) tl = runReader inf cfg limits st rest tl := by
  sorry

def pongPayload : Ev → Option Bytes
  | .reply op p => if op = opPong then some p else none
  | _ => none

/-- For **every** stream: the Pongs written are, in order, the payloads of the Ping frames read
before reading stopped — never a Pong without a Ping, never a different payload, never reordered. -/
theorem pongs_prefix_of_pings (st : RState) (fs : List Frame) (tl : Tail) :
    (runReader inf cfg limits st fs tl).filterMap pongPayload <+:
      (fs.filter (fun f => f.h.opcode == opPing)).map Frame.data := by
  sorry

/-- on a valid sequence every Ping — before, between or inside fragmented messages — is answered. -/
theorem valid_pongs_all (L : Int) (p : Pending) (fs : List Frame) :
    (specRun p fs).1.filterMap pongPayload = (fs.filter (fun f => f.h.opcode == opPing)).map Frame.data := by
  sorry

end WS.Props.C15
