import WS.Props.C03
import WS.Proofs.ReaderInv
import WS.Props.C15Ping
/-
  C15 (receive side) — every Ping frame read is answered by a Pong with the identical payload, in
  order; Pongs provoke nothing.  (The Ping API's wait-for-own-pong matching is part of the
  concurrent model.)
-/
namespace WS.Props.C15
open WS WS.Model WS.Spec WS.Proofs.ReaderInv

variable (inf : Inflate) (cfg : RCfg) (limits : List Int)

theorem ping_answered (st : RState) (f : Frame) (rest : List Frame) (tl : Tail)
    (hc : headerCheck cfg f.h = none) (ho : f.h.opcode = opPing) :
    runReader inf cfg limits st (f :: rest) tl = .reply opPong f.data :: runReader inf cfg limits st rest tl := by
  have ho' : (f.h.opcode == opPing) = true := by rw [ho]; decide
  rw [runReader, hc]
  simp only [ho', if_true]

theorem pong_ignored (st : RState) (f : Frame) (rest : List Frame) (tl : Tail)
    (hc : headerCheck cfg f.h = none) (ho : f.h.opcode = opPong) :
    runReader inf cfg limits st (f :: rest) tl = runReader inf cfg limits st rest tl := by
  have h1 : (f.h.opcode == opPing) = false := by rw [ho]; decide
  have h2 : (f.h.opcode == opPong) = true := by rw [ho]; decide
  rw [runReader, hc]
  simp only [h1, h2, if_true, Bool.false_eq_true, if_false]

def pongPayload : Ev → Option Bytes
  | .reply op p => if op = opPong then some p else none
  | _ => none

/-- For **every** stream: the Pongs written are, in order, the payloads of the Ping frames read
before reading stopped — never a Pong without a Ping, never a different payload, never reordered. -/
theorem pongs_prefix_of_pings (st : RState) (fs : List Frame) (tl : Tail) :
    (runReader inf cfg limits st fs tl).filterMap pongPayload <+:
      (fs.filter (fun f => f.h.opcode == opPing)).map Frame.data := by
  have hq : ∀ l : List Ev, (∀ ev ∈ l, Quiet ev) → l.filterMap pongPayload = [] := by
    intro l hl
    rw [List.filterMap_eq_nil_iff]
    intro ev hev
    rcases hl ev hev with ⟨p, rfl⟩ | ⟨w, rfl⟩ | ⟨t, d, w, a, rfl⟩
    · have : ¬ opClose = opPong := by decide
      simp [pongPayload, this]
    · rfl
    · rfl
  have hfin : ∀ st evs o, finishMsg inf cfg limits st = (evs, o) → evs.filterMap pongPayload = [] := by
    intro st evs o hf
    cases o with
    | none => exact hq _ (finishMsg_none_quiet inf cfg limits st evs hf)
    | some st' =>
      rcases finishMsg_some inf cfg limits st evs st' hf with rfl | ⟨typ, out, rfl⟩ <;> rfl
  have hdata : ∀ st h d evs o, dataStep inf cfg limits st h d = (evs, o) → evs.filterMap pongPayload = [] := by
    intro st h d evs o hd
    have := dataStep_quiet inf cfg limits st h d
    rw [hd] at this
    exact hq _ this
  have hnp : ∀ f : Frame, (f.h.opcode == opPing) = false → ∀ rest : List Frame,
      (List.filter (fun f => f.h.opcode == opPing) (f :: rest)) = List.filter (fun f => f.h.opcode == opPing) rest := by
    intro f hf rest
    simp only [List.filter_cons, hf, Bool.false_eq_true, if_false]
  refine runReader_induct inf cfg limits
    (fun _ fs out => out.filterMap pongPayload <+: (fs.filter (fun f => f.h.opcode == opPing)).map Frame.data)
    ?_ ?_ ?_ ?_ ?_ ?_ ?_ ?_ ?_ fs st tl
  · intro st fs why _ _
    rw [hq _ (stopIn_quiet inf cfg limits st why)]
    exact List.nil_prefix
  · intro st h d evs hd
    rw [hdata _ _ _ _ _ hd]
    exact List.nil_prefix
  · intro st h d evs st' hd
    rw [List.filterMap_append, hdata _ _ _ _ _ hd, hq _ (stopIn_quiet inf cfg limits st' .io)]
    exact List.nil_prefix
  · intro st f rest r hp ih
    simp only [List.filter_cons, hp, if_true, List.map_cons, List.filterMap_cons, pongPayload]
    exact (List.prefix_cons_inj _).mpr ih
  · intro st f rest r hp _ ih
    rw [hnp f hp]
    exact ih
  · intro st f rest evs _ _ hd
    rw [hdata _ _ _ _ _ hd]
    exact List.nil_prefix
  · intro st f rest evs st' evs2 _ _ hd _ hf
    rw [List.filterMap_append, hdata _ _ _ _ _ hd, hfin _ _ _ hf]
    exact List.nil_prefix
  · intro st f rest evs st' evs2 st'' r hp _ hd _ hf ih
    rw [List.filterMap_append, List.filterMap_append, hdata _ _ _ _ _ hd, hfin _ _ _ hf, hnp f hp]
    exact ih
  · intro st f rest evs st' r hp _ hd _ ih
    rw [List.filterMap_append, hdata _ _ _ _ _ hd, hnp f hp]
    exact ih

/-- on a valid sequence every Ping — before, between or inside fragmented messages — is answered. -/
theorem valid_pongs_all (L : Int) (p : Pending) (fs : List Frame) :
    (specRun p fs).1.filterMap pongPayload = (fs.filter (fun f => f.h.opcode == opPing)).map Frame.data := by
  induction fs generalizing p with
  | nil => rfl
  | cons f fs ih =>
    simp only [specRun, List.filterMap_append, ih]
    by_cases hp : f.h.opcode = opPing
    · have hp' : (f.h.opcode == opPing) = true := by rw [hp]; decide
      simp [specStep, hp, pongPayload]
    · have hp' : (f.h.opcode == opPing) = false := by simpa using hp
      simp only [List.filter_cons, hp', Bool.false_eq_true, if_false]
      have : (specStep p f).1.filterMap pongPayload = [] := by
        unfold specStep
        simp only [hp, if_false]
        split
        · rfl
        · split <;> split <;> rfl
      rw [this]; rfl

end WS.Props.C15
