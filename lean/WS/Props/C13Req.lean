import WS.Model.DialReq
set_option linter.unusedSimpArgs false
/-
  C13, first half — "Dial sends a well-formed upgrade request": theorems about the request model
  (WS/Model/DialReq.lean), for every set of caller headers, subprotocol list, compression offer, key.
-/
namespace WS.Props.C13
open WS WS.Model

theorem values_set_same (h : Hdr) (k v : Str) : (h.set k v).values k = [v] := by
  simp only [Hdr.set, Hdr.values, List.filter_append, List.filter_filter, List.flatMap_append]
  have h1 : (h.filter (fun kv => (kv.1 == k) && (kv.1 != k))) = [] := by
    apply List.filter_eq_nil_iff.mpr
    intro a _
    cases hk : a.1 == k <;> simp [hk, bne]
  simp [h1]

theorem values_set_other (h : Hdr) (k k' v : Str) (hne : (k == k') = false) :
    (h.set k v).values k' = h.values k' := by
  simp only [Hdr.set, Hdr.values, List.filter_append, List.filter_filter, List.flatMap_append]
  have h1 : (h.filter (fun kv => (kv.1 == k') && (kv.1 != k))) = h.filter (fun kv => kv.1 == k') := by
    apply List.filter_congr
    intro a _
    cases hk : a.1 == k'
    · simp
    · have : a.1 = k' := by simpa using hk
      subst this
      have : (a.1 == k) = false := by
        cases h2 : a.1 == k
        · rfl
        · have e : a.1 = k := by simpa using h2
          rw [e] at hne; simp at hne
      simp [bne, this]
  have h2 : ([(k, [v])] : Hdr).filter (fun kv => kv.1 == k') = [] := by simp [hne]
  simp [h1, h2]

/-- the six header keys Dial sets are pairwise distinct (evaluation). -/
theorem keys_distinct :
    (s "Connection" == s "Upgrade") = false ∧ (s "Connection" == s "Sec-Websocket-Version") = false ∧
    (s "Connection" == s "Sec-Websocket-Key") = false ∧ (s "Connection" == s "Sec-Websocket-Protocol") = false ∧
    (s "Connection" == s "Sec-Websocket-Extensions") = false ∧
    (s "Upgrade" == s "Sec-Websocket-Version") = false ∧ (s "Upgrade" == s "Sec-Websocket-Key") = false ∧
    (s "Upgrade" == s "Sec-Websocket-Protocol") = false ∧ (s "Upgrade" == s "Sec-Websocket-Extensions") = false ∧
    (s "Sec-Websocket-Version" == s "Sec-Websocket-Key") = false ∧
    (s "Sec-Websocket-Version" == s "Sec-Websocket-Protocol") = false ∧
    (s "Sec-Websocket-Version" == s "Sec-Websocket-Extensions") = false ∧
    (s "Sec-Websocket-Key" == s "Sec-Websocket-Protocol") = false ∧
    (s "Sec-Websocket-Key" == s "Sec-Websocket-Extensions") = false ∧
    (s "Sec-Websocket-Protocol" == s "Sec-Websocket-Extensions") = false := by decide

/-- the value of one of the four mandatory headers in the request, whatever the caller supplied and
whatever was set after it. -/
theorem request_header (caller : Hdr) (host : Str) (sps : List Str) (copts : Option Copts) (key : Str) :
    let r := dialRequest caller host sps copts key
    r.hdr.values (s "Connection") = [s "Upgrade"] ∧ r.hdr.values (s "Upgrade") = [s "websocket"] ∧
    r.hdr.values (s "Sec-Websocket-Version") = [s "13"] ∧ r.hdr.values (s "Sec-Websocket-Key") = [key] := by
  obtain ⟨k1, k2, k3, k4, k5, k6, k7, k8, k9, k10, k11, k12, k13, k14, _⟩ := keys_distinct
  have sym : ∀ {a b : Str}, (a == b) = false → (b == a) = false := by
    intro a b h; cases h2 : b == a
    · rfl
    · have : b = a := by simpa using h2
      subst this; simp at h
  simp only [dialRequest]
  refine ⟨?_, ?_, ?_, ?_⟩ <;>
    (split <;> split <;>
      simp [values_set_same, values_set_other, k1, k2, k3, k4, k5, k6, k7, k8, k9, k10, k11, k12, k13, k14,
        sym k1, sym k2, sym k3, sym k4, sym k5, sym k6, sym k7, sym k8, sym k9, sym k10, sym k11, sym k12, sym k13, sym k14])

/-- **the request is one the other side accepts**: for every set of caller headers (even ones that name
Connection, Upgrade, the version or a key themselves), every subprotocol list, every compression offer and
every key that is the base64 of 16 bytes, the request Dial sends satisfies Accept's check
(`verifyClientRequest = 0`, cf. C11.accept_iff): GET, HTTP/1.1, Connection: Upgrade, Upgrade: websocket,
version 13, exactly one key. -/
theorem dial_request_acceptable (caller : Hdr) (host : Str) (sps : List Str) (copts : Option Copts) (key : Str)
    (v : Bytes) (hk : Spec.b64Decode (trimSpace key) = some v) (hv : v.length = 16) :
    verifyClientRequest (dialRequest caller host sps copts key) = 0 := by
  obtain ⟨h1, h2, h3, h4⟩ := request_header caller host sps copts key
  have hc : headerContainsToken (dialRequest caller host sps copts key).hdr (s "Connection") (s "Upgrade") = true := by
    simp only [headerContainsToken, headerTokens, h1]; decide
  have hu : headerContainsToken (dialRequest caller host sps copts key).hdr (s "Upgrade") (s "websocket") = true := by
    simp only [headerContainsToken, headerTokens, h2]; decide
  have hver : (dialRequest caller host sps copts key).hdr.get (s "Sec-Websocket-Version") = s "13" := by
    simp [Hdr.get, h3]
  have hm : (dialRequest caller host sps copts key).method = s "GET" := rfl
  have hp : (dialRequest caller host sps copts key).protoMajor = 1 ∧ (dialRequest caller host sps copts key).protoMinor = 1 := ⟨rfl, rfl⟩
  unfold verifyClientRequest
  simp [hc, hu, hver, hm, hp.1, hp.2, h4, hk, hv]

/-- the subprotocols and the extension offer are sent exactly when they were asked for: a request for
neither leaves whatever the caller put under those keys untouched and adds nothing. -/
theorem nothing_unrequested (caller : Hdr) (host key : Str) :
    (dialRequest caller host [] none key).hdr.values (s "Sec-Websocket-Protocol") = caller.values (s "Sec-Websocket-Protocol") ∧
    (dialRequest caller host [] none key).hdr.values (s "Sec-Websocket-Extensions") = caller.values (s "Sec-Websocket-Extensions") := by
  obtain ⟨_, _, _, k4, k5, _, _, k8, k9, _, k11, k12, k13, k14, _⟩ := keys_distinct
  simp [dialRequest, values_set_other, k4, k5, k8, k9, k11, k12, k13, k14]

/-- non-vacuity: a concrete request (the key of RFC 6455's example). -/
example : verifyClientRequest (dialRequest [(s "Cookie", [s "a=b"]), (s "Connection", [s "close"])] (s "example.com")
    [s "chat", s "superchat"] (some (modeOpts 2)) (s "dGhlIHNhbXBsZSBub25jZQ==")) = 0 := by decide

end WS.Props.C13
