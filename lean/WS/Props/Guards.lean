import WS.Props.GuardsDefs
/-
  The decision skeletons regenerated from read.go / write.go (WS/Gen/Guards.lean) against the models and
  against decision tables stated outright, on every valuation of their atoms.  Each theorem is closed by
  kernel evaluation over the whole (finite) domain, so it holds for whatever program the translator
  produced from the current sources: an equivalent re-writing of a condition passes, a change of meaning
  fails — and the failing valuation is found by running the same comparison in the harness.
-/
namespace WS.Props.Guards
open WS WS.Model WS.Model.Guard WS.Gen.Guards

/-! ### readRSV1Illegal -/

/-- `Conn.readRSV1Illegal` as written now decides exactly what the reader model's `rsv1Illegal` decides. -/
theorem readRSV1Illegal_matches : ∀ flate : Bool, ∀ op : Fin 16,
    run (envRSV1 flate op.val) c_Conn_readRSV1Illegal
      = ⟨[], .ret (b2s (rsv1Illegal (rcfg false flate) (hdr true true false false false op.val)))⟩ := by
  decide +kernel

/-! ### readLoop: the header checks, in the code's order, with their effects -/

/-- `Conn.readLoop` as written now: for every combination of reserved bits, mask bit, opcode, role and
negotiated compression it rejects (with or without a Close frame), dispatches to handleControl, or returns
the data frame — exactly as `headerCheck` of the reader model (the subject of C03's theorems) says. -/
theorem readLoop_matches : ∀ rsv1 rsv2 rsv3 masked client flate ioErr closeStatus : Bool, ∀ op : Fin 16,
    run (envReadLoop rsv1 rsv2 rsv3 masked client flate ioErr closeStatus op.val) c_Conn_readLoop
      = readLoopExpected rsv1 rsv2 rsv3 masked client flate ioErr op.val := by
  decide +kernel

/-! ### which side's `no_context_takeover` governs which direction -/

/-- the reader keeps its dictionary iff the *peer's* direction was not declared `no_context_takeover`. -/
theorem reader_takeover_matches : ∀ client cnct snct : Bool,
    run (envTakeover client cnct snct) c_msgReader_flateContextTakeover
      = ⟨[], .ret (b2s (readerTakeover client ⟨cnct, snct⟩))⟩ := by
  decide +kernel

/-- the writer keeps its dictionary iff its *own* direction was not declared `no_context_takeover`. -/
theorem writer_takeover_matches : ∀ client cnct snct : Bool,
    run (envTakeover client cnct snct) c_msgWriter_flateContextTakeover
      = ⟨[], .ret (b2s (writerTakeover client ⟨cnct, snct⟩))⟩ := by
  decide +kernel

/-! ### writeFrame: the post-Close guard and the latch -/

/-- Before anything is armed or written, `writeFrame` takes the frame lock and refuses every frame other than
Ping / Pong once a Close frame was sent. -/
theorem writeFrame_guard : ∀ closeSent client flate fin lockErr staleRsv1 staleFin : Bool, ∀ op : Fin 16,
    run (envWriteFrame closeSent client flate fin lockErr staleRsv1 staleFin op.val false) c_Conn_writeFrame
      = writeFrameGuardExpected closeSent lockErr op.val := by
  decide +kernel

/-- On the path where nothing fails, the frame is emitted by exactly these steps in this order; a Close frame
sets the latch *before* its header is written, in both roles; and the header goes out with FIN as asked, RSV1
exactly on the first frame of a compressed message and MASK exactly for a client — whatever the previous frame
left in the reused header (`staleRsv1`, `staleFin`). -/
theorem writeFrame_emission : ∀ client flate fin staleRsv1 staleFin : Bool, ∀ op : Fin 16,
    run (envWriteFrame false client flate fin false staleRsv1 staleFin op.val true) c_Conn_writeFrame
      = writeFrameEmissionExpected client flate fin op.val := by
  decide +kernel

/-! ### message sequencing (RFC 6455 §5.4) in `reader` and `msgReader.read` -/

/-- `Conn.reader`: a new message is only started when the previous one was read to its final frame, and a
continuation frame that continues nothing is a protocol error answered with a Close frame. -/
theorem reader_sequencing : ∀ msgFin ioErr : Bool, ∀ op : Fin 16,
    run (envReader msgFin ioErr op.val) c_Conn_reader
      = readerExpected msgFin ioErr op.val := by
  decide +kernel

/-- `msgReader.read` when the current frame is used up: the message ends only after its final frame; otherwise
the next frame must be a continuation frame, anything else is a protocol error answered with a Close frame. -/
theorem msgReader_read_sequencing : ∀ fin flate client big : Bool, ∀ op : Fin 16,
    run (envMsgRead true fin flate client false big op.val) c_msgReader_read
      = msgReadExpected fin flate op.val := by
  decide +kernel


/-! ### msgWriter.Write / msgWriter.Close -/

theorem msgWriter_write_decision : ∀ lockErr closed flateNeg flateOn big : Bool, ∀ op : Fin 16,
    run (envMsgWrite lockErr closed flateNeg flateOn big op.val) c_msgWriter_Write
      = msgWriteExpected lockErr closed flateNeg flateOn big op.val := by
  decide +kernel

theorem msgWriter_close_decision : ∀ lockErr closed flateOn takeover : Bool,
    run (envMsgClose lockErr closed flateOn takeover) c_msgWriter_Close
      = msgCloseExpected lockErr closed flateOn takeover := by
  decide +kernel

end WS.Props.Guards
