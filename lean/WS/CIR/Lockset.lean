import WS.CIR.Core
/-
  Analysis 1 — lock discipline.  A certificate assigns to every node the set of locks the
  executing thread certainly holds there.  `check` is decidable; `sound` says that for every
  program that passes, in every reachable state (any number of threads, any interleaving) a thread
  at a node really holds the locks the certificate claims — hence two threads are never at nodes
  that claim the same lock.
-/
namespace WS.CIR.Lockset
open WS.CIR

abbrev Cert := List (List Nat)

def held (c : Cert) (n : Node) : List Nat := c.getD n []

def sub (a b : List Nat) : Bool := a.all (fun x => b.contains x)

/-- the transfer condition of one node. -/
def checkNode (P : Prog) (c : Cert) (n : Node) : Bool :=
  let H := held c n
  match P.at n with
  | .lock m ok err => !H.contains m && sub (held c ok) (m :: H) && sub (held c err) H
  | .forceLock m nx => !H.contains m && sub (held c nx) (m :: H)
  | .tryLock m y no => !H.contains m && sub (held c y) (m :: H) && sub (held c no) H
  | .unlock m nx => H.contains m && sub (held c nx) (H.erase m) && !(held c nx).contains m
  | .spawn e nx => (held c e).isEmpty && sub (held c nx) H
  | i => i.succs.all (fun s => sub (held c s) H)

def check (P : Prog) (c : Cert) : Bool :=
  (List.range P.code.length).all (checkNode P c) &&
  P.entries.all (fun e => (held c e).isEmpty) && P.boot.all (fun e => (held c e).isEmpty) &&
  -- nodes outside the program hold nothing
  c.length ≤ P.code.length

/-- every claim of the certificate is true of the state. -/
def LInv (c : Cert) (g : G) : Prop :=
  ∀ t n, g.pcs[t]? = some n → ∀ m ∈ held c n, g.holder m = some t

theorem sub_iff (a b : List Nat) : sub a b = true ↔ ∀ x ∈ a, x ∈ b := by
  simp [sub, List.all_eq_true]

theorem isEmpty_held {c : Cert} {e : Node} (h : (held c e).isEmpty = true) : held c e = [] := by
  simpa [List.isEmpty_iff] using h

/-- a step that only moves thread `t` to a node with fewer claims. -/
theorem move_only {c : Cert} {g g' : G} {t n n' : Nat} (hinv : LInv c g)
    (hpc : g.pcs[t]? = some n) (hsub : ∀ x ∈ held c n', x ∈ held c n)
    (hp : g'.pcs = g.pcs.set t n') (hh : g'.holder = g.holder) : LInv c g' := by
  intro t' k hk x hx
  rw [hh]
  rw [hp, List.getElem?_set] at hk
  split at hk
  · next heq =>
    subst heq
    split at hk
    · cases hk
      exact hinv t n hpc x (hsub x hx)
    · cases hk
  · exact hinv t' k hk x hx

/-- a new thread appears at a node without claims. -/
theorem append_only {c : Cert} {g g' : G} {e : Nat} (hinv : LInv c g)
    (he : held c e = []) (hp : g'.pcs = g.pcs ++ [e]) (hh : g'.holder = g.holder) : LInv c g' := by
  intro t' k hk x hx
  rw [hh]
  rw [hp, List.getElem?_append] at hk
  split at hk
  · exact hinv t' k hk x hx
  · have : k = e := by
      cases hl : ([e] : List Nat)[t' - g.pcs.length]? with
      | none => rw [hl] at hk; cases hk
      | some v =>
        rw [hl] at hk
        cases hk
        have := List.mem_of_getElem? hl
        simpa using this
    subst this
    rw [he] at hx
    cases hx

theorem acquire {c : Cert} {g g' : G} {t n n' m : Nat} (hinv : LInv c g)
    (hpc : g.pcs[t]? = some n) (hfree : g.holder m = none)
    (hsub : ∀ x ∈ held c n', x = m ∨ x ∈ held c n)
    (hp : g'.pcs = g.pcs.set t n') (hh : g'.holder = upd g.holder m (some t)) : LInv c g' := by
  intro t' k hk x hx
  rw [hh]
  rw [hp, List.getElem?_set] at hk
  split at hk
  · next heq =>
    subst heq
    split at hk
    · cases hk
      unfold upd
      split
      · rfl
      · next hne =>
        rcases hsub x hx with h | h
        · exact absurd h hne
        · exact hinv t n hpc x h
    · cases hk
  · have := hinv t' k hk x hx
    unfold upd
    split
    · next heq => subst heq; rw [hfree] at this; cases this
    · exact this

theorem release {c : Cert} {g g' : G} {t n n' m : Nat} (hinv : LInv c g)
    (hpc : g.pcs[t]? = some n) (hm : m ∈ held c n)
    (hsub : ∀ x ∈ held c n', x ∈ held c n ∧ x ≠ m)
    (hp : g'.pcs = g.pcs.set t n') (hh : g'.holder = upd g.holder m none) : LInv c g' := by
  have hmt := hinv t n hpc m hm
  intro t' k hk x hx
  rw [hh]
  rw [hp, List.getElem?_set] at hk
  split at hk
  · next heq =>
    subst heq
    split at hk
    · cases hk
      have := hsub x hx
      unfold upd
      rw [if_neg this.2]
      exact hinv t n hpc x this.1
    · cases hk
  · next hne =>
    have := hinv t' k hk x hx
    unfold upd
    split
    · next heq =>
      subst heq
      rw [hmt] at this
      cases this
      exact absurd rfl hne
    · exact this

theorem checkNode_of_check {P : Prog} {c : Cert} (h : check P c = true) {n : Nat}
    (hn : n < P.code.length) : checkNode P c n = true := by
  unfold check at h
  simp only [Bool.and_eq_true, List.all_eq_true, List.mem_range] at h
  exact h.1.1.1 n hn

theorem at_oob {P : Prog} {n : Nat} (hn : ¬ n < P.code.length) : P.at n = .done false := by
  unfold Prog.at
  simp [List.getD, List.getElem?_eq_none (Nat.le_of_not_lt hn)]

theorem tstep_pres {P : Prog} {c : Cert} {g g' : G} {t n : Nat} (hinv : LInv c g)
    (hpc : g.pcs[t]? = some n) (hck : checkNode P c n = true)
    (hs : TStep t (P.at n) g g') : LInv c g' := by
  unfold checkNode at hck
  generalize hi : P.at n = i at hs hck
  cases hs with
  | lockOk m ok err _ hfree _ =>
    simp only [Bool.and_eq_true, sub_iff] at hck
    refine acquire hinv hpc hfree (fun x hx => ?_) rfl rfl
    simpa using hck.1.2 x hx
  | lockErr m ok err =>
    simp only [Bool.and_eq_true, sub_iff] at hck
    exact move_only hinv hpc hck.2 rfl rfl
  | forceLock m nx _ hfree =>
    simp only [Bool.and_eq_true, sub_iff] at hck
    refine acquire hinv hpc hfree (fun x hx => ?_) rfl rfl
    simpa using hck.2 x hx
  | tryYes m y no _ hfree =>
    simp only [Bool.and_eq_true, sub_iff] at hck
    refine acquire hinv hpc hfree (fun x hx => ?_) rfl rfl
    simpa using hck.1.2 x hx
  | tryNo m y no _ =>
    simp only [Bool.and_eq_true, sub_iff] at hck
    exact move_only hinv hpc hck.2 rfl rfl
  | unlock m nx =>
    simp only [Bool.and_eq_true, sub_iff] at hck
    obtain ⟨⟨h1, h2⟩, h3⟩ := hck
    have h1' : m ∈ held c n := by simpa using h1
    refine release hinv hpc h1' (fun x hx => ⟨List.mem_of_mem_erase (h2 x hx), ?_⟩) rfl rfl
    intro hxm
    subst hxm
    simp [hx] at h3
  | spawn e nx =>
    simp only [Bool.and_eq_true, sub_iff] at hck
    have h1 : LInv c (g.move t nx) := move_only hinv hpc hck.2 rfl rfl
    exact append_only h1 (isEmpty_held hck.1) rfl rfl
  | testT f a b _ =>
    simp only [Instr.succs, List.all_cons, List.all_nil, Bool.and_eq_true, sub_iff] at hck
    exact move_only hinv hpc hck.1 rfl rfl
  | testF f a b _ =>
    simp only [Instr.succs, List.all_cons, List.all_nil, Bool.and_eq_true, sub_iff] at hck
    exact move_only hinv hpc hck.2.1 rfl rfl
  | set f v nx =>
    simp only [Instr.succs, List.all_cons, List.all_nil, Bool.and_eq_true, sub_iff] at hck
    exact move_only hinv hpc hck.1 rfl rfl
  | casWon f w l _ =>
    simp only [Instr.succs, List.all_cons, List.all_nil, Bool.and_eq_true, sub_iff] at hck
    exact move_only hinv hpc hck.1 rfl rfl
  | casLost f w l _ =>
    simp only [Instr.succs, List.all_cons, List.all_nil, Bool.and_eq_true, sub_iff] at hck
    exact move_only hinv hpc hck.2.1 rfl rfl
  | wrOk k ok err _ =>
    simp only [Instr.succs, List.all_cons, List.all_nil, Bool.and_eq_true, sub_iff] at hck
    exact move_only hinv hpc hck.1 rfl rfl
  | wrErr k ok err =>
    simp only [Instr.succs, List.all_cons, List.all_nil, Bool.and_eq_true, sub_iff] at hck
    exact move_only hinv hpc hck.2.1 rfl rfl
  | armOk s own ok cl =>
    simp only [Instr.succs, List.all_cons, List.all_nil, Bool.and_eq_true, sub_iff] at hck
    exact move_only hinv hpc hck.1 rfl rfl
  | armClosed s own ok cl _ =>
    simp only [Instr.succs, List.all_cons, List.all_nil, Bool.and_eq_true, sub_iff] at hck
    exact move_only hinv hpc hck.2.1 rfl rfl
  | ioOk ok err =>
    simp only [Instr.succs, List.all_cons, List.all_nil, Bool.and_eq_true, sub_iff] at hck
    exact move_only hinv hpc hck.1 rfl rfl
  | ioErr ok err =>
    simp only [Instr.succs, List.all_cons, List.all_nil, Bool.and_eq_true, sub_iff] at hck
    exact move_only hinv hpc hck.2.1 rfl rfl
  | signal ch nx =>
    simp only [Instr.succs, List.all_cons, List.all_nil, Bool.and_eq_true, sub_iff] at hck
    exact move_only hinv hpc hck.1 rfl rfl
  | awaitOk ch ok to _ =>
    simp only [Instr.succs, List.all_cons, List.all_nil, Bool.and_eq_true, sub_iff] at hck
    exact move_only hinv hpc hck.1 rfl rfl
  | awaitTimeout ch ok to =>
    simp only [Instr.succs, List.all_cons, List.all_nil, Bool.and_eq_true, sub_iff] at hck
    exact move_only hinv hpc hck.2.1 rfl rfl
  | branch ss n' _ hmem =>
    simp only [Instr.succs, List.all_eq_true, sub_iff] at hck
    exact move_only hinv hpc (hck n' hmem) rfl rfl

theorem sound (P : Prog) (c : Cert) (h : check P c = true) : ∀ g, Reach P g → LInv c g := by
  have hchk := h
  unfold check at hchk
  simp only [Bool.and_eq_true, List.all_eq_true] at hchk
  obtain ⟨⟨⟨_, hent⟩, hboot⟩, _⟩ := hchk
  intro g hr
  induction hr with
  | init =>
    intro t n hk x hx
    have hmem : n ∈ P.boot := List.mem_of_getElem? hk
    rw [isEmpty_held (hboot n hmem)] at hx
    cases hx
  | step g g' _ hs ih =>
    cases hs with
    | start e _ he => exact append_only ih (isEmpty_held (hent e he)) rfl rfl
    | thread t n _ _ hpc hts =>
      by_cases hn : n < P.code.length
      · exact tstep_pres ih hpc (checkNode_of_check h hn) hts
      · rw [at_oob hn] at hts
        cases hts

/-- mutual exclusion: two threads at nodes that both claim lock `m` are the same thread. -/
theorem exclusive (P : Prog) (c : Cert) (h : check P c = true) (g : G) (hr : Reach P g)
    (t1 t2 n1 n2 m : Nat) (h1 : g.pcs[t1]? = some n1) (h2 : g.pcs[t2]? = some n2)
    (m1 : m ∈ held c n1) (m2 : m ∈ held c n2) : t1 = t2 := by
  have hinv := sound P c h g hr
  have a := hinv t1 n1 h1 m m1
  have b := hinv t2 n2 h2 m m2
  rw [a] at b
  exact Option.some.inj b

end WS.CIR.Lockset
