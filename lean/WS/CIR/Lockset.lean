import WS.CIR.Core
/-
  Analysis 1 — lock discipline.  A certificate assigns to every node the set of locks the
  executing thread certainly holds there.  `check` is decidable; `sound` says that for every
  program that passes, in every reachable state (any number of threads, any interleaving) a thread
  at a node really holds the locks the certificate claims — hence two threads are never at nodes
  that claim the same lock.
-/
namespace WS.CIR.Lockset
open WS.CIR

abbrev Cert := List (List Nat)

def held (c : Cert) (n : Node) : List Nat := c.getD n []

def sub (a b : List Nat) : Bool := a.all (fun x => b.contains x)

/-- the transfer condition of one node. -/
def checkNode (P : Prog) (c : Cert) (n : Node) : Bool :=
  let H := held c n
  match P.at n with
  | .lock m ok err => !H.contains m && sub (held c ok) (m :: H) && sub (held c err) H
  | .forceLock m nx => !H.contains m && sub (held c nx) (m :: H)
  | .tryLock m y no => !H.contains m && sub (held c y) (m :: H) && sub (held c no) H
  | .unlock m nx => H.contains m && sub (held c nx) (H.erase m) && !(held c nx).contains m
  | .spawn e nx => (held c e).isEmpty && sub (held c nx) H
  | i => i.succs.all (fun s => sub (held c s) H)

def check (P : Prog) (c : Cert) : Bool :=
  (List.range P.code.length).all (checkNode P c) &&
  P.entries.all (fun e => (held c e).isEmpty) && P.boot.all (fun e => (held c e).isEmpty) &&
  -- nodes outside the program hold nothing
  c.length ≤ P.code.length

/-- every claim of the certificate is true of the state. -/
def LInv (c : Cert) (g : G) : Prop :=
  ∀ t n, g.pcs[t]? = some n → ∀ m ∈ held c n, g.holder m = some t

theorem sound (P : Prog) (c : Cert) (h : check P c = true) : ∀ g, Reach P g → LInv c g := by
  sorry

/-- mutual exclusion: two threads at nodes that both claim lock `m` are the same thread. -/
theorem exclusive (P : Prog) (c : Cert) (h : check P c = true) (g : G) (hr : Reach P g)
    (t1 t2 n1 n2 m : Nat) (h1 : g.pcs[t1]? = some n1) (h2 : g.pcs[t2]? = some n2)
    (m1 : m ∈ held c n1) (m2 : m ∈ held c n2) : t1 = t2 := by
  sorry

end WS.CIR.Lockset
