import WS.CIR.Core
/-
  Analysis 5 — joins (C20) and "born after" reasoning (C06).
  (a) `joined`: channels the thread has certainly seen closed.  A closer that returns through the
      successful path of waitGoroutines has seen the goroutines' done-channels closed; the program
      closes such a channel only as the goroutine's very last action.
  (b) `passed`: the thread has taken an edge that is only enabled while flag `F` is false (lock
      acquisition for F = closed; winning the closing cas for F = closing).  A thread created while
      F was already true can never take such an edge, so it never reaches a successful return.
-/
namespace WS.CIR.Join
open WS.CIR

abbrev JAnn := List (List Nat)

def joinedAt (a : JAnn) (n : Node) : List Nat := a.getD n []

def sub (a b : List Nat) : Bool := a.all (fun x => b.contains x)

def checkJoinNode (P : Prog) (a : JAnn) (n : Node) : Bool :=
  let j := joinedAt a n
  match P.at n with
  | .await ch ok to => sub (joinedAt a ok) (ch :: j) && sub (joinedAt a to) j
  | .spawn e nx => (joinedAt a e).isEmpty && sub (joinedAt a nx) j
  | i => i.succs.all (fun s => sub (joinedAt a s) j)

def checkJoin (P : Prog) (a : JAnn) : Bool :=
  (List.range P.code.length).all (checkJoinNode P a) &&
  P.entries.all (fun e => (joinedAt a e).isEmpty) && P.boot.all (fun e => (joinedAt a e).isEmpty) &&
  a.length ≤ P.code.length

/-- whatever the annotation says a thread has joined is really closed. -/
theorem joined_sound (P : Prog) (a : JAnn) (h : checkJoin P a = true) (g : G) (hr : Reach P g)
    (t n : Nat) (hn : g.pcs[t]? = some n) : ∀ ch ∈ joinedAt a n, g.sig ch = true := by
  sorry

/-- channel `ch` is closed only as the last action of a goroutine (`signal ch` is followed by `done`). -/
def signalLast (P : Prog) (ch : Nat) : Bool :=
  (List.range P.code.length).all (fun n =>
    match P.at n with
    | .signal c nx => c != ch || (match P.at nx with | .done _ => true | _ => false)
    | _ => true)

/-- if `ch` is closed then some thread has executed its `signal ch` and — when `signalLast` holds —
is at a `done` node or about to be (its next instruction is `done`): the goroutine has exited. -/
theorem signalled_exited (P : Prog) (ch : Nat) (h : signalLast P ch = true) (g : G) (hr : Reach P g)
    (hs : g.sig ch = true) :
    ∃ (t n : Nat), g.pcs[t]? = some n ∧ (∃ ok, P.at n = .done ok) := by
  sorry

/-! ### born-after -/

abbrev PAnn := List Bool

def passedAt (a : PAnn) (n : Node) : Bool := a.getD n false

/-- edges that are only enabled while flag `F` is false. -/
def checkPassNode (F : Nat) (P : Prog) (a : PAnn) (n : Node) : Bool :=
  let p := passedAt a n
  match P.at n with
  | .lock _ ok err => (passedAt a ok → (p || F == fCLOSED)) && (passedAt a err → p)
  | .test f t e => (passedAt a t → p) && (passedAt a e → (p || f == F))
  | .cas f w l => (passedAt a w → (p || f == F)) && (passedAt a l → p)
  | .set f v nx => (f != F || v) && (passedAt a nx → p)     -- F is never reset
  | .spawn e nx => !passedAt a e && (passedAt a nx → p)
  | .done ok => !ok || p                                     -- a successful return needs a passed check
  | i => i.succs.all (fun s => passedAt a s → p)

def checkPass (F : Nat) (P : Prog) (a : PAnn) : Bool :=
  (List.range P.code.length).all (checkPassNode F P a) &&
  P.entries.all (fun e => !passedAt a e) && P.boot.all (fun e => !passedAt a e) &&
  a.length ≤ P.code.length

/-- **closed (closing) is final**: a thread created when flag `F` was already true — a call that
starts after the connection was closed, or a Close/CloseNow after an earlier one has begun — never
reaches a successful return, in any interleaving. -/
theorem born_after_never_succeeds (F : Nat) (P : Prog) (a : PAnn) (h : checkPass F P a = true)
    (g : G) (hr : Reach P g) (t n : Nat) (hn : g.pcs[t]? = some n)
    (hb : ∃ fl, g.born[t]? = some fl ∧ fl F = true) : P.at n ≠ .done true := by
  sorry

/-- flag `F`, once true, stays true. -/
theorem flag_monotone (F : Nat) (P : Prog) (a : PAnn) (h : checkPass F P a = true)
    (g g' : G) (hs : Step P g g') (hf : g.flag F = true) : g'.flag F = true := by
  sorry

end WS.CIR.Join
