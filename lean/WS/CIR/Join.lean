import WS.CIR.Core
/-
  Analysis 5 — joins (C20) and "born after" reasoning (C06).
  (a) `joined`: channels the thread has certainly seen closed.  A closer that returns through the
      successful path of waitGoroutines has seen the goroutines' done-channels closed; the program
      closes such a channel only as the goroutine's very last action.
  (b) `passed`: the thread has taken an edge that is only enabled while flag `F` is false (lock
      acquisition for F = closed; winning the closing cas for F = closing).  A thread created while
      F was already true can never take such an edge, so it never reaches a successful return.
-/
namespace WS.CIR.Join
open WS.CIR

abbrev JAnn := List (List Nat)

def joinedAt (a : JAnn) (n : Node) : List Nat := a.getD n []

def sub (a b : List Nat) : Bool := a.all (fun x => b.contains x)

def checkJoinNode (P : Prog) (a : JAnn) (n : Node) : Bool :=
  let j := joinedAt a n
  match P.at n with
  | .await ch ok to => sub (joinedAt a ok) (ch :: j) && sub (joinedAt a to) j
  | .spawn e nx => (joinedAt a e).isEmpty && sub (joinedAt a nx) j
  | i => i.succs.all (fun s => sub (joinedAt a s) j)

def checkJoin (P : Prog) (a : JAnn) : Bool :=
  (List.range P.code.length).all (checkJoinNode P a) &&
  P.entries.all (fun e => (joinedAt a e).isEmpty) && P.boot.all (fun e => (joinedAt a e).isEmpty) &&
  a.length ≤ P.code.length

theorem at_ge (P : Prog) (n : Nat) (hn : P.code.length ≤ n) : P.at n = .done false := by
  simp [Prog.at, List.getD_eq_getElem?_getD, List.getElem?_eq_none hn]

theorem step_lt {P : Prog} {t n : Nat} {g g' : G} (h : TStep t (P.at n) g g') : n < P.code.length := by
  by_cases hlt : n < P.code.length
  · exact hlt
  · rw [at_ge P n (by omega)] at h; cases h

theorem set_get_cases {l : List Nat} {t0 nx t n : Nat} (h : (l.set t0 nx)[t]? = some n) :
    (t = t0 ∧ n = nx ∧ t0 < l.length) ∨ (t ≠ t0 ∧ l[t]? = some n) := by
  rw [List.getElem?_set] at h
  split at h
  · split at h
    · left; simp_all
    · simp at h
  · right; exact ⟨by omega, h⟩

theorem append_get_cases {α} {l : List α} {e : α} {t : Nat} {n : α} (h : (l ++ [e])[t]? = some n) :
    l[t]? = some n ∨ (t = l.length ∧ n = e) := by
  rw [List.getElem?_append] at h
  split at h
  · left; exact h
  · right
    rw [List.getElem?_singleton] at h
    split at h
    · simp at h; exact ⟨by omega, h.symm⟩
    · simp at h

theorem sub_mem {a b : List Nat} (h : sub a b = true) {x : Nat} (hx : x ∈ a) : x ∈ b := by
  simp only [sub, List.all_eq_true, List.contains_iff_mem] at h
  exact h x hx

theorem joinedAt_ge {a : JAnn} {n : Nat} (h : a.length ≤ n) : joinedAt a n = [] := by
  simp [joinedAt, List.getD_eq_getElem?_getD, List.getElem?_eq_none h]

theorem join_parts {P : Prog} {a : JAnn} (h : checkJoin P a = true) :
    (∀ n, n < P.code.length → checkJoinNode P a n = true) ∧ (∀ e ∈ P.entries, joinedAt a e = []) ∧
    (∀ e ∈ P.boot, joinedAt a e = []) ∧ a.length ≤ P.code.length := by
  simp only [checkJoin, Bool.and_eq_true, List.all_eq_true, List.mem_range, List.isEmpty_iff,
    decide_eq_true_eq] at h
  exact ⟨h.1.1.1, h.1.1.2, h.1.2, h.2⟩

def JInv (a : JAnn) (g : G) : Prop :=
  ∀ (t n : Nat), g.pcs[t]? = some n → ∀ ch ∈ joinedAt a n, g.sig ch = true

theorem jinv_move {a : JAnn} {g : G} (hinv : JInv a g) {t0 n0 nx : Nat} (_hn0 : g.pcs[t0]? = some n0)
    (g' : G) (hp : g'.pcs = g.pcs.set t0 nx) (hs : ∀ ch, g.sig ch = true → g'.sig ch = true)
    (hnx : ∀ ch ∈ joinedAt a nx, g'.sig ch = true) : JInv a g' := by
  intro t n hn ch hch
  rw [hp] at hn
  rcases set_get_cases hn with ⟨_, rfl, _⟩ | ⟨_, hold⟩
  · exact hnx ch hch
  · exact hs ch (hinv t n hold ch hch)

theorem jinv_append {a : JAnn} {g : G} (hinv : JInv a g) {e : Nat} (he : joinedAt a e = [])
    (g' : G) (hp : g'.pcs = g.pcs ++ [e]) (hs : ∀ ch, g.sig ch = true → g'.sig ch = true) : JInv a g' := by
  intro t n hn ch hch
  rw [hp] at hn
  rcases append_get_cases hn with hold | ⟨_, rfl⟩
  · exact hs ch (hinv t n hold ch hch)
  · rw [he] at hch; cases hch

/-- whatever the annotation says a thread has joined is really closed. -/
theorem joined_sound (P : Prog) (a : JAnn) (h : checkJoin P a = true) (g : G) (hr : Reach P g)
    (t n : Nat) (hn : g.pcs[t]? = some n) : ∀ ch ∈ joinedAt a n, g.sig ch = true := by
  have hinv : JInv a g := by
    clear hn
    obtain ⟨hnodes, hent, hboot, hlen⟩ := join_parts h
    induction hr with
    | init =>
      intro t n hn ch hch
      have : n ∈ P.boot := List.mem_of_getElem? hn
      rw [hboot n this] at hch; cases hch
    | step g g' _ hstep ih =>
      cases hstep with
      | start e _ he => exact jinv_append ih (hent e he) _ rfl (fun _ h => h)
      | thread t0 n0 _ _ hn0 hts =>
        have hlt := step_lt hts
        have hc := hnodes n0 hlt
        unfold checkJoinNode at hc
        generalize P.at n0 = i at hts hc
        cases hts
        case awaitOk c ok to hsig =>
          simp only [Bool.and_eq_true] at hc
          refine jinv_move ih hn0 _ rfl (fun _ h => h) ?_
          intro x hx
          have := sub_mem hc.1 hx
          rcases List.mem_cons.mp this with rfl | h1
          · exact hsig
          · exact ih t0 n0 hn0 x h1
        case awaitTimeout c ok to =>
          simp only [Bool.and_eq_true] at hc
          exact jinv_move ih hn0 _ rfl (fun _ h => h) (fun x hx => ih t0 n0 hn0 x (sub_mem hc.2 hx))
        case spawn e nx =>
          simp only [Bool.and_eq_true, List.isEmpty_iff] at hc
          have h1 : JInv a (g.move t0 nx) :=
            jinv_move ih hn0 _ rfl (fun _ h => h) (fun x hx => ih t0 n0 hn0 x (sub_mem hc.2 hx))
          exact jinv_append h1 hc.1 _ rfl (fun _ h => h)
        case signal c nx =>
          simp only [Instr.succs, List.all_eq_true, List.mem_singleton, forall_eq] at hc
          refine jinv_move ih hn0 _ rfl ?_ ?_
          · intro x hx; show upd g.sig c true x = true; unfold upd; split <;> simp [hx]
          · intro x hx; show upd g.sig c true x = true; unfold upd; split
            · rfl
            · exact ih t0 n0 hn0 x (sub_mem hc hx)
        all_goals
          simp only [Instr.succs, List.all_eq_true] at hc
          refine jinv_move ih hn0 _ rfl (fun _ h => h) (fun x hx => ih t0 n0 hn0 x (sub_mem (hc _ ?_) hx))
          first | assumption | simp
  exact hinv t n hn

/-- channel `ch` is closed only as the last action of a goroutine (`signal ch` is followed by `done`). -/
def signalLast (P : Prog) (ch : Nat) : Bool :=
  (List.range P.code.length).all (fun n =>
    match P.at n with
    | .signal c nx => c != ch || (match P.at nx with | .done _ => true | _ => false)
    | _ => true)

theorem lt_of_get {α} {l : List α} {t : Nat} {n : α} (h : l[t]? = some n) : t < l.length := by
  by_cases hlt : t < l.length
  · exact hlt
  · rw [List.getElem?_eq_none (by omega)] at h; cases h

theorem signal_node {P : Prog} {ch : Nat} (h : signalLast P ch = true) {n : Nat} (hn : n < P.code.length) :
    (match P.at n with
    | .signal c nx => c != ch || (match P.at nx with | .done _ => true | _ => false)
    | _ => true) = true := by
  simp only [signalLast, List.all_eq_true, List.mem_range] at h
  exact h n hn

/-- if `ch` is closed then some thread has executed its `signal ch` and — when `signalLast` holds —
is at a `done` node or about to be (its next instruction is `done`): the goroutine has exited. -/
theorem signalled_exited (P : Prog) (ch : Nat) (h : signalLast P ch = true) (g : G) (hr : Reach P g)
    (hs : g.sig ch = true) :
    ∃ (t n : Nat), g.pcs[t]? = some n ∧ (∃ ok, P.at n = .done ok) := by
  induction hr with
  | init => simp [G.boot, G.init] at hs
  | step g g' _ hstep ih =>
    cases hstep with
    | start e _ he =>
      obtain ⟨t, n, hn, hd⟩ := ih hs
      exact ⟨t, n, by
        show (g.pcs ++ [e])[t]? = some n
        rw [List.getElem?_append_left (lt_of_get hn)]; exact hn, hd⟩
    | thread t0 n0 _ _ hn0 hts =>
      have hlt := step_lt hts
      -- a thread sitting at a `done` node is not the one that moves
      have keep : ∀ (g1 : G), g.sig ch = true → (∃ nx, g1.pcs = g.pcs.set t0 nx ∨ ∃ e, g1.pcs = g.pcs.set t0 nx ++ [e]) →
          ∃ (t n : Nat), g1.pcs[t]? = some n ∧ (∃ ok, P.at n = .done ok) := by
        intro g1 hsg hp
        obtain ⟨t, n, hn, ok, hd⟩ := ih hsg
        have hne : t ≠ t0 := by
          intro heq; subst heq
          rw [hn0] at hn; cases hn
          rw [hd] at hts; cases hts
        obtain ⟨nx, hp | ⟨e, hp⟩⟩ := hp
        · refine ⟨t, n, ?_, ok, hd⟩
          rw [hp, List.getElem?_set, if_neg (fun h => hne h.symm)]; exact hn
        · refine ⟨t, n, ?_, ok, hd⟩
          rw [hp, List.getElem?_append_left (by rw [List.length_set]; exact lt_of_get hn),
            List.getElem?_set, if_neg (fun h => hne h.symm)]; exact hn
      have hsl := signal_node h hlt
      generalize P.at n0 = i at hts hsl
      cases hts
      case signal c nx =>
        by_cases hc : c = ch
        · subst hc
          simp only [bne_self_eq_false, Bool.false_or] at hsl
          refine ⟨t0, nx, ?_, ?_⟩
          · show (g.pcs.set t0 nx)[t0]? = some nx
            rw [List.getElem?_set, if_pos rfl, if_pos (lt_of_get hn0)]
          · revert hsl
            cases hnx : P.at nx <;> simp
        · refine keep _ ?_ ⟨nx, Or.inl rfl⟩
          have : upd g.sig c true ch = true := hs
          unfold upd at this
          rw [if_neg (fun h => hc h.symm)] at this
          exact this
      case spawn e nx => exact keep _ hs ⟨nx, Or.inr ⟨e, rfl⟩⟩
      all_goals exact keep _ hs ⟨_, Or.inl rfl⟩

/-! ### born-after -/

abbrev PAnn := List Bool

def passedAt (a : PAnn) (n : Node) : Bool := a.getD n false

/-- edges that are only enabled while flag `F` is false. -/
def checkPassNode (F : Nat) (exempt : List Node) (P : Prog) (a : PAnn) (n : Node) : Bool :=
  let p := passedAt a n
  match P.at n with
  | .lock _ ok err => (passedAt a ok → (p || F == fCLOSED)) && (passedAt a err → p)
  | .test f t e => (passedAt a t → p) && (passedAt a e → (p || f == F))
  | .cas f w l => (passedAt a w → (p || f == F)) && (passedAt a l → p)
  | .set f v nx => (f != F || v) && (passedAt a nx → p)     -- F is never reset
  | .spawn e nx => !passedAt a e && (passedAt a nx → p)
  | .done ok => !ok || p || exempt.contains n                -- a successful return (of a call in scope) needs a passed check
  | i => i.succs.all (fun s => passedAt a s → p)

def checkPass (F : Nat) (exempt : List Node) (P : Prog) (a : PAnn) : Bool :=
  (List.range P.code.length).all (checkPassNode F exempt P a) &&
  P.entries.all (fun e => !passedAt a e) && P.boot.all (fun e => !passedAt a e) &&
  a.length ≤ P.code.length

theorem pass_node {F : Nat} {exempt : List Node} {P : Prog} {a : PAnn} (h : checkPass F exempt P a = true) {n : Nat}
    (hn : n < P.code.length) : checkPassNode F exempt P a n = true := by
  simp only [checkPass, Bool.and_eq_true, List.all_eq_true, List.mem_range] at h
  exact h.1.1.1 n hn

theorem flag_mono_aux (F : Nat) (exempt : List Node) (P : Prog) (a : PAnn) (h : checkPass F exempt P a = true)
    (g g' : G) (hs : Step P g g') (hf : g.flag F = true) : g'.flag F = true := by
  cases hs with
  | start e _ he => exact hf
  | thread t n _ _ hn hstep =>
    have hlt := step_lt hstep
    have hc := pass_node h hlt
    unfold checkPassNode at hc
    generalize P.at n = i at hstep hc
    cases hstep <;> try exact hf
    · simp only [Bool.and_eq_true, Bool.or_eq_true, bne_iff_ne, ne_eq] at hc
      show upd g.flag _ _ F = true
      unfold upd
      split
      · rename_i heq
        rcases hc.1 with h1 | h1
        · exact absurd heq.symm h1
        · exact h1
      · exact hf
    · show upd g.flag _ true F = true
      unfold upd
      split <;> simp [hf]


theorem pass_parts {F : Nat} {exempt : List Node} {P : Prog} {a : PAnn} (h : checkPass F exempt P a = true) :
    (∀ e ∈ P.entries, passedAt a e = false) ∧ (∀ e ∈ P.boot, passedAt a e = false) ∧
    a.length ≤ P.code.length := by
  simp only [checkPass, Bool.and_eq_true, List.all_eq_true, Bool.not_eq_true',
    decide_eq_true_eq] at h
  exact ⟨h.1.1.2, h.1.2, h.2⟩

/-- invariant for the born-after argument. -/
def BInv (F : Nat) (a : PAnn) (g : G) : Prop :=
  g.born.length = g.pcs.length ∧
  (∀ (t : Nat) (fl : Nat → Bool) (n : Nat),
    g.born[t]? = some fl → fl F = true → g.pcs[t]? = some n → g.flag F = true ∧ passedAt a n = false)

theorem binv_move {F : Nat} {a : PAnn} {g : G} (hinv : BInv F a g) {t0 n0 nx : Nat}
    (hn0 : g.pcs[t0]? = some n0) (g' : G) (hp : g'.pcs = g.pcs.set t0 nx) (hb : g'.born = g.born)
    (hfl : g.flag F = true → g'.flag F = true)
    (hnx : g.flag F = true → passedAt a n0 = false → passedAt a nx = false) : BInv F a g' := by
  refine ⟨by rw [hp, hb, List.length_set]; exact hinv.1, ?_⟩
  intro t fl n hbt hflF hpc
  rw [hb] at hbt
  rw [hp] at hpc
  rcases set_get_cases hpc with ⟨rfl, rfl, _⟩ | ⟨_, hold⟩
  · obtain ⟨h1, h2⟩ := hinv.2 t fl n0 hbt hflF hn0
    exact ⟨hfl h1, hnx h1 h2⟩
  · obtain ⟨h1, h2⟩ := hinv.2 t fl n hbt hflF hold
    exact ⟨hfl h1, h2⟩

/-- a new thread at a not-yet-passed node `e`, born with the current valuation. -/
theorem binv_append {F : Nat} {a : PAnn} {g : G} (hinv : BInv F a g) {e : Nat} (he : passedAt a e = false)
    (g' : G) (hp : g'.pcs = g.pcs ++ [e]) (hb : g'.born = g.born ++ [g.flag]) (hfl : g'.flag = g.flag) :
    BInv F a g' := by
  refine ⟨by rw [hp, hb]; simp only [List.length_append, List.length_singleton]; rw [hinv.1], ?_⟩
  intro t fl n hbt hflF hpc
  rw [hb] at hbt
  rw [hp] at hpc
  rw [hfl]
  have hlen := hinv.1
  rcases append_get_cases hpc with hold | ⟨rfl, rfl⟩
  · have hlt := lt_of_get hold
    have hbt' : g.born[t]? = some fl := by
      rw [List.getElem?_append_left (by omega)] at hbt; exact hbt
    exact hinv.2 t fl n hbt' hflF hold
  · rcases append_get_cases hbt with hold | ⟨_, rfl⟩
    · have := lt_of_get hold; omega
    · exact ⟨hflF, he⟩

theorem binv_reach (F : Nat) (exempt : List Node) (P : Prog) (a : PAnn) (h : checkPass F exempt P a = true)
    (g : G) (hr : Reach P g) : BInv F a g := by
  obtain ⟨hent, hboot, _⟩ := pass_parts h
  induction hr with
  | init =>
    refine ⟨by simp [G.boot], ?_⟩
    intro t fl n hbt hflF _
    simp only [G.boot, List.getElem?_map] at hbt
    cases hq : P.boot[t]? with
    | none => rw [hq] at hbt; cases hbt
    | some x =>
      rw [hq] at hbt
      simp only [Option.map_some, Option.some.injEq] at hbt
      subst hbt; cases hflF
  | step g g' _ hstep ih =>
    cases hstep with
    | start e _ he => exact binv_append ih (hent e he) _ rfl rfl rfl
    | thread t0 n0 _ _ hn0 hts =>
      have hmono := flag_mono_aux F exempt P a h g g' (Step.thread t0 n0 g g' hn0 hts)
      have hlt := step_lt hts
      have hc := pass_node h hlt
      unfold checkPassNode at hc
      generalize P.at n0 = i at hts hc
      cases hts
      case spawn e nx =>
        simp only [Bool.and_eq_true, Bool.not_eq_true', decide_eq_true_eq] at hc
        have h1 : BInv F a (g.move t0 nx) := by
          refine binv_move ih hn0 _ rfl rfl (fun hf => hf) ?_
          intro _ hp
          rw [Bool.eq_false_iff]
          intro hq
          rw [hc.2 hq] at hp; cases hp
        exact binv_append h1 hc.1 _ rfl rfl rfl
      all_goals
        refine binv_move ih hn0 _ rfl rfl hmono ?_
        intro hF hp
        rw [Bool.eq_false_iff]
        intro hq
        simp_all [Instr.succs]

/-- **closed (closing) is final**: a thread created when flag `F` was already true — a call that
starts after the connection was closed, or a Close/CloseNow after an earlier one has begun — never
reaches a successful return, in any interleaving. -/
theorem born_after_never_succeeds (F : Nat) (exempt : List Node) (P : Prog) (a : PAnn) (h : checkPass F exempt P a = true)
    (g : G) (hr : Reach P g) (t n : Nat) (hn : g.pcs[t]? = some n)
    (hb : ∃ fl, g.born[t]? = some fl ∧ fl F = true) (hex : exempt.contains n = false) :
    P.at n ≠ .done true := by
  obtain ⟨fl, hbt, hflF⟩ := hb
  obtain ⟨_, hp⟩ := (binv_reach F exempt P a h g hr).2 t fl n hbt hflF hn
  intro hd
  by_cases hlt : n < P.code.length
  · have hc := pass_node h hlt
    unfold checkPassNode at hc
    rw [hd] at hc
    simp [hp] at hc
    simp at hex
    exact hex hc
  · rw [at_ge P n (by omega)] at hd; cases hd

/-- flag `F`, once true, stays true. -/
theorem flag_monotone (F : Nat) (exempt : List Node) (P : Prog) (a : PAnn) (h : checkPass F exempt P a = true)
    (g g' : G) (hs : Step P g g') (hf : g.flag F = true) : g'.flag F = true :=
  flag_mono_aux F exempt P a h g g' hs hf

end WS.CIR.Join
