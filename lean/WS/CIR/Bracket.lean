import WS.CIR.Lockset
/-
  Analysis 2 — bracket discipline under a lock (generic).  Transport pieces are classified as
  opening a bracket, continuing it, closing it, or irrelevant.  With `L` = writeFrameMu and
  (frame header, payload piece, frame end) this is "each frame is written atomically"; with
  `L` = msgWriter.mu and (first non-final data frame, continuation, final continuation) it is
  "frames of two data messages are never interleaved".
-/
namespace WS.CIR.Bracket
open WS.CIR WS.CIR.Lockset

inductive Cls
  | opens     -- begins a bracket
  | mid       -- inside a bracket
  | closes    -- ends the bracket
  | single    -- a whole bracket at once (e.g. an unfragmented message)
  | other     -- irrelevant for this discipline
  deriving Repr, DecidableEq

structure Spec where
  L : Nat                -- the lock that protects the bracket
  cls : Nat → Cls        -- classification of piece kinds

abbrev Ann := List Bool  -- per node: the thread is inside a bracket it opened

def isOpen (a : Ann) (n : Node) : Bool := a.getD n false

def checkNode (S : Spec) (P : Prog) (c : Cert) (a : Ann) (n : Node) : Bool :=
  let o := isOpen a n
  -- inside a bracket the lock is held
  (!o || (held c n).contains S.L) &&
  (match P.at n with
   | .wr k ok _ =>
     (match S.cls k with
      | .opens => !o && (held c n).contains S.L && isOpen a ok
      | .mid => o && isOpen a ok
      | .closes => o && !isOpen a ok
      | .single => !o && (held c n).contains S.L && !isOpen a ok
      | .other => isOpen a ok == o)
     -- the error edge is unconstrained: the transport is broken, nothing is written any more
   | .unlock m nx => (m != S.L || !o) && (isOpen a nx == o)
   | .spawn e nx => !isOpen a e && (isOpen a nx == o)
   | .done _ => !o
   | i => i.succs.all (fun s => isOpen a s == o))

def check (S : Spec) (P : Prog) (c : Cert) (a : Ann) : Bool :=
  Lockset.check P c &&
  (List.range P.code.length).all (checkNode S P c a) &&
  P.entries.all (fun e => !isOpen a e) && P.boot.all (fun e => !isOpen a e) &&
  a.length ≤ P.code.length

/-- scan the wire: `none` = ill-formed; `some none` = all brackets closed; `some (some t)` = the last
bracket, opened by thread `t`, is still open. -/
def scan (S : Spec) : List (Nat × Nat) → Option (Option Nat) → Option (Option Nat)
  | [], st => st
  | (t, k) :: rest, st =>
    match st with
    | none => none
    | some cur =>
      match S.cls k with
      | .opens => if cur = none then scan S rest (some (some t)) else none
      | .mid => if cur = some t then scan S rest (some (some t)) else none
      | .closes => if cur = some t then scan S rest (some none) else none
      | .single => if cur = none then scan S rest (some none) else none
      | .other => scan S rest (some cur)

/-- the wire is well bracketed: brackets of different threads never interleave (a trailing open
bracket is allowed: its writer is still at work, or the transport broke). -/
def WellBracketed (S : Spec) (wire : List (Nat × Nat)) : Prop := ∃ st, scan S wire (some none) = some st

/-- **soundness for every program**: if the certificate and annotation check, then in every
reachable state — any number of threads, any interleaving — the wire is well bracketed, and while
the transport works the open bracket belongs to exactly the thread the annotation says is inside one. -/
theorem sound (S : Spec) (P : Prog) (c : Cert) (a : Ann) (h : check S P c a = true) :
    ∀ g, Reach P g →
      ∃ st, scan S g.wire (some none) = some st ∧
        (g.broken = false → ∀ t, st = some t ↔ ∃ n, g.pcs[t]? = some n ∧ isOpen a n = true) := by
  sorry

theorem wellBracketed (S : Spec) (P : Prog) (c : Cert) (a : Ann) (h : check S P c a = true)
    (g : G) (hr : Reach P g) : WellBracketed S g.wire := by
  sorry

end WS.CIR.Bracket
