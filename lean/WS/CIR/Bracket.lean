import WS.CIR.Lockset
/-
  Analysis 2 — bracket discipline under a lock (generic).  Transport pieces are classified as
  opening a bracket, continuing it, closing it, or irrelevant.  With `L` = writeFrameMu and
  (frame header, payload piece, frame end) this is "each frame is written atomically"; with
  `L` = msgWriter.mu and (first non-final data frame, continuation, final continuation) it is
  "frames of two data messages are never interleaved".
-/
namespace WS.CIR.Bracket
open WS.CIR WS.CIR.Lockset

inductive Cls
  | opens     -- begins a bracket
  | mid       -- inside a bracket
  | closes    -- ends the bracket
  | single    -- a whole bracket at once (e.g. an unfragmented message)
  | other     -- irrelevant for this discipline
  deriving Repr, DecidableEq

structure Spec where
  L : Nat                -- the lock that protects the bracket
  cls : Nat → Cls        -- classification of piece kinds

abbrev Ann := List Bool  -- per node: the thread is inside a bracket it opened

def isOpen (a : Ann) (n : Node) : Bool := a.getD n false

def checkNode (S : Spec) (P : Prog) (c : Cert) (a : Ann) (n : Node) : Bool :=
  let o := isOpen a n
  -- inside a bracket the lock is held
  (!o || (held c n).contains S.L) &&
  (match P.at n with
   | .wr k ok _ =>
     (match S.cls k with
      | .opens => !o && (held c n).contains S.L && isOpen a ok
      | .mid => o && isOpen a ok
      | .closes => o && !isOpen a ok
      | .single => !o && (held c n).contains S.L && !isOpen a ok
      | .other => isOpen a ok == o)
     -- the error edge is unconstrained: the transport is broken, nothing is written any more
   | .unlock m nx => (m != S.L || !o) && (isOpen a nx == o)
   | .spawn e nx => !isOpen a e && (isOpen a nx == o)
   | .done _ => true     -- a thread may stop inside a bracket (an abandoned message): the lock stays held
   | i => i.succs.all (fun s => isOpen a s == o))

def check (S : Spec) (P : Prog) (c : Cert) (a : Ann) : Bool :=
  Lockset.check P c &&
  (List.range P.code.length).all (checkNode S P c a) &&
  P.entries.all (fun e => !isOpen a e) && P.boot.all (fun e => !isOpen a e) &&
  a.length ≤ P.code.length

/-- scan the wire: `none` = ill-formed; `some none` = all brackets closed; `some (some t)` = the last
bracket, opened by thread `t`, is still open. -/
def scan (S : Spec) : List (Nat × Nat) → Option (Option Nat) → Option (Option Nat)
  | [], st => st
  | (t, k) :: rest, st =>
    match st with
    | none => none
    | some cur =>
      match S.cls k with
      | .opens => if cur = none then scan S rest (some (some t)) else none
      | .mid => if cur = some t then scan S rest (some (some t)) else none
      | .closes => if cur = some t then scan S rest (some none) else none
      | .single => if cur = none then scan S rest (some none) else none
      | .other => scan S rest (some cur)

/-- the wire is well bracketed: brackets of different threads never interleave (a trailing open
bracket is allowed: its writer is still at work, or the transport broke). -/
def WellBracketed (S : Spec) (wire : List (Nat × Nat)) : Prop := ∃ st, scan S wire (some none) = some st

/-! ### helper lemmas -/

theorem scan_none (S : Spec) (w : List (Nat × Nat)) : scan S w none = none := by
  cases w with
  | nil => rfl
  | cons p r => obtain ⟨t, k⟩ := p; rfl

theorem scan_append (S : Spec) (w1 w2 : List (Nat × Nat)) :
    ∀ st, scan S (w1 ++ w2) st = scan S w2 (scan S w1 st) := by
  induction w1 with
  | nil => intro st; rfl
  | cons p r ih =>
    intro st
    obtain ⟨t, k⟩ := p
    cases st with
    | none => simp [scan, scan_none]
    | some cur =>
      simp only [List.cons_append, scan]
      cases S.cls k <;> simp only [] <;> (try split) <;> simp [ih, scan_none]

/-- the invariant (exactly the statement of `sound`). -/
def Inv (S : Spec) (a : Ann) (g : G) : Prop :=
  ∃ st, scan S g.wire (some none) = some st ∧
    (g.broken = false → ∀ t, st = some t ↔ ∃ n, g.pcs[t]? = some n ∧ isOpen a n = true)

theorem open_set (a : Ann) (pcs : List Node) (t n ok : Nat) (hpc : pcs[t]? = some n) (t' : Nat) :
    (∃ n', (pcs.set t ok)[t']? = some n' ∧ isOpen a n' = true) ↔
      (if t' = t then isOpen a ok = true else ∃ n', pcs[t']? = some n' ∧ isOpen a n' = true) := by
  have hlt : t < pcs.length := (List.getElem?_eq_some_iff.1 hpc).1
  by_cases h : t' = t
  · subst h; simp [hlt]
  · have h' : ¬ t = t' := fun e => h e.symm
    simp [h, h']

theorem open_push (a : Ann) (pcs : List Node) (e : Nat) (he : isOpen a e = false) (t' : Nat) :
    (∃ n', (pcs ++ [e])[t']? = some n' ∧ isOpen a n' = true) ↔
      (∃ n', pcs[t']? = some n' ∧ isOpen a n' = true) := by
  by_cases h : t' < pcs.length
  · simp [List.getElem?_append_left h]
  · have h1 : pcs.length ≤ t' := Nat.le_of_not_lt h
    have h2 : pcs[t']? = none := List.getElem?_eq_none h1
    rw [List.getElem?_append_right h1, h2]
    constructor
    · rintro ⟨n', hn, ho⟩
      by_cases h3 : t' - pcs.length = 0
      · rw [h3] at hn; simp at hn; subst hn; rw [he] at ho; cases ho
      · have : ([e] : List Nat)[t' - pcs.length]? = none := by
          apply List.getElem?_eq_none; simp; omega
        rw [this] at hn; cases hn
    · rintro ⟨n', hn, _⟩; cases hn

theorem Inv.move_same {S : Spec} {a : Ann} {g g' : G} {t n n' : Nat} (hinv : Inv S a g)
    (hpc : g.pcs[t]? = some n) (ho : isOpen a n' = isOpen a n) (hw : g'.wire = g.wire)
    (hb : g'.broken = false → g.broken = false) (hp : g'.pcs = g.pcs.set t n') : Inv S a g' := by
  obtain ⟨st, hs, hiff⟩ := hinv
  refine ⟨st, by rw [hw]; exact hs, ?_⟩
  intro hb' t'
  rw [hiff (hb hb') t', hp, open_set a g.pcs t n n' hpc t']
  by_cases h : t' = t
  · subst h; simp [hpc, ho]
  · simp [h]

theorem Inv.push {S : Spec} {a : Ann} {g g' : G} {e : Nat} (hinv : Inv S a g)
    (he : isOpen a e = false) (hw : g'.wire = g.wire)
    (hb : g'.broken = false → g.broken = false) (hp : g'.pcs = g.pcs ++ [e]) : Inv S a g' := by
  obtain ⟨st, hs, hiff⟩ := hinv
  refine ⟨st, by rw [hw]; exact hs, ?_⟩
  intro hb' t'
  rw [hiff (hb hb') t', hp, open_push a g.pcs e he t']

theorem Inv.broken {S : Spec} {a : Ann} {g g' : G} (hinv : Inv S a g)
    (hw : g'.wire = g.wire) (hb : g'.broken = true) : Inv S a g' := by
  obtain ⟨st, hs, _⟩ := hinv
  refine ⟨st, by rw [hw]; exact hs, ?_⟩
  intro hb'; rw [hb] at hb'; cases hb'

theorem Inv.wrOk {S : Spec} {a : Ann} {g : G} {t n k ok : Nat} {hasL : Bool} (hinv : Inv S a g)
    (hbr : g.broken = false) (hpc : g.pcs[t]? = some n)
    (hex : hasL = true → ∀ t' n', g.pcs[t']? = some n' → isOpen a n' = true → t' = t)
    (hc : (match S.cls k with
      | .opens => !isOpen a n && hasL && isOpen a ok
      | .mid => isOpen a n && isOpen a ok
      | .closes => isOpen a n && !isOpen a ok
      | .single => !isOpen a n && hasL && !isOpen a ok
      | .other => isOpen a ok == isOpen a n) = true) :
    Inv S a { (g.move t ok) with wire := g.wire ++ [(t, k)] } := by
  obtain ⟨st, hs, hiff⟩ := hinv
  have hiff := hiff hbr
  -- facts about the state before the step
  have hopen : isOpen a n = true → st = some t := fun ho => (hiff t).2 ⟨n, hpc, ho⟩
  have hclosed : isOpen a n = false → hasL = true → st = none := by
    intro ho hl
    cases st with
    | none => rfl
    | some t' =>
      obtain ⟨n', hn', ho'⟩ := (hiff t').1 rfl
      have := hex hl t' n' hn' ho'
      subst this
      rw [hpc] at hn'; cases hn'
      rw [ho] at ho'; cases ho'
  show ∃ st', scan S (g.wire ++ [(t, k)]) (some none) = some st' ∧
    (g.broken = false → ∀ t', st' = some t' ↔
      ∃ n', (g.pcs.set t ok)[t']? = some n' ∧ isOpen a n' = true)
  rw [scan_append, hs]
  simp only [scan]
  cases hk : S.cls k <;> simp only [hk] at hc ⊢
  · -- opens
    simp only [Bool.and_eq_true, Bool.not_eq_true'] at hc
    obtain ⟨⟨h1, h2⟩, h3⟩ := hc
    have hst := hclosed h1 h2
    subst hst
    refine ⟨some t, by simp, fun _ t' => ?_⟩
    rw [open_set a g.pcs t n ok hpc t']
    by_cases h : t' = t
    · subst h; simp [h3]
    · simp only [h, if_false]
      rw [← hiff t']
      constructor
      · intro e; cases e; exact absurd rfl h
      · intro e; cases e
  · -- mid
    simp only [Bool.and_eq_true] at hc
    obtain ⟨h1, h3⟩ := hc
    have hst := hopen h1
    subst hst
    refine ⟨some t, by simp, fun _ t' => ?_⟩
    rw [open_set a g.pcs t n ok hpc t']
    by_cases h : t' = t
    · subst h; simp [h3]
    · simp only [h, if_false]
      exact hiff t'
  · -- closes
    simp only [Bool.and_eq_true, Bool.not_eq_true'] at hc
    obtain ⟨h1, h3⟩ := hc
    have hst := hopen h1
    subst hst
    refine ⟨none, by simp, fun _ t' => ?_⟩
    rw [open_set a g.pcs t n ok hpc t']
    by_cases h : t' = t
    · subst h; simp [h3]
    · simp only [h, if_false]
      rw [← hiff t']
      constructor
      · intro e; cases e
      · intro e; cases e; exact absurd rfl h
  · -- single
    simp only [Bool.and_eq_true, Bool.not_eq_true'] at hc
    obtain ⟨⟨h1, h2⟩, h3⟩ := hc
    have hst := hclosed h1 h2
    subst hst
    refine ⟨none, by simp, fun _ t' => ?_⟩
    rw [open_set a g.pcs t n ok hpc t']
    by_cases h : t' = t
    · subst h; simp [h3]
    · simp only [h, if_false]
      exact hiff t'
  · -- other
    have h3 : isOpen a ok = isOpen a n := by simpa using hc
    refine ⟨st, rfl, fun _ t' => ?_⟩
    rw [hiff t', open_set a g.pcs t n ok hpc t']
    by_cases h : t' = t
    · subst h; simp [hpc, h3]
    · simp [h]

theorem open_lt {P : Prog} {a : Ann} (hA : a.length ≤ P.code.length) {n : Nat}
    (ho : isOpen a n = true) : n < P.code.length := by
  apply Nat.lt_of_not_le
  intro hge
  have : isOpen a n = false := by
    unfold isOpen
    rw [List.getD_eq_getElem?_getD, List.getElem?_eq_none (Nat.le_trans hA hge)]
    rfl
  rw [this] at ho; cases ho

theorem tstep_lt {P : Prog} {t n : Nat} {g g' : G} (hs : TStep t (P.at n) g g') :
    n < P.code.length := by
  apply Nat.lt_of_not_le
  intro hge
  have : P.at n = .done false := by
    unfold Prog.at
    rw [List.getD_eq_getElem?_getD, List.getElem?_eq_none hge]
    rfl
  rw [this] at hs
  cases hs

/-- **soundness for every program**: if the certificate and annotation check, then in every
reachable state — any number of threads, any interleaving — the wire is well bracketed, and while
the transport works the open bracket belongs to exactly the thread the annotation says is inside one. -/
theorem sound (S : Spec) (P : Prog) (c : Cert) (a : Ann) (h : check S P c a = true) :
    ∀ g, Reach P g →
      ∃ st, scan S g.wire (some none) = some st ∧
        (g.broken = false → ∀ t, st = some t ↔ ∃ n, g.pcs[t]? = some n ∧ isOpen a n = true) := by
  unfold check at h
  simp only [Bool.and_eq_true, List.all_eq_true, List.mem_range, decide_eq_true_eq,
    Bool.not_eq_true'] at h
  obtain ⟨⟨⟨⟨hL, hN⟩, hE⟩, hB⟩, hA⟩ := h
  intro g hr
  show Inv S a g
  induction hr with
  | init =>
    refine ⟨none, rfl, fun _ t => ?_⟩
    constructor
    · intro e; cases e
    · rintro ⟨n, hn, ho⟩
      have hn : P.boot[t]? = some n := hn
      have := hB n (List.mem_of_getElem? hn)
      rw [this] at ho; cases ho
  | step g g' hr hs ih =>
    cases hs with
    | start e _ he => exact ih.push (hE e he) rfl (fun x => x) rfl
    | thread t n _ _ hpc hts =>
      have hlt := tstep_lt hts
      have hcn := hN n hlt
      unfold checkNode at hcn
      simp only [Bool.and_eq_true] at hcn
      obtain ⟨hfirst, hcn⟩ := hcn
      -- exclusivity of open threads w.r.t. holders of S.L
      have hex : (held c n).contains S.L = true →
          ∀ t' n', g.pcs[t']? = some n' → isOpen a n' = true → t' = t := by
        intro hl t' n' hn' ho'
        have hlt' := open_lt hA ho'
        have hc' := hN n' hlt'
        unfold checkNode at hc'
        simp only [Bool.and_eq_true] at hc'
        have h1 := hc'.1
        rw [ho'] at h1
        have h1 : (held c n').contains S.L = true := by simpa using h1
        exact Lockset.exclusive P c hL g hr t' t n' n S.L hn' hpc
          (by simpa using h1) (by simpa using hl)
      generalize P.at n = instr at hcn hts
      cases hts with
      | wrOk k ok err _ hbr => exact ih.wrOk hbr hpc hex hcn
      | wrErr k ok err _ => exact ih.broken rfl rfl
      | spawn e nx _ =>
        simp only [Bool.and_eq_true, Bool.not_eq_true', beq_iff_eq] at hcn
        have h1 : Inv S a (g.move t nx) := ih.move_same hpc hcn.2 rfl (fun x => x) rfl
        exact h1.push hcn.1 rfl (fun x => x) rfl
      | _ =>
        simp [Instr.succs] at hcn
        first
          | exact ih.move_same hpc hcn rfl (fun x => x) rfl
          | exact ih.move_same hpc hcn.1 rfl (fun x => x) rfl
          | exact ih.move_same hpc hcn.2 rfl (fun x => x) rfl
          | exact ih.move_same hpc (hcn _ (by assumption)) rfl (fun x => x) rfl

theorem wellBracketed (S : Spec) (P : Prog) (c : Cert) (a : Ann) (h : check S P c a = true)
    (g : G) (hr : Reach P g) : WellBracketed S g.wire := by
  obtain ⟨st, hs, _⟩ := sound S P c a h g hr
  exact ⟨st, hs⟩

end WS.CIR.Bracket
