import WS.CIR.Lockset
/-
  Analysis 3 — nothing follows a Close frame (C16).  A flag `CS` ("a close frame was sent"),
  only touched under lock `W`, is tested before every data or close frame and set before the
  close frame is written.
-/
namespace WS.CIR.CloseSent
open WS.CIR WS.CIR.Lockset

/-- what the thread knows about CS inside the current critical section. -/
inductive Know
  | unknown
  | isFalse      -- tested false since W was acquired
  | setByMe      -- tested false, then set by this thread; the close frame is not written yet
  deriving Repr, DecidableEq, Inhabited

inductive Piece
  | dataBegin    -- first piece of a data frame
  | closeBegin   -- first piece of a close frame
  | other
  deriving Repr, DecidableEq

structure Spec where
  W : Nat
  CS : Nat
  piece : Nat → Piece

abbrev Ann := List Know

def know (a : Ann) (n : Node) : Know := a.getD n .unknown

/-- `b` may be assumed at a successor when `a` is known here (knowledge can only be forgotten). -/
def weaker (b a : Know) : Bool := b == .unknown || b == a

def checkNode (S : Spec) (P : Prog) (c : Cert) (a : Ann) (n : Node) : Bool :=
  let k := know a n
  -- knowledge is only kept while W is held
  (k == .unknown || (held c n).contains S.W) &&
  (match P.at n with
   | .test f t e =>
     if f == S.CS then weaker (know a t) k && (know a e == .unknown || (know a e == .isFalse && (held c n).contains S.W) || know a e == k)
     else weaker (know a t) k && weaker (know a e) k
   | .set f v nx =>
     if f == S.CS then
       -- CS is only ever set to true, under W, after having been tested false
       v && (held c n).contains S.W && k == .isFalse && (know a nx == .setByMe || know a nx == .unknown)
     else weaker (know a nx) k
   | .cas f w l => f != S.CS && weaker (know a w) k && weaker (know a l) k
   | .wr p ok err =>
     (match S.piece p with
      | .dataBegin => k == .isFalse && weaker (know a ok) k
      | .closeBegin => k == .setByMe && know a ok == .unknown
      | .other => weaker (know a ok) k) && weaker (know a err) k
   | .unlock m nx => if m == S.W then know a nx == .unknown else weaker (know a nx) k
   | .spawn e nx => know a e == .unknown && weaker (know a nx) k
   | i => i.succs.all (fun s => weaker (know a s) k))

def check (S : Spec) (P : Prog) (c : Cert) (a : Ann) : Bool :=
  Lockset.check P c &&
  (List.range P.code.length).all (checkNode S P c a) &&
  P.entries.all (fun e => know a e == .unknown) && P.boot.all (fun e => know a e == .unknown) &&
  a.length ≤ P.code.length

/-- nothing follows a close frame: no data frame and no second close frame begins after one. -/
def NothingAfterClose (S : Spec) : List (Nat × Nat) → Bool
  | [] => true
  | (_, p) :: rest =>
    if S.piece p == .closeBegin then rest.all (fun e => S.piece e.2 == .other)
    else NothingAfterClose S rest

/-- **soundness for every program**: in every reachable state, whichever goroutines are still
writing, the wire has no data frame and no second close frame after a close frame. -/
theorem sound (S : Spec) (P : Prog) (c : Cert) (a : Ann) (h : check S P c a = true) :
    ∀ g, Reach P g → NothingAfterClose S g.wire = true := by
  sorry

end WS.CIR.CloseSent
