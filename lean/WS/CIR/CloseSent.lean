import WS.CIR.Lockset
/-
  Analysis 3 — nothing follows a Close frame (C16).  A flag `CS` ("a close frame was sent"),
  only touched under lock `W`, is tested before every data or close frame and set before the
  close frame is written.
-/
namespace WS.CIR.CloseSent
open WS.CIR WS.CIR.Lockset

/-- what the thread knows about CS inside the current critical section. -/
inductive Know
  | unknown
  | isFalse      -- tested false since W was acquired
  | setByMe      -- tested false, then set by this thread; the close frame is not written yet
  deriving Repr, DecidableEq, Inhabited

inductive Piece
  | dataBegin    -- first piece of a data frame
  | closeBegin   -- first piece of a close frame
  | other
  deriving Repr, DecidableEq

structure Spec where
  W : Nat
  CS : Nat
  piece : Nat → Piece

abbrev Ann := List Know

def know (a : Ann) (n : Node) : Know := a.getD n .unknown

/-- `b` may be assumed at a successor when `a` is known here (knowledge can only be forgotten). -/
def weaker (b a : Know) : Bool := b == .unknown || b == a

def checkNode (S : Spec) (P : Prog) (c : Cert) (a : Ann) (n : Node) : Bool :=
  let k := know a n
  -- knowledge is only kept while W is held
  (k == .unknown || (held c n).contains S.W) &&
  (match P.at n with
   | .test f t e =>
     if f == S.CS then weaker (know a t) k && (know a e == .unknown || (know a e == .isFalse && (held c n).contains S.W) || know a e == k)
     else weaker (know a t) k && weaker (know a e) k
   | .set f v nx =>
     if f == S.CS then
       -- CS is only ever set to true, under W, after having been tested false
       v && (held c n).contains S.W && k == .isFalse && (know a nx == .setByMe || know a nx == .unknown)
     else weaker (know a nx) k
   | .cas f w l => f != S.CS && weaker (know a w) k && weaker (know a l) k
   | .wr p ok err =>
     (match S.piece p with
      | .dataBegin => k == .isFalse && weaker (know a ok) k
      | .closeBegin => k == .setByMe && know a ok == .unknown
      | .other => weaker (know a ok) k) && weaker (know a err) k
   | .unlock m nx => if m == S.W then know a nx == .unknown else weaker (know a nx) k
   | .spawn e nx => know a e == .unknown && weaker (know a nx) k
   | i => i.succs.all (fun s => weaker (know a s) k))

def check (S : Spec) (P : Prog) (c : Cert) (a : Ann) : Bool :=
  Lockset.check P c &&
  (List.range P.code.length).all (checkNode S P c a) &&
  P.entries.all (fun e => know a e == .unknown) && P.boot.all (fun e => know a e == .unknown) &&
  a.length ≤ P.code.length

/-- nothing follows a close frame: no data frame and no second close frame begins after one. -/
def NothingAfterClose (S : Spec) : List (Nat × Nat) → Bool
  | [] => true
  | (_, p) :: rest =>
    if S.piece p == .closeBegin then rest.all (fun e => S.piece e.2 == .other)
    else NothingAfterClose S rest


/-! ### helper lemmas for `sound` -/

def hasClose (S : Spec) (w : List (Nat × Nat)) : Bool := w.any (fun e => S.piece e.2 == .closeBegin)

theorem hasClose_append (S : Spec) (w : List (Nat × Nat)) (e : Nat × Nat) :
    hasClose S (w ++ [e]) = (hasClose S w || S.piece e.2 == .closeBegin) := by
  simp [hasClose, List.any_append]

theorem nac_append_noclose (S : Spec) (e : Nat × Nat) :
    ∀ w, hasClose S w = false → NothingAfterClose S (w ++ [e]) = true := by
  intro w
  induction w with
  | nil =>
    intro _
    obtain ⟨t, p⟩ := e
    simp [NothingAfterClose]
  | cons x rest ih =>
    intro h
    obtain ⟨t, p⟩ := x
    simp only [hasClose, List.any_cons, Bool.or_eq_false_iff] at h
    have h2 : hasClose S rest = false := h.2
    simp only [List.cons_append, NothingAfterClose, h.1]
    simpa using ih h2

theorem nac_append_other (S : Spec) (e : Nat × Nat) (he : S.piece e.2 = .other) :
    ∀ w, NothingAfterClose S w = true → NothingAfterClose S (w ++ [e]) = true := by
  intro w
  induction w with
  | nil =>
    intro _
    obtain ⟨t, p⟩ := e
    simp [NothingAfterClose]
  | cons x rest ih =>
    intro h
    obtain ⟨t, p⟩ := x
    simp only [List.cons_append, NothingAfterClose] at h ⊢
    split
    · rename_i hp
      simp only [hp, if_true] at h
      simp [List.all_append, he]
      simpa using h
    · rename_i hp
      simp only [hp] at h
      exact ih (by simpa using h)

theorem set_cases (l : List Nat) (t n' t2 n2 : Nat) (h : (l.set t n')[t2]? = some n2) :
    (t2 = t ∧ n2 = n') ∨ (t2 ≠ t ∧ l[t2]? = some n2) := by
  rw [List.getElem?_set] at h
  split at h
  · rename_i heq
    split at h
    · left; exact ⟨heq.symm, by simpa using h.symm⟩
    · cases h
  · rename_i hne
    right; exact ⟨fun h' => hne h'.symm, h⟩

theorem append_cases (l : List Nat) (e t2 n2 : Nat) (h : (l ++ [e])[t2]? = some n2) :
    l[t2]? = some n2 ∨ n2 = e := by
  by_cases hlt : t2 < l.length
  · rw [List.getElem?_append_left hlt] at h; exact Or.inl h
  · rw [List.getElem?_append_right (by omega)] at h
    right
    cases hk : t2 - l.length with
    | zero => rw [hk] at h; simpa using h.symm
    | succ k => rw [hk] at h; simp at h


/-- the inductive invariant, over the thread pcs, the value of `CS` and the wire. -/
def Inv (S : Spec) (a : Ann) (pcs : List Node) (b : Bool) (w : List (Nat × Nat)) : Prop :=
  (∀ (t n : Nat), pcs[t]? = some n → know a n = .isFalse → b = false) ∧
  (∀ (t n : Nat), pcs[t]? = some n → know a n = .setByMe → b = true ∧ hasClose S w = false) ∧
  (b = false → hasClose S w = false) ∧ NothingAfterClose S w = true

theorem inv_move {S : Spec} {a : Ann} {pcs : List Node} {b : Bool} {w : List (Nat × Nat)}
    (t n' : Nat) (hi : Inv S a pcs b w)
    (h1 : know a n' = .isFalse → b = false)
    (h2 : know a n' = .setByMe → b = true ∧ hasClose S w = false) :
    Inv S a (pcs.set t n') b w := by
  obtain ⟨i1, i2, i3, i4⟩ := hi
  refine ⟨?_, ?_, i3, i4⟩
  · intro t2 n2 hp hk
    rcases set_cases _ _ _ _ _ hp with ⟨_, rfl⟩ | ⟨_, hp'⟩
    · exact h1 hk
    · exact i1 t2 n2 hp' hk
  · intro t2 n2 hp hk
    rcases set_cases _ _ _ _ _ hp with ⟨_, rfl⟩ | ⟨_, hp'⟩
    · exact h2 hk
    · exact i2 t2 n2 hp' hk

theorem inv_append {S : Spec} {a : Ann} {pcs : List Node} {b : Bool} {w : List (Nat × Nat)}
    (e : Nat) (hi : Inv S a pcs b w) (he : know a e = .unknown) :
    Inv S a (pcs ++ [e]) b w := by
  obtain ⟨i1, i2, i3, i4⟩ := hi
  refine ⟨?_, ?_, i3, i4⟩
  · intro t2 n2 hp hk
    rcases append_cases _ _ _ _ hp with hp' | rfl
    · exact i1 t2 n2 hp' hk
    · rw [he] at hk; cases hk
  · intro t2 n2 hp hk
    rcases append_cases _ _ _ _ hp with hp' | rfl
    · exact i2 t2 n2 hp' hk
    · rw [he] at hk; cases hk

theorem inv_weaker {S : Spec} {a : Ann} {pcs : List Node} {b : Bool} {w : List (Nat × Nat)}
    {t n : Nat} (n' : Nat) (hi : Inv S a pcs b w) (hp : pcs[t]? = some n)
    (hw : weaker (know a n') (know a n) = true) :
    Inv S a (pcs.set t n') b w := by
  simp only [weaker, Bool.or_eq_true, beq_iff_eq] at hw
  apply inv_move t n' hi
  · intro hk
    rcases hw with hw | hw
    · rw [hw] at hk; cases hk
    · exact hi.1 t n hp (hw ▸ hk)
  · intro hk
    rcases hw with hw | hw
    · rw [hw] at hk; cases hk
    · exact hi.2.1 t n hp (hw ▸ hk)

theorem upd_ne {α : Type} (f : Nat → α) (k : Nat) (v : α) (x : Nat) (h : x ≠ k) : upd f k v x = f x := by
  simp [upd, h]

theorem upd_eq {α : Type} (f : Nat → α) (k : Nat) (v : α) : upd f k v k = v := by
  simp [upd]

theorem inv_reach (S : Spec) (P : Prog) (c : Cert) (a : Ann) (h : check S P c a = true) :
    ∀ g, Reach P g → Inv S a g.pcs (g.flag S.CS) g.wire := by
  simp only [check, Bool.and_eq_true, List.all_eq_true, decide_eq_true_eq, List.mem_range,
    beq_iff_eq] at h
  obtain ⟨⟨⟨⟨hL, hN⟩, hE⟩, hB⟩, hA⟩ := h
  have hout : ∀ n, P.code.length ≤ n → know a n = .unknown := by
    intro n hn
    simp only [know, List.getD_eq_getElem?_getD]
    rw [List.getElem?_eq_none (by omega)]; rfl
  have hW : ∀ n, know a n ≠ .unknown → S.W ∈ held c n := by
    intro n hk
    by_cases hn : n < P.code.length
    · have hc := hN n hn
      simp only [checkNode, Bool.and_eq_true, Bool.or_eq_true, beq_iff_eq] at hc
      rcases hc.1 with h1 | h1
      · exact absurd h1 hk
      · simpa using h1
    · exact absurd (hout n (Nat.le_of_not_lt hn)) hk
  intro g hr
  induction hr with
  | init =>
    refine ⟨?_, ?_, ?_, ?_⟩
    · intro _ _ _ _; rfl
    · intro t n hp hk
      have : n ∈ P.boot := List.mem_of_getElem? hp
      rw [hB n this] at hk; cases hk
    · intro _; rfl
    · rfl
  | step g g' hr hs ih =>
    have hEx := Lockset.exclusive P c hL g hr
    -- a thread at a node that claims W excludes knowledge in all other threads
    have hOther : ∀ (t n : Nat), g.pcs[t]? = some n → know a n ≠ .unknown →
        ∀ (t2 n2 : Nat), g.pcs[t2]? = some n2 → t2 ≠ t → know a n2 = .unknown := by
      intro t n hp hk t2 n2 hp2 hne
      apply Classical.byContradiction
      intro hk2
      exact hne (hEx t2 t n2 n S.W hp2 hp (hW n2 hk2) (hW n hk))
    cases hs with
    | start e _ he => exact inv_append e ih (hE e he)
    | thread t n _ _ hpc hst =>
      by_cases hn : n < P.code.length
      · have hc := hN n hn
        simp only [checkNode, Bool.and_eq_true] at hc
        obtain ⟨-, hc⟩ := hc
        generalize P.at n = i at hst hc
        cases hst with
        | lockOk m ok err _ h1 h2 =>
          simp only [Instr.succs, List.all_cons, List.all_nil, Bool.and_true, Bool.and_eq_true] at hc
          exact inv_weaker ok ih hpc hc.1
        | lockErr m ok err _ =>
          simp only [Instr.succs, List.all_cons, List.all_nil, Bool.and_true, Bool.and_eq_true] at hc
          exact inv_weaker err ih hpc hc.2
        | forceLock m nx _ h1 =>
          simp only [Instr.succs, List.all_cons, List.all_nil, Bool.and_true] at hc
          exact inv_weaker nx ih hpc hc
        | tryYes m y no _ h1 =>
          simp only [Instr.succs, List.all_cons, List.all_nil, Bool.and_true, Bool.and_eq_true] at hc
          exact inv_weaker y ih hpc hc.1
        | tryNo m y no _ h1 =>
          simp only [Instr.succs, List.all_cons, List.all_nil, Bool.and_true, Bool.and_eq_true] at hc
          exact inv_weaker no ih hpc hc.2
        | unlock m nx _ =>
          simp only [] at hc
          split at hc
          · rw [beq_iff_eq] at hc
            exact inv_weaker nx ih hpc (by simp [weaker, hc])
          · exact inv_weaker nx ih hpc hc
        | testT f x y _ h1 =>
          simp only [] at hc
          split at hc
          · simp only [Bool.and_eq_true] at hc
            exact inv_weaker x ih hpc hc.1
          · simp only [Bool.and_eq_true] at hc
            exact inv_weaker x ih hpc hc.1
        | testF f x y _ h1 =>
          simp only [] at hc
          split at hc
          · rename_i hf
            rw [beq_iff_eq] at hf
            subst hf
            simp only [Bool.and_eq_true, Bool.or_eq_true, beq_iff_eq] at hc
            apply inv_move t y ih
            · intro _; exact h1
            · intro hk
              rcases hc.2 with (h3 | h3) | h3
              · rw [h3] at hk; cases hk
              · rw [h3.1] at hk; cases hk
              · have := (ih.2.1 t n hpc (h3 ▸ hk)).1
                rw [h1] at this; cases this
          · simp only [Bool.and_eq_true] at hc
            exact inv_weaker y ih hpc hc.2
        | set f v nx _ =>
          simp only [] at hc
          split at hc
          · rename_i hf
            rw [beq_iff_eq] at hf
            subst hf
            simp only [Bool.and_eq_true, Bool.or_eq_true, beq_iff_eq] at hc
            obtain ⟨⟨⟨hv, -⟩, hk⟩, hnx⟩ := hc
            have hkn : know a n ≠ .unknown := by rw [hk]; intro h'; cases h'
            have hb : g.flag S.CS = false := ih.1 t n hpc hk
            have hcl : hasClose S g.wire = false := ih.2.2.1 hb
            show Inv S a (g.pcs.set t nx) (upd g.flag S.CS v S.CS) g.wire
            rw [upd_eq, hv]
            refine ⟨?_, ?_, ?_, ih.2.2.2⟩
            · intro t2 n2 hp2 hk2
              rcases set_cases _ _ _ _ _ hp2 with ⟨_, rfl⟩ | ⟨hne, hp'⟩
              · rcases hnx with h3 | h3 <;> (rw [h3] at hk2; cases hk2)
              · rw [hOther t n hpc hkn t2 n2 hp' hne] at hk2; cases hk2
            · intro t2 n2 hp2 hk2
              rcases set_cases _ _ _ _ _ hp2 with ⟨_, rfl⟩ | ⟨hne, hp'⟩
              · exact ⟨rfl, hcl⟩
              · rw [hOther t n hpc hkn t2 n2 hp' hne] at hk2; cases hk2
            · intro h'; cases h'
          · rename_i hf
            have hne : S.CS ≠ f := by
              intro h'; apply hf; rw [h']; exact beq_self_eq_true f
            show Inv S a (g.pcs.set t nx) (upd g.flag f v S.CS) g.wire
            rw [upd_ne _ _ _ _ hne]
            exact inv_weaker nx ih hpc hc
        | casWon f x y _ h1 =>
          simp only [Bool.and_eq_true, bne_iff_ne, ne_eq] at hc
          have hne : S.CS ≠ f := fun h' => hc.1.1 h'.symm
          show Inv S a (g.pcs.set t x) (upd g.flag f true S.CS) g.wire
          rw [upd_ne _ _ _ _ hne]
          exact inv_weaker x ih hpc hc.1.2
        | casLost f x y _ h1 =>
          simp only [Bool.and_eq_true] at hc
          exact inv_weaker y ih hpc hc.2
        | wrOk p ok err _ h1 =>
          simp only [Bool.and_eq_true] at hc
          obtain ⟨hc, -⟩ := hc
          show Inv S a (g.pcs.set t ok) (g.flag S.CS) (g.wire ++ [(t, p)])
          split at hc
          · -- dataBegin
            rename_i hp
            simp only [Bool.and_eq_true, beq_iff_eq] at hc
            have hb : g.flag S.CS = false := ih.1 t n hpc hc.1
            have hcl : hasClose S g.wire = false := ih.2.2.1 hb
            have hcl' : hasClose S (g.wire ++ [(t, p)]) = false := by
              rw [hasClose_append, hcl]; simp [hp]
            have ih' : Inv S a g.pcs (g.flag S.CS) (g.wire ++ [(t, p)]) := by
              refine ⟨ih.1, ?_, fun _ => hcl', nac_append_noclose S _ _ hcl⟩
              intro t2 n2 hp2 hk2
              have := (ih.2.1 t2 n2 hp2 hk2).1
              rw [hb] at this; cases this
            exact inv_weaker ok ih' hpc hc.2
          · -- closeBegin
            rename_i hp
            simp only [Bool.and_eq_true, beq_iff_eq] at hc
            have hkn : know a n ≠ .unknown := by rw [hc.1]; intro h'; cases h'
            obtain ⟨hb, hcl⟩ := ih.2.1 t n hpc hc.1
            refine ⟨?_, ?_, ?_, nac_append_noclose S _ _ hcl⟩
            · intro t2 n2 hp2 hk2
              rcases set_cases _ _ _ _ _ hp2 with ⟨_, rfl⟩ | ⟨hne, hp'⟩
              · rw [hc.2] at hk2; cases hk2
              · rw [hOther t n hpc hkn t2 n2 hp' hne] at hk2; cases hk2
            · intro t2 n2 hp2 hk2
              rcases set_cases _ _ _ _ _ hp2 with ⟨_, rfl⟩ | ⟨hne, hp'⟩
              · rw [hc.2] at hk2; cases hk2
              · rw [hOther t n hpc hkn t2 n2 hp' hne] at hk2; cases hk2
            · intro h'; rw [hb] at h'; cases h'
          · -- other
            rename_i hp
            have hcl' : hasClose S (g.wire ++ [(t, p)]) = hasClose S g.wire := by
              rw [hasClose_append]; simp [hp]
            have ih' : Inv S a g.pcs (g.flag S.CS) (g.wire ++ [(t, p)]) := by
              refine ⟨ih.1, ?_, ?_, nac_append_other S _ hp _ ih.2.2.2⟩
              · intro t2 n2 hp2 hk2; rw [hcl']; exact ih.2.1 t2 n2 hp2 hk2
              · intro hb; rw [hcl']; exact ih.2.2.1 hb
            exact inv_weaker ok ih' hpc hc
        | wrErr p ok err _ =>
          simp only [Bool.and_eq_true] at hc
          exact inv_weaker err ih hpc hc.2
        | armOk s own ok cl _ =>
          simp only [Instr.succs, List.all_cons, List.all_nil, Bool.and_true, Bool.and_eq_true] at hc
          exact inv_weaker ok ih hpc hc.1
        | armClosed s own ok cl _ h1 =>
          simp only [Instr.succs, List.all_cons, List.all_nil, Bool.and_true, Bool.and_eq_true] at hc
          exact inv_weaker cl ih hpc hc.2
        | ioOk ok err _ =>
          simp only [Instr.succs, List.all_cons, List.all_nil, Bool.and_true, Bool.and_eq_true] at hc
          exact inv_weaker ok ih hpc hc.1
        | ioErr ok err _ =>
          simp only [Instr.succs, List.all_cons, List.all_nil, Bool.and_true, Bool.and_eq_true] at hc
          exact inv_weaker err ih hpc hc.2
        | spawn e nx _ =>
          simp only [Bool.and_eq_true, beq_iff_eq] at hc
          exact inv_append e (inv_weaker nx ih hpc hc.2) hc.1
        | signal ch nx _ =>
          simp only [Instr.succs, List.all_cons, List.all_nil, Bool.and_true] at hc
          exact inv_weaker nx ih hpc hc
        | awaitOk ch ok to _ h1 =>
          simp only [Instr.succs, List.all_cons, List.all_nil, Bool.and_true, Bool.and_eq_true] at hc
          exact inv_weaker ok ih hpc hc.1
        | awaitTimeout ch ok to _ =>
          simp only [Instr.succs, List.all_cons, List.all_nil, Bool.and_true, Bool.and_eq_true] at hc
          exact inv_weaker to ih hpc hc.2
        | branch ss nx _ hmem =>
          simp only [Instr.succs] at hc
          exact inv_weaker nx ih hpc (List.all_eq_true.mp hc nx hmem)
      · exfalso
        have hat : P.at n = .done false := by
          simp only [Prog.at, List.getD_eq_getElem?_getD]
          rw [List.getElem?_eq_none (Nat.le_of_not_lt hn)]; rfl
        rw [hat] at hst
        cases hst

/-- **soundness for every program**: in every reachable state, whichever goroutines are still
writing, the wire has no data frame and no second close frame after a close frame. -/
theorem sound (S : Spec) (P : Prog) (c : Cert) (a : Ann) (h : check S P c a = true) :
    ∀ g, Reach P g → NothingAfterClose S g.wire = true := by
  intro g hr
  exact (inv_reach S P c a h g hr).2.2.2

end WS.CIR.CloseSent
