import WS.CIR.Bracket
import WS.CIR.CloseSent
import WS.CIR.Arming
import WS.CIR.Join
/-
  The instances of the analyses for the WebSocket connection.  Ids (see /verif/cir/conn_cir.py):
  locks 0 readMu, 1 writeFrameMu, 2 msgWriter.mu, 3 msgWriter.writeMu, 4 closeMu;
  flags 0 closed, 1 closing, 2 closeSent, 3 peerClosed, 4 closeRead; slots 0 read, 1 write;
  channels 0 timeoutLoopDone, 1 closeReadDone, 2 closed;
  piece kind = 10 * frame class + piece, frame class 1 first data frame (not final), 2 single final
  data frame, 3 continuation, 4 final continuation, 5 ping, 6 pong, 7 close; piece 0 header,
  1 payload piece, 2 end of frame (flush).
-/
namespace WS.CIR.Specs
open WS.CIR

def lReadMu : Nat := 0
def lWriteFrameMu : Nat := 1
def lMsgWriterMu : Nat := 2
def fClosing : Nat := 1
def fCloseSent : Nat := 2
def chTimeoutLoopDone : Nat := 0
def chCloseReadDone : Nat := 1

/-- a frame = header piece, payload pieces, end piece, under writeFrameMu. -/
def frameSpec : Bracket.Spec :=
  { L := lWriteFrameMu,
    cls := fun k => if k % 10 = 0 then .opens else if k % 10 = 1 then .mid else if k % 10 = 2 then .closes else .other }

/-- a data message = first frame, continuations, final frame (or one single frame), under msgWriter.mu;
control frames and the non-header pieces of frames are irrelevant. -/
def msgSpec : Bracket.Spec :=
  { L := lMsgWriterMu,
    cls := fun k =>
      if k % 10 = 0 then
        (if k / 10 = 1 then .opens else if k / 10 = 2 then .single else if k / 10 = 3 then .mid
         else if k / 10 = 4 then .closes else .other)
      else .other }

def closeSpec : CloseSent.Spec :=
  { W := lWriteFrameMu, CS := fCloseSent,
    piece := fun k =>
      if k % 10 = 0 then
        (if 1 ≤ k / 10 ∧ k / 10 ≤ 4 then .dataBegin else if k / 10 = 7 then .closeBegin else .other)
      else .other }

def armSpec (exempt : List Node) : Arming.Spec :=
  { lockOf := fun s => if s = 0 then lReadMu else lWriteFrameMu, readSlot := 0, writeSlot := 1, exempt := exempt }

end WS.CIR.Specs
