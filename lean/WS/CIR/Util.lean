import WS.CIR.Core
/-
  Generic facts about the CIR semantics used by several properties.
-/
namespace WS.CIR

/-- the wire is an append-only log: what was written stays written, in order. -/
theorem wire_prefix (P : Prog) (g g' : G) (h : Step P g g') : g.wire <+: g'.wire := by
  cases h with
  | start e g he => exact List.prefix_refl _
  | thread t n g g' hn ht =>
    generalize P.at n = i at ht
    cases ht <;> first
      | exact List.prefix_refl _
      | exact List.prefix_append _ _

/-- nodes statically reachable from `start` (bounded breadth-first closure). -/
def reachFrom (P : Prog) (start : Node) : List Node :=
  let rec go : Nat → List Node → List Node → List Node
    | 0, _, seen => seen
    | _ + 1, [], seen => seen
    | fuel + 1, n :: work, seen =>
      if seen.contains n then go fuel work seen
      else go fuel ((P.at n).succs ++ work) (n :: seen)
  go (4 * P.code.length + 4) [start] []

end WS.CIR
