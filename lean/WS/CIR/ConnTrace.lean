import WS.CIR.Trace
import WS.Gen.ConnCIR
/-
  Trace validation instance for the connection skeleton `WS.Gen.ConnCIR.prog`: which operands the Go
  hooks (`sync:*` events of verif_on.go) report, the entry points by name, the event syntax of the
  driver's `cirtrace` command, and the acceptor's answer as a string.
-/
namespace WS.CIR.ConnTrace
open WS.CIR WS.CIR.Trace WS.Gen

/-- ids as in /verif/cir/conn_cir.py: locks readMu 0, writeFrameMu 1, msgWriter.mu 2, msgWriter.writeMu 3,
closeMu 4 (a sync.Mutex, not instrumented); flags closed 0, closing 1, closeSent 2, peerClosed 3, closeRead 4;
channels timeoutLoopDone 0, closeReadDone 1, closed 2. -/
def cfg : Cfg where
  lockObs := fun m => m != 4
  setObs := fun f => f == 0 || f == 2 || f == 3
  casObs := fun f => f == 1
  sigObs := fun ch => ch == 0 || ch == 1
  awaitObs := fun _ => true

def entryOf : String → Option Node
  | "Reader" => some ConnCIR.entryReader
  | "Read" => some ConnCIR.entryRead
  | "Write" => some ConnCIR.entryWrite
  | "Writer" => some ConnCIR.entryWriter
  | "Ping" => some ConnCIR.entryPing
  | "Close" => some ConnCIR.entryClose
  | "CloseNow" => some ConnCIR.entryCloseNow
  | "CloseRead" => some ConnCIR.entryCloseRead
  | "timeoutLoop" => ConnCIR.prog.boot.head?
  | "closeReadGoroutine" => some ConnCIR.closeReadGoroutine
  | _ => none

def natArg (s : String) (i : Nat) : Option Nat := ((s.drop i).toString).toNat?

/-- event tokens: L<m> lock, F<m> forceLock, T<m> tryLock, U<m> unlock, S<f> set, C<f> cas won,
B<cls> frame begun, E<cls> frame ended, A<slot>o / A<slot>b arm own / background, I read done,
P spawn, G<ch> signal, W<ch> await done. -/
def parseEv (s : String) : Option Ev :=
  match s.toList with
  | 'L' :: _ => (natArg s 1).map .lock
  | 'F' :: _ => (natArg s 1).map .forceLock
  | 'T' :: _ => (natArg s 1).map .tryLock
  | 'U' :: _ => (natArg s 1).map .unlock
  | 'S' :: _ => (natArg s 1).map .set
  | 'C' :: _ => (natArg s 1).map .cas
  | 'B' :: _ => (natArg s 1).map .wrBegin
  | 'E' :: _ => (natArg s 1).map .wrEnd
  | ['A', d, 'o'] => (String.singleton d).toNat?.map (fun n => .arm n true)
  | ['A', d, 'b'] => (String.singleton d).toNat?.map (fun n => .arm n false)
  | ['I'] => some .io
  | ['P'] => some .spawn
  | 'G' :: _ => (natArg s 1).map .signal
  | 'W' :: _ => (natArg s 1).map .await
  | _ => none

def parseFin : String → Option Fin
  | "running" => some .running
  | "ok" => some .ok
  | "err" => some .err
  | _ => none

def check (entries : List Node) (fin : Fin) (evs : List Ev) : String :=
  if accepts cfg ConnCIR.prog entries evs fin then "ok accept"
  else
    match firstReject cfg ConnCIR.prog (start cfg ConnCIR.prog entries) evs 0 with
    | some i => s!"ok reject at={i}"
    | none => s!"ok reject at=end"

end WS.CIR.ConnTrace
