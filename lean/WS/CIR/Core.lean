/-
  CIR — a small concurrent intermediate representation that carries the library's
  synchronisation skeleton: channel mutexes, the `closed` flag and other flags, the two
  timeout slots, transport writes (ghost wire events), goroutine spawn / signal / await.

  A program is a map from nodes to instructions with explicit successors plus a set of entry
  nodes (API calls a client goroutine may start at any time, any number of times).  The
  semantics is an interleaving small-step relation over a global state and an unbounded list
  of threads.  Time appears only as "a lock/await may give up" (context or timer expiry).
-/
namespace WS.CIR

abbrev Node := Nat

/-- the `closed` flag (close(c.closed)) has a fixed id: lock acquisition re-checks it. -/
def fCLOSED : Nat := 0

inductive Instr
  | lock (m : Nat) (ok err : Node)        -- m.lock(ctx): acquire (only while not closed) or give up
  | forceLock (m : Nat) (next : Node)     -- m.forceLock(): wait until free
  | tryLock (m : Nat) (yes no : Node)
  | unlock (m : Nat) (next : Node)
  | test (f : Nat) (t e : Node)           -- branch on a shared flag
  | set (f : Nat) (v : Bool) (next : Node)
  | cas (f : Nat) (won lost : Node)       -- atomically: if !f { f = true; won } else lost
  | wr (k : Nat) (ok err : Node)          -- transport write of a piece of kind k (ghost wire event) or failure
  | arm (slot : Nat) (own : Bool) (ok closed : Node)   -- hand the caller's ctx (own) or Background to the timeout goroutine
  | io (ok err : Node)                    -- transport read
  | spawn (entry : Node) (next : Node)    -- go f()
  | signal (ch : Nat) (next : Node)       -- close(ch)
  | await (ch : Nat) (ok timeout : Node)  -- <-ch, or a timer / context fires
  | branch (succs : List Node)            -- data-dependent choice
  | done (ok : Bool)                      -- the call / goroutine ends (ok = returns nil)
  deriving Repr, DecidableEq, Inhabited

structure Prog where
  code : List Instr            -- node n is code[n]
  entries : List Node          -- API entry points
  boot : List Node             -- goroutines that exist from the start (started by newConn)
  deriving Repr

def Prog.at (P : Prog) (n : Node) : Instr := P.code.getD n (.done false)

/-- static successors of an instruction. -/
def Instr.succs : Instr → List Node
  | .lock _ ok err => [ok, err]
  | .forceLock _ n => [n]
  | .tryLock _ y n => [y, n]
  | .unlock _ n => [n]
  | .test _ t e => [t, e]
  | .set _ _ n => [n]
  | .cas _ w l => [w, l]
  | .wr _ ok err => [ok, err]
  | .arm _ _ ok cl => [ok, cl]
  | .io ok err => [ok, err]
  | .spawn _ n => [n]
  | .signal _ n => [n]
  | .await _ ok to => [ok, to]
  | .branch ss => ss
  | .done _ => []

structure G where
  pcs : List Node                 -- program counter of every thread (thread id = index)
  holder : Nat → Option Nat       -- lock ↦ holding thread
  flag : Nat → Bool
  wire : List (Nat × Nat)         -- ghost: (thread, piece kind) in transport order
  slot : Nat → Option Nat         -- timeout slot ↦ thread whose context is armed (none = Background)
  sig : Nat → Bool                -- closed channels
  broken : Bool                   -- a transport write failed (bufio's error is sticky)
  born : List (Nat → Bool)        -- ghost: the flag valuation at the moment each thread was created

def G.init : G :=
  { pcs := [], holder := fun _ => none, flag := fun _ => false, wire := [], slot := fun _ => none,
    sig := fun _ => false, broken := false, born := [] }

def upd {α : Type} (f : Nat → α) (k : Nat) (v : α) : Nat → α := fun x => if x = k then v else f x

def G.move (g : G) (t : Nat) (n : Node) : G := { g with pcs := g.pcs.set t n }

/-- one step of thread `t`, currently at an instruction `i`. -/
inductive TStep (t : Nat) : Instr → G → G → Prop
  | lockOk (m ok err g) : g.holder m = none → g.flag fCLOSED = false →
      TStep t (.lock m ok err) g { (g.move t ok) with holder := upd g.holder m (some t) }
  | lockErr (m ok err g) : TStep t (.lock m ok err) g (g.move t err)
  | forceLock (m n g) : g.holder m = none →
      TStep t (.forceLock m n) g { (g.move t n) with holder := upd g.holder m (some t) }
  | tryYes (m y n g) : g.holder m = none →
      TStep t (.tryLock m y n) g { (g.move t y) with holder := upd g.holder m (some t) }
  | tryNo (m y n g) : g.holder m ≠ none → TStep t (.tryLock m y n) g (g.move t n)
  | unlock (m n g) : TStep t (.unlock m n) g { (g.move t n) with holder := upd g.holder m none }
  | testT (f a b g) : g.flag f = true → TStep t (.test f a b) g (g.move t a)
  | testF (f a b g) : g.flag f = false → TStep t (.test f a b) g (g.move t b)
  | set (f v n g) : TStep t (.set f v n) g { (g.move t n) with flag := upd g.flag f v }
  | casWon (f w l g) : g.flag f = false → TStep t (.cas f w l) g { (g.move t w) with flag := upd g.flag f true }
  | casLost (f w l g) : g.flag f = true → TStep t (.cas f w l) g (g.move t l)
  | wrOk (k ok err g) : g.broken = false → TStep t (.wr k ok err) g { (g.move t ok) with wire := g.wire ++ [(t, k)] }
  | wrErr (k ok err g) : TStep t (.wr k ok err) g { (g.move t err) with broken := true }
  | armOk (s own ok cl g) : TStep t (.arm s own ok cl) g { (g.move t ok) with slot := upd g.slot s (if own then some t else none) }
  | armClosed (s own ok cl g) : g.flag fCLOSED = true → TStep t (.arm s own ok cl) g (g.move t cl)
  | ioOk (ok err g) : TStep t (.io ok err) g (g.move t ok)
  | ioErr (ok err g) : TStep t (.io ok err) g (g.move t err)
  | spawn (e n g) : TStep t (.spawn e n) g { (g.move t n) with pcs := (g.move t n).pcs ++ [e], born := g.born ++ [g.flag] }
  | signal (ch n g) : TStep t (.signal ch n) g { (g.move t n) with sig := upd g.sig ch true }
  | awaitOk (ch ok to g) : g.sig ch = true → TStep t (.await ch ok to) g (g.move t ok)
  | awaitTimeout (ch ok to g) : TStep t (.await ch ok to) g (g.move t to)
  | branch (ss n g) : n ∈ ss → TStep t (.branch ss) g (g.move t n)

/-- one step of the system: a client goroutine starts an API call, or some thread moves. -/
inductive Step (P : Prog) : G → G → Prop
  | start (e g) : e ∈ P.entries → Step P g { g with pcs := g.pcs ++ [e], born := g.born ++ [g.flag] }
  | thread (t n g g') : g.pcs[t]? = some n → TStep t (P.at n) g g' → Step P g g'

/-- the initial state: the goroutines started by newConn (`P.boot`, e.g. the timeout loop) exist, nothing else. -/
def G.boot (P : Prog) : G := { G.init with pcs := P.boot, born := P.boot.map (fun _ => fun _ => false) }

inductive Reach (P : Prog) : G → Prop
  | init : Reach P (G.boot P)
  | step (g g') : Reach P g → Step P g g' → Reach P g'

end WS.CIR
