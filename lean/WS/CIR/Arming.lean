import WS.CIR.Lockset
/-
  Analysis 4 — which context is in the timeout slots (C10, C09).
  `may`: slots in which the thread's own context may still be armed (over-approximation);
  `must`: slots in which it certainly is.  A thread that has returned successfully has an empty
  `may` set, so its context is in no slot: cancelling it afterwards enables nothing.  A thread
  blocked in transport I/O has the corresponding slot in its `must` set, so the expiry of its
  context is what the timeout goroutine waits for.
-/
namespace WS.CIR.Arming
open WS.CIR WS.CIR.Lockset

structure Spec where
  lockOf : Nat → Nat          -- the lock that protects a slot (readMu for the read slot, writeFrameMu for the write slot)
  readSlot : Nat
  writeSlot : Nat

structure Ann where
  may : List (List Nat)
  must : List (List Nat)

def mayAt (a : Ann) (n : Node) : List Nat := a.may.getD n []
def mustAt (a : Ann) (n : Node) : List Nat := a.must.getD n []

def checkNode (S : Spec) (P : Prog) (c : Cert) (a : Ann) (n : Node) : Bool :=
  let my := mayAt a n
  let mu := mustAt a n
  -- a slot is certainly ours only while we hold its lock; certainly implies possibly
  mu.all (fun s => (held c n).contains (S.lockOf s) && my.contains s) &&
  (match P.at n with
   | .arm s own ok cl =>
     (held c n).contains (S.lockOf s) &&
     (if own then sub my (mayAt a ok) && (mayAt a ok).contains s && sub (mustAt a ok) (s :: mu)
      else sub (my.erase s) (mayAt a ok) && sub (mustAt a ok) (mu.erase s) && !(mustAt a ok).contains s) &&
     sub my (mayAt a cl) && sub (mustAt a cl) mu
   | .io ok err => mu.contains S.readSlot && sub my (mayAt a ok) && sub my (mayAt a err) && sub (mustAt a ok) mu && sub (mustAt a err) mu
   | .wr _ ok err => mu.contains S.writeSlot && sub my (mayAt a ok) && sub my (mayAt a err) && sub (mustAt a ok) mu && sub (mustAt a err) mu
   | .unlock m nx => sub my (mayAt a nx) && sub (mustAt a nx) (mu.filter (fun s => S.lockOf s != m))
   | .spawn e nx => (mustAt a e).isEmpty && sub my (mayAt a nx) && sub (mustAt a nx) mu
   | .done ok => !ok || my.isEmpty
   | i => i.succs.all (fun s => sub my (mayAt a s) && sub (mustAt a s) mu))

def check (S : Spec) (P : Prog) (c : Cert) (a : Ann) : Bool :=
  Lockset.check P c &&
  (List.range P.code.length).all (checkNode S P c a) &&
  P.entries.all (fun e => (mustAt a e).isEmpty) && P.boot.all (fun e => (mustAt a e).isEmpty) &&
  a.may.length ≤ P.code.length && a.must.length ≤ P.code.length

/-- **a finished call's context is in no slot** (so cancelling it later cannot close the connection),
for every program that checks, every number of threads and every interleaving. -/
theorem finished_not_armed (S : Spec) (P : Prog) (c : Cert) (a : Ann) (h : check S P c a = true)
    (g : G) (hr : Reach P g) (t n : Nat) (hn : g.pcs[t]? = some n) (hd : P.at n = .done true) :
    ∀ s, g.slot s ≠ some t := by
  sorry

/-- **a call blocked in transport I/O has its own context armed** in the slot the timeout goroutine
watches for that direction. -/
theorem blocked_has_own_ctx (S : Spec) (P : Prog) (c : Cert) (a : Ann) (h : check S P c a = true)
    (g : G) (hr : Reach P g) (t n : Nat) (hn : g.pcs[t]? = some n) :
    (∀ ok err, P.at n = .io ok err → g.slot S.readSlot = some t) ∧
    (∀ k ok err, P.at n = .wr k ok err → g.slot S.writeSlot = some t) := by
  sorry

end WS.CIR.Arming
