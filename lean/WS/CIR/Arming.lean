import WS.CIR.Lockset
/-
  Analysis 4 — which context is in the timeout slots (C10, C09).
  `may`: slots in which the thread's own context may still be armed (over-approximation);
  `must`: slots in which it certainly is.  A thread that has returned successfully has an empty
  `may` set, so its context is in no slot: cancelling it afterwards enables nothing.  A thread
  blocked in transport I/O has the corresponding slot in its `must` set, so the expiry of its
  context is what the timeout goroutine waits for.
-/
namespace WS.CIR.Arming
open WS.CIR WS.CIR.Lockset

structure Spec where
  lockOf : Nat → Nat          -- the lock that protects a slot (readMu for the read slot, writeFrameMu for the write slot)
  readSlot : Nat
  writeSlot : Nat
  /-- `done true` nodes of calls that take no caller context (Close, CloseNow): they arm only internal
  5 s contexts, and the connection is closed when they return. -/
  exempt : List Node

structure Ann where
  may : List (List Nat)
  must : List (List Nat)

def mayAt (a : Ann) (n : Node) : List Nat := a.may.getD n []
def mustAt (a : Ann) (n : Node) : List Nat := a.must.getD n []

def checkNode (S : Spec) (P : Prog) (c : Cert) (a : Ann) (n : Node) : Bool :=
  let my := mayAt a n
  let mu := mustAt a n
  -- a slot is certainly ours only while we hold its lock; certainly implies possibly
  mu.all (fun s => (held c n).contains (S.lockOf s) && my.contains s) &&
  (match P.at n with
   | .arm s own ok cl =>
     (held c n).contains (S.lockOf s) &&
     (if own then sub my (mayAt a ok) && (mayAt a ok).contains s && sub (mustAt a ok) (s :: mu)
      else sub (my.erase s) (mayAt a ok) && sub (mustAt a ok) (mu.erase s) && !(mustAt a ok).contains s) &&
     sub my (mayAt a cl) && sub (mustAt a cl) mu
   | .io ok err => mu.contains S.readSlot && sub my (mayAt a ok) && sub my (mayAt a err) && sub (mustAt a ok) mu && sub (mustAt a err) mu
   | .wr _ ok err => mu.contains S.writeSlot && sub my (mayAt a ok) && sub my (mayAt a err) && sub (mustAt a ok) mu && sub (mustAt a err) mu
   | .unlock m nx => sub my (mayAt a nx) && sub (mustAt a nx) (mu.filter (fun s => S.lockOf s != m))
   | .spawn e nx => (mustAt a e).isEmpty && sub my (mayAt a nx) && sub (mustAt a nx) mu
   | .done ok => !ok || my.isEmpty || S.exempt.contains n
   | i => i.succs.all (fun s => sub my (mayAt a s) && sub (mustAt a s) mu))

def check (S : Spec) (P : Prog) (c : Cert) (a : Ann) : Bool :=
  Lockset.check P c &&
  (List.range P.code.length).all (checkNode S P c a) &&
  P.entries.all (fun e => (mustAt a e).isEmpty) && P.boot.all (fun e => (mustAt a e).isEmpty) &&
  a.may.length ≤ P.code.length && a.must.length ≤ P.code.length

/-! ### helper lemmas -/

theorem sub_iff (x y : List Nat) : sub x y = true ↔ ∀ z ∈ x, z ∈ y := by
  simp [sub, List.all_eq_true]

/-- (MAY) a slot that contains thread `t`'s context is in the `may` set of `t`'s node. -/
def MayInv (a : Ann) (g : G) : Prop :=
  ∀ (s t : Nat), g.slot s = some t → ∃ n, g.pcs[t]? = some n ∧ s ∈ mayAt a n

/-- (MUST) every slot in the `must` set of `t`'s node contains `t`'s context. -/
def MustInv (a : Ann) (g : G) : Prop :=
  ∀ (t n : Nat), g.pcs[t]? = some n → ∀ s ∈ mustAt a n, g.slot s = some t

/-- `pcs'` is `pcs` with thread `t'` moved to `n''`, plus possibly new threads with empty `must`. -/
def Moved (a : Ann) (pcs pcs' : List Node) (t' n'' : Nat) : Prop :=
  pcs'[t']? = some n'' ∧
  (∀ (t n : Nat), t ≠ t' → pcs[t]? = some n → pcs'[t]? = some n) ∧
  (∀ (t n : Nat), pcs'[t]? = some n → t ≠ t' → pcs[t]? = some n ∨ mustAt a n = [])

theorem lt_of_getElem? {l : List Nat} {t n : Nat} (h : l[t]? = some n) : t < l.length := by
  rcases Nat.lt_or_ge t l.length with h' | h'
  · exact h'
  · rw [List.getElem?_eq_none h'] at h; cases h

theorem moved_set (a : Ann) (pcs : List Node) (t' n'' : Nat) (h : t' < pcs.length) :
    Moved a pcs (pcs.set t' n'') t' n'' := by
  refine ⟨by simp [h], ?_, ?_⟩
  · intro t n hne hn
    rw [List.getElem?_set]; simp [Ne.symm hne, hn]
  · intro t n hn hne
    rw [List.getElem?_set] at hn; simp [Ne.symm hne] at hn
    exact Or.inl hn

theorem moved_spawn (a : Ann) (pcs : List Node) (t' n'' e : Nat) (h : t' < pcs.length)
    (he : mustAt a e = []) : Moved a pcs (pcs.set t' n'' ++ [e]) t' n'' := by
  have hM := moved_set a pcs t' n'' h
  refine ⟨?_, ?_, ?_⟩
  · rw [List.getElem?_append_left (by simpa using h)]; exact hM.1
  · intro t n hne hn
    have := hM.2.1 t n hne hn
    rw [List.getElem?_append_left (lt_of_getElem? this)]; exact this
  · intro t n hn hne
    rw [List.getElem?_append] at hn
    split at hn
    · exact hM.2.2 t n hn hne
    · right
      have : n = e := by
        cases hk : t - (pcs.set t' n'').length with
        | zero => rw [hk] at hn; simp at hn; exact hn.symm
        | succ k => rw [hk] at hn; simp at hn
      rw [this]; exact he

theorem may_plain {a : Ann} {g g' : G} {t' n' n'' : Nat} (hI : MayInv a g)
    (hpc : g.pcs[t']? = some n') (hsub : ∀ x ∈ mayAt a n', x ∈ mayAt a n'')
    (hslot : g'.slot = g.slot) (hM : Moved a g.pcs g'.pcs t' n'') : MayInv a g' := by
  intro s t hs
  rw [hslot] at hs
  obtain ⟨n, hn, hm⟩ := hI s t hs
  by_cases ht : t = t'
  · subst ht
    rw [hpc] at hn; cases hn
    exact ⟨n'', hM.1, hsub _ hm⟩
  · exact ⟨n, hM.2.1 _ _ ht hn, hm⟩

theorem must_plain {a : Ann} {g g' : G} {t' n' n'' : Nat} (hI : MustInv a g)
    (hpc : g.pcs[t']? = some n') (hsub : ∀ x ∈ mustAt a n'', x ∈ mustAt a n')
    (hslot : g'.slot = g.slot) (hM : Moved a g.pcs g'.pcs t' n'') : MustInv a g' := by
  intro t n hn s hs
  rw [hslot]
  by_cases ht : t = t'
  · subst ht
    rw [hM.1] at hn; cases hn
    exact hI t n' hpc s (hsub _ hs)
  · rcases hM.2.2 t n hn ht with h | h
    · exact hI t n h s hs
    · rw [h] at hs; cases hs

theorem may_arm {a : Ann} {g g' : G} {t' n' ok s0 : Nat} {own : Bool} (hI : MayInv a g)
    (hpc : g.pcs[t']? = some n')
    (hslot : g'.slot = upd g.slot s0 (if own then some t' else none))
    (hM : Moved a g.pcs g'.pcs t' ok)
    (hsub : ∀ x ∈ mayAt a n', x ≠ s0 → x ∈ mayAt a ok)
    (hown : own = true → s0 ∈ mayAt a ok) : MayInv a g' := by
  intro s t hs
  rw [hslot] at hs
  by_cases hss : s = s0
  · subst hss
    cases own with
    | false => simp [upd] at hs
    | true =>
      simp [upd] at hs
      subst hs
      exact ⟨ok, hM.1, hown rfl⟩
  · simp [upd, hss] at hs
    obtain ⟨n, hn, hm⟩ := hI s t hs
    by_cases ht : t = t'
    · subst ht
      rw [hpc] at hn; cases hn
      exact ⟨ok, hM.1, hsub _ hm hss⟩
    · exact ⟨n, hM.2.1 _ _ ht hn, hm⟩

theorem must_arm {a : Ann} {g g' : G} {t' n' ok s0 : Nat} {own : Bool} (hI : MustInv a g)
    (hpc : g.pcs[t']? = some n')
    (hslot : g'.slot = upd g.slot s0 (if own then some t' else none))
    (hM : Moved a g.pcs g'.pcs t' ok)
    (hsub : ∀ x ∈ mustAt a ok, x ≠ s0 → x ∈ mustAt a n')
    (hown : own = false → s0 ∉ mustAt a ok)
    (hex : ∀ (t n : Nat), t ≠ t' → g.pcs[t]? = some n → s0 ∉ mustAt a n) : MustInv a g' := by
  intro t n hn s hs
  rw [hslot]
  by_cases ht : t = t'
  · subst ht
    rw [hM.1] at hn; cases hn
    by_cases hss : s = s0
    · subst hss
      cases own with
      | false => exact absurd hs (hown rfl)
      | true => simp [upd]
    · simp [upd, hss]
      exact hI t n' hpc s (hsub _ hs hss)
  · rcases hM.2.2 t n hn ht with h | h
    · have hss : s ≠ s0 := by
        intro hss; subst hss; exact hex t n ht h hs
      simp [upd, hss]
      exact hI t n h s hs
    · rw [h] at hs; cases hs

structure Checked (S : Spec) (P : Prog) (c : Cert) (a : Ann) : Prop where
  ls : Lockset.check P c = true
  node : ∀ n, n < P.code.length → checkNode S P c a n = true
  entries : ∀ e ∈ P.entries, mustAt a e = []
  boot : ∀ e ∈ P.boot, mustAt a e = []
  mayLen : a.may.length ≤ P.code.length
  mustLen : a.must.length ≤ P.code.length

theorem checked_of_check {S : Spec} {P : Prog} {c : Cert} {a : Ann} (h : check S P c a = true) :
    Checked S P c a := by
  simp only [check, Bool.and_eq_true, List.all_eq_true, List.mem_range, decide_eq_true_eq,
    List.isEmpty_iff] at h
  obtain ⟨⟨⟨⟨⟨h1, h2⟩, h3⟩, h4⟩, h5⟩, h6⟩ := h
  exact ⟨h1, h2, h3, h4, h5, h6⟩

theorem at_of_ge (P : Prog) (n : Nat) (h : P.code.length ≤ n) : P.at n = .done false := by
  simp [Prog.at, List.getD, List.getElem?_eq_none h]

theorem mustAt_of_ge (a : Ann) (n : Nat) (h : a.must.length ≤ n) : mustAt a n = [] := by
  simp [mustAt, List.getD, List.getElem?_eq_none h]

theorem mayAt_of_ge (a : Ann) (n : Nat) (h : a.may.length ≤ n) : mayAt a n = [] := by
  simp [mayAt, List.getD, List.getElem?_eq_none h]

theorem must_holds_lock {S : Spec} {P : Prog} {c : Cert} {a : Ann} (hC : Checked S P c a)
    (n s : Nat) (hs : s ∈ mustAt a n) : S.lockOf s ∈ held c n := by
  have hlt : n < P.code.length := by
    rcases Nat.lt_or_ge n P.code.length with h | h
    · exact h
    · rw [mustAt_of_ge a n (Nat.le_trans hC.mustLen h)] at hs; cases hs
  have := hC.node n hlt
  simp only [checkNode, Bool.and_eq_true, List.all_eq_true, List.contains_iff_mem] at this
  exact (this.1 s hs).1

set_option hygiene false in
local macro "plain " m:term "," u:term : tactic =>
  `(tactic| exact ⟨may_plain hMay hpc $m rfl (moved_set a g.pcs t' _ ht'),
      must_plain hMust hpc $u rfl (moved_set a g.pcs t' _ ht')⟩)

theorem step_inv {S : Spec} {P : Prog} {c : Cert} {a : Ann} (hC : Checked S P c a)
    (g g' : G) (hr : Reach P g) (hst : Step P g g') (hMay : MayInv a g) (hMust : MustInv a g) :
    MayInv a g' ∧ MustInv a g' := by
  cases hst with
  | start e _ he =>
    constructor
    · intro s t hs
      obtain ⟨n, hn, hm⟩ := hMay s t hs
      refine ⟨n, ?_, hm⟩
      show (g.pcs ++ [e])[t]? = some n
      rw [List.getElem?_append_left (lt_of_getElem? hn)]; exact hn
    · intro t n hn s hs
      show g.slot s = some t
      have hn : (g.pcs ++ [e])[t]? = some n := hn
      rw [List.getElem?_append] at hn
      split at hn
      · exact hMust t n hn s hs
      · have : n = e := by
          cases hk : t - g.pcs.length with
          | zero => rw [hk] at hn; simp at hn; exact hn.symm
          | succ k => rw [hk] at hn; simp at hn
        rw [this, hC.entries e he] at hs; cases hs
  | thread t' n' _ _ hpc hts =>
    have hlt : n' < P.code.length := by
      rcases Nat.lt_or_ge n' P.code.length with h | h
      · exact h
      · rw [at_of_ge P n' h] at hts; cases hts
    have hc := hC.node n' hlt
    have ht' : t' < g.pcs.length := lt_of_getElem? hpc
    have hex : ∀ s0, S.lockOf s0 ∈ held c n' →
        ∀ (t n : Nat), t ≠ t' → g.pcs[t]? = some n → s0 ∉ mustAt a n := by
      intro s0 hl t n hne hn hs
      exact hne (Lockset.exclusive P c hC.ls g hr t t' n n' (S.lockOf s0) hn hpc
        (must_holds_lock hC n s0 hs) hl)
    generalize hi : P.at n' = i at hts
    cases hts <;>
      simp only [checkNode, hi, Bool.and_eq_true, List.all_eq_true, List.contains_iff_mem,
        sub_iff, Instr.succs, List.mem_cons, List.not_mem_nil, or_false, forall_eq_or_imp,
        forall_eq, List.isEmpty_iff] at hc
    case lockOk => plain hc.2.1.1, hc.2.1.2
    case tryYes => plain hc.2.1.1, hc.2.1.2
    case lockErr => plain hc.2.2.1, hc.2.2.2
    case tryNo => plain hc.2.2.1, hc.2.2.2
    case forceLock => plain hc.2.1, hc.2.2
    case set => plain hc.2.1, hc.2.2
    case signal => plain hc.2.1, hc.2.2
    case testT => plain hc.2.1.1, hc.2.1.2
    case casWon => plain hc.2.1.1, hc.2.1.2
    case awaitOk => plain hc.2.1.1, hc.2.1.2
    case testF => plain hc.2.2.1, hc.2.2.2
    case casLost => plain hc.2.2.1, hc.2.2.2
    case awaitTimeout => plain hc.2.2.1, hc.2.2.2
    case unlock => plain hc.2.1, (fun z hz => (List.mem_filter.1 (hc.2.2 z hz)).1)
    case wrOk => plain hc.2.1.1.1.2, hc.2.1.2
    case ioOk => plain hc.2.1.1.1.2, hc.2.1.2
    case wrErr => plain hc.2.1.1.2, hc.2.2
    case ioErr => plain hc.2.1.1.2, hc.2.2
    case armClosed => plain hc.2.1.2, hc.2.2
    case branch hmem => plain (hc.2 _ hmem).1, (hc.2 _ hmem).2
    case spawn =>
      exact ⟨may_plain hMay hpc hc.2.1.2 rfl (moved_spawn a g.pcs t' _ _ ht' hc.2.1.1),
        must_plain hMust hpc hc.2.2 rfl (moved_spawn a g.pcs t' _ _ ht' hc.2.1.1)⟩
    case armOk s0 own ok cl =>
      obtain ⟨_, ⟨⟨hl, hif⟩, _⟩, _⟩ := hc
      have hM := moved_set a g.pcs t' ok ht'
      cases own with
      | true =>
        simp [sub_iff] at hif
        obtain ⟨⟨h1, h2⟩, h3⟩ := hif
        exact ⟨may_arm hMay hpc rfl hM (fun x hx _ => h1 x hx) (fun _ => h2),
          must_arm hMust hpc rfl hM (fun x hx hne => (h3 x hx).resolve_left hne)
            (fun h => by cases h) (hex s0 hl)⟩
      | false =>
        simp [sub_iff] at hif
        obtain ⟨⟨h1, h2⟩, h3⟩ := hif
        exact ⟨may_arm hMay hpc rfl hM
            (fun x hx hne => h1 x ((List.mem_erase_of_ne hne).2 hx)) (fun h => by cases h),
          must_arm hMust hpc rfl hM (fun x hx _ => List.mem_of_mem_erase (h2 x hx))
            (fun _ => h3) (hex s0 hl)⟩

theorem invs {S : Spec} {P : Prog} {c : Cert} {a : Ann} (hC : Checked S P c a)
    (g : G) (hr : Reach P g) : MayInv a g ∧ MustInv a g := by
  induction hr with
  | init =>
    constructor
    · intro s t hs; simp [G.boot, G.init] at hs
    · intro t n hn s hs
      have hn : P.boot[t]? = some n := hn
      rw [hC.boot n (List.mem_of_getElem? hn)] at hs; cases hs
  | step g g' hr hst ih => exact step_inv hC g g' hr hst ih.1 ih.2

/-- **a finished call's context is in no slot** (so cancelling it later cannot close the connection),
for every program that checks, every number of threads and every interleaving. -/
theorem finished_not_armed (S : Spec) (P : Prog) (c : Cert) (a : Ann) (h : check S P c a = true)
    (g : G) (hr : Reach P g) (t n : Nat) (hn : g.pcs[t]? = some n) (hd : P.at n = .done true)
    (hex : S.exempt.contains n = false) :
    ∀ s, g.slot s ≠ some t := by
  have hC := checked_of_check h
  intro s hs
  obtain ⟨n1, hn1, hm⟩ := (invs hC g hr).1 s t hs
  rw [hn] at hn1; cases hn1
  have hlt : n < P.code.length := by
    rcases Nat.lt_or_ge n P.code.length with h' | h'
    · exact h'
    · rw [at_of_ge P n h'] at hd; cases hd
  have hc := hC.node n hlt
  simp [checkNode, hd] at hc
  have hc2 := hc.2
  rcases hc2 with hc2 | hc2
  · rw [hc2] at hm; cases hm
  · simp at hex; exact absurd hc2 hex

/-- **a call blocked in transport I/O has its own context armed** in the slot the timeout goroutine
watches for that direction. -/
theorem blocked_has_own_ctx (S : Spec) (P : Prog) (c : Cert) (a : Ann) (h : check S P c a = true)
    (g : G) (hr : Reach P g) (t n : Nat) (hn : g.pcs[t]? = some n) :
    (∀ ok err, P.at n = .io ok err → g.slot S.readSlot = some t) ∧
    (∀ k ok err, P.at n = .wr k ok err → g.slot S.writeSlot = some t) := by
  have hC := checked_of_check h
  have hMust := (invs hC g hr).2
  constructor
  · intro ok err hi
    have hlt : n < P.code.length := by
      rcases Nat.lt_or_ge n P.code.length with h' | h'
      · exact h'
      · rw [at_of_ge P n h'] at hi; cases hi
    have hc := hC.node n hlt
    simp [checkNode, hi] at hc
    exact hMust t n hn _ hc.2.1.1.1.1
  · intro k ok err hi
    have hlt : n < P.code.length := by
      rcases Nat.lt_or_ge n P.code.length with h' | h'
      · exact h'
      · rw [at_of_ge P n h'] at hi; cases hi
    have hc := hC.node n hlt
    simp [checkNode, hi] at hc
    exact hMust t n hn _ hc.2.1.1.1.1

end WS.CIR.Arming
