import WS.CIR.Core
/-
  Trace validation: the thread-local observable behaviour of a CIR program.

  The Go code, built with the `verif` tag, reports an event at each synchronisation point that
  succeeds (lock acquired, lock released, timeout slot armed, frame begun / ended, transport read
  done, flag set, compare-and-swap won, goroutine spawned, channel closed, channel awaited).  Failures
  (a lock attempt that gives up, a failed write, ...) and data-dependent choices are not reported:
  they are silent moves here.  `lsuccs` gives, per instruction, the labelled thread-local moves;
  `Run` is the path relation; `accepts` is the executable acceptor used by the correspondence check
  (harness `cirtrace` runner → driver command `cirtrace`), and `accepts_sound` says that an accepted
  event sequence is the observation of a path of the program that follows the instructions' static
  successors — i.e. of the program counter of one thread in the interleaving semantics of `Core`.
-/
namespace WS.CIR.Trace
open WS.CIR

inductive Ev
  | lock (m : Nat) | forceLock (m : Nat) | tryLock (m : Nat) | unlock (m : Nat)
  | set (f : Nat) | cas (f : Nat)
  | wrBegin (cls : Nat) | wrEnd (cls : Nat)
  | arm (slot : Nat) (own : Bool)
  | io | spawn | signal (ch : Nat) | await (ch : Nat)
  deriving DecidableEq, Repr, Inhabited

/-- Which operands are instrumented in the Go code (the others are silent). -/
structure Cfg where
  lockObs : Nat → Bool      -- channel mutexes are instrumented, the sync.Mutex `closeMu` is not
  setObs : Nat → Bool
  casObs : Nat → Bool
  sigObs : Nat → Bool
  awaitObs : Nat → Bool

/-- labelled thread-local moves of an instruction: `some e` = reported event, `none` = silent. -/
def lsuccs (c : Cfg) : Instr → List (Option Ev × Node)
  | .lock m ok err => [(if c.lockObs m then some (.lock m) else none, ok), (none, err)]
  | .forceLock m n => [(if c.lockObs m then some (.forceLock m) else none, n)]
  | .tryLock m y n => [(if c.lockObs m then some (.tryLock m) else none, y), (none, n)]
  | .unlock m n => [(if c.lockObs m then some (.unlock m) else none, n)]
  | .test _ a b => [(none, a), (none, b)]
  | .set f _ n => [(if c.setObs f then some (.set f) else none, n)]
  | .cas f w l => [(if c.casObs f then some (.cas f) else none, w), (none, l)]
  | .wr k ok err =>
      let piece := k % 10
      let cls := k / 10
      [(if piece = 0 then some (.wrBegin cls) else if piece = 2 then some (.wrEnd cls) else none, ok), (none, err)]
  | .arm s own ok cl => [(some (.arm s own), ok), (none, cl)]
  | .io ok err => [(some .io, ok), (none, err)]
  | .spawn _ n => [(some .spawn, n)]
  | .signal ch n => [(if c.sigObs ch then some (.signal ch) else none, n)]
  | .await ch ok to => [(if c.awaitObs ch then some (.await ch) else none, ok), (none, to)]
  | .branch ss => ss.map (fun n => (none, n))
  | .done _ => []

/-- every labelled move follows a static successor of the instruction. -/
theorem lsuccs_static (c : Cfg) (i : Instr) (oe : Option Ev) (n : Node) :
    (oe, n) ∈ lsuccs c i → n ∈ i.succs := by
  cases i <;> simp [lsuccs, Instr.succs] <;> grind

/-- thread-local paths with their observation. -/
inductive Run (c : Cfg) (P : Prog) : Node → List Ev → Node → Prop
  | nil (n) : Run c P n [] n
  | silent (n m k evs) : (none, m) ∈ lsuccs c (P.at n) → Run c P m evs k → Run c P n evs k
  | obs (n m k e evs) : (some e, m) ∈ lsuccs c (P.at n) → Run c P m evs k → Run c P n (e :: evs) k

theorem Run.trans {c : Cfg} {P : Prog} {a b d : Node} {e1 e2 : List Ev}
    (h1 : Run c P a e1 b) (h2 : Run c P b e2 d) : Run c P a (e1 ++ e2) d := by
  induction h1 with
  | nil n => simpa using h2
  | silent n m k evs hm _ ih => exact Run.silent n m d _ hm (ih h2)
  | obs n m k e evs hm _ ih => exact Run.obs n m d e _ hm (ih h2)

/-! ### the executable acceptor -/

def silentSuccs (c : Cfg) (P : Prog) (n : Node) : List Node :=
  (lsuccs c (P.at n)).filterMap (fun p => if p.1.isNone then some p.2 else none)

def obsSuccs (c : Cfg) (P : Prog) (e : Ev) (n : Node) : List Node :=
  (lsuccs c (P.at n)).filterMap (fun p => if p.1 = some e then some p.2 else none)

def addNew (acc : List Node) (xs : List Node) : List Node :=
  xs.foldl (fun a x => if a.contains x then a else a ++ [x]) acc

/-- silent closure: `fuel` rounds of adding silent successors (stops early when nothing is new). -/
def closure (c : Cfg) (P : Prog) : Nat → List Node → List Node
  | 0, S => S
  | fuel + 1, S =>
      let S' := addNew S (S.flatMap (silentSuccs c P))
      if S'.length = S.length then S else closure c P fuel S'

def stepSet (c : Cfg) (P : Prog) (S : List Node) (e : Ev) : List Node :=
  closure c P P.code.length (addNew [] (S.flatMap (obsSuccs c P e)))

def runSet (c : Cfg) (P : Prog) (S : List Node) : List Ev → List Node
  | [] => S
  | e :: es => runSet c P (stepSet c P S e) es

def start (c : Cfg) (P : Prog) (entries : List Node) : List Node :=
  closure c P P.code.length (addNew [] entries)

/-- how the observed thread ended: still running, or returned (ok / error). -/
inductive Fin | running | ok | err
  deriving DecidableEq, Repr

def finOk (P : Prog) (S : List Node) : Fin → Bool
  | .running => !S.isEmpty
  | .ok => S.any (fun n => P.at n == .done true)
  | .err => S.any (fun n => P.at n == .done false)

def accepts (c : Cfg) (P : Prog) (entries : List Node) (evs : List Ev) (fin : Fin) : Bool :=
  finOk P (runSet c P (start c P entries) evs) fin

/-- index of the first event at which the state set becomes empty (for the report). -/
def firstReject (c : Cfg) (P : Prog) : List Node → List Ev → Nat → Option Nat
  | _, [], _ => none
  | S, e :: es, i =>
      let S' := stepSet c P S e
      if S'.isEmpty then some i else firstReject c P S' es (i + 1)

/-! ### soundness -/

/-- `Good S`: every node of `S` is reached from one of `entries` by a path observing `evs`. -/
def Good (c : Cfg) (P : Prog) (entries : List Node) (evs : List Ev) (S : List Node) : Prop :=
  ∀ k ∈ S, ∃ e ∈ entries, Run c P e evs k

theorem mem_addNew {acc xs : List Node} {k : Node} : k ∈ addNew acc xs → k ∈ acc ∨ k ∈ xs := by
  unfold addNew
  induction xs generalizing acc with
  | nil => intro h; exact Or.inl (by simpa using h)
  | cons x xs ih =>
    intro h
    simp only [List.foldl_cons] at h
    rcases ih h with h1 | h1
    · by_cases hc : x ∈ acc
      · simp [hc] at h1; exact Or.inl h1
      · simp [hc] at h1
        rcases h1 with h1 | h1
        · exact Or.inl h1
        · exact Or.inr (by simp [h1])
    · exact Or.inr (by simp [h1])

theorem mem_silentSuccs {c : Cfg} {P : Prog} {n k : Node} :
    k ∈ silentSuccs c P n → (none, k) ∈ lsuccs c (P.at n) := by
  unfold silentSuccs
  simp only [List.mem_filterMap]
  rintro ⟨⟨oe, m⟩, hm, h⟩
  cases oe with
  | none => simp at h; subst h; exact hm
  | some e => simp at h

theorem mem_obsSuccs {c : Cfg} {P : Prog} {e : Ev} {n k : Node} :
    k ∈ obsSuccs c P e n → (some e, k) ∈ lsuccs c (P.at n) := by
  unfold obsSuccs
  simp only [List.mem_filterMap]
  rintro ⟨⟨oe, m⟩, hm, h⟩
  by_cases hh : oe = some e
  · simp [hh] at h; subst h; subst hh; exact hm
  · simp [hh] at h

theorem run_snoc_silent {c : Cfg} {P : Prog} {a n k : Node} {evs : List Ev}
    (h : Run c P a evs n) (hk : (none, k) ∈ lsuccs c (P.at n)) : Run c P a evs k := by
  have := Run.trans h (Run.silent n k k [] hk (Run.nil k))
  simpa using this

theorem run_snoc_obs {c : Cfg} {P : Prog} {a n k : Node} {evs : List Ev} {e : Ev}
    (h : Run c P a evs n) (hk : (some e, k) ∈ lsuccs c (P.at n)) : Run c P a (evs ++ [e]) k :=
  Run.trans h (Run.obs n k k e [] hk (Run.nil k))

theorem good_closure {c : Cfg} {P : Prog} {entries : List Node} {evs : List Ev} (fuel : Nat) (S : List Node)
    (h : Good c P entries evs S) : Good c P entries evs (closure c P fuel S) := by
  induction fuel generalizing S with
  | zero => simpa [closure] using h
  | succ fuel ih =>
    simp only [closure]
    split
    · exact h
    · apply ih
      intro k hk
      rcases mem_addNew hk with hk | hk
      · exact h k hk
      · simp only [List.mem_flatMap] at hk
        obtain ⟨n, hn, hkn⟩ := hk
        obtain ⟨e, he, hr⟩ := h n hn
        exact ⟨e, he, run_snoc_silent hr (mem_silentSuccs hkn)⟩

theorem good_start (c : Cfg) (P : Prog) (entries : List Node) :
    Good c P entries [] (start c P entries) := by
  apply good_closure
  intro k hk
  rcases mem_addNew hk with hk | hk
  · simp at hk
  · exact ⟨k, hk, Run.nil k⟩

theorem good_step {c : Cfg} {P : Prog} {entries : List Node} {evs : List Ev} {S : List Node} (e : Ev)
    (h : Good c P entries evs S) : Good c P entries (evs ++ [e]) (stepSet c P S e) := by
  apply good_closure
  intro k hk
  rcases mem_addNew hk with hk | hk
  · simp at hk
  · simp only [List.mem_flatMap] at hk
    obtain ⟨n, hn, hkn⟩ := hk
    obtain ⟨a, ha, hr⟩ := h n hn
    exact ⟨a, ha, run_snoc_obs hr (mem_obsSuccs hkn)⟩

theorem good_runSet {c : Cfg} {P : Prog} {entries : List Node} (evs0 evs : List Ev) (S : List Node)
    (h : Good c P entries evs0 S) : Good c P entries (evs0 ++ evs) (runSet c P S evs) := by
  induction evs generalizing evs0 S with
  | nil => simpa [runSet] using h
  | cons e es ih =>
    simp only [runSet]
    have := ih (evs0 ++ [e]) _ (good_step e h)
    simpa using this

/-- **Soundness of the acceptor.**  If a finished thread's event sequence is accepted, the program has
a thread-local path from one of the entries whose observation is exactly that sequence and which ends
in the `done` node of the reported outcome. -/
theorem accepts_sound_ok (c : Cfg) (P : Prog) (entries : List Node) (evs : List Ev)
    (h : accepts c P entries evs .ok = true) :
    ∃ e ∈ entries, ∃ k, Run c P e evs k ∧ P.at k = .done true := by
  unfold accepts finOk at h
  simp only [List.any_eq_true] at h
  obtain ⟨k, hk, hd⟩ := h
  obtain ⟨e, he, hr⟩ := (good_runSet [] evs _ (good_start c P entries)) k hk
  exact ⟨e, he, k, by simpa using hr, by simpa using hd⟩

theorem accepts_sound_err (c : Cfg) (P : Prog) (entries : List Node) (evs : List Ev)
    (h : accepts c P entries evs .err = true) :
    ∃ e ∈ entries, ∃ k, Run c P e evs k ∧ P.at k = .done false := by
  unfold accepts finOk at h
  simp only [List.any_eq_true] at h
  obtain ⟨k, hk, hd⟩ := h
  obtain ⟨e, he, hr⟩ := (good_runSet [] evs _ (good_start c P entries)) k hk
  exact ⟨e, he, k, by simpa using hr, by simpa using hd⟩

theorem accepts_sound_running (c : Cfg) (P : Prog) (entries : List Node) (evs : List Ev)
    (h : accepts c P entries evs .running = true) :
    ∃ e ∈ entries, ∃ k, Run c P e evs k := by
  unfold accepts finOk at h
  simp only [Bool.not_eq_true', List.isEmpty_eq_false_iff_exists_mem] at h
  obtain ⟨k, hk⟩ := h
  obtain ⟨e, he, hr⟩ := (good_runSet [] evs _ (good_start c P entries)) k hk
  exact ⟨e, he, k, by simpa using hr⟩

/-- A path of `Run` moves along static successors only: each node on it is reachable in the control-flow
graph of the program, which is the graph all certificates (`Lockset`, `Bracket`, ...) are stated over. -/
inductive CFPath (P : Prog) : Node → Node → Prop
  | refl (n) : CFPath P n n
  | step (n m k) : m ∈ (P.at n).succs → CFPath P m k → CFPath P n k

theorem run_cfpath {c : Cfg} {P : Prog} {a k : Node} {evs : List Ev} (h : Run c P a evs k) : CFPath P a k := by
  induction h with
  | nil n => exact CFPath.refl n
  | silent n m k _ hm _ ih => exact CFPath.step n m k (lsuccs_static c _ _ _ hm) ih
  | obs n m k e _ hm _ ih => exact CFPath.step n m k (lsuccs_static c _ _ _ hm) ih

end WS.CIR.Trace
