/-
  Basic definitions shared by every model: byte strings and the hex codec used by the
  driver's line protocol.  Core Lean only (no Mathlib) so that the driver links.
-/
namespace WS

abbrev Bytes := List UInt8

def hexDigit (n : Nat) : Char :=
  if n < 10 then Char.ofNat (48 + n) else Char.ofNat (87 + n)

def hexOfByte (b : UInt8) : String :=
  String.ofList [hexDigit (b.toNat / 16), hexDigit (b.toNat % 16)]

/-- hex rendering; the empty byte string is rendered as "-" so that it stays a token. -/
def toHex (b : Bytes) : String :=
  if b.isEmpty then "-" else String.join (b.map hexOfByte)

def hexVal (c : Char) : Option Nat :=
  if '0' ≤ c ∧ c ≤ '9' then some (c.toNat - 48)
  else if 'a' ≤ c ∧ c ≤ 'f' then some (c.toNat - 87)
  else if 'A' ≤ c ∧ c ≤ 'F' then some (c.toNat - 55)
  else none

def ofHexAux : List Char → Bytes → Option Bytes
  | [], acc => some acc.reverse
  | [_], _ => none
  | a :: b :: rest, acc =>
    match hexVal a, hexVal b with
    | some x, some y => ofHexAux rest (UInt8.ofNat (16 * x + y) :: acc)
    | _, _ => none

def ofHex (s : String) : Option Bytes :=
  if s == "-" then some [] else ofHexAux s.toList []

end WS
