import Lean
/-
  `#audit_props Ns` prints, for every theorem whose name starts with `Ns`, the axioms it
  depends on (one line per theorem: `AUDIT <name> [axioms]`), and every non-theorem
  `Prop`-valued definition as `STATEMENT <name>` (full-strength statements kept visible but
  not proved).  /verif/bin/check parses this output.
-/
open Lean Elab Command Meta

elab "#audit_props " ns:ident : command => do
  let env ← getEnv
  let pre := ns.getId
  let mut lines : Array String := #[]
  for (n, ci) in env.constants.toList do
    if pre.isPrefixOf n && !n.isInternalDetail then
      match ci with
      | .thmInfo _ =>
        let axs ← liftCoreM (collectAxioms n)
        let l := axs.toList.map toString
        lines := lines.push s!"AUDIT {n} {l}"
      | .defnInfo d =>
        let isProp ← liftTermElabM do
          try
            let t ← inferType d.type
            pure (d.type.isProp || (← whnf d.type).isProp || t.isProp && false)
          catch _ => pure false
        if isProp then lines := lines.push s!"STATEMENT {n}"
      | _ => pure ()
  for l in lines.qsort (· < ·) do
    logInfo l
