/-
  Model of the timeout goroutine (conn.go: Conn.timeoutLoop).

  Go:
    readCtx, writeCtx := context.Background(), context.Background()
    for { select {
      case <-c.closed:                     return
      case writeCtx = <-c.writeTimeout:
      case readCtx  = <-c.readTimeout:
      case <-readCtx.Done():               c.close(); return
      case <-writeCtx.Done():              c.close(); return } }

  Contexts are numbers; `none` is context.Background() (never done). The senders on the two channels
  also select on c.closed, so nothing is received once the connection is closed.

  The model is the *settled* semantics: after every event the loop has reacted before the next event
  happens (events separated in time). When a cancellation and a hand-over happen at the same instant
  the runtime may serve either first; that race is the business of the CIR arming certificate (a call
  hands its context over before it blocks and takes it back only after it succeeded), not of this model.
-/
namespace WS.Model.Timeout

structure St where
  readCtx : Option Nat
  writeCtx : Option Nat
  done : List Nat       -- contexts that are cancelled or expired
  closed : Bool         -- the connection is closed (by the loop or by someone else); the loop has returned
  deriving Repr, DecidableEq

def init : St := ⟨none, none, [], false⟩

inductive Ev
  | armRead (c : Option Nat)     -- a value arrives on c.readTimeout
  | armWrite (c : Option Nat)    -- a value arrives on c.writeTimeout
  | cancel (id : Nat)            -- context `id` becomes done
  | connClosed                   -- somebody else closes the connection
  deriving Repr, DecidableEq

def isDone (done : List Nat) : Option Nat → Bool
  | none => false
  | some id => done.contains id

/-- one of the two armed contexts is done: the loop closes the connection. -/
def fires (s : St) : Bool := isDone s.done s.readCtx || isDone s.done s.writeCtx

def settle (s : St) : St := if fires s then { s with closed := true } else s

def step (s : St) (e : Ev) : St :=
  if s.closed then
    match e with
    | .cancel id => { s with done := id :: s.done }
    | _ => s
  else
    match e with
    | .armRead c => settle { s with readCtx := c }
    | .armWrite c => settle { s with writeCtx := c }
    | .cancel id => settle { s with done := id :: s.done }
    | .connClosed => { s with closed := true }

def run (es : List Ev) (s : St) : St := es.foldl step s

/-- the closed flag after each event of a program (what the harness observes). -/
def trace : List Ev → St → List Bool
  | [], _ => []
  | e :: es, s => (step s e).closed :: trace es (step s e)

/-! a loop with ONE slot for both directions (the shape of a plausible "simplification"), kept as a
counter-model -/
structure St1 where
  ctx : Option Nat
  done : List Nat
  closed : Bool
  deriving Repr, DecidableEq

def step1 (s : St1) (e : Ev) : St1 :=
  let settle1 (s : St1) : St1 :=
    if (match s.ctx with | none => false | some id => s.done.contains id) then { s with closed := true } else s
  if s.closed then s else
    match e with
    | .armRead c => settle1 { s with ctx := c }
    | .armWrite c => settle1 { s with ctx := c }
    | .cancel id => settle1 { s with done := id :: s.done }
    | .connClosed => { s with closed := true }

end WS.Model.Timeout
