/-
  A small DSL for the *decision skeleton* of a Go function: its `if` / `switch` / `return` structure over
  boolean atoms (struct fields, flags, opaque conditions such as `err != nil`) and integer atoms compared
  with constants, with calls that have effects kept as named actions.  /verif/extract regenerates programs
  in this DSL from read.go and write.go (WS/Gen/Guards.lean); WS/Props/Guards.lean compares them with the
  hand-written models on *every* valuation of the atoms (finite: `decide`), so the comparison is semantic —
  any equivalent re-writing of the Go conditions is accepted, any change of their meaning is not.
-/
namespace WS.Model.Guard

inductive GExp
  | tt | ff
  | v (name : String)                       -- boolean atom
  | eq (name : String) (k : Int) | ne (name : String) (k : Int)
  | lt (name : String) (k : Int) | le (name : String) (k : Int)
  | gt (name : String) (k : Int) | ge (name : String) (k : Int)
  | not (a : GExp) | and (a b : GExp) | or (a b : GExp)
  | call (fn : String)                      -- boolean helper function of the package
  | unknown (src : String)
  deriving Repr, Inhabited

inductive GStmt
  | ifThen (c : GExp) (body : List GStmt)
  | ifElse (c : GExp) (a b : List GStmt)
  | switchOn (name : String) (cases : List (List Int × List GStmt)) (dflt : List GStmt)
  | ret (what : String)                     -- "true" | "false" | "ok" | "err"
  | retExp (c : GExp)                       -- `return <boolean expression>`
  | act (what : String)                     -- a call with effects
  | assign (name : String) (c : GExp)       -- assignment to a tracked boolean variable
  | scope (var : String) (body : List GStmt) -- a helper of the package rendered in place of `var := helper(…)`: its returns end the
                                            -- body only, and an error result decides `var!=nil`
  | opaque (what : String)                  -- not interpreted (select, …): evaluation stops here
  | skip
  | unknown (src : String)
  deriving Repr, Inhabited

abbrev GProg := List GStmt

structure Env where
  b : String → Option Bool                  -- boolean atoms (none = not an atom of this comparison)
  i : String → Option Int                   -- integer atoms
  fn : String → Option GProg                -- boolean helpers
  pass : String → Bool := fun _ => false    -- opaque statements to step over (as if they succeeded)
  obs : String → List String := fun _ => [] -- per action: the tracked variables whose current values are recorded with it

inductive Out
  | ret (what : String)
  | opaque (what : String)
  | fell                                    -- fell off the end (a loop body: next iteration)
  | stuck (why : String)                    -- unknown construct / unknown atom / out of fuel
  deriving Repr, DecidableEq, Inhabited

structure Res where
  acts : List String
  out : Out
  deriving Repr, DecidableEq, Inhabited

abbrev Store := String → Option Bool

def Store.set (st : Store) (n : String) (v : Bool) : Store := fun x => if x = n then some v else st x

def showB (b : Option Bool) : String := match b with | some true => "true" | some false => "false" | none => "?"

/-- an action as recorded: its name and the current values of the variables observed with it. -/
def actLabel (env : Env) (st : Store) (w : String) : String :=
  match env.obs w with
  | [] => w
  | ns => w ++ "[" ++ ",".intercalate (ns.map (fun n => n ++ "=" ++ showB (st n))) ++ "]"

mutual
/-- boolean expressions; `none` = stuck (unknown construct, unknown atom, out of fuel). -/
def evalE (env : Env) (st : Store) : Nat → GExp → Option Bool
  | 0, _ => none
  | f + 1, e =>
    match e with
    | .tt => some true
    | .ff => some false
    | .v n => st n
    | .eq n k => (env.i n).map (fun x => decide (x = k))
    | .ne n k => (env.i n).map (fun x => decide (x ≠ k))
    | .lt n k => (env.i n).map (fun x => decide (x < k))
    | .le n k => (env.i n).map (fun x => decide (x ≤ k))
    | .gt n k => (env.i n).map (fun x => decide (x > k))
    | .ge n k => (env.i n).map (fun x => decide (x ≥ k))
    | .not a => (evalE env st f a).map (!·)
    | .and a b =>
        match evalE env st f a with
        | some false => some false           -- Go's && does not evaluate the right operand
        | some true => evalE env st f b
        | none => none
    | .or a b =>
        match evalE env st f a with
        | some true => some true
        | some false => evalE env st f b
        | none => none
    | .call fn =>
        match env.fn fn with
        | none => none
        | some p =>
          match (evalS env st f p).1 with
          | ⟨_, .ret "true"⟩ => some true
          | ⟨_, .ret "false"⟩ => some false
          | _ => none
    | .unknown _ => none

/-- statement lists: the actions performed, how evaluation ends, and the tracked variables afterwards. -/
def evalS (env : Env) (st : Store) : Nat → List GStmt → Res × Store
  | _, [] => (⟨[], .fell⟩, st)
  | 0, _ :: _ => (⟨[], .stuck "fuel"⟩, st)
  | f + 1, s :: rest =>
    let cont (r : Res × Store) : Res × Store :=
      match r.1.out with
      | .fell => let r2 := evalS env r.2 f rest; (⟨r.1.acts ++ r2.1.acts, r2.1.out⟩, r2.2)
      | _ => r
    match s with
    | .ifThen c body =>
        match evalE env st f c with
        | some true => cont (evalS env st f body)
        | some false => evalS env st f rest
        | none => (⟨[], .stuck "condition"⟩, st)
    | .ifElse c a b =>
        match evalE env st f c with
        | some true => cont (evalS env st f a)
        | some false => cont (evalS env st f b)
        | none => (⟨[], .stuck "condition"⟩, st)
    | .switchOn n cases dflt =>
        match env.i n with
        | none => (⟨[], .stuck "switch tag"⟩, st)
        | some x =>
          match cases.find? (fun c => c.1.contains x) with
          | some c => cont (evalS env st f c.2)
          | none => cont (evalS env st f dflt)
    | .ret w => (⟨[], .ret w⟩, st)
    | .retExp c =>
        match evalE env st f c with
        | some true => (⟨[], .ret "true"⟩, st)
        | some false => (⟨[], .ret "false"⟩, st)
        | none => (⟨[], .stuck "condition"⟩, st)
    | .act w => let r2 := evalS env st f rest; (⟨actLabel env st w :: r2.1.acts, r2.1.out⟩, r2.2)
    | .assign n c =>
        match evalE env st f c with
        | some v => evalS env (st.set n v) f rest
        | none => (⟨[], .stuck "assignment"⟩, st)
    | .scope var body =>
        let r := evalS env st f body
        let go (st' : Store) : Res × Store :=
          let r2 := evalS env st' f rest
          (⟨r.1.acts ++ r2.1.acts, r2.1.out⟩, r2.2)
        match r.1.out with
        | .fell => go r.2
        | .ret w =>
            if w = "err" then go (r.2.set (var ++ "!=nil") true)
            else if w = "ok" then go (r.2.set (var ++ "!=nil") false)
            else if w = "true" then go (r.2.set var true)
            else if w = "false" then go (r.2.set var false)
            else go r.2
        | _ => r
    | .opaque w => if env.pass w then evalS env st f rest else (⟨[], .opaque w⟩, st)
    | .skip => evalS env st f rest
    | .unknown src => (⟨[], .stuck src⟩, st)
end

def run (env : Env) (p : GProg) : Res := (evalS env env.b 64 p).1

/-- all boolean valuations of a list of names. -/
def boolEnvs : List String → List (String → Option Bool)
  | [] => [fun _ => none]
  | n :: ns => (boolEnvs ns).flatMap (fun e => [fun x => if x = n then some false else e x, fun x => if x = n then some true else e x])

end WS.Model.Guard
