/-
  A small DSL for the *decision skeleton* of a Go function: its `if` / `switch` / `return` structure over
  boolean atoms (struct fields, flags, opaque conditions such as `err != nil`) and integer atoms compared
  with constants, with calls that have effects kept as named actions.  /verif/extract regenerates programs
  in this DSL from read.go and write.go (WS/Gen/Guards.lean); WS/Props/Guards.lean compares them with the
  hand-written models on *every* valuation of the atoms (finite: `decide`), so the comparison is semantic —
  any equivalent re-writing of the Go conditions is accepted, any change of their meaning is not.
-/
namespace WS.Model.Guard

inductive GExp
  | tt | ff
  | v (name : String)                       -- boolean atom
  | eq (name : String) (k : Int) | ne (name : String) (k : Int)
  | lt (name : String) (k : Int) | le (name : String) (k : Int)
  | gt (name : String) (k : Int) | ge (name : String) (k : Int)
  | not (a : GExp) | and (a b : GExp) | or (a b : GExp)
  | call (fn : String)                      -- boolean helper function of the package
  | unknown (src : String)
  deriving Repr, Inhabited

inductive GStmt
  | ifThen (c : GExp) (body : List GStmt)
  | ifElse (c : GExp) (a b : List GStmt)
  | switchOn (name : String) (cases : List (List Int × List GStmt)) (dflt : List GStmt)
  | ret (what : String)                     -- "true" | "false" | "ok" | "err"
  | retExp (c : GExp)                       -- `return <boolean expression>`
  | act (what : String)                     -- a call with effects
  | opaque (what : String)                  -- not interpreted (select, …): evaluation stops here
  | skip
  | unknown (src : String)
  deriving Repr, Inhabited

abbrev GProg := List GStmt

structure Env where
  b : String → Option Bool                  -- boolean atoms (none = not an atom of this comparison)
  i : String → Option Int                   -- integer atoms
  fn : String → Option GProg                -- boolean helpers
  pass : String → Bool := fun _ => false    -- opaque statements to step over (as if they succeeded)

inductive Out
  | ret (what : String)
  | opaque (what : String)
  | fell                                    -- fell off the end (a loop body: next iteration)
  | stuck (why : String)                    -- unknown construct / unknown atom / out of fuel
  deriving Repr, DecidableEq, Inhabited

structure Res where
  acts : List String
  out : Out
  deriving Repr, DecidableEq, Inhabited

mutual
/-- boolean expressions; `none` = stuck (unknown construct, unknown atom, out of fuel). -/
def evalE (env : Env) : Nat → GExp → Option Bool
  | 0, _ => none
  | f + 1, e =>
    match e with
    | .tt => some true
    | .ff => some false
    | .v n => env.b n
    | .eq n k => (env.i n).map (fun x => decide (x = k))
    | .ne n k => (env.i n).map (fun x => decide (x ≠ k))
    | .lt n k => (env.i n).map (fun x => decide (x < k))
    | .le n k => (env.i n).map (fun x => decide (x ≤ k))
    | .gt n k => (env.i n).map (fun x => decide (x > k))
    | .ge n k => (env.i n).map (fun x => decide (x ≥ k))
    | .not a => (evalE env f a).map (!·)
    | .and a b =>
        match evalE env f a with
        | some false => some false           -- Go's && does not evaluate the right operand
        | some true => evalE env f b
        | none => none
    | .or a b =>
        match evalE env f a with
        | some true => some true
        | some false => evalE env f b
        | none => none
    | .call fn =>
        match env.fn fn with
        | none => none
        | some p =>
          match evalS env f p with
          | ⟨_, .ret "true"⟩ => some true
          | ⟨_, .ret "false"⟩ => some false
          | _ => none
    | .unknown _ => none

/-- statement lists: the actions performed and how evaluation ends. -/
def evalS (env : Env) : Nat → List GStmt → Res
  | _, [] => ⟨[], .fell⟩
  | 0, _ :: _ => ⟨[], .stuck "fuel"⟩
  | f + 1, s :: rest =>
    let cont (r : Res) : Res :=
      match r.out with
      | .fell => let r2 := evalS env f rest; ⟨r.acts ++ r2.acts, r2.out⟩
      | _ => r
    match s with
    | .ifThen c body =>
        match evalE env f c with
        | some true => cont (evalS env f body)
        | some false => evalS env f rest
        | none => ⟨[], .stuck "condition"⟩
    | .ifElse c a b =>
        match evalE env f c with
        | some true => cont (evalS env f a)
        | some false => cont (evalS env f b)
        | none => ⟨[], .stuck "condition"⟩
    | .switchOn n cases dflt =>
        match env.i n with
        | none => ⟨[], .stuck "switch tag"⟩
        | some x =>
          match cases.find? (fun c => c.1.contains x) with
          | some c => cont (evalS env f c.2)
          | none => cont (evalS env f dflt)
    | .ret w => ⟨[], .ret w⟩
    | .retExp c =>
        match evalE env f c with
        | some true => ⟨[], .ret "true"⟩
        | some false => ⟨[], .ret "false"⟩
        | none => ⟨[], .stuck "condition"⟩
    | .act w => let r2 := evalS env f rest; ⟨w :: r2.acts, r2.out⟩
    | .opaque w => if env.pass w then evalS env f rest else ⟨[], .opaque w⟩
    | .skip => evalS env f rest
    | .unknown src => ⟨[], .stuck src⟩
end

def run (env : Env) (p : GProg) : Res := evalS env 64 p

/-- all boolean valuations of a list of names. -/
def boolEnvs : List String → List (String → Option Bool)
  | [] => [fun _ => none]
  | n :: ns => (boolEnvs ns).flatMap (fun e => [fun x => if x = n then some false else e x, fun x => if x = n then some true else e x])

end WS.Model.Guard
