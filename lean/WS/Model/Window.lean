/-
  Model of the pooled sliding windows (compress.go: slidingWindow.init / write / close, swPool;
  read.go: resetFlate passes `mr.dict.buf` to the inflater as preset dictionary, msgReader.read feeds
  every decompressed byte to `mr.dict.write`, msgReader.close returns the window to the pool).

  A window's content is a list of *tags*: each byte is represented by the number of the connection
  that received it. What a connection can observe of a window is its content when the window is
  handed to the inflater as dictionary.
-/
namespace WS.Model.Window

structure St where
  cap : Nat                          -- window size (32768)
  held : List (Option (List Nat))    -- per connection: its window, once initialised
  pool : List (List Nat)             -- contents of the windows lying in the pool
  deriving Repr, DecidableEq

def init (cap : Nat) : St := ⟨cap, [], []⟩

inductive Op
  | open_                      -- a new connection (context takeover for its read direction)
  | start (fromPool : Bool)    -- resetFlate → slidingWindow.init: nothing if already initialised, else a pooled window (sync.Pool may or may not return one) or a fresh empty one
  | write (n : Nat)            -- n decompressed bytes of this connection slide into its window
  | close                      -- msgReader.close → slidingWindow.close: truncate, put back into the pool
  | closeNoReset               -- (a faulty variant used for the counterexample only: put back without truncating)
  deriving Repr, DecidableEq

/-- slidingWindow.write: append, keep the last `cap` bytes. -/
def slide (cap : Nat) (w : List Nat) (tag n : Nat) : List Nat :=
  let x := w ++ List.replicate n tag
  x.drop (x.length - cap)

def step (s : St) (i : Nat) : Op → St
  | .open_ => { s with held := s.held ++ [none] }
  | .start fromPool =>
    match s.held[i]? with
    | some none =>
      match fromPool, s.pool with
      | true, w :: rest => { s with held := s.held.set i (some w), pool := rest }
      | _, _ => { s with held := s.held.set i (some []) }
    | _ => s
  | .write n =>
    match s.held[i]? with
    | some (some w) => { s with held := s.held.set i (some (slide s.cap w i n)) }
    | _ => s
  | .close =>
    match s.held[i]? with
    | some (some _) => { s with held := s.held.set i none, pool := [] :: s.pool }
    | _ => s
  | .closeNoReset =>
    match s.held[i]? with
    | some (some w) => { s with held := s.held.set i none, pool := w :: s.pool }
    | _ => s

def run : St → List (Nat × Op) → St
  | s, [] => s
  | s, (i, op) :: rest => run (step s i op) rest

/-- the dictionary connection `i` would hand to its inflater now. -/
def dict (s : St) (i : Nat) : List Nat :=
  match s.held[i]? with
  | some (some w) => w
  | _ => []

end WS.Model.Window
