import WS.Spec.Mask
/-
  A tiny DSL in which the Go function `maskGo` (mask.go) is re-expressed on every run by
  the translator (/verif/extract), and its interpreter.  The interpreter follows Go's
  semantics at the word level: little-endian 64/32-bit loads, XOR with key64 / key,
  little-endian stores, slice advance, byte tail with `bits.RotateLeft32(key, -8)`.
  A slice access outside the buffer is a Go panic and is reported as `none`.
-/
namespace WS.Model

open WS

/-- which key operand a word statement XORs with. -/
inductive KeyOp
  | key64   -- `uint64(key)<<32 | uint64(key)`
  | key32   -- `key`
  deriving Repr, DecidableEq

/-- `v := LittleEndian.UintW(b[ll:lh]); LittleEndian.PutUintW(b[sl:sh], v ^ k)` -/
structure WordXor where
  width : Nat        -- 8 or 4 (bytes), from the function names Uint64 / Uint32
  ll : Nat
  lh : Nat
  sl : Nat
  sh : Nat
  k : KeyOp
  deriving Repr, DecidableEq

inductive MStmt
  /-- `if len(b) >= n { body }` -/
  | ifGe (n : Nat) (body : List MStmt)
  /-- `for len(b) >= n { words…; b = b[adv:] }` -/
  | loop (n : Nat) (words : List WordXor) (adv : Nat)
  /-- `if len(b) >= n { words…; b = b[adv:] }`: the loop body at most once -/
  | once (n : Nat) (words : List WordXor) (adv : Nat)
  /-- `for i := range b { b[i] ^= byte(key); key = bits.RotateLeft32(key, -8) }` -/
  | tail
  /-- a statement the translator did not recognise (kept verbatim; never well-formed). -/
  | unknown (src : String)
  deriving Repr

abbrev MaskProg := List MStmt

/-- `binary.LittleEndian.Uint64`: byte 0 is the least significant. -/
def load64 (l : Bytes) : BitVec 64 :=
  match l with
  | [b0, b1, b2, b3, b4, b5, b6, b7] =>
    b7.toBitVec ++ b6.toBitVec ++ b5.toBitVec ++ b4.toBitVec ++
      b3.toBitVec ++ b2.toBitVec ++ b1.toBitVec ++ b0.toBitVec
  | _ => 0

/-- `binary.LittleEndian.PutUint64`. -/
def store64 (v : BitVec 64) : Bytes :=
  [⟨v.extractLsb' 0 8⟩, ⟨v.extractLsb' 8 8⟩, ⟨v.extractLsb' 16 8⟩, ⟨v.extractLsb' 24 8⟩,
   ⟨v.extractLsb' 32 8⟩, ⟨v.extractLsb' 40 8⟩, ⟨v.extractLsb' 48 8⟩, ⟨v.extractLsb' 56 8⟩]

def load32 (l : Bytes) : BitVec 32 :=
  match l with
  | [b0, b1, b2, b3] => b3.toBitVec ++ b2.toBitVec ++ b1.toBitVec ++ b0.toBitVec
  | _ => 0

def store32 (v : BitVec 32) : Bytes :=
  [⟨v.extractLsb' 0 8⟩, ⟨v.extractLsb' 8 8⟩, ⟨v.extractLsb' 16 8⟩, ⟨v.extractLsb' 24 8⟩]

/-- the Go expression `uint64(key)<<32 | uint64(key)`. -/
def key64 (key : UInt32) : BitVec 64 :=
  (key.toBitVec.setWidth 64 <<< 32) ||| key.toBitVec.setWidth 64

/-- one word statement on buffer `b`; `none` = slice out of range / width mismatch (panic). -/
def runWord (w : WordXor) (b : Bytes) (key : UInt32) : Option Bytes :=
  if w.ll ≤ w.lh ∧ w.lh ≤ b.length ∧ w.sl ≤ w.sh ∧ w.sh ≤ b.length
      ∧ w.lh - w.ll ≥ w.width ∧ w.sh - w.sl ≥ w.width then
    let src := (b.drop w.ll).take w.width
    let out : Bytes :=
      match w.width, w.k with
      | 8, .key64 => store64 (load64 src ^^^ key64 key)
      | 4, .key32 => store32 (load32 src ^^^ key.toBitVec)
      | _, _ => []
    if out.length = w.width then
      some (b.take w.sl ++ out ++ b.drop (w.sl + w.width))
    else none
  else none

def runWords : List WordXor → Bytes → UInt32 → Option Bytes
  | [], b, _ => some b
  | w :: ws, b, key => (runWord w b key).bind (fun b' => runWords ws b' key)

/-- byte tail: returns masked bytes and the rotated key. -/
def runTail : Bytes → UInt32 → Bytes × UInt32
  | [], key => ([], key)
  | x :: xs, key =>
    let r := runTail xs (Spec.rotr8 key)
    ((x ^^^ Spec.keyByte key 0) :: r.1, r.2)   -- `byte(key)` is key byte 0

/-- interpreter state: bytes already passed over (in order), the current slice `b`, the key. -/
structure MState where
  done : Bytes
  b : Bytes
  key : UInt32

def runLoop (n : Nat) (words : List WordXor) (adv : Nat) : Nat → MState → Option MState
  | 0, s => some s       -- fuel exhausted (never happens with fuel = length + 1 and adv > 0)
  | fuel + 1, s =>
    if s.b.length ≥ n then
      match runWords words s.b s.key with
      | none => none
      | some b' =>
        if adv ≤ b'.length ∧ adv > 0 then
          runLoop n words adv fuel { s with done := s.done ++ b'.take adv, b := b'.drop adv }
        else none      -- `b = b[adv:]` out of range, or a loop that cannot advance
    else some s

mutual
def runStmt : MStmt → MState → Option MState
  | .ifGe n body, s => if s.b.length ≥ n then runStmts body s else some s
  | .loop n words adv, s => runLoop n words adv (s.b.length + 1) s
  | .once n words adv, s => runLoop n words adv 1 s
  | .tail, s =>
    let r := runTail s.b s.key
    some { done := s.done ++ r.1, b := [], key := r.2 }
  | .unknown _, _ => none
def runStmts : List MStmt → MState → Option MState
  | [], s => some s
  | st :: rest, s => (runStmt st s).bind (runStmts rest)
end

/-- run a mask program like Go runs `maskGo(b, key)`: resulting buffer contents and key. -/
def runMask (p : MaskProg) (b : Bytes) (key : UInt32) : Option (Bytes × UInt32) :=
  (runStmts p { done := [], b := b, key := key }).map (fun s => (s.done ++ s.b, s.key))

/-! ### Well-formedness: a decidable syntactic condition that implies correctness -/

def wordOk (pos : Nat) (w : WordXor) : Bool :=
  w.ll == pos && w.sl == pos && w.lh == pos + w.width && w.sh == pos + w.width &&
  ((w.width == 8 && w.k == .key64) || (w.width == 4 && w.k == .key32))

/-- words are listed in order and tile `[pos, end)` exactly; returns the end. -/
def wordsTile : Nat → List WordXor → Option Nat
  | pos, [] => some pos
  | pos, w :: ws => if wordOk pos w then wordsTile (pos + w.width) ws else none

mutual
def stmtWF : MStmt → Bool
  | .ifGe _ body => stmtsWF body
  | .loop n words adv => wordsTile 0 words == some adv && adv ≤ n && adv > 0
  | .once n words adv => wordsTile 0 words == some adv && adv ≤ n && adv > 0
  | .tail => false      -- the tail is only allowed as the last top-level statement
  | .unknown _ => false
def stmtsWF : List MStmt → Bool
  | [] => true
  | s :: rest => stmtWF s && stmtsWF rest
end

/-- a program is well-formed if it is a list of well-formed guarded loops followed by the byte tail. -/
def wellFormed (p : MaskProg) : Bool :=
  match p.reverse with
  | .tail :: revInit => stmtsWF revInit.reverse
  | _ => false

end WS.Model
