import WS.Model.Str
import WS.Model.Glob
import WS.Spec.Sha1
/-
  Model of the handshake decision logic (accept.go, dial.go, compress.go): header tokens,
  verifyClientRequest, selectSubprotocol, secWebSocketAccept, authenticateOrigin,
  websocketExtensions / selectDeflate / acceptDeflate, compressionOptions.String,
  verifyServerResponse / verifySubprotocol / verifyServerExtensions.

  The model starts after net/http has parsed the message: a header is a list of values under
  its canonical key. `url.Parse(origin).Host` is an input (net/url is external).
-/
namespace WS.Model
open WS

/-- header values by canonical key, in order. -/
abbrev Hdr := List (Str × List Str)

def Hdr.values (h : Hdr) (key : Str) : List Str :=
  (h.filter (fun kv => kv.1 == key)).flatMap (·.2)

/-- http.Header.Get: first value or "". -/
def Hdr.get (h : Hdr) (key : Str) : Str := ((h.values key).head?).getD []

/-- headerTokens -/
def headerTokens (h : Hdr) (key : Str) : List Str :=
  (h.values key).flatMap (fun v => (splitOnChar ',' (trimSpace v)).map trimSpace)

def headerContainsToken (h : Hdr) (key token : Str) : Bool :=
  (headerTokens h key).any (fun t => equalFold t token)

structure Req where
  method : Str
  protoMajor : Nat
  protoMinor : Nat
  host : Str
  hdr : Hdr

def s (x : String) : Str := x.toList

/-- verifyClientRequest: `0` = acceptable, otherwise the HTTP status. -/
def verifyClientRequest (r : Req) : Nat :=
  if !(r.protoMajor > 1 || (r.protoMajor == 1 && r.protoMinor ≥ 1)) then 426
  else if !headerContainsToken r.hdr (s "Connection") (s "Upgrade") then 426
  else if !headerContainsToken r.hdr (s "Upgrade") (s "websocket") then 426
  else if r.method != s "GET" then 405
  else if r.hdr.get (s "Sec-Websocket-Version") != s "13" then 400
  else
    match r.hdr.values (s "Sec-Websocket-Key") with
    | [] => 400
    | [k] =>
      match Spec.b64Decode (trimSpace k) with
      | some v => if v.length == 16 then 0 else 400
      | none => 400
    | _ => 400

/-- selectSubprotocol: the first server-preferred protocol the client offered (the client's spelling). -/
def selectSubprotocol (r : Req) (serverProtos : List Str) : Str :=
  let cps := headerTokens r.hdr (s "Sec-Websocket-Protocol")
  let rec go : List Str → Str
    | [] => []
    | sp :: rest =>
      match cps.find? (fun cp => equalFold sp cp) with
      | some cp => cp
      | none => go rest
  go serverProtos

def keyGUID : Str := s "258EAFA5-E914-47DA-95CA-C5AB0DC85B11"

def strBytes (x : Str) : Bytes := (String.ofList x).toUTF8.toList

/-- secWebSocketAccept -/
def secWebSocketAccept (key : Str) : Str := Spec.b64Encode (Spec.sha1 (strBytes key ++ strBytes keyGUID))

inductive OriginRes
  | ok
  | forbidden        -- 403, not authorised / unparsable
  | badPattern       -- 403 after a malformed pattern
  deriving Repr, DecidableEq

/-- authenticateOrigin. `parsed` = result of url.Parse(origin): `none` on error, else `.Host`. -/
def authenticateOrigin (reqHost : Str) (origin : Str) (parsed : Option Str) (patterns : List Str) : OriginRes :=
  if origin.isEmpty then .ok
  else
    match parsed with
    | none => .forbidden
    | some h =>
      if equalFold reqHost h then .ok
      else
        let rec go : List Str → OriginRes
          | [] => .forbidden
          | p :: ps =>
            match glob (toLower p) (toLower h) with
            | .badPattern => .badPattern
            | .yes => .ok
            | .no => go ps
        go patterns

/-! ### permessage-deflate negotiation -/

structure Copts where
  cnct : Bool      -- client_no_context_takeover
  snct : Bool      -- server_no_context_takeover
  deriving Repr, DecidableEq

/-- CompressionMode: 0 disabled, 1 context takeover, 2 no context takeover. -/
def modeOpts (mode : Nat) : Copts := { cnct := mode == 2, snct := mode == 2 }

structure Ext where
  name : Str
  params : List Str
  deriving Repr, DecidableEq

/-- websocketExtensions -/
def websocketExtensions (h : Hdr) : List Ext :=
  (headerTokens h (s "Sec-Websocket-Extensions")).filterMap (fun e =>
    if e.isEmpty then none
    else
      match (splitOnChar ';' e).map trimSpace with
      | [] => none
      | n :: ps => some { name := n, params := ps })

def paramName (p : Str) : Str := p.takeWhile (fun c => c != '=')

def windowBitsValues : List Str := [s "8", s "9", s "10", s "11", s "12", s "13", s "14", s "15"]

/-- acceptDeflate: `seen` = parameter names already met (a repeated parameter declines the offer). -/
def acceptDeflate (ext : Ext) (mode : Nat) : Option Copts :=
  let rec go : List Str → List Str → Copts → Option Copts
    | [], _, c => some c
    | p :: ps, seen, c =>
      if seen.contains (paramName p) then none
      else
        let seen := paramName p :: seen
        if p == s "client_no_context_takeover" then go ps seen { c with cnct := true }
        else if p == s "server_no_context_takeover" then go ps seen { c with snct := true }
        else if p == s "client_max_window_bits" || p == s "server_max_window_bits=15" then go ps seen c
        else if hasPrefix (s "client_max_window_bits=") p &&
            windowBitsValues.contains (p.drop (s "client_max_window_bits=").length) then go ps seen c
        else none
  go ext.params [] (modeOpts mode)

/-- selectDeflate -/
def selectDeflate (exts : List Ext) (mode : Nat) : Option Copts :=
  if mode == 0 then none
  else
    let rec go : List Ext → Option Copts
      | [] => none
      | e :: es =>
        if e.name == s "permessage-deflate" then
          match acceptDeflate e mode with
          | some c => some c
          | none => go es
        else go es
    go exts

/-- compressionOptions.String -/
def coptsString (c : Copts) : Str :=
  s "permessage-deflate" ++ (if c.cnct then s "; client_no_context_takeover" else []) ++
    (if c.snct then s "; server_no_context_takeover" else [])

inductive VerifyExt
  | ok (c : Option Copts)
  | err
  deriving Repr, DecidableEq

/-- verifyServerExtensions (`copts = none`: the client did not offer compression). -/
def verifyServerExtensions (copts : Option Copts) (h : Hdr) : VerifyExt :=
  match websocketExtensions h with
  | [] => .ok none
  | [ext] =>
    match copts with
    | none => .err
    | some c0 =>
      if ext.name != s "permessage-deflate" then .err
      else
        -- the server gives up its context only if the response says so, whatever was offered
        let rec go : List Str → Copts → VerifyExt
          | [], c => .ok (some c)
          | p :: ps, c =>
            if p == s "client_no_context_takeover" then go ps { c with cnct := true }
            else if p == s "server_no_context_takeover" then go ps { c with snct := true }
            else if hasPrefix (s "server_max_window_bits=") p then go ps c
            else .err
        go ext.params { c0 with snct := false }
  | _ => .err

/-- verifySubprotocol -/
def verifySubprotocol (requested : List Str) (h : Hdr) : Bool :=
  let proto := h.get (s "Sec-Websocket-Protocol")
  proto.isEmpty || requested.any (fun sp => equalFold sp proto)

/-- verifyServerResponse: `none` = error, otherwise the negotiated options. -/
def verifyServerResponse (requested : List Str) (copts : Option Copts) (key : Str) (status : Nat) (h : Hdr) :
    Option (Option Copts) :=
  if status != 101 then none
  else if !headerContainsToken h (s "Connection") (s "Upgrade") then none
  else if !headerContainsToken h (s "Upgrade") (s "WebSocket") then none
  else if h.get (s "Sec-Websocket-Accept") != secWebSocketAccept key then none
  else if !verifySubprotocol requested h then none
  else
    match verifyServerExtensions copts h with
    | .ok c => some c
    | .err => none

/-- per-direction takeover selection (read.go / write.go): does the given endpoint keep its
compression context when writing / reading? -/
def writerTakeover (client : Bool) (c : Copts) : Bool := if client then !c.cnct else !c.snct
def readerTakeover (client : Bool) (c : Copts) : Bool := if client then !c.snct else !c.cnct

end WS.Model
