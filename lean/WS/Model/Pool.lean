/-
  Ownership model of the pooled inflaters (compress.go flateReaderPool; read.go resetFlate,
  putFlateReader, limitReader.Read).  Objects are identified by numbers.  Each connection has the
  two fields that can refer to an inflater: `fr` (msgReader.flateReader) and `src`
  (msgReader.limitReader.r).  Operations are atomic (each runs under the connection's readMu).
-/
namespace WS.Model.Pool

inductive Src
  | plain                 -- the frame reader itself (uncompressed message)
  | flate (obj : Nat)     -- an inflater
  | eof                   -- detached (after the inflater was released)
  deriving Repr, DecidableEq

structure Conn where
  fr : Option Nat
  src : Src
  deriving Repr, DecidableEq

structure PState where
  conns : List Conn          -- connection id = index
  free : List Nat            -- objects in the pool
  next : Nat                 -- next never-used object
  deriving Repr

/-- operations of connection `i`. -/
inductive Op
  | open_                       -- a new connection
  | startCompressed (fromPool : Bool)   -- resetFlate: Get from the pool (or allocate) and point both fields to it
  | startPlain                  -- limitReader.reset(readFunc) for an uncompressed message
  | read                        -- limitReader.Read: uses `src`
  | release                     -- putFlateReader (end of message, or msgReader.close)
  deriving Repr, DecidableEq

/-- observable pool events, as logged by the verif hooks. -/
inductive PEv
  | get (c obj : Nat)
  | put (c obj : Nat)
  | use (c obj : Nat)
  deriving Repr, DecidableEq

def setConn (l : List Conn) (i : Nat) (c : Conn) : List Conn := l.set i c

/-- one operation of connection `i`; returns the new state and the events it produces. -/
def step (s : PState) (i : Nat) : Op → PState × List PEv
  | .open_ => ({ s with conns := s.conns ++ [{ fr := none, src := .plain }] }, [])
  | .startCompressed fromPool =>
    match s.conns[i]? with
    | none => (s, [])
    | some c =>
      -- resetFlate is only reached with fr = none (the previous message's inflater was released at its end)
      match c.fr with
      | some _ => (s, [])
      | none =>
        match fromPool, s.free with
        | true, o :: rest =>
          ({ s with conns := setConn s.conns i { fr := some o, src := .flate o }, free := rest }, [.get i o])
        | _, _ =>
          ({ s with conns := setConn s.conns i { fr := some s.next, src := .flate s.next }, next := s.next + 1 }, [.get i s.next])
  | .startPlain =>
    match s.conns[i]? with
    | none => (s, [])
    | some c => ({ s with conns := setConn s.conns i { c with src := .plain } }, [])
  | .read =>
    match s.conns[i]? with
    | none => (s, [])
    | some c =>
      match c.src with
      | .flate o => (s, [.use i o])
      | _ => (s, [])
  | .release =>
    match s.conns[i]? with
    | none => (s, [])
    | some c =>
      match c.fr with
      | none => (s, [])
      | some o => ({ s with conns := setConn s.conns i { fr := none, src := .eof }, free := o :: s.free }, [.put i o])

def run : PState → List (Nat × Op) → PState × List PEv
  | s, [] => (s, [])
  | s, (i, op) :: rest =>
    let r := step s i op
    let r' := run r.1 rest
    (r'.1, r.2 ++ r'.2)

def init : PState := { conns := [], free := [], next := 0 }

/-! ### the ownership monitor (what the harness runs over the hook log) -/

/-- `owner obj = some c`: object `obj` was handed to connection `c` and not released since. -/
def monitor : List PEv → (Nat → Option Nat) → Bool
  | [], _ => true
  | .get c o :: rest, owner => owner o == none && monitor rest (fun x => if x = o then some c else owner x)
  | .put c o :: rest, owner => owner o == some c && monitor rest (fun x => if x = o then none else owner x)
  | .use c o :: rest, owner => owner o == some c && monitor rest owner

end WS.Model.Pool
