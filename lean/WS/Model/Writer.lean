import WS.Model.Close
/-
  Frame-level model of the write side (write.go: Write, Writer, msgWriter.Write/Close,
  writeControl, writeFrame, writeFramePayload) for one goroutine issuing API calls.

  Everything that the code does not determine is an input: the mask keys drawn from
  crypto/rand (one per frame, in order) and, on the compressed path, the chunks that
  compress/flate hands to the frame writer (after trimLastFourBytesWriter withheld the tail).
-/
namespace WS.Model
open WS

structure WCfg where
  client : Bool          -- the writing endpoint is a client (masks its frames)
  flate : Bool           -- permessage-deflate negotiated
  takeover : Bool        -- writer-side context takeover (msgWriter.flateContextTakeover)
  threshold : Nat        -- CompressionThreshold option (0 = default)
  deriving Repr

/-- newConn: the default threshold is 128 with context takeover and 512 without. -/
def effThreshold (cfg : WCfg) : Nat :=
  if cfg.flate && cfg.threshold == 0 then (if cfg.takeover then 128 else 512) else cfg.threshold

inductive WOp
  /-- `Conn.Write(typ, p)` (`viaWriter = false`, one chunk) or `Conn.Writer(typ)`, one
  `Write` per chunk, `Close`. `obs` = compressed chunks handed to the frame writer (if the
  message is compressed). -/
  | msg (typ : Nat) (viaWriter : Bool) (chunks : List Bytes) (obs : List Bytes)
  | ping (payload : Bytes)
  | pong (payload : Bytes)
  | close (code : Int) (reason : Bytes)
  deriving Repr

/-- is the message compressed?  Decided once, by the first chunk (msgWriter.Write). -/
def compresses (cfg : WCfg) (chunks : List Bytes) : Bool :=
  cfg.flate && (match chunks with
    | [] => false
    | c :: _ => decide (c.length ≥ effThreshold cfg))

def mkHeader (cfg : WCfg) (fin rsv1 : Bool) (op : Nat) (len : Nat) (key : Bytes) : Header :=
  { fin := fin, rsv1 := rsv1, rsv2 := false, rsv3 := false, opcode := op, len := len,
    masked := cfg.client, key := if cfg.client then key.take 4 else [] }

/-- writeFrame: header plus payload, masked inside the write buffer when the endpoint is a client. -/
def mkFrame (cfg : WCfg) (fin rsv1 : Bool) (op : Nat) (p : Bytes) (key : Bytes) : Frame :=
  let h := mkHeader cfg fin rsv1 op p.length key
  { h := h, payload := if cfg.client then xorKey h.key p else p }

/-- data frames of one message: one non-final frame per payload in `parts`, then the empty final
frame written by `msgWriter.Close`. `first` tells whether the next frame is the first of the message. -/
def dataFrames (cfg : WCfg) (typ : Nat) (flate : Bool) : List Bytes → Bool → List Bytes → List Frame × List Bytes
  | [], first, keys =>
    ([mkFrame cfg true (flate && first) (if first then typ else opCont) [] (keys.headD [])], keys.tail)
  | p :: ps, first, keys =>
    let f := mkFrame cfg false (flate && first) (if first then typ else opCont) p (keys.headD [])
    let r := dataFrames cfg typ flate ps false keys.tail
    (f :: r.1, r.2)

/-- frames of one API call; `keys` is the stream of 4-byte mask keys (one consumed per frame).
`none` for a Close that is rejected (nothing is written). -/
def opFrames (cfg : WCfg) (op : WOp) (keys : List Bytes) : List Frame × List Bytes :=
  match op with
  | .msg typ viaWriter chunks obs =>
    if !cfg.flate && !viaWriter then
      -- Conn.Write without compression: a single final frame
      ([mkFrame cfg true false typ (chunks.headD []) (keys.headD [])], keys.tail)
    else if compresses cfg chunks then dataFrames cfg typ true obs true keys
    else dataFrames cfg typ false chunks true keys
  | .ping p => ([mkFrame cfg true false opPing p (keys.headD [])], keys.tail)
  | .pong p => ([mkFrame cfg true false opPong p (keys.headD [])], keys.tail)
  | .close code reason =>
    match writeClosePayload code reason with
    | some p => ([mkFrame cfg true false opClose p (keys.headD [])], keys.tail)
    | none => ([], keys)

def runWriter (cfg : WCfg) : List WOp → List Bytes → List Frame
  | [], _ => []
  | op :: ops, keys =>
    let r := opFrames cfg op keys
    r.1 ++ runWriter cfg ops r.2

def writerBytes (cfg : WCfg) (ops : List WOp) (keys : List Bytes) : Bytes :=
  ((runWriter cfg ops keys).map encodeFrame).flatten

/-- trimLastFourBytesWriter after a sequence of writes: (bytes passed on, tail withheld). -/
def trimLastFour (chunks : List Bytes) : Bytes × Bytes :=
  let all := chunks.flatten
  (all.take (all.length - 4), all.drop (all.length - 4))

end WS.Model
