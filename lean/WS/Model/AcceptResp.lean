import WS.Model.DialReq
/-
  Model of the response Accept writes for a request it upgrades (accept.go, after verifyClientRequest
  and the origin check): Upgrade / Connection / Sec-WebSocket-Accept, the selected subprotocol if any,
  the negotiated extension if any.
-/
namespace WS.Model
open WS

def acceptResponse (r : Req) (serverProtos : List Str) (mode : Nat) : Hdr :=
  let h : Hdr := [(s "Upgrade", [s "websocket"]), (s "Connection", [s "Upgrade"]),
                  (s "Sec-Websocket-Accept", [secWebSocketAccept (trimSpace (r.hdr.get (s "Sec-Websocket-Key")))])]
  let sp := selectSubprotocol r serverProtos
  let h := if sp.isEmpty then h else h ++ [(s "Sec-Websocket-Protocol", [sp])]
  match selectDeflate (websocketExtensions r.hdr) mode with
  | some c => h ++ [(s "Sec-Websocket-Extensions", [coptsString c])]
  | none => h

/-- what the server keeps as its own options. -/
def acceptCopts (r : Req) (mode : Nat) : Option Copts := selectDeflate (websocketExtensions r.hdr) mode

/-- the offer Dial makes in a given compression mode. -/
def dialOffer (mode : Nat) : Option Copts := if mode == 0 then none else some (modeOpts mode)

/-- a subprotocol name as applications use them: non-empty, no comma, no white space. -/
def plainToken (t : Str) : Bool := !t.isEmpty && t.all (fun c => c != ',' && !isSpace c)

end WS.Model
