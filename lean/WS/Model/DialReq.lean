import WS.Model.Handshake
/-
  Model of the request Dial sends (dial.go handshakeRequest): the caller's headers with the upgrade
  headers set on top (http.Header.Set replaces every value under the canonical key).
-/
namespace WS.Model
open WS

/-- http.Header.Set on a canonical key. -/
def Hdr.set (h : Hdr) (key : Str) (v : Str) : Hdr :=
  h.filter (fun kv => kv.1 != key) ++ [(key, [v])]

/-- strings.Join(l, ",") -/
def joinComma : List Str → Str
  | [] => []
  | [x] => x
  | x :: rest => x ++ [','] ++ joinComma rest

/-- handshakeRequest. `caller` = DialOptions.HTTPHeader (a clone: the caller's map is not touched),
`hostOverride` = DialOptions.Host or the URL's host. -/
def dialRequest (caller : Hdr) (host : Str) (subprotos : List Str) (copts : Option Copts) (key : Str) : Req :=
  let h := caller.set (s "Connection") (s "Upgrade")
  let h := h.set (s "Upgrade") (s "websocket")
  let h := h.set (s "Sec-Websocket-Version") (s "13")
  let h := h.set (s "Sec-Websocket-Key") key
  let h := if subprotos.isEmpty then h else h.set (s "Sec-Websocket-Protocol") (joinComma subprotos)
  let h := match copts with
    | none => h
    | some c => h.set (s "Sec-Websocket-Extensions") (coptsString c)
  { method := s "GET", protoMajor := 1, protoMinor := 1, host := host, hdr := h }

end WS.Model
