import WS.Model.Frame
/-
  Close status codes and close payloads (close.go): validWireCloseCode, CloseError.bytesErr,
  CloseError.bytes, parseClosePayload.  Codes are integers (Go `StatusCode` is an int).
-/
namespace WS.Model
open WS

def maxControlPayload : Nat := 125
def maxCloseReason : Nat := 123

/-- validWireCloseCode, statement by statement. -/
def validWireCloseCode (code : Int) : Bool :=
  if code = 1004 ∨ code = 1005 ∨ code = 1006 ∨ code = 1015 then false
  else if code ≥ 1000 ∧ code ≤ 1014 then true
  else if code ≥ 3000 ∧ code ≤ 4999 then true
  else false

/-- `uint16(code)` big-endian followed by the reason. -/
def closePayload (code : Int) (reason : Bytes) : Bytes :=
  be16 (code % 65536).toNat ++ reason

/-- CloseError.bytesErr: `none` = error. -/
def closeBytesErr (code : Int) (reason : Bytes) : Option Bytes :=
  if reason.length > maxCloseReason then none
  else if !validWireCloseCode code then none
  else some (closePayload code reason)

/-- CloseError.bytes: on error the payload of StatusInternalError (1011) with an empty reason
is substituted and the error is still reported. -/
def closeBytes (code : Int) (reason : Bytes) : Bytes × Bool :=
  match closeBytesErr code reason with
  | some p => (p, true)
  | none => ((closeBytesErr 1011 []).getD [], false)

inductive CloseParse
  | ok (code : Int) (reason : Bytes)
  | bad
  deriving Repr, DecidableEq

/-- parseClosePayload. -/
def parseClosePayload (p : Bytes) : CloseParse :=
  match p with
  | [] => .ok 1005 []
  | [_] => .bad
  | b0 :: b1 :: reason =>
    let code : Int := (b0.toNat * 256 + b1.toNat : Nat)
    if validWireCloseCode code then .ok code reason else .bad

end WS.Model

namespace WS.Model
open WS

/-- writeClose: the payload of the Close frame that `Close(code, reason)` / an echo puts on the
wire; `none` = nothing is sent and an error is returned. -/
def writeClosePayload (code : Int) (reason : Bytes) : Option Bytes :=
  if code = 1005 then some [] else closeBytesErr code reason

end WS.Model
