import WS.Spec.WriteSpec
/-
  wsjson glue (wsjson/wsjson.go) over the connection models, parametric in the JSON codec, and a
  JSON codec in Lean for the fragment: null, booleans, integers, strings, arrays, objects
  (Go's encoding/json output format incl. its escaping rules on the ASCII domain).
-/
namespace WS.Model.WsJson
open WS WS.Model WS.Spec

structure Codec (V : Type) where
  enc : V → Bytes                 -- json.Encoder.Encode (includes the trailing newline)
  dec : Bytes → Option V          -- json.Unmarshal into the target

/-- wsjson.Write: one `Conn.Write` of a text message holding the encoding. -/
def writeOp {V : Type} (c : Codec V) (v : V) : WOp := .msg opText false [c.enc v] []

inductive ReadRes (V : Type)
  | ok (v : V)
  | invalid          -- json.Unmarshal failed: error returned, Close frame with status 1007 sent
  | failed           -- the reader failed

/-- wsjson.Read on what the connection's reader delivers next: exactly one message is consumed. -/
def readOne {V : Type} (c : Codec V) : List Ev → ReadRes V × Option Int × List Ev
  | .msg _ data :: rest =>
    (match c.dec data with
     | some v => (.ok v, none, rest)
     | none => (.invalid, some 1007, rest))
  | .reply _ _ :: rest => readOne c rest          -- frames written back are not read results
  | _ => (.failed, none, [])

/-! ### a JSON codec -/

inductive J
  | null
  | bool (b : Bool)
  | num (n : Int)
  | str (s : List Char)
  | arr (l : List J)
  | obj (kvs : List (List Char × J))
  deriving Repr, Inhabited

def hexDig (n : Nat) : Char := if n < 10 then Char.ofNat (48 + n) else Char.ofNat (87 + n)

/-- Go's string escaping (HTML-safe mode, as json.Encoder uses by default), ASCII domain. -/
def escChar (c : Char) : List Char :=
  if c == '"' then ['\\', '"']
  else if c == '\\' then ['\\', '\\']
  else if c == '\n' then ['\\', 'n']
  else if c == '\r' then ['\\', 'r']
  else if c == '\t' then ['\\', 't']
  else if c.toNat < 32 || c == '<' || c == '>' || c == '&' then
    ['\\', 'u', '0', '0', hexDig (c.toNat / 16), hexDig (c.toNat % 16)]
  else [c]

def encStr (s : List Char) : List Char := ['"'] ++ s.flatMap escChar ++ ['"']

def natDigits : Nat → Nat → List Char
  | 0, _ => []
  | fuel + 1, n => if n < 10 then [Char.ofNat (48 + n)] else natDigits fuel (n / 10) ++ [Char.ofNat (48 + n % 10)]

def encInt (n : Int) : List Char :=
  if n < 0 then '-' :: natDigits (n.natAbs + 1) n.natAbs else natDigits (n.natAbs + 1) n.natAbs

mutual
def encJ : J → List Char
  | .null => "null".toList
  | .bool true => "true".toList
  | .bool false => "false".toList
  | .num n => encInt n
  | .str s => encStr s
  | .arr l => ['['] ++ encArr l ++ [']']
  | .obj kvs => ['{'] ++ encObj kvs ++ ['}']
def encArr : List J → List Char
  | [] => []
  | [v] => encJ v
  | v :: rest => encJ v ++ [','] ++ encArr rest
def encObj : List (List Char × J) → List Char
  | [] => []
  | [(k, v)] => encStr k ++ [':'] ++ encJ v
  | (k, v) :: rest => encStr k ++ [':'] ++ encJ v ++ [','] ++ encObj rest
end

/-! parser (recursive descent with fuel) -/

def skipWs : List Char → List Char
  | c :: cs => if c == ' ' || c == '\n' || c == '\t' || c == '\r' then skipWs cs else c :: cs
  | [] => []

def hexV (c : Char) : Option Nat :=
  if '0' ≤ c ∧ c ≤ '9' then some (c.toNat - 48)
  else if 'a' ≤ c ∧ c ≤ 'f' then some (c.toNat - 87)
  else if 'A' ≤ c ∧ c ≤ 'F' then some (c.toNat - 55)
  else none

/-- after the opening quote: the string and the rest after the closing quote. -/
def parseStrBody : Nat → List Char → List Char → Option (List Char × List Char)
  | 0, _, _ => none
  | _ + 1, [], _ => none
  | fuel + 1, c :: cs, acc =>
    if c == '"' then some (acc.reverse, cs)
    else if c == '\\' then
      match cs with
      | '"' :: r => parseStrBody fuel r ('"' :: acc)
      | '\\' :: r => parseStrBody fuel r ('\\' :: acc)
      | '/' :: r => parseStrBody fuel r ('/' :: acc)
      | 'n' :: r => parseStrBody fuel r ('\n' :: acc)
      | 'r' :: r => parseStrBody fuel r ('\r' :: acc)
      | 't' :: r => parseStrBody fuel r ('\t' :: acc)
      | 'b' :: r => parseStrBody fuel r (Char.ofNat 8 :: acc)
      | 'f' :: r => parseStrBody fuel r (Char.ofNat 12 :: acc)
      | 'u' :: a :: b :: c2 :: d :: r =>
        (match hexV a, hexV b, hexV c2, hexV d with
         | some x, some y, some z, some w => parseStrBody fuel r (Char.ofNat (((x * 16 + y) * 16 + z) * 16 + w) :: acc)
         | _, _, _, _ => none)
      | _ => none
    else if c.toNat < 32 then none
    else parseStrBody fuel cs (c :: acc)

def parseDigits : List Char → Nat → Nat → Nat × Nat × List Char   -- value, count, rest
  | c :: cs, acc, n => if '0' ≤ c ∧ c ≤ '9' then parseDigits cs (acc * 10 + (c.toNat - 48)) (n + 1) else (acc, n, c :: cs)
  | [], acc, n => (acc, n, [])

mutual
def parseJ : Nat → List Char → Option (J × List Char)
  | 0, _ => none
  | fuel + 1, s =>
    match skipWs s with
    | 'n' :: 'u' :: 'l' :: 'l' :: r => some (.null, r)
    | 't' :: 'r' :: 'u' :: 'e' :: r => some (.bool true, r)
    | 'f' :: 'a' :: 'l' :: 's' :: 'e' :: r => some (.bool false, r)
    | '"' :: r => (parseStrBody (r.length + 1) r []).map (fun p => (.str p.1, p.2))
    | '[' :: r =>
      (match skipWs r with
       | ']' :: r2 => some (.arr [], r2)
       | _ => (parseArr fuel r).map (fun p => (.arr p.1, p.2)))
    | '{' :: r =>
      (match skipWs r with
       | '}' :: r2 => some (.obj [], r2)
       | _ => (parseObj fuel r).map (fun p => (.obj p.1, p.2)))
    | '-' :: r =>
      let (v, n, r2) := parseDigits r 0 0
      if n == 0 then none else some (.num (-(v : Int)), r2)
    | c :: r =>
      if '0' ≤ c ∧ c ≤ '9' then
        let (v, _, r2) := parseDigits (c :: r) 0 0
        some (.num v, r2)
      else none
    | [] => none
def parseArr : Nat → List Char → Option (List J × List Char)
  | 0, _ => none
  | fuel + 1, s =>
    match parseJ fuel s with
    | none => none
    | some (v, r) =>
      match skipWs r with
      | ',' :: r2 => (parseArr fuel r2).map (fun p => (v :: p.1, p.2))
      | ']' :: r2 => some ([v], r2)
      | _ => none
def parseObj : Nat → List Char → Option (List (List Char × J) × List Char)
  | 0, _ => none
  | fuel + 1, s =>
    match skipWs s with
    | '"' :: r =>
      match parseStrBody (r.length + 1) r [] with
      | none => none
      | some (k, r1) =>
        match skipWs r1 with
        | ':' :: r2 =>
          match parseJ fuel r2 with
          | none => none
          | some (v, r3) =>
            match skipWs r3 with
            | ',' :: r4 => (parseObj fuel r4).map (fun p => ((k, v) :: p.1, p.2))
            | '}' :: r4 => some ([(k, v)], r4)
            | _ => none
        | _ => none
    | _ => none
end

/-- json.Unmarshal: one value, then only white space. -/
def decJ (s : List Char) : Option J :=
  match parseJ (s.length + 1) s with
  | some (v, r) => if (skipWs r).isEmpty then some v else none
  | none => none

end WS.Model.WsJson
