import WS.Model.Close
/-
  Frame-level model of the read side (read.go: reader, readLoop, handleControl,
  msgReader.Read/read, limitReader) for one reader draining messages to their end.

  Input: the frames the byte stream splits into (`parseFrames`) and what is left after the
  last complete frame.  Output: the events an observer sees — messages delivered, frames
  written back (Pong, Close echo, error Close) and why reading stopped.

  The inflater is a parameter (`Inflate`): the machine's theorems hold for every inflater,
  the driver instantiates it with `Spec.inflate`.
-/
namespace WS.Model
open WS

inductive Stop
  | io                      -- the transport ended or failed
  | proto                   -- protocol violation, Close 1002 written
  | protoNoClose            -- protocol violation reported without a Close frame
  | limit                   -- read limit exceeded, Close 1009 written
  | peerClose (code : Int) (reason : Bytes)   -- Close frame received and echoed
  | inflate                 -- the compressed payload does not inflate
  deriving Repr, DecidableEq

inductive Ev
  | msg (typ : Nat) (data : Bytes)                 -- a complete message, clean end
  | partialMsg (typ : Nat) (avail : Bytes) (why : Stop) (ambiguous : Bool)
      -- the message started but its read failed; `avail` bounds what may have been handed out
  | fail (why : Stop)                              -- Reader failed before a message started
  | reply (op : Nat) (payload : Bytes)             -- a frame the endpoint wrote back
  deriving Repr, DecidableEq

structure RCfg where
  client : Bool          -- the reading endpoint is a client
  flate : Bool           -- permessage-deflate was negotiated
  takeover : Bool        -- the reader keeps its inflate dictionary between messages
  limit : Int            -- SetReadLimit value in force (-1 = unlimited); default 32768
  deriving Repr

/-- result of inflating `z` with preset dictionary `dict`: the plaintext produced and whether the
deflate stream was accepted (ends at a block boundary awaiting more input, or at a final block). -/
structure InflateRes where
  plain : Bytes
  ok : Bool
  deriving Repr

abbrev Inflate := Bytes → Bytes → InflateRes

def deflateTail : Bytes := [0x00, 0x00, 0xff, 0xff]

def windowSize : Nat := 32768

/-- slidingWindow after writing `p`: the last `windowSize` bytes of the history. -/
def slide (dict p : Bytes) : Bytes :=
  let all := dict ++ p
  all.drop (all.length - windowSize)

def isControl (op : Nat) : Bool := op == opClose || op == opPing || op == opPong
def isData (op : Nat) : Bool := op == opCont || op == opText || op == opBinary

/-- readRSV1Illegal. -/
def rsv1Illegal (cfg : RCfg) (h : Header) : Bool :=
  if !cfg.flate then true
  else if h.opcode != opText && h.opcode != opBinary then true
  else false

/-- the checks of readLoop / handleControl that only look at the header, in the code's order.
`none` = the header is acceptable. -/
def headerCheck (cfg : RCfg) (h : Header) : Option Stop :=
  if (h.rsv1 && rsv1Illegal cfg h) || h.rsv2 || h.rsv3 then some .proto
  else if !cfg.client && !h.masked then some .protoNoClose
  else if cfg.client && h.masked then some .proto
  else if isControl h.opcode then
    (if h.len > maxControlPayload then some .proto
     else if !h.fin then some .proto
     else none)
  else if isData h.opcode then none
  else some .proto

/-- replies written when reading stops for the given reason. -/
def stopReplies : Stop → List Ev
  | .proto => [.reply opClose (closePayload 1002 [])]
  | .limit => [.reply opClose (closePayload 1009 [])]
  | .peerClose code reason =>
    [.reply opClose (if code = 1005 then [] else closePayload code reason)]
  | _ => []

/-- what the reader is in the middle of. -/
inductive Mode
  | idle                                         -- between messages: the next call is Reader
  | plain (typ : Nat) (acc : Bytes) (n : Int)    -- uncompressed message: bytes handed out, allowance left
  | comp (typ : Nat) (z : Bytes)                 -- compressed message: compressed bytes collected so far
  deriving Repr, DecidableEq

structure RState where
  mode : Mode
  dict : Bytes           -- inflate dictionary (context takeover only)
  idx : Nat              -- number of messages started so far
  deriving Repr

/-- the read limit in force for message number `i` (SetReadLimit may be called between messages). -/
def limitFor (cfg : RCfg) (limits : List Int) (i : Nat) : Int := limits.getD i cfg.limit

/-- allowance `limit + 1` (or unlimited). -/
def allowance (l : Int) : Int := if l < 0 then -1 else l + 1

/-- apply the read limit to `d` more plaintext bytes: (bytes handed out, remaining allowance,
limit hit).  `n < 0` = unlimited.  The limit error is raised by the read that follows the one
that used up the allowance, so handing out exactly `n` bytes already means failure. -/
def takeLimited (n : Int) (d : Bytes) : Bytes × Int × Bool :=
  if n < 0 then (d, n, false)
  else if (d.length : Int) < n then (d, n - d.length, false)
  else (d.take n.toNat, 0, true)

/-- reading stops for reason `why` while in `mode`. -/
def stopIn (inf : Inflate) (cfg : RCfg) (limits : List Int) (st : RState) (why : Stop) : List Ev :=
  match st.mode with
  | .idle => stopReplies why ++ [.fail why]
  | .plain typ acc _ => stopReplies why ++ [.partialMsg typ acc why false]
  | .comp typ z =>
    -- the inflater may already have produced (and the limit reader may already have cut) the
    -- plaintext of the collected prefix: both outcomes are possible, `ambiguous` says so
    let avail := (inf st.dict z).plain
    let n := allowance (limitFor cfg limits (st.idx - 1))
    let (out, _, hit) := takeLimited n avail
    stopReplies why ++ [.partialMsg typ out why hit]

/-- a complete message's last frame has been consumed. -/
def finishMsg (inf : Inflate) (cfg : RCfg) (limits : List Int) (st : RState) : List Ev × Option RState :=
  match st.mode with
  | .idle => ([], some st)
  | .plain typ acc _ => ([.msg typ acc], some { st with mode := .idle })
  | .comp typ z =>
    let res := inf st.dict (z ++ deflateTail)
    let n := allowance (limitFor cfg limits (st.idx - 1))
    let (out, _, hit) := takeLimited n res.plain
    if hit then (stopReplies .limit ++ [.partialMsg typ out .limit false], none)
    else if !res.ok then ([.partialMsg typ out .inflate false], none)
    else ([.msg typ out], some { st with mode := .idle, dict := if cfg.takeover then slide st.dict out else st.dict })

/-- a data frame (complete, or the available part of a truncated one) arrives in state `st`.
`none` = reading stopped. -/
def dataStep (inf : Inflate) (cfg : RCfg) (limits : List Int) (st : RState) (h : Header) (d : Bytes) :
    List Ev × Option RState :=
  match st.mode with
  | .idle =>
    if h.opcode == opCont then (stopIn inf cfg limits st .proto, none)
    else
      let st1 := { st with idx := st.idx + 1 }
      if h.rsv1 then ([], some { st1 with mode := .comp h.opcode d })
      else
        let (out, n', hit) := takeLimited (allowance (limitFor cfg limits st.idx)) d
        if hit then (stopReplies .limit ++ [.partialMsg h.opcode out .limit false], none)
        else ([], some { st1 with mode := .plain h.opcode out n' })
  | .plain typ acc n =>
    if h.opcode != opCont then (stopIn inf cfg limits st .proto, none)
    else
      let (out, n', hit) := takeLimited n d
      if hit then (stopReplies .limit ++ [.partialMsg typ (acc ++ out) .limit false], none)
      else ([], some { st with mode := .plain typ (acc ++ out) n' })
  | .comp typ z =>
    if h.opcode != opCont then (stopIn inf cfg limits st .proto, none)
    else ([], some { st with mode := .comp typ (z ++ d) })

/-- the whole read side: consume frames until reading stops. -/
def runReader (inf : Inflate) (cfg : RCfg) (limits : List Int) : RState → List Frame → Tail → List Ev
  | st, [], .clean => stopIn inf cfg limits st .io
  | st, [], .shortHeader => stopIn inf cfg limits st .io
  | st, [], .negative => stopIn inf cfg limits st .protoNoClose
  | st, [], .shortPayload h avail =>
    match headerCheck cfg h with
    | some why => stopIn inf cfg limits st why
    | none =>
      if isControl h.opcode then stopIn inf cfg limits st .io
      else
        let d := if h.masked then xorKey h.key avail else avail
        match dataStep inf cfg limits st h d with
        | (evs, none) => evs
        | (evs, some st') => evs ++ stopIn inf cfg limits st' .io
  | st, f :: rest, tl =>
    match headerCheck cfg f.h with
    | some why => stopIn inf cfg limits st why
    | none =>
      if f.h.opcode == opPing then .reply opPong f.data :: runReader inf cfg limits st rest tl
      else if f.h.opcode == opPong then runReader inf cfg limits st rest tl
      else if f.h.opcode == opClose then
        match parseClosePayload f.data with
        | .bad => stopIn inf cfg limits st .proto
        | .ok code reason => stopIn inf cfg limits st (.peerClose code reason)
      else
        match dataStep inf cfg limits st f.h f.data with
        | (evs, none) => evs
        | (evs, some st') =>
          if f.h.fin then
            match finishMsg inf cfg limits st' with
            | (evs2, none) => evs ++ evs2
            | (evs2, some st'') => evs ++ evs2 ++ runReader inf cfg limits st'' rest tl
          else evs ++ runReader inf cfg limits st' rest tl

def initR : RState := { mode := .idle, dict := [], idx := 0 }

/-- byte-level entry point. -/
def readStream (inf : Inflate) (cfg : RCfg) (limits : List Int) (s : Bytes) : List Ev :=
  let p := parseFrames s
  runReader inf cfg limits initR p.1 p.2

end WS.Model
