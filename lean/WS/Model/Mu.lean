/-
  Model of the channel mutex `mu` (conn.go): `ch chan struct{}` of capacity 1; a token in the channel
  means "held". All four connection locks (readMu, writeFrameMu, msgWriter.mu, msgWriter.writeMu) are
  instances of it, and the CIR treats `lock`/`unlock` as atomic primitives: this model is what stands
  under that abstraction.

  Go:
    forceLock:  m.ch <- struct{}{}                         (blocks while full)
    tryLock:    select { case m.ch <- struct{}{}: true; default: false }
    lock(ctx):  select { case <-c.closed: ErrClosed
                         case <-ctx.Done(): ctx error
                         case m.ch <- struct{}{}:
                             select { case <-c.closed: m.unlock(); ErrClosed; default: } ; nil }
    unlock:     select { case <-m.ch: ; default: }

  A `select` with several ready cases picks any of them: the pick is a parameter (`Pick`) of the model,
  so a statement "for every pick" is a statement for every scheduler.
-/
namespace WS.Model.Mu

structure St where
  full : Bool      -- a token is in the channel: somebody holds the lock
  closed : Bool    -- `c.closed` is closed
  deriving Repr, DecidableEq

/-- which case of `lock`'s first `select` the runtime picks. -/
inductive Pick
  | closedCase | ctxCase | sendCase
  deriving Repr, DecidableEq

inductive Res
  | ok           -- nil: the caller now holds the lock
  | errClosed    -- net.ErrClosed
  | errCtx       -- "failed to acquire lock: <ctx error>"
  | blocked      -- no case is ready: the call does not return (yet)
  deriving Repr, DecidableEq

/-- is this case of the first select ready? -/
def ready (s : St) (ctxDone : Bool) : Pick → Bool
  | .closedCase => s.closed
  | .ctxCase => ctxDone
  | .sendCase => !s.full

/-- `unlock`: take the token out if there is one. -/
def unlock (s : St) : St := { s with full := false }

/-- `lock(ctx)` when the runtime picks case `p` (a pick that is not ready stands for "nothing is picked
yet": the call stays blocked and nothing changes). -/
def lock (s : St) (ctxDone : Bool) (p : Pick) : St × Res :=
  if ready s ctxDone p then
    match p with
    | .closedCase => (s, .errClosed)
    | .ctxCase => (s, .errCtx)
    | .sendCase =>
      let s1 := { s with full := true }
      if s1.closed then (unlock s1, .errClosed) else (s1, .ok)
  else (s, .blocked)

/-- `tryLock`. -/
def tryLock (s : St) : St × Bool := if s.full then (s, false) else ({ s with full := true }, true)

/-- `forceLock`: returns only when the channel has room. -/
def forceLock (s : St) : St × Res := if s.full then (s, .blocked) else ({ s with full := true }, .ok)

/-- the picks that can fire in this state (empty: the call blocks). -/
def picks (s : St) (ctxDone : Bool) : List Pick :=
  [Pick.closedCase, Pick.ctxCase, Pick.sendCase].filter (ready s ctxDone)

/-! ### several goroutines: the channel with a ghost owner -/

/-- the lock together with the goroutine that put the token in (ghost state: Go does not record it). -/
structure Owned where
  s : St
  owner : Option Nat
  deriving Repr, DecidableEq

inductive Op
  | lock (t : Nat) (ctxDone : Bool) (p : Pick)
  | tryLock (t : Nat)
  | forceLock (t : Nat)
  | unlock (t : Nat)      -- goroutine t calls unlock
  | closeConn             -- c.closed is closed
  deriving Repr, DecidableEq

def stepO (o : Owned) : Op → Owned
  | .lock t d p =>
    let r := lock o.s d p
    ⟨r.1, if r.2 = .ok then some t else o.owner⟩
  | .tryLock t =>
    let r := tryLock o.s
    ⟨r.1, if r.2 = true then some t else o.owner⟩
  | .forceLock t =>
    let r := forceLock o.s
    ⟨r.1, if r.2 = .ok then some t else o.owner⟩
  | .unlock _ => ⟨unlock o.s, none⟩
  | .closeConn => ⟨{ o.s with closed := true }, o.owner⟩

/-- the discipline the CIR lockset certificate establishes for the callers: only the holder unlocks. -/
def disciplined (o : Owned) : Op → Bool
  | .unlock t => o.owner == some t
  | _ => true

def runO : List Op → Owned → Owned
  | [], o => o
  | op :: ops, o => runO ops (stepO o op)

/-- every op of the list respects the discipline in the state it is applied to. -/
def allDisciplined : List Op → Owned → Bool
  | [], _ => true
  | op :: ops, o => disciplined o op && allDisciplined ops (stepO o op)

def initO : Owned := ⟨⟨false, false⟩, none⟩

end WS.Model.Mu
