import WS.Basic
import WS.Spec.Mask
/-
  Byte-level framing (RFC 6455 §5.2) as implemented by frame.go:
  `encodeHeader` mirrors writeFrameHeader, `decodeHeader` mirrors readFrameHeader.
  The 32-bit mask key is kept as its four wire bytes (little-endian image of the uint32).
-/
namespace WS.Model
open WS

structure Header where
  fin : Bool
  rsv1 : Bool
  rsv2 : Bool
  rsv3 : Bool
  opcode : Nat            -- 0..15
  len : Nat               -- payloadLength (int64 in Go; the model carries values < 2^63)
  masked : Bool
  key : Bytes             -- 4 wire bytes when masked, [] otherwise
  deriving Repr, DecidableEq, Inhabited

def opCont : Nat := 0
def opText : Nat := 1
def opBinary : Nat := 2
def opClose : Nat := 8
def opPing : Nat := 9
def opPong : Nat := 10

def b2n (b : Bool) (n : Nat) : Nat := if b then n else 0

def be16 (n : Nat) : Bytes := [UInt8.ofNat (n / 256), UInt8.ofNat (n % 256)]

def be64 (n : Nat) : Bytes :=
  [UInt8.ofNat (n / 2^56 % 256), UInt8.ofNat (n / 2^48 % 256), UInt8.ofNat (n / 2^40 % 256),
   UInt8.ofNat (n / 2^32 % 256), UInt8.ofNat (n / 2^24 % 256), UInt8.ofNat (n / 2^16 % 256),
   UInt8.ofNat (n / 2^8 % 256), UInt8.ofNat (n % 256)]

/-- writeFrameHeader. -/
def encodeHeader (h : Header) : Bytes :=
  let b0 := UInt8.ofNat (b2n h.fin 128 + b2n h.rsv1 64 + b2n h.rsv2 32 + b2n h.rsv3 16 + h.opcode % 16)
  let m := b2n h.masked 128
  let lenPart : Bytes :=
    if h.len > 65535 then UInt8.ofNat (m + 127) :: be64 h.len
    else if h.len > 125 then UInt8.ofNat (m + 126) :: be16 h.len
    else [UInt8.ofNat (m + h.len)]
  b0 :: lenPart ++ (if h.masked then h.key.take 4 else [])

inductive HdrRes
  | ok (h : Header) (rest : Bytes)
  | needMore                      -- the stream ends inside the header
  | negative                      -- 64-bit length with the top bit set
  deriving Repr, DecidableEq

def fromBE : Bytes → Nat → Nat
  | [], acc => acc
  | b :: bs, acc => fromBE bs (acc * 256 + b.toNat)

/-- readFrameHeader. -/
def decodeHeader (s : Bytes) : HdrRes :=
  match s with
  | b0 :: b1 :: r =>
    let n0 := b0.toNat
    let n1 := b1.toNat
    let masked := n1 ≥ 128
    let l7 := n1 % 128
    let lenRes : Option (Nat × Bytes) :=
      if l7 < 126 then some (l7, r)
      else if l7 = 126 then
        (if r.length ≥ 2 then some (fromBE (r.take 2) 0, r.drop 2) else none)
      else
        (if r.length ≥ 8 then some (fromBE (r.take 8) 0, r.drop 8) else none)
    match lenRes with
    | none => .needMore
    | some (len, r2) =>
      if len ≥ 2^63 then .negative
      else
        let mk (key : Bytes) (rest : Bytes) : HdrRes :=
          .ok { fin := n0 ≥ 128, rsv1 := n0 / 64 % 2 = 1, rsv2 := n0 / 32 % 2 = 1, rsv3 := n0 / 16 % 2 = 1,
                opcode := n0 % 16, len := len, masked := masked, key := key } rest
        if masked then
          (if r2.length ≥ 4 then mk (r2.take 4) (r2.drop 4) else .needMore)
        else mk [] r2
  | _ => .needMore

/-- frame-level masking with the key as four wire bytes: byte i XOR key byte (i mod 4). -/
def xorKeyFrom (key : Bytes) : Nat → Bytes → Bytes
  | _, [] => []
  | i, x :: xs => (x ^^^ key.getD (i % 4) 0) :: xorKeyFrom key (i + 1) xs

def xorKey (key : Bytes) (b : Bytes) : Bytes := xorKeyFrom key 0 b

/-- a frame as it appears on the wire (payload still masked if `h.masked`). -/
structure Frame where
  h : Header
  payload : Bytes
  deriving Repr, DecidableEq, Inhabited

/-- the application payload of a frame. -/
def Frame.data (f : Frame) : Bytes := if f.h.masked then xorKey f.h.key f.payload else f.payload

def encodeFrame (f : Frame) : Bytes := encodeHeader f.h ++ f.payload

/-- what is left of the stream after the last complete frame. -/
inductive Tail
  | clean                                   -- the stream ends exactly at a frame boundary
  | shortHeader                             -- it ends inside a frame header
  | negative                                -- a header declares a length with the top bit set
  | shortPayload (h : Header) (avail : Bytes)  -- it ends inside the payload of frame `h`
  deriving Repr, DecidableEq

/-- split a byte stream into complete frames and a tail.  Fuel: every frame has ≥ 2 bytes. -/
def parseFramesAux : Nat → Bytes → List Frame → List Frame × Tail
  | 0, _, acc => (acc.reverse, .shortHeader)
  | fuel + 1, s, acc =>
    if s.isEmpty then (acc.reverse, .clean)
    else
      match decodeHeader s with
      | .needMore => (acc.reverse, .shortHeader)
      | .negative => (acc.reverse, .negative)
      | .ok h rest =>
        if rest.length ≥ h.len then
          parseFramesAux fuel (rest.drop h.len) ({ h := h, payload := rest.take h.len } :: acc)
        else (acc.reverse, .shortPayload h rest)

def parseFrames (s : Bytes) : List Frame × Tail := parseFramesAux (s.length + 1) s []

end WS.Model
