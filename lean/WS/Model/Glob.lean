import WS.Model.Str
/-
  Model of path/filepath.Match (non-Windows) on the ASCII domain, a direct port of the Go
  algorithm: scanChunk / matchChunk / getEsc and the one-level star backtracking.
-/
namespace WS.Model

inductive GlobRes
  | yes | no | badPattern
  deriving Repr, DecidableEq

/-- scanChunk: (star, chunk, rest) -/
def scanChunk (pattern : Str) : Bool × Str × Str :=
  let rec dropStars : Str → Bool → Str × Bool
    | '*' :: cs, _ => dropStars cs true
    | cs, st => (cs, st)
  let (p, star) := dropStars pattern false
  -- scan to the next '*' outside a range
  let rec scan : Str → Bool → Str → Str × Str
    | [], _, acc => (acc.reverse, [])
    | '\\' :: c :: cs, inr, acc => scan cs inr (c :: '\\' :: acc)
    | ['\\'], _, acc => (('\\' :: acc).reverse, [])
    | '[' :: cs, _, acc => scan cs true ('[' :: acc)
    | ']' :: cs, _, acc => scan cs false (']' :: acc)
    | '*' :: cs, inr, acc => if inr then scan cs inr ('*' :: acc) else (acc.reverse, '*' :: cs)
    | c :: cs, inr, acc => scan cs inr (c :: acc)
  let (chunk, rest) := scan p false []
  (star, chunk, rest)

/-- getEsc: (rune, rest) or bad pattern -/
def getEsc (chunk : Str) : Option (Char × Str) :=
  match chunk with
  | [] => none
  | '-' :: _ => none
  | ']' :: _ => none
  | '\\' :: [] => none
  | '\\' :: c :: rest => if rest.isEmpty then none else some (c, rest)
  | c :: rest => if rest.isEmpty then none else some (c, rest)

inductive ChunkRes
  | ok (rest : Str)
  | fail
  | bad

/-- the character class loop of matchChunk; returns (matched, remaining chunk) -/
def classLoop : Nat → Str → Char → Bool → Nat → Option (Bool × Str)
  | 0, _, _, _, _ => none
  | fuel + 1, chunk, r, m, nrange =>
    match chunk with
    | ']' :: rest => if nrange > 0 then some (m, rest) else
        -- ']' as first element is an error in getEsc
        none
    | _ =>
      match getEsc chunk with
      | none => none
      | some (lo, c1) =>
        match c1 with
        | '-' :: c2 =>
          match getEsc c2 with
          | none => none
          | some (hi, c3) => classLoop fuel c3 r (m || (lo ≤ r && r ≤ hi)) (nrange + 1)
        | _ => classLoop fuel c1 r (m || (lo == r)) (nrange + 1)

/-- matchChunk -/
def matchChunk : Nat → Str → Str → Bool → ChunkRes
  | 0, _, _, _ => .bad
  | fuel + 1, chunk, s, failed =>
    match chunk with
    | [] => if failed then .fail else .ok s
    | c :: crest =>
      let failed := failed || s.isEmpty
      if c == '[' then
        let r := s.headD 'x'
        let s' := if failed then s else s.tail
        let (negated, c1) := match crest with
          | '^' :: t => (true, t)
          | t => (false, t)
        match classLoop (c1.length + 2) c1 r false 0 with
        | none => .bad
        | some (m, c2) => matchChunk fuel c2 s' (failed || (m == negated))
      else if c == '?' then
        if failed then matchChunk fuel crest s true
        else matchChunk fuel crest s.tail (s.headD 'x' == '/')
      else if c == '\\' then
        match crest with
        | [] => .bad
        | e :: crest2 =>
          if failed then matchChunk fuel crest2 s true
          else matchChunk fuel crest2 s.tail (e != s.headD 'x')
      else
        if failed then matchChunk fuel crest s true
        else matchChunk fuel crest s.tail (c != s.headD 'x')

/-- the star loop: try the chunk at name[i+1:] for i = 0.. while name[i] is not a separator -/
def starLoop (chunk : Str) (lastPattern : Bool) : Nat → Str → Option (Option Str)
  -- none = bad pattern; some none = no match; some (some t) = matched leaving t
  | 0, _ => some none
  | _ + 1, [] => some none
  | fuel + 1, c :: name =>
    if c == '/' then some none
    else
      match matchChunk (chunk.length + 2) chunk name false with
      | .ok t => if lastPattern && !t.isEmpty then starLoop chunk lastPattern fuel name else some (some t)
      | .bad => none
      | .fail => starLoop chunk lastPattern fuel name

/-- filepath.Match -/
def globMatch : Nat → Str → Str → GlobRes
  | 0, _, _ => .no
  | fuel + 1, pattern, name =>
    if pattern.isEmpty then (if name.isEmpty then .yes else .no)
    else
      let (star, chunk, rest) := scanChunk pattern
      if star && chunk.isEmpty then (if name.contains '/' then .no else .yes)
      else
        match matchChunk (chunk.length + 2) chunk name false with
        | .ok t =>
          if t.isEmpty || !rest.isEmpty then globMatch fuel rest t
          else
            -- matched but the name has characters left and the pattern is exhausted
            if star then
              match starLoop chunk rest.isEmpty (name.length + 1) name with
              | none => .badPattern
              | some none => .no
              | some (some t2) => globMatch fuel rest t2
            else .no
        | .bad => .badPattern
        | .fail =>
          if star then
            match starLoop chunk rest.isEmpty (name.length + 1) name with
            | none => .badPattern
            | some none => .no
            | some (some t2) => globMatch fuel rest t2
          else .no

def glob (pattern name : Str) : GlobRes := globMatch (pattern.length + 2) pattern name

end WS.Model
