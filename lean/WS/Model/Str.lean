/-
  String helpers for the handshake models, over `List Char`.  Domain: ASCII plus the two non-ASCII
  characters that Go's Unicode simple folding maps to ASCII letters (U+212A KELVIN SIGN → k,
  U+017F LATIN SMALL LETTER LONG S → s) and the non-ASCII spaces U+0085 / U+00A0 trimmed by
  strings.TrimSpace.  Other non-ASCII text is outside the modelled domain (the correspondence
  check generates inside the domain).
-/
namespace WS.Model

abbrev Str := List Char

def isSpace (c : Char) : Bool :=
  c == ' ' || c == '\t' || c == '\n' || c == '\r' || c == Char.ofNat 11 || c == Char.ofNat 12 ||
  c == Char.ofNat 0x85 || c == Char.ofNat 0xA0

def trimLeft : Str → Str
  | [] => []
  | c :: cs => if isSpace c then trimLeft cs else c :: cs

/-- strings.TrimSpace -/
def trimSpace (s : Str) : Str := (trimLeft (trimLeft s).reverse).reverse

/-- strings.Split(s, sep) for a single-character separator: always at least one piece. -/
def splitOnChar (sep : Char) : Str → List Str
  | [] => [[]]
  | c :: cs =>
    match splitOnChar sep cs with
    | [] => [[]]        -- unreachable
    | p :: ps => if c == sep then [] :: p :: ps else (c :: p) :: ps

/-- Unicode simple case folding restricted to the modelled domain. -/
def foldChar (c : Char) : Char :=
  if 'A' ≤ c ∧ c ≤ 'Z' then Char.ofNat (c.toNat + 32)
  else if c == Char.ofNat 0x212A then 'k'
  else if c == Char.ofNat 0x17F then 's'
  else c

/-- strings.EqualFold -/
def equalFold (a b : Str) : Bool := a.map foldChar == b.map foldChar

/-- strings.ToLower (ASCII; U+212A lower-cases to k as in Go, U+017F stays) -/
def lowerChar (c : Char) : Char :=
  if 'A' ≤ c ∧ c ≤ 'Z' then Char.ofNat (c.toNat + 32)
  else if c == Char.ofNat 0x212A then 'k'
  else c

def toLower (s : Str) : Str := s.map lowerChar

def hasPrefix (p s : Str) : Bool := p.isPrefixOf s

def joinWith (sep : Str) : List Str → Str
  | [] => []
  | [a] => a
  | a :: rest => a ++ sep ++ joinWith sep rest

end WS.Model
