/-
  Model of the Ping registry (conn.go: Conn.Ping / Conn.ping, read.go: handleControl case opPong).

  Go: `Ping` draws `p := atomic.AddInt32(&c.pingCounter, 1)`, registers a one-slot channel under the
  key `strconv.Itoa(p)` in `c.activePings`, writes a Ping frame with that payload and waits for the
  channel (or for its context / the connection to end), deregistering on return. The read loop, on a
  Pong frame, looks the payload up in `c.activePings` and, if present, puts a token in that channel
  (non-blocking: the slot holds at most one).
-/
namespace WS.Model.Ping

/-- one outstanding `Ping` call. -/
structure Entry where
  id : Nat          -- the value of pingCounter it drew
  got : Bool        -- its one-slot pong channel holds a token
  deriving Repr, DecidableEq

structure St where
  counter : Nat
  active : List Entry
  deriving Repr, DecidableEq

def init : St := ⟨0, []⟩

/-- `strconv.Itoa`. -/
def payloadOf (id : Nat) : String := Nat.repr id

inductive Ev
  | start                    -- a Ping call begins: draws counter+1, registers, its Ping frame is written
  | pong (payload : String)  -- the read loop receives a Pong frame with this payload
  | cancel (id : Nat)        -- the call that drew `id` gives up (context done / connection closed)
  | finish (id : Nat)        -- the call that drew `id` takes the token from its channel and returns nil
  deriving Repr, DecidableEq

inductive Out
  | sentPing (payload : String)
  | returnedOk (id : Nat)
  | returnedErr (id : Nat)
  | nothing
  deriving Repr, DecidableEq

def present (s : St) (id : Nat) : Bool := s.active.any (fun e => e.id == id)
def gotOf (s : St) (id : Nat) : Bool := s.active.any (fun e => e.id == id && e.got)

def mark (p : String) (e : Entry) : Entry := if payloadOf e.id = p then { e with got := true } else e

def step (s : St) : Ev → St × Out
  | .start =>
    let id := s.counter + 1
    ({ counter := id, active := s.active ++ [⟨id, false⟩] }, .sentPing (payloadOf id))
  | .pong p => ({ s with active := s.active.map (mark p) }, .nothing)
  | .cancel id =>
    if present s id then ({ s with active := s.active.filter (fun e => e.id != id) }, .returnedErr id)
    else (s, .nothing)
  | .finish id =>
    if gotOf s id then ({ s with active := s.active.filter (fun e => e.id != id) }, .returnedOk id)
    else (s, .nothing)

def run : List Ev → St → St × List Out
  | [], s => (s, [])
  | e :: es, s =>
    let (s1, o) := step s e
    let (s2, os) := run es s1
    (s2, o :: os)

/-- the state after a list of events. -/
def after (es : List Ev) (s : St) : St := (run es s).1

end WS.Model.Ping
