import WS.Basic
/-
  Model of the net.Conn adapter (netconn.go): `netConn.Read` over the message stream of the
  underlying connection, `netConn.Write` (one message per call), and the deadline state machine.
-/
namespace WS.Model.NetConn
open WS

/-- how the message stream of the underlying connection ends. -/
inductive End
  | closeErr (code : Int)      -- Reader fails with a CloseError
  | otherErr                   -- Reader fails with another error
  deriving Repr, DecidableEq

structure Msg where
  typ : Nat
  data : Bytes
  deriving Repr, DecidableEq

inductive ReadRes
  | data (b : Bytes)           -- n > 0 bytes, nil error
  | eof                        -- io.EOF
  | err                        -- any other error
  deriving Repr, DecidableEq

structure State where
  msgType : Nat
  cur : Option Bytes           -- unread rest of the message being read (nc.reader != nil)
  rest : List Msg              -- messages not yet started
  fin : End                    -- what Reader returns after the last message
  eofed : Bool                 -- nc.readEOFed
  failed : Bool                -- a previous call failed (the connection is closed / unusable)
  close1003 : Bool             -- ghost: a Close frame with status 1003 was sent
  deriving Repr

/-- one `netConn.Read(p)` with `len p = k ≥ 1`: loops over `nc.read` until it returns data or an error;
empty messages (and the empty remainder at the end of a message) are skipped. Fuel bounds the loop
by the number of remaining messages. -/
def read (k : Nat) : Nat → State → ReadRes × State
  | 0, s => (.err, s)
  | fuel + 1, s =>
    if s.failed then (.err, s)
    else if s.eofed then (.eof, s)
    else
      match s.cur with
      | some d =>
        if d.isEmpty then read k fuel { s with cur := none }      -- reader returned (0, EOF): next message
        else (.data (d.take k), { s with cur := some (d.drop k) })
      | none =>
        match s.rest with
        | [] =>
          (match s.fin with
           | .closeErr code =>
             if code = 1000 ∨ code = 1001 then (.eof, { s with eofed := true }) else (.err, { s with failed := true })
           | .otherErr => (.err, { s with failed := true }))
        | m :: ms =>
          if m.typ != s.msgType then (.err, { s with failed := true, close1003 := true, rest := ms })
          else read k fuel { s with cur := some m.data, rest := ms }

def readN (s : State) (k : Nat) : ReadRes × State := read k (2 * s.rest.length + 3) s

/-- a sequence of reads with the given buffer sizes; returns the results in order. -/
def reads : List Nat → State → List ReadRes × State
  | [], s => ([], s)
  | k :: ks, s =>
    let r := readN s k
    let r' := reads ks r.2
    (r.1 :: r'.1, r'.2)

def bytesOf : List ReadRes → Bytes
  | [] => []
  | .data b :: rs => b ++ bytesOf rs
  | _ :: rs => bytesOf rs

def init (msgType : Nat) (ms : List Msg) (fin : End) : State :=
  { msgType := msgType, cur := none, rest := ms, fin := fin, eofed := false, failed := false, close1003 := false }

/-- all bytes still to be delivered. -/
def pending (s : State) : Bytes := (s.cur.getD []) ++ (s.rest.map (·.data)).flatten

/-! ### deadlines -/

structure DL where
  expired : Bool        -- nc.readExpired / nc.writeExpired
  active : Bool         -- a call holds the adapter's mutex
  closed : Bool         -- the call's context was cancelled ⇒ the connection is closed
  deriving Repr, DecidableEq

inductive DEv
  | fire        -- the deadline timer fires
  | set         -- SetDeadline / SetReadDeadline / SetWriteDeadline (any value): clears the expired flag
  | setPast     -- … with a time that has already passed: the flag is cleared and the timer fires at once
  | callBegin   -- Read / Write takes the mutex
  | callEnd
  deriving Repr, DecidableEq

def dfire (s : DL) : DL := if s.active then { s with closed := true } else { s with expired := true }

def dstep (s : DL) : DEv → DL
  | .fire => dfire s
  | .set => { s with expired := false }
  | .setPast => dfire { s with expired := false }
  | .callBegin => { s with active := true }
  | .callEnd => { s with active := false }

/-- result of starting a call in state `s`: `false` = fails with a deadline error before touching the connection. -/
def callAllowed (s : DL) : Bool := !s.expired

/-! ### deadline programs: both directions of one adapter, deadlines set before, between and during calls -/

inductive Side | r | w
  deriving Repr, DecidableEq

/-- one step of a client program on the adapter. `blockedPast sd`: a Read / Write is started that blocks
inside the connection (nothing to read / a peer that does not read) and, while it is blocked, the
deadline of that side is set to a time in the past. `SetDeadline` is the two per-side events in a row. -/
inductive PEv
  | setZero (sd : Side)
  | setFuture (sd : Side)      -- far enough in the future not to fire during the program
  | setPast (sd : Side)        -- while no call of that side is active
  | call (sd : Side)           -- a call that can complete at once (data is there / the peer reads)
  | blockedPast (sd : Side)
  deriving Repr, DecidableEq

inductive CallRes | ok | deadline | fail
  deriving Repr, DecidableEq

/-- the two deadline states share the connection. -/
structure DL2 where
  r : DL
  w : DL
  deriving Repr, DecidableEq

def DL2.init : DL2 := ⟨⟨false, false, false⟩, ⟨false, false, false⟩⟩

def DL2.get (s : DL2) : Side → DL
  | .r => s.r
  | .w => s.w

/-- write back one side; a closed connection is closed for both. -/
def DL2.put (s : DL2) (sd : Side) (d : DL) : DL2 :=
  match sd with
  | .r => ⟨d, { s.w with closed := s.w.closed || d.closed }⟩
  | .w => ⟨{ s.r with closed := s.r.closed || d.closed }, d⟩

def DL2.closed (s : DL2) : Bool := s.r.closed || s.w.closed

/-- what a call started in state `d` returns when nothing else happens during it. -/
def callRes (d : DL) : CallRes :=
  if d.expired then .deadline else if d.closed then .fail else .ok

def pstep (s : DL2) : PEv → DL2 × Option CallRes
  | .setZero sd | .setFuture sd => (s.put sd (dstep (s.get sd) .set), none)
  | .setPast sd => (s.put sd (dstep (s.get sd) .setPast), none)
  | .call sd => (s, some (callRes (s.get sd)))
  | .blockedPast sd =>
    match callRes (s.get sd) with
    | .ok =>      -- the call is inside the connection when the past deadline arrives
      let d := dstep (dstep (dstep (s.get sd) .callBegin) .setPast) .callEnd
      (s.put sd d, some .fail)
    | res =>      -- the call returned at once; the deadline is then set while idle
      (s.put sd (dstep (s.get sd) .setPast), some res)

def prun : List PEv → DL2 → DL2 × List CallRes
  | [], s => (s, [])
  | e :: es, s =>
    let (s1, o) := pstep s e
    let (s2, os) := prun es s1
    (s2, o.toList ++ os)

end WS.Model.NetConn
