import WS.Basic
/-
  Model of the net.Conn adapter (netconn.go): `netConn.Read` over the message stream of the
  underlying connection, `netConn.Write` (one message per call), and the deadline state machine.
-/
namespace WS.Model.NetConn
open WS

/-- how the message stream of the underlying connection ends. -/
inductive End
  | closeErr (code : Int)      -- Reader fails with a CloseError
  | otherErr                   -- Reader fails with another error
  deriving Repr, DecidableEq

structure Msg where
  typ : Nat
  data : Bytes
  deriving Repr, DecidableEq

inductive ReadRes
  | data (b : Bytes)           -- n > 0 bytes, nil error
  | eof                        -- io.EOF
  | err                        -- any other error
  deriving Repr, DecidableEq

structure State where
  msgType : Nat
  cur : Option Bytes           -- unread rest of the message being read (nc.reader != nil)
  rest : List Msg              -- messages not yet started
  fin : End                    -- what Reader returns after the last message
  eofed : Bool                 -- nc.readEOFed
  failed : Bool                -- a previous call failed (the connection is closed / unusable)
  close1003 : Bool             -- ghost: a Close frame with status 1003 was sent
  deriving Repr

/-- one `netConn.Read(p)` with `len p = k ≥ 1`: loops over `nc.read` until it returns data or an error;
empty messages (and the empty remainder at the end of a message) are skipped. Fuel bounds the loop
by the number of remaining messages. -/
def read (k : Nat) : Nat → State → ReadRes × State
  | 0, s => (.err, s)
  | fuel + 1, s =>
    if s.failed then (.err, s)
    else if s.eofed then (.eof, s)
    else
      match s.cur with
      | some d =>
        if d.isEmpty then read k fuel { s with cur := none }      -- reader returned (0, EOF): next message
        else (.data (d.take k), { s with cur := some (d.drop k) })
      | none =>
        match s.rest with
        | [] =>
          (match s.fin with
           | .closeErr code =>
             if code = 1000 ∨ code = 1001 then (.eof, { s with eofed := true }) else (.err, { s with failed := true })
           | .otherErr => (.err, { s with failed := true }))
        | m :: ms =>
          if m.typ != s.msgType then (.err, { s with failed := true, close1003 := true, rest := ms })
          else read k fuel { s with cur := some m.data, rest := ms }

def readN (s : State) (k : Nat) : ReadRes × State := read k (2 * s.rest.length + 3) s

/-- a sequence of reads with the given buffer sizes; returns the results in order. -/
def reads : List Nat → State → List ReadRes × State
  | [], s => ([], s)
  | k :: ks, s =>
    let r := readN s k
    let r' := reads ks r.2
    (r.1 :: r'.1, r'.2)

def bytesOf : List ReadRes → Bytes
  | [] => []
  | .data b :: rs => b ++ bytesOf rs
  | _ :: rs => bytesOf rs

def init (msgType : Nat) (ms : List Msg) (fin : End) : State :=
  { msgType := msgType, cur := none, rest := ms, fin := fin, eofed := false, failed := false, close1003 := false }

/-- all bytes still to be delivered. -/
def pending (s : State) : Bytes := (s.cur.getD []) ++ (s.rest.map (·.data)).flatten

/-! ### deadlines -/

structure DL where
  expired : Bool        -- nc.readExpired / nc.writeExpired
  active : Bool         -- a call holds the adapter's mutex
  closed : Bool         -- the call's context was cancelled ⇒ the connection is closed
  deriving Repr, DecidableEq

inductive DEv
  | fire        -- the deadline timer fires
  | set         -- SetDeadline / SetReadDeadline / SetWriteDeadline (any value): clears the expired flag
  | callBegin   -- Read / Write takes the mutex
  | callEnd
  deriving Repr, DecidableEq

def dstep (s : DL) : DEv → DL
  | .fire => if s.active then { s with closed := true } else { s with expired := true }
  | .set => { s with expired := false }
  | .callBegin => { s with active := true }
  | .callEnd => { s with active := false }

/-- result of starting a call in state `s`: `false` = fails with a deadline error before touching the connection. -/
def callAllowed (s : DL) : Bool := !s.expired

end WS.Model.NetConn
