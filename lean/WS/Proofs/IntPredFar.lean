import WS.Model.IntPred
/-
  Integer-predicate programs are decided by the constants they mention: beyond all of them the result no longer
  changes.  With this, "the regenerated program equals the model on every integer" follows from a kernel evaluation
  over a finite window plus the model's own behaviour outside it — whatever shape the regenerated program has.
-/
namespace WS.Model

/-- every constant of the condition lies in [lo, hi]. -/
def ICond.within (lo hi : Int) : ICond → Bool
  | .ge k | .le k | .gt k | .lt k | .eq k | .ne k => decide (lo ≤ k) && decide (k ≤ hi)
  | .and a b | .or a b => a.within lo hi && b.within lo hi
  | .not a => a.within lo hi
  | .tt | .ff => true

def IStmt.within (lo hi : Int) : IStmt → Bool
  | .switchRet cs _ => cs.all (fun k => decide (lo ≤ k) && decide (k ≤ hi))
  | .ifRet c _ => c.within lo hi
  | .ret _ => true
  | .retCond c => c.within lo hi
  | .unknown _ => true

def IntPred.within (lo hi : Int) (p : IntPred) : Bool := p.all (IStmt.within lo hi)

theorem ICond.eval_above {lo hi : Int} (c : ICond) (h : c.within lo hi = true) (x y : Int) (hx : hi < x) (hy : hi < y) :
    c.eval x = c.eval y := by
  induction c with
  | ge k | le k | gt k | lt k | eq k | ne k =>
    simp only [ICond.within, Bool.and_eq_true, decide_eq_true_eq] at h
    simp only [ICond.eval]
    apply Bool.eq_iff_iff.mpr
    simp only [decide_eq_true_eq]
    omega
  | and a b iha ihb =>
    simp only [ICond.within, Bool.and_eq_true] at h
    simp [ICond.eval, iha h.1, ihb h.2]
  | or a b iha ihb =>
    simp only [ICond.within, Bool.and_eq_true] at h
    simp [ICond.eval, iha h.1, ihb h.2]
  | not a iha =>
    simp only [ICond.within] at h
    simp [ICond.eval, iha h]
  | tt => rfl
  | ff => rfl

theorem ICond.eval_below {lo hi : Int} (c : ICond) (h : c.within lo hi = true) (x y : Int) (hx : x < lo) (hy : y < lo) :
    c.eval x = c.eval y := by
  induction c with
  | ge k | le k | gt k | lt k | eq k | ne k =>
    simp only [ICond.within, Bool.and_eq_true, decide_eq_true_eq] at h
    simp only [ICond.eval]
    apply Bool.eq_iff_iff.mpr
    simp only [decide_eq_true_eq]
    omega
  | and a b iha ihb =>
    simp only [ICond.within, Bool.and_eq_true] at h
    simp [ICond.eval, iha h.1, ihb h.2]
  | or a b iha ihb =>
    simp only [ICond.within, Bool.and_eq_true] at h
    simp [ICond.eval, iha h.1, ihb h.2]
  | not a iha =>
    simp only [ICond.within] at h
    simp [ICond.eval, iha h]
  | tt => rfl
  | ff => rfl

theorem contains_outside {lo hi : Int} (cs : List Int) (h : cs.all (fun k => decide (lo ≤ k) && decide (k ≤ hi)) = true)
    (x : Int) (hx : hi < x ∨ x < lo) : cs.contains x = false := by
  induction cs with
  | nil => rfl
  | cons k ks ih =>
    simp only [List.all_cons, Bool.and_eq_true, decide_eq_true_eq] at h
    have := ih h.2
    simp only [List.contains_cons, this, Bool.or_false]
    simp only [beq_eq_false_iff_ne, ne_eq]
    omega

theorem IntPred.eval_above {lo hi : Int} (p : IntPred) (h : p.within lo hi = true) (x y : Int) (hx : hi < x) (hy : hi < y) :
    p.eval x = p.eval y := by
  induction p with
  | nil => rfl
  | cons s rest ih =>
    simp only [IntPred.within, List.all_cons, Bool.and_eq_true] at h
    have ihr := ih (by simpa [IntPred.within] using h.2)
    cases s with
    | switchRet cs r =>
      simp only [IStmt.within] at h
      have hx' : x ∉ cs := by have := contains_outside cs h.1 x (Or.inl hx); simpa using this
      have hy' : y ∉ cs := by have := contains_outside cs h.1 y (Or.inl hy); simpa using this
      simp [IntPred.eval, hx', hy', ihr]
    | ifRet c r =>
      simp only [IStmt.within] at h
      simp [IntPred.eval, ICond.eval_above c h.1 x y hx hy, ihr]
    | ret r => rfl
    | retCond c =>
      simp only [IStmt.within] at h
      simp [IntPred.eval, ICond.eval_above c h.1 x y hx hy]
    | unknown _ => rfl

theorem IntPred.eval_below {lo hi : Int} (p : IntPred) (h : p.within lo hi = true) (x y : Int) (hx : x < lo) (hy : y < lo) :
    p.eval x = p.eval y := by
  induction p with
  | nil => rfl
  | cons s rest ih =>
    simp only [IntPred.within, List.all_cons, Bool.and_eq_true] at h
    have ihr := ih (by simpa [IntPred.within] using h.2)
    cases s with
    | switchRet cs r =>
      simp only [IStmt.within] at h
      have hx' : x ∉ cs := by have := contains_outside cs h.1 x (Or.inr hx); simpa using this
      have hy' : y ∉ cs := by have := contains_outside cs h.1 y (Or.inr hy); simpa using this
      simp [IntPred.eval, hx', hy', ihr]
    | ifRet c r =>
      simp only [IStmt.within] at h
      simp [IntPred.eval, ICond.eval_below c h.1 x y hx hy, ihr]
    | ret r => rfl
    | retCond c =>
      simp only [IStmt.within] at h
      simp [IntPred.eval, ICond.eval_below c h.1 x y hx hy]
    | unknown _ => rfl


/-- `f` holds on [lo, lo + n): evaluated by binary splitting so that a kernel evaluation over thousands of points
stays shallow. -/
def allIn (f : Nat → Bool) : Nat → Nat → Nat → Bool
  | 0, lo, n => (List.range n).all (fun i => f (lo + i))
  | fuel + 1, lo, n =>
    if n ≤ 4 then (List.range n).all (fun i => f (lo + i))
    else allIn f fuel lo (n / 2) && allIn f fuel (lo + n / 2) (n - n / 2)

theorem allIn_spec (f : Nat → Bool) (fuel lo n : Nat) (h : allIn f fuel lo n = true) (i : Nat) (h1 : lo ≤ i) (h2 : i < lo + n) :
    f i = true := by
  induction fuel generalizing lo n with
  | zero =>
    simp only [allIn, List.all_eq_true, List.mem_range] at h
    have := h (i - lo) (by omega)
    rwa [show lo + (i - lo) = i by omega] at this
  | succ fuel ih =>
    simp only [allIn] at h
    split at h
    · simp only [List.all_eq_true, List.mem_range] at h
      have := h (i - lo) (by omega)
      rwa [show lo + (i - lo) = i by omega] at this
    · simp only [Bool.and_eq_true] at h
      by_cases hi : i < lo + n / 2
      · exact ih lo (n / 2) h.1 h1 hi
      · exact ih (lo + n / 2) (n - n / 2) h.2 (by omega) (by omega)

end WS.Model
