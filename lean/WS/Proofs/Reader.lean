import WS.Spec.ReadSpec
import WS.Props.FrameCodec
/-
  Helper lemmas for C03 (read side): header check characterisation, limit arithmetic,
  the one-frame simulation step and the run/stream theorems.
-/
namespace WS.Proofs.Reader
open WS WS.Model WS.Spec WS.Props.FrameCodec

variable (inf : Inflate) (cfg : RCfg) (limits : List Int)

theorem headerCheck_iff (h : Header) : headerCheck cfg h = none ↔ HeaderOK cfg h := by
  obtain ⟨fin, rsv1, rsv2, rsv3, opcode, len, masked, key⟩ := h
  obtain ⟨client, flate, takeover, limit⟩ := cfg
  unfold headerCheck HeaderOK rsv1Illegal isControl isData maxControlPayload opCont opText opBinary opClose opPing opPong
  cases rsv1 <;> cases rsv2 <;> cases rsv3 <;> cases masked <;> cases client <;> cases flate <;> cases fin <;>
    simp 
  all_goals (repeat' split)
  all_goals simp
  all_goals omega

theorem limitFor_nil (i : Nat) : limitFor cfg [] i = cfg.limit := by
  simp [limitFor]

theorem takeLimited_fit_new (L : Int) (d : Bytes) (h : L < 0 ∨ (d.length : Int) ≤ L) :
    takeLimited (allowance L) d = (d, (if L < 0 then -1 else L + 1 - d.length), false) := by
  unfold takeLimited allowance
  by_cases hl : L < 0
  · simp [hl]
  · have h2 : (d.length : Int) ≤ L := by omega
    have h3 : ¬ (L + 1 < 0) := by omega
    have h4 : (d.length : Int) < L + 1 := by omega
    simp [hl, h3, h4]

theorem takeLimited_fit_cont (L : Int) (acc d : Bytes)
    (h : L < 0 ∨ ((acc.length + d.length : Nat) : Int) ≤ L) :
    takeLimited (if L < 0 then -1 else L + 1 - acc.length) d =
      (d, (if L < 0 then -1 else L + 1 - (acc ++ d).length), false) := by
  unfold takeLimited
  by_cases hl : L < 0
  · simp [hl]
  · have h2 : ((acc.length + d.length : Nat) : Int) ≤ L := by omega
    have h3 : ¬ (L + 1 - (acc.length : Int) < 0) := by omega
    have h4 : (d.length : Int) < L + 1 - acc.length := by omega
    simp only [hl, if_false, h3, h4, if_true, List.length_append]
    congr 2
    omega

theorem step (L : Int) (hL : cfg.limit = L) (p : Pending) (dict : Bytes) (idx : Nat)
    (f : Frame) (fs : List Frame) (tl : Tail)
    (hok : HeaderOK cfg f.h) (hr : f.h.rsv1 = false) (hnc : f.h.opcode ≠ opClose)
    (hfit : f.h.opcode ≤ 2 →
      (match p with
       | none => (f.h.opcode = opText ∨ f.h.opcode = opBinary) ∧ (L < 0 ∨ (f.data.length : Int) ≤ L)
       | some (_, acc) => f.h.opcode = opCont ∧ (L < 0 ∨ ((acc.length + f.data.length : Nat) : Int) ≤ L))) :
    runReader inf cfg [] (stateOf L dict idx p) (f :: fs) tl =
      (specStep p f).1 ++ runReader inf cfg []
        (stateOf L dict (idx + (if (f.h.opcode == opText || f.h.opcode == opBinary) then 1 else 0))
          (specStep p f).2) fs tl := by
  have hc := (headerCheck_iff cfg f.h).2 hok
  rw [runReader, hc]
  have hops := hok.2.2.2.2.1
  by_cases h9 : f.h.opcode = 9
  · simp [h9, specStep, opPing, opPong, opText, opBinary]
  by_cases h10 : f.h.opcode = 10
  · simp [h10, specStep, opPing, opPong, opText, opBinary]
  have hle : f.h.opcode ≤ 2 := by
    simp only [opClose] at hnc; omega
  have hfit := hfit hle
  have e1 : (f.h.opcode == opPing) = false := by simp [opPing, h9]
  have e2 : (f.h.opcode == opPong) = false := by simp [opPong, h10]
  have e3 : (f.h.opcode == opClose) = false := by simpa using hnc
  have s1 : ¬ (f.h.opcode = opPing) := by simp [opPing, h9]
  have s2 : ¬ (f.h.opcode = opPong) := by simp [opPong, h10]
  simp only [e1, e2, e3, Bool.false_eq_true, if_false]
  cases p with
  | none =>
    obtain ⟨hop, hlen⟩ := hfit
    have e4 : (f.h.opcode == opCont) = false := by
      rcases hop with h | h <;> simp [h, opCont, opText, opBinary]
    have e5 : (f.h.opcode == opText || f.h.opcode == opBinary) = true := by
      rcases hop with h | h <;> simp [h, opText, opBinary]
    simp only [stateOf, dataStep, e4, hr, Bool.false_eq_true, if_false, limitFor_nil, hL,
      takeLimited_fit_new L f.data hlen, specStep, s1, s2, e5, if_true]
    cases hfin : f.h.fin
    · simp
    · simp [finishMsg]
  | some ta =>
    obtain ⟨typ, acc⟩ := ta
    obtain ⟨hop, hlen⟩ := hfit
    have e4 : (f.h.opcode != opCont) = false := by simp [hop]
    have e5 : (f.h.opcode == opText || f.h.opcode == opBinary) = false := by
      simp [hop, opCont, opText, opBinary]
    simp only [stateOf, dataStep, e4, Bool.false_eq_true, if_false,
      takeLimited_fit_cont L acc f.data hlen, specStep, s1, s2, e5]
    cases hfin : f.h.fin
    · simp
    · simp [finishMsg]

theorem valid_run (L : Int) (hL : cfg.limit = L) (p : Pending) (dict : Bytes) (idx : Nat)
    (fs : List Frame) (tl : Tail) (hv : ValidSeq cfg L p fs) :
    runReader inf cfg [] (stateOf L dict idx p) fs tl =
      (specRun p fs).1 ++
        runReader inf cfg [] (stateOf L dict (idx + (fs.filter (fun f => f.h.opcode == opText || f.h.opcode == opBinary)).length) (specRun p fs).2) [] tl := by
  induction fs generalizing p idx with
  | nil => simp [specRun]
  | cons f fs ih =>
    obtain ⟨hok, hr, hnc, hfit, hrest⟩ := hv
    rw [step inf cfg L hL p dict idx f fs tl hok hr hnc hfit, ih _ _ hrest]
    simp only [specRun, List.append_assoc, List.filter_cons]
    congr 3
    cases (f.h.opcode == opText || f.h.opcode == opBinary)
    · simp
    · simp [Nat.add_assoc, Nat.add_comm]

theorem runReader_nil_clean (st : RState) :
    runReader inf cfg limits st [] .clean = stopIn inf cfg limits st .io := by
  rw [runReader]

theorem valid_stream_decodes (L : Int) (hL : cfg.limit = L) (fs : List Frame)
    (hwf : ∀ f ∈ fs, Frame.WF f) (hv : ValidSeq cfg L none fs) :
    ∃ st, readStream inf cfg [] (encodeAll fs) = (specRun none fs).1 ++ stopIn inf cfg [] st .io := by
  refine ⟨stateOf L [] (0 + (fs.filter (fun f => f.h.opcode == opText || f.h.opcode == opBinary)).length)
    (specRun none fs).2, ?_⟩
  unfold readStream
  simp only [parse_encodeAll fs hwf]
  have h := valid_run inf cfg L hL none [] 0 fs .clean hv
  have e : initR = stateOf L [] 0 none := rfl
  rw [e, h, runReader_nil_clean]

theorem stopReplies_no_msg (why : Stop) : ∀ ev ∈ stopReplies why, isMsg ev = false := by
  intro ev hev
  cases why <;> simp [stopReplies] at hev <;> subst hev <;> rfl

end WS.Proofs.Reader
