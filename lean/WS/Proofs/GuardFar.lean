import WS.Model.Guard
/-
  The value of a decision skeleton depends on an integer atom only through the comparisons the program makes: two values
  that stand in the same relation (below / equal / above) to every constant of the program give the same run.  This turns
  an obligation checked on "every constant of the comparisons and its neighbours" into a statement about every integer.
-/
namespace WS.Model.Guard

mutual
/-- all integer constants a statement compares an integer atom with (comparisons and switch cases). -/
def constsS : GStmt → List Int
  | .ifThen c b => constsE c ++ constsL b
  | .ifElse c a b => constsE c ++ constsL a ++ constsL b
  | .switchOn _ cases d => constsC cases ++ constsL d
  | .retExp c => constsE c
  | .assign _ c => constsE c
  | .scope _ b => constsL b
  | _ => []
def constsL : List GStmt → List Int
  | [] => []
  | s :: r => constsS s ++ constsL r
def constsC : List (List Int × List GStmt) → List Int
  | [] => []
  | (ks, b) :: r => ks ++ constsL b ++ constsC r
def constsE : GExp → List Int
  | .eq _ k | .ne _ k | .lt _ k | .le _ k | .gt _ k | .ge _ k => [k]
  | .not a => constsE a
  | .and a b | .or a b => constsE a ++ constsE b
  | _ => []
end

/-- `x` and `y` stand in the same relation to every constant of `cs`. -/
def Agree (cs : List Int) (x y : Int) : Prop := ∀ k ∈ cs, (x < k ↔ y < k) ∧ (x = k ↔ y = k)

/-- the environment with the integer atom `n` set to `x`. -/
def Env.setI (e : Env) (n : String) (x : Int) : Env := { e with i := fun m => if m = n then some x else e.i m }

theorem Agree.left {a b : List Int} {x y : Int} (h : Agree (a ++ b) x y) : Agree a x y :=
  fun k hk => h k (List.mem_append_left _ hk)
theorem Agree.right {a b : List Int} {x y : Int} (h : Agree (a ++ b) x y) : Agree b x y :=
  fun k hk => h k (List.mem_append_right _ hk)

/-- the integer atoms of the two environments compare alike with a constant the values agree on. -/
theorem cmp_agree (e : Env) (n m : String) (x y k : Int) (_h : Agree [k] x y) (f : Int → Bool)
    (hf : f x = f y) : ((e.setI n x).i m).map f = ((e.setI n y).i m).map f := by
  unfold Env.setI
  by_cases hm : m = n <;> simp [hm, hf]

theorem evalE_far (e : Env) (hfn : ∀ m, e.fn m = none) (n : String) (x y : Int) :
    ∀ (f : Nat) (ex : GExp) (st : Store), Agree (constsE ex) x y →
      evalE (e.setI n x) st f ex = evalE (e.setI n y) st f ex := by
  intro f
  induction f with
  | zero => intro ex st _; simp [evalE]
  | succ f ih =>
    intro ex st h
    have hk : ∀ k, Agree [k] x y → (x < k ↔ y < k) ∧ (x = k ↔ y = k) := fun k hk => hk k (by simp)
    cases ex with
    | tt => simp [evalE]
    | ff => simp [evalE]
    | v nm => simp [evalE]
    | unknown s => simp [evalE]
    | call fn =>
      simp only [evalE]
      have h1 : (e.setI n x).fn fn = none := hfn fn
      have h2 : (e.setI n y).fn fn = none := hfn fn
      rw [h1, h2]
    | eq m k =>
      simp only [evalE]; simp only [constsE] at h
      exact cmp_agree e n m x y k h _ (by have := hk k h; simp only [decide_eq_decide]; exact this.2)
    | ne m k =>
      simp only [evalE]; simp only [constsE] at h
      exact cmp_agree e n m x y k h _ (by have := hk k h; simp only [decide_eq_decide]; constructor <;> intro hh hx <;> (first | exact hh (this.2.mpr hx) | exact hh (this.2.mp hx)))
    | lt m k =>
      simp only [evalE]; simp only [constsE] at h
      exact cmp_agree e n m x y k h _ (by have := hk k h; simp only [decide_eq_decide]; exact this.1)
    | le m k =>
      simp only [evalE]; simp only [constsE] at h
      exact cmp_agree e n m x y k h _ (by have := hk k h; simp only [decide_eq_decide]; omega)
    | gt m k =>
      simp only [evalE]; simp only [constsE] at h
      exact cmp_agree e n m x y k h _ (by have := hk k h; simp only [decide_eq_decide]; omega)
    | ge m k =>
      simp only [evalE]; simp only [constsE] at h
      exact cmp_agree e n m x y k h _ (by have := hk k h; simp only [decide_eq_decide]; omega)
    | not a =>
      simp only [evalE]; simp only [constsE] at h
      rw [ih a st h]
    | and a b =>
      simp only [evalE]; simp only [constsE] at h
      rw [ih a st h.left, ih b st h.right]
    | or a b =>
      simp only [evalE]; simp only [constsE] at h
      rw [ih a st h.left, ih b st h.right]

/-- constants of a case body are constants of the case list. -/
theorem constsC_mem {cases : List (List Int × List GStmt)} {c : List Int × List GStmt} (hc : c ∈ cases) :
    ∀ k, (k ∈ c.1 ∨ k ∈ constsL c.2) → k ∈ constsC cases := by
  induction cases with
  | nil => cases hc
  | cons d r ih =>
    intro k hk
    obtain ⟨ks, b⟩ := d
    simp only [constsC, List.mem_append]
    rcases List.mem_cons.mp hc with rfl | hr
    · rcases hk with hk | hk
      · exact Or.inl (Or.inl hk)
      · exact Or.inl (Or.inr hk)
    · exact Or.inr (ih hr k hk)

theorem contains_agree {ks : List Int} {x y : Int} (h : Agree ks x y) : ks.contains x = ks.contains y := by
  have : (x ∈ ks) ↔ (y ∈ ks) := by
    constructor
    · intro hx; have := (h x hx).2.mp rfl; rw [this]; exact hx
    · intro hy; have := (h y hy).2.mpr rfl; rw [this]; exact hy
  by_cases hx : x ∈ ks
  · have hy := this.mp hx
    simp [hx, hy]
  · have hy : y ∉ ks := fun hy => hx (this.mpr hy)
    simp [hx, hy]

theorem find_agree {cases : List (List Int × List GStmt)} {x y : Int} (h : Agree (constsC cases) x y) :
    cases.find? (fun c => c.1.contains x) = cases.find? (fun c => c.1.contains y) := by
  have key : ∀ (l : List (List Int × List GStmt)), (∀ c ∈ l, c.1.contains x = c.1.contains y) →
      l.find? (fun c => c.1.contains x) = l.find? (fun c => c.1.contains y) := by
    intro l
    induction l with
    | nil => intro _; rfl
    | cons d r ih =>
      intro hl
      simp only [List.find?]
      rw [hl d (List.mem_cons_self ..)]
      cases d.1.contains y
      · exact ih (fun c hc => hl c (List.mem_cons_of_mem _ hc))
      · rfl
  exact key cases (fun c hc => contains_agree (fun k hk => h k (constsC_mem hc k (Or.inl hk))))

theorem setI_i (e : Env) (n m : String) (x : Int) : (e.setI n x).i m = if m = n then some x else e.i m := rfl

theorem evalS_far (e : Env) (hfn : ∀ m, e.fn m = none) (n : String) (x y : Int) :
    ∀ (f : Nat) (p : List GStmt) (st : Store), Agree (constsL p) x y →
      evalS (e.setI n x) st f p = evalS (e.setI n y) st f p := by
  intro f
  induction f with
  | zero => intro p st _; cases p <;> simp [evalS]
  | succ f ih =>
    intro p st h
    cases p with
    | nil => simp [evalS]
    | cons s rest =>
      have hE := evalE_far e hfn n x y f
      simp only [constsL] at h
      have hrest := ih rest
      cases s with
      | ifThen c body =>
        simp only [constsS] at h
        simp only [evalS]
        rw [hE c st h.left.left]
        cases evalE (e.setI n y) st f c with
        | none => rfl
        | some b =>
          cases b
          · exact hrest st h.right
          · simp only []
            rw [ih body st h.left.right]
            cases (evalS (e.setI n y) st f body).1.out <;> simp only [] <;> (try rw [hrest _ h.right])
      | ifElse c a b =>
        simp only [constsS] at h
        simp only [evalS]
        rw [hE c st h.left.left.left]
        cases evalE (e.setI n y) st f c with
        | none => rfl
        | some bb =>
          cases bb
          · simp only []
            rw [ih b st h.left.right]
            cases (evalS (e.setI n y) st f b).1.out <;> simp only [] <;> (try rw [hrest _ h.right])
          · simp only []
            rw [ih a st h.left.left.right]
            cases (evalS (e.setI n y) st f a).1.out <;> simp only [] <;> (try rw [hrest _ h.right])
      | switchOn m cases dflt =>
        simp only [constsS] at h
        simp only [evalS, setI_i]
        by_cases hm : m = n
        · simp only [hm, if_true]
          rw [find_agree h.left.left]
          cases hfind : cases.find? (fun c => c.1.contains y) with
          | none =>
            simp only []
            rw [ih dflt st h.left.right]
            cases (evalS (e.setI n y) st f dflt).1.out <;> simp only [] <;> (try rw [hrest _ h.right])
          | some c =>
            simp only []
            have hc : c ∈ cases := List.mem_of_find?_eq_some hfind
            rw [ih c.2 st (fun k hk => h.left.left k (constsC_mem hc k (Or.inr hk)))]
            cases (evalS (e.setI n y) st f c.2).1.out <;> simp only [] <;> (try rw [hrest _ h.right])
        · simp only [hm, if_false]
          cases e.i m with
          | none => rfl
          | some v =>
            simp only []
            cases hfind : cases.find? (fun c => c.1.contains v) with
            | none =>
              simp only []
              rw [ih dflt st h.left.right]
              cases (evalS (e.setI n y) st f dflt).1.out <;> simp only [] <;> (try rw [hrest _ h.right])
            | some c =>
              simp only []
              have hc : c ∈ cases := List.mem_of_find?_eq_some hfind
              rw [ih c.2 st (fun k hk => h.left.left k (constsC_mem hc k (Or.inr hk)))]
              cases (evalS (e.setI n y) st f c.2).1.out <;> simp only [] <;> (try rw [hrest _ h.right])
      | ret w => simp [evalS]
      | retExp c =>
        simp only [constsS] at h
        simp only [evalS]
        rw [hE c st h.left]
      | act w =>
        simp only [evalS]
        rw [hrest st h.right]
        rfl
      | assign nm c =>
        simp only [constsS] at h
        simp only [evalS]
        rw [hE c st h.left]
        cases evalE (e.setI n y) st f c with
        | none => rfl
        | some v => exact hrest _ h.right
      | scope var body =>
        simp only [constsS] at h
        simp only [evalS]
        rw [ih body st h.left]
        cases (evalS (e.setI n y) st f body).1.out with
        | fell => simp only []; rw [hrest _ h.right]
        | ret w =>
          simp only []
          split <;> (try split) <;> (try split) <;> (try split) <;> rw [hrest _ h.right]
        | «opaque» w => rfl
        | stuck w => rfl
      | «opaque» w =>
        simp only [evalS]
        have : (e.setI n x).pass w = (e.setI n y).pass w := rfl
        rw [this]
        split
        · exact hrest st h.right
        · rfl
      | skip => simp only [evalS]; exact hrest st h.right
      | unknown src => simp [evalS]

/-- MAIN STATEMENT: without boolean helper programs in the environment, a run does not distinguish two values of an
integer atom that agree on all constants of the program. -/
theorem run_far (e : Env) (hfn : ∀ m, e.fn m = none) (n : String) (x y : Int) (p : GProg)
    (h : Agree (constsL p) x y) : run (e.setI n x) p = run (e.setI n y) p := by
  unfold run
  have : (e.setI n x).b = (e.setI n y).b := rfl
  rw [this, evalS_far e hfn n x y 64 p _ h]

end WS.Model.Guard
