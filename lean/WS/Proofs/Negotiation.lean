import WS.Model.Handshake
/-
  Helper lemmas for C14 (permessage-deflate negotiation): characterisations of the inner loops of
  acceptDeflate, selectDeflate and verifyServerExtensions.
-/
namespace WS.Props.C14
open WS WS.Model

def pCNCT : Str := s "client_no_context_takeover"
def pSNCT : Str := s "server_no_context_takeover"
def pmd : Str := s "permessage-deflate"

/-- RFC 7692 §7.1 offer parameters this server can honour: the two flags (without value),
`client_max_window_bits` without value or with 8..15, and `server_max_window_bits=15` (the
library cannot shrink its window, so smaller values must be declined). -/
def paramOK (p : Str) : Bool :=
  p == pCNCT || p == pSNCT || p == s "client_max_window_bits" || p == s "server_max_window_bits=15" ||
  windowBitsValues.any (fun v => p == s "client_max_window_bits=" ++ v)

/-- an honourable offer: every parameter acceptable, no parameter name repeated. -/
def OfferOK (params : List Str) : Prop := (∀ p ∈ params, paramOK p = true) ∧ (params.map paramName).Nodup

end WS.Props.C14

namespace WS.Proofs.Negotiation
open WS WS.Model WS.Props.C14

theorem prefix_contains_eq_any (pre p : Str) (vals : List Str) :
    (hasPrefix pre p && vals.contains (p.drop pre.length)) = vals.any (fun v => p == pre ++ v) := by
  rw [Bool.eq_iff_iff]
  simp only [hasPrefix, Bool.and_eq_true, List.isPrefixOf_iff_prefix, List.contains_iff_mem,
    List.any_eq_true, beq_iff_eq]
  constructor
  · rintro ⟨⟨t, rfl⟩, ht⟩
    rw [List.drop_left] at ht
    exact ⟨t, ht, rfl⟩
  · rintro ⟨v, hv, rfl⟩
    exact ⟨List.prefix_append _ _, by rw [List.drop_left]; exact hv⟩

/-- specification of the inner loop of `acceptDeflate`. -/
def GoSpec (ps seen : List Str) (c c' : Copts) : Prop :=
  (∀ p ∈ ps, paramOK p = true) ∧ (ps.map paramName).Nodup ∧ (∀ p ∈ ps, paramName p ∉ seen) ∧
  c' = { cnct := c.cnct || ps.contains pCNCT, snct := c.snct || ps.contains pSNCT }

theorem GoSpec_cons (p : Str) (ps seen : List Str) (c c' : Copts) :
    GoSpec (p :: ps) seen c c' ↔
      paramOK p = true ∧ paramName p ∉ seen ∧
      GoSpec ps (paramName p :: seen) { cnct := c.cnct || p == pCNCT, snct := c.snct || p == pSNCT } c' := by
  unfold GoSpec
  simp only [List.mem_cons, List.map_cons, List.nodup_cons, List.contains_cons, List.mem_map]
  have e1 : (pCNCT == p) = (p == pCNCT) := Bool.beq_comm
  have e2 : (pSNCT == p) = (p == pSNCT) := Bool.beq_comm
  rw [e1, e2, Bool.or_assoc, Bool.or_assoc]
  generalize Copts.mk (c.cnct || (p == pCNCT || ps.contains pCNCT))
    (c.snct || (p == pSNCT || ps.contains pSNCT)) = d
  constructor
  · rintro ⟨h1, ⟨h2, h3⟩, h4, h5⟩
    refine ⟨h1 p (Or.inl rfl), h4 p (Or.inl rfl), fun q hq => h1 q (Or.inr hq), h3, ?_, h5⟩
    intro q hq hor
    rcases hor with h | h
    · exact h2 ⟨q, hq, h⟩
    · exact h4 q (Or.inr hq) h
  · rintro ⟨h1, h2, h3, h4, h5, h6⟩
    refine ⟨?_, ⟨?_, h4⟩, ?_, h6⟩
    · rintro q (rfl | hq)
      · exact h1
      · exact h3 q hq
    · rintro ⟨a, ha, hn⟩
      exact h5 a ha (Or.inl hn)
    · rintro q (rfl | hq)
      · exact h2
      · exact fun h => h5 q hq (Or.inr h)

theorem acceptDeflate_go_iff (ps seen : List Str) (c c' : Copts) :
    acceptDeflate.go ps seen c = some c' ↔ GoSpec ps seen c c' := by
  induction ps generalizing seen c with
  | nil =>
    simp only [acceptDeflate.go, GoSpec, List.not_mem_nil, false_imp_iff, implies_true, List.map_nil,
      List.nodup_nil, List.contains_nil, Bool.or_false, true_and, Option.some.injEq]
    exact eq_comm
  | cons p ps ih =>
    rw [GoSpec_cons, acceptDeflate.go]
    by_cases hseen : paramName p ∈ seen
    · simp [hseen]
    rw [if_neg (by simpa using hseen)]
    simp only [hseen, not_false_eq_true, true_and]
    rw [prefix_contains_eq_any]
    change (if (p == pCNCT) = true then _ else if (p == pSNCT) = true then _ else _) = _ ↔ _
    by_cases h1 : p = pCNCT
    · subst h1
      have e : paramOK pCNCT = true := by decide +kernel
      have e' : (pCNCT == pSNCT) = false := by decide +kernel
      simp only [BEq.rfl, if_true, e, true_and, e', Bool.or_true, Bool.or_false]
      exact ih _ _
    have h1' : (p == pCNCT) = false := by simpa using h1
    rw [if_neg (by simp [h1'])]
    by_cases h2 : p = pSNCT
    · subst h2
      have e : paramOK pSNCT = true := by decide +kernel
      simp only [BEq.rfl, if_true, e, true_and, h1', Bool.or_true, Bool.or_false]
      exact ih _ _
    have h2' : (p == pSNCT) = false := by simpa using h2
    rw [if_neg (by simp [h2'])]
    simp only [h1', h2', Bool.or_false]
    have hc : ({ cnct := c.cnct, snct := c.snct } : Copts) = c := rfl
    rw [hc]
    unfold paramOK
    simp only [h1', h2', Bool.false_or]
    by_cases h3 : (p == s "client_max_window_bits" || p == s "server_max_window_bits=15") = true
    · rw [if_pos h3, h3]
      simp only [Bool.true_or, true_and]
      exact ih _ _
    · rw [if_neg h3]
      have h3' := Bool.eq_false_iff.mpr h3
      rw [h3', Bool.false_or]
      split
      · rename_i h4
        simp only [h4, true_and]
        exact ih _ _
      · rename_i h4
        simp [h4]

theorem selectDeflate_go_eq (mode : Nat) (exts : List Ext) :
    selectDeflate.go mode exts =
      (exts.filter (fun e => e.name == pmd)).findSome? (fun e => acceptDeflate e mode) := by
  induction exts with
  | nil => rfl
  | cons e es ih =>
    rw [selectDeflate.go, List.filter_cons]
    change (if (e.name == pmd) = true then _ else _) = _
    by_cases h : (e.name == pmd) = true
    · rw [if_pos h, if_pos h, List.findSome?_cons]
      cases acceptDeflate e mode with
      | some c => rfl
      | none => exact ih
    · rw [if_neg h, if_neg h]
      exact ih

/-- specification of the inner loop of `verifyServerExtensions`. -/
theorem verify_go_iff (ps : List Str) (c c' : Copts) :
    verifyServerExtensions.go ps c = .ok (some c') ↔
      (∀ p ∈ ps, p = pCNCT ∨ p = pSNCT ∨ hasPrefix (s "server_max_window_bits=") p = true) ∧
      c' = { cnct := c.cnct || ps.contains pCNCT, snct := c.snct || ps.contains pSNCT } := by
  induction ps generalizing c with
  | nil =>
    simp only [verifyServerExtensions.go, List.not_mem_nil, false_imp_iff, implies_true,
      List.contains_nil, Bool.or_false, true_and, VerifyExt.ok.injEq, Option.some.injEq]
    exact eq_comm
  | cons p ps ih =>
    rw [verifyServerExtensions.go]
    change (if (p == pCNCT) = true then _ else if (p == pSNCT) = true then _ else _) = _ ↔ _
    have e1 : (pCNCT == p) = (p == pCNCT) := Bool.beq_comm
    have e2 : (pSNCT == p) = (p == pSNCT) := Bool.beq_comm
    simp only [List.mem_cons, forall_eq_or_imp, List.contains_cons, e1, e2]
    by_cases h1 : p = pCNCT
    · subst h1
      have e' : (pCNCT == pSNCT) = false := by decide +kernel
      simp only [BEq.rfl, if_true, true_or, true_and, e', Bool.true_or, Bool.false_or, Bool.or_true]
      rw [ih]
      simp
    have h1' : (p == pCNCT) = false := by simpa using h1
    rw [if_neg (by simp [h1'])]
    by_cases h2 : p = pSNCT
    · subst h2
      simp only [BEq.rfl, if_true, true_or, or_true, true_and, h1', Bool.true_or, Bool.false_or,
        Bool.or_true]
      rw [ih]
      simp
    have h2' : (p == pSNCT) = false := by simpa using h2
    rw [if_neg (by simp [h2'])]
    simp only [h1, h2, h1', h2', false_or, Bool.false_or]
    split
    · rename_i h3
      simp only [h3, true_and]
      exact ih _
    · rename_i h3
      simp [h3]

theorem verify_go_ne_none (ps : List Str) (c : Copts) :
    verifyServerExtensions.go ps c ≠ .ok none := by
  induction ps generalizing c with
  | nil => simp [verifyServerExtensions.go]
  | cons p ps ih =>
    rw [verifyServerExtensions.go]
    repeat' split
    all_goals first | exact ih _ | simp

end WS.Proofs.Negotiation
