import WS.Model.AcceptResp
import WS.Props.C13Req
set_option linter.unusedSimpArgs false
/-
  Helper lemmas for WS/Props/Handshake.lean (library client x library server, end to end).
-/
namespace WS.Proofs.HandshakeE2E
open WS WS.Model

/-! ### strings -/

theorem trimLeft_noSpace (t : Str) (h : ∀ c ∈ t, isSpace c = false) : trimLeft t = t := by
  cases t with
  | nil => rfl
  | cons c cs => simp [trimLeft, h c (by simp)]

theorem trimSpace_noSpace (t : Str) (h : ∀ c ∈ t, isSpace c = false) : trimSpace t = t := by
  unfold trimSpace
  rw [trimLeft_noSpace t h, trimLeft_noSpace t.reverse (by intro c hc; exact h c (by simpa using hc))]
  simp

theorem splitOnChar_ne_nil (sep : Char) (t : Str) : splitOnChar sep t ≠ [] := by
  cases t with
  | nil => simp [splitOnChar]
  | cons c cs =>
    unfold splitOnChar
    split
    · simp
    · split <;> simp

theorem splitOnChar_none (sep : Char) (t : Str) (h : ∀ c ∈ t, (c == sep) = false) : splitOnChar sep t = [t] := by
  induction t with
  | nil => rfl
  | cons c cs ih =>
    have ih' := ih (fun d hd => h d (by simp [hd]))
    unfold splitOnChar
    rw [ih']
    simp [h c (by simp)]

theorem splitOnChar_append (sep : Char) (x rest : Str) (h : ∀ c ∈ x, (c == sep) = false) :
    splitOnChar sep (x ++ sep :: rest) = x :: splitOnChar sep rest := by
  induction x with
  | nil =>
    show splitOnChar sep (sep :: rest) = _
    rw [splitOnChar]
    split
    · rename_i he; exact absurd he (splitOnChar_ne_nil _ _)
    · rename_i p ps he; simp [he]
  | cons c cs ih =>
    have ih' := ih (fun d hd => h d (by simp [hd]))
    show splitOnChar sep (c :: (cs ++ sep :: rest)) = _
    rw [splitOnChar, ih']
    simp [h c (by simp)]

theorem split_joinComma (sps : List Str) (hne : sps ≠ []) (h : ∀ t ∈ sps, ∀ c ∈ t, (c == ',') = false) :
    splitOnChar ',' (joinComma sps) = sps := by
  induction sps with
  | nil => exact absurd rfl hne
  | cons x rest ih =>
    cases rest with
    | nil => simpa [joinComma] using splitOnChar_none ',' x (h x (by simp))
    | cons y rest' =>
      have ih' := ih (by simp) (fun t ht => h t (by simp [ht]))
      show splitOnChar ',' (x ++ [','] ++ joinComma (y :: rest')) = _
      rw [List.append_assoc]
      show splitOnChar ',' (x ++ ',' :: joinComma (y :: rest')) = _
      rw [splitOnChar_append ',' x _ (h x (by simp)), ih']

theorem joinComma_noSpace (sps : List Str) (h : ∀ t ∈ sps, ∀ c ∈ t, isSpace c = false) :
    ∀ c ∈ joinComma sps, isSpace c = false := by
  induction sps with
  | nil => intro c hc; simp [joinComma] at hc
  | cons x rest ih =>
    cases rest with
    | nil => simpa [joinComma] using h x (by simp)
    | cons y rest' =>
      have ih' := ih (fun t ht => h t (by simp [ht]))
      intro c hc
      have hc' : c ∈ x ++ [','] ++ joinComma (y :: rest') := hc
      simp only [List.mem_append, List.mem_singleton] at hc'
      rcases hc' with (hc' | hc') | hc'
      · exact h x (by simp) c hc'
      · subst hc'; decide
      · exact ih' c hc'

theorem plain_chars {t : Str} (h : plainToken t = true) :
    (∀ c ∈ t, (c == ',') = false) ∧ (∀ c ∈ t, isSpace c = false) := by
  simp only [plainToken, Bool.and_eq_true, List.all_eq_true, Bool.not_eq_true', bne_iff_ne, ne_eq] at h
  constructor
  · intro c hc; have := (h.2 c hc).1; simpa using this
  · intro c hc; exact (h.2 c hc).2

theorem equalFold_refl (a : Str) : equalFold a a = true := by simp [equalFold]

/-- the tokens of a header whose single value is the comma-join of plain tokens are those tokens. -/
theorem tokens_joinComma (h : Hdr) (k : Str) (sps : List Str) (hne : sps ≠ [])
    (hsps : ∀ t ∈ sps, plainToken t = true) (hv : h.values k = [joinComma sps]) :
    headerTokens h k = sps := by
  have hc : ∀ t ∈ sps, ∀ c ∈ t, (c == ',') = false := fun t ht => (plain_chars (hsps t ht)).1
  have hs : ∀ t ∈ sps, ∀ c ∈ t, isSpace c = false := fun t ht => (plain_chars (hsps t ht)).2
  simp only [headerTokens, hv, List.flatMap_cons, List.flatMap_nil, List.append_nil]
  rw [trimSpace_noSpace _ (joinComma_noSpace sps hs), split_joinComma sps hne hc]
  calc sps.map trimSpace = sps.map id := List.map_congr_left (fun t ht => trimSpace_noSpace t (hs t ht))
    _ = sps := by simp

theorem select_go_mem (cps : List Str) (serverProtos : List Str) :
    selectSubprotocol.go cps serverProtos = [] ∨ selectSubprotocol.go cps serverProtos ∈ cps := by
  induction serverProtos with
  | nil => left; rfl
  | cons sp rest ih =>
    unfold selectSubprotocol.go
    split
    · rename_i cp hf; right; exact List.mem_of_find?_eq_some hf
    · exact ih

/-! ### headers -/

theorem values_nil (k : Str) : Hdr.values [] k = [] := rfl

theorem values_cons (k' : Str) (vs : List Str) (h : Hdr) (k : Str) :
    Hdr.values ((k', vs) :: h) k = if k' == k then vs ++ h.values k else h.values k := by
  simp only [Hdr.values, List.filter_cons]
  split <;> simp

theorem values_append (a b : Hdr) (k : Str) : Hdr.values (a ++ b) k = a.values k ++ b.values k := by
  simp [Hdr.values]

/-- the keys of the response, compared with each other (evaluation). -/
theorem resp_keys :
    (s "Upgrade" == s "Connection") = false ∧ (s "Upgrade" == s "Sec-Websocket-Accept") = false ∧
    (s "Upgrade" == s "Sec-Websocket-Protocol") = false ∧ (s "Upgrade" == s "Sec-Websocket-Extensions") = false ∧
    (s "Connection" == s "Upgrade") = false ∧ (s "Connection" == s "Sec-Websocket-Accept") = false ∧
    (s "Connection" == s "Sec-Websocket-Protocol") = false ∧ (s "Connection" == s "Sec-Websocket-Extensions") = false ∧
    (s "Sec-Websocket-Accept" == s "Upgrade") = false ∧ (s "Sec-Websocket-Accept" == s "Connection") = false ∧
    (s "Sec-Websocket-Accept" == s "Sec-Websocket-Protocol") = false ∧
    (s "Sec-Websocket-Accept" == s "Sec-Websocket-Extensions") = false ∧
    (s "Sec-Websocket-Protocol" == s "Upgrade") = false ∧ (s "Sec-Websocket-Protocol" == s "Connection") = false ∧
    (s "Sec-Websocket-Protocol" == s "Sec-Websocket-Accept") = false ∧
    (s "Sec-Websocket-Protocol" == s "Sec-Websocket-Extensions") = false ∧
    (s "Sec-Websocket-Extensions" == s "Upgrade") = false ∧ (s "Sec-Websocket-Extensions" == s "Connection") = false ∧
    (s "Sec-Websocket-Extensions" == s "Sec-Websocket-Accept") = false ∧
    (s "Sec-Websocket-Extensions" == s "Sec-Websocket-Protocol") = false := by decide

/-- the response as a concatenation of three parts. -/
def respProto (r : Req) (serverProtos : List Str) : Hdr :=
  if (selectSubprotocol r serverProtos).isEmpty then []
  else [(s "Sec-Websocket-Protocol", [selectSubprotocol r serverProtos])]

def respExt (r : Req) (mode : Nat) : Hdr :=
  match selectDeflate (websocketExtensions r.hdr) mode with
  | some c => [(s "Sec-Websocket-Extensions", [coptsString c])]
  | none => []

theorem acceptResponse_eq (r : Req) (serverProtos : List Str) (mode : Nat) :
    acceptResponse r serverProtos mode =
      [(s "Upgrade", [s "websocket"]), (s "Connection", [s "Upgrade"]),
       (s "Sec-Websocket-Accept", [secWebSocketAccept (trimSpace (r.hdr.get (s "Sec-Websocket-Key")))])] ++
      respProto r serverProtos ++ respExt r mode := by
  unfold acceptResponse respProto respExt
  cases selectDeflate (websocketExtensions r.hdr) mode <;>
    cases selectSubprotocol r serverProtos <;> simp

theorem resp_values (r : Req) (serverProtos : List Str) (mode : Nat) :
    let R := acceptResponse r serverProtos mode
    R.values (s "Connection") = [s "Upgrade"] ∧ R.values (s "Upgrade") = [s "websocket"] ∧
    R.values (s "Sec-Websocket-Accept") = [secWebSocketAccept (trimSpace (r.hdr.get (s "Sec-Websocket-Key")))] ∧
    R.values (s "Sec-Websocket-Protocol") =
      (if (selectSubprotocol r serverProtos).isEmpty then [] else [selectSubprotocol r serverProtos]) ∧
    R.values (s "Sec-Websocket-Extensions") =
      (match selectDeflate (websocketExtensions r.hdr) mode with
       | some c => [coptsString c]
       | none => []) := by
  obtain ⟨k1, k2, k3, k4, k5, k6, k7, k8, k9, k10, k11, k12, k13, k14, k15, k16, k17, k18, k19, k20⟩ := resp_keys
  intro R
  simp only [R, acceptResponse_eq, respProto, respExt]
  refine ⟨?_, ?_, ?_, ?_, ?_⟩ <;>
    (split <;> split <;>
      simp [values_append, values_cons, values_nil, k1, k2, k3, k4, k5, k6, k7, k8, k9, k10, k11, k12, k13, k14,
        k15, k16, k17, k18, k19, k20, *])

/-! ### the request's optional headers -/

theorem req_values_opt (caller : Hdr) (host : Str) (sps : List Str) (copts : Option Copts) (key : Str) :
    let r := dialRequest caller host sps copts key
    r.hdr.values (s "Sec-Websocket-Protocol") =
      (if sps.isEmpty then caller.values (s "Sec-Websocket-Protocol") else [joinComma sps]) ∧
    r.hdr.values (s "Sec-Websocket-Extensions") =
      (match copts with
       | none => caller.values (s "Sec-Websocket-Extensions")
       | some c => [coptsString c]) := by
  obtain ⟨k1, k2, k3, k4, k5, k6, k7, k8, k9, k10, k11, k12, k13, k14, k15⟩ := WS.Props.C13.keys_distinct
  have sym : ∀ {a b : Str}, (a == b) = false → (b == a) = false := by
    intro a b h; cases h2 : b == a
    · rfl
    · have : b = a := by simpa using h2
      subst this; simp at h
  simp only [dialRequest]
  refine ⟨?_, ?_⟩ <;>
    (split <;> split <;>
      simp [WS.Props.C13.values_set_same, WS.Props.C13.values_set_other, k1, k2, k3, k4, k5, k6, k7, k8, k9, k10,
        k11, k12, k13, k14, k15, sym k1, sym k2, sym k3, sym k4, sym k5, sym k6, sym k7, sym k8, sym k9, sym k10,
        sym k11, sym k12, sym k13, sym k14, sym k15, *])

/-! ### subprotocol -/

theorem select_mem (r : Req) (sps serverProtos : List Str)
    (h : headerTokens r.hdr (s "Sec-Websocket-Protocol") = sps) :
    selectSubprotocol r serverProtos = [] ∨ selectSubprotocol r serverProtos ∈ sps := by
  have := select_go_mem (headerTokens r.hdr (s "Sec-Websocket-Protocol")) serverProtos
  rw [h] at this
  simpa [selectSubprotocol, h] using this

theorem verifySubprotocol_of (R : Hdr) (sps : List Str) (sel : Str)
    (hv : R.values (s "Sec-Websocket-Protocol") = if sel.isEmpty then [] else [sel])
    (hmem : sel = [] ∨ sel ∈ sps) : verifySubprotocol sps R = true := by
  unfold verifySubprotocol Hdr.get
  rw [hv]
  rcases hmem with h | h
  · subst h; simp
  · cases hs : sel.isEmpty
    · simp only [Bool.false_eq_true, if_false, List.head?_cons, Option.getD_some, hs, Bool.false_or,
        List.any_eq_true]
      exact ⟨sel, h, equalFold_refl sel⟩
    · simp

/-! ### extensions -/

def hdrE (vs : List Str) : Hdr := [(s "Sec-Websocket-Extensions", vs)]

theorem hdrE_values (vs : List Str) : (hdrE vs).values (s "Sec-Websocket-Extensions") = vs := by
  simp [hdrE, values_cons, values_nil]

theorem websocketExtensions_congr (h : Hdr) (vs : List Str) (hv : h.values (s "Sec-Websocket-Extensions") = vs) :
    websocketExtensions h = websocketExtensions (hdrE vs) := by
  simp only [websocketExtensions, headerTokens, hv, hdrE_values]

theorem verifyServerExtensions_congr (c : Option Copts) (h : Hdr) (vs : List Str)
    (hv : h.values (s "Sec-Websocket-Extensions") = vs) :
    verifyServerExtensions c h = verifyServerExtensions c (hdrE vs) := by
  unfold verifyServerExtensions
  rw [websocketExtensions_congr h vs hv]

/-- what the server answers to a request whose extension header values are `vs`. -/
def srvSel (vs : List Str) (sm : Nat) : Option Copts := selectDeflate (websocketExtensions (hdrE vs)) sm

def srvVals (vs : List Str) (sm : Nat) : List Str :=
  match srvSel vs sm with
  | some c => [coptsString c]
  | none => []

theorem ext_none (sm : Nat) :
    verifyServerExtensions none (hdrE (srvVals [] sm)) = .ok (srvSel [] sm) := by
  have h0 : srvSel [] sm = none := by
    have : websocketExtensions (hdrE []) = [] := by decide
    simp only [srvSel, this, selectDeflate, selectDeflate.go]
    split <;> rfl
  simp only [srvVals, h0]
  decide

theorem ext_some (cm sm : Nat) (hcm : cm = 1 ∨ cm = 2) (hsm : sm ≤ 2) :
    verifyServerExtensions (some (modeOpts cm)) (hdrE (srvVals [coptsString (modeOpts cm)] sm)) =
      .ok (srvSel [coptsString (modeOpts cm)] sm) := by
  have hsm' : sm = 0 ∨ sm = 1 ∨ sm = 2 := by omega
  rcases hcm with rfl | rfl <;> rcases hsm' with rfl | rfl | rfl <;> decide +kernel

end WS.Proofs.HandshakeE2E
